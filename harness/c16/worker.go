package main

// Worker processes.  The implementation runs goroutines of its own (the background loop): a panic there
// kills the process and cannot be recovered by the caller, and a deadlock never returns.  Every case
// therefore runs in a worker process with a deadline.  A worker streams one line per case it starts
// and one per case it finishes; when it dies or hangs the parent knows which cases were in flight,
// re-runs each of them alone (a crash in isolation pins the case; a crash that needs several senders
// active in one process is reported with the set of cases that were running), and hands the cases not
// yet started to a fresh worker.

import (
	"bufio"
	"bytes"
	"encoding/json"
	"fmt"
	"os"
	"os/exec"
	"path/filepath"
	"strings"
	"sync"
	"time"

	"verif/harness/vh"
)

type caseResult struct {
	Idx    int       `json:"i"`
	Start  bool      `json:"start,omitempty"` // marker line: the case has been started
	Line   string    `json:"line,omitempty"`  // request line for the model driver
	Packs  []string  `json:"packs,omitempty"`
	State  string    `json:"state,omitempty"`
	Finds  []finding `json:"finds,omitempty"`
	NPack  int       `json:"npack,omitempty"`
	Drops  int       `json:"drops,omitempty"`
	Incon  bool      `json:"inconclusive,omitempty"` // a time bound could not be judged: the machine was starved
	Skip   string    `json:"skipped,omitempty"`      // not run: a hang of this scenario flavour has already been established
	Probes []probe   `json:"probes,omitempty"`       // wire-format questions for the model, with the implementation's answers
}

type indexedCase struct {
	Idx  int   `json:"i"`
	Case *Case `json:"case"`
}

// runCase executes one case on the implementation (in the current process).
func runCase(c *Case) *caseResult {
	e := newEvalCtx(c.allSpecs())
	r := runCase0(c, e)
	if c.Kind != "getinstance" {
		r.Probes = e.probes
	}
	return r
}

func runCase0(c *Case, e *evalCtx) *caseResult {
	switch c.Kind {
	case "det":
		d := runDet(c, e)
		// the line after the run: a recycled pack object fixes its encoding at hand-in
		return &caseResult{Line: c.driverLine(e.recs), Packs: d.packs, State: d.state, Finds: d.finds, NPack: d.nPack}
	case "reconf":
		r := runReconf(c, e)
		return &caseResult{Line: r.modelLine, Packs: r.packs, Finds: r.finds, NPack: r.nPack, Incon: r.inconclusive}
	case "free":
		f := runFree(c, e)
		if f.skipped != "" {
			return &caseResult{Skip: f.skipped}
		}
		return &caseResult{Line: f.modelLine, Packs: f.packs, Finds: f.finds, NPack: f.nPack, Drops: f.drops}
	case "stopstorm":
		f := runStopStorm(c, e)
		return &caseResult{Line: f.modelLine, Packs: f.packs, Finds: f.finds, NPack: f.nPack}
	case "getinstance":
		return runGetInstance(c)
	}
	return &caseResult{}
}

// workerMain: `-child worker <in> <out> <par>`
func workerMain(in, out string, par int) {
	b, err := os.ReadFile(in)
	if err != nil {
		fmt.Fprintln(os.Stderr, "worker:", err)
		os.Exit(3)
	}
	var cases []indexedCase
	if err := json.Unmarshal(b, &cases); err != nil {
		fmt.Fprintln(os.Stderr, "worker:", err)
		os.Exit(3)
	}
	f, err := os.OpenFile(out, os.O_CREATE|os.O_WRONLY|os.O_APPEND, 0o644)
	if err != nil {
		fmt.Fprintln(os.Stderr, "worker:", err)
		os.Exit(3)
	}
	var mu sync.Mutex
	emit := func(r *caseResult) {
		line, _ := json.Marshal(r)
		mu.Lock()
		f.Write(append(line, '\n')) // unbuffered: survives a crash of this process
		mu.Unlock()
	}
	if par < 1 {
		par = 1
	}
	var wg sync.WaitGroup
	sem := make(chan struct{}, par)
	for _, ic := range cases {
		wg.Add(1)
		sem <- struct{}{}
		go func(ic indexedCase) {
			defer wg.Done()
			defer func() { <-sem }()
			emit(&caseResult{Idx: ic.Idx, Start: true})
			r := runCase(ic.Case)
			r.Idx = ic.Idx
			emit(r)
		}(ic)
	}
	wg.Wait()
	f.Close()
}

type workerOutcome struct {
	finished map[int]*caseResult
	inFlight []int
	notRun   []int
	crashed  bool
	hung     bool
	stderr   string
}

// spawnWorker runs the cases `idxs` of `jobs` in one worker process.
func spawnWorker(self, dir string, tag string, jobs []*job, idxs []int, par int, deadline, stall time.Duration) *workerOutcome {
	wo := &workerOutcome{finished: map[int]*caseResult{}}
	var ics []indexedCase
	for _, i := range idxs {
		ics = append(ics, indexedCase{i, jobs[i].c})
	}
	in := filepath.Join(dir, "worker-"+tag+".in.json")
	out := filepath.Join(dir, "worker-"+tag+".out.jsonl")
	b, _ := json.Marshal(ics)
	os.WriteFile(in, b, 0o644)
	os.Remove(out)
	cmd := exec.Command(self, "-child", "worker", in, out, fmt.Sprint(par))
	var errb bytes.Buffer
	cmd.Stderr = &errb
	cmd.Stdout = &errb
	if err := cmd.Start(); err != nil {
		wo.crashed = true
		wo.stderr = err.Error()
		wo.notRun = idxs
		return wo
	}
	doneCh := make(chan error, 1)
	go func() { doneCh <- cmd.Wait() }()
	// the worker streams a line per case started / finished: no new line for `stall` means that every
	// case in flight is stuck (a hang is suspected); `deadline` bounds the whole chunk
	start, lastSize, lastAt := time.Now(), int64(-1), time.Now()
wait:
	for {
		select {
		case err := <-doneCh:
			wo.crashed = err != nil
			break wait
		case <-time.After(300 * time.Millisecond):
			if fi, err := os.Stat(out); err == nil && fi.Size() != lastSize {
				lastSize, lastAt = fi.Size(), time.Now()
			}
			if time.Since(lastAt) > stall || time.Since(start) > deadline {
				cmd.Process.Kill()
				<-doneCh
				wo.hung = true
				break wait
			}
		}
	}
	wo.stderr = errb.String()
	started := map[int]bool{}
	if fh, err := os.Open(out); err == nil {
		sc := bufio.NewScanner(fh)
		sc.Buffer(make([]byte, 1<<20), 1<<30)
		for sc.Scan() {
			var r caseResult
			if json.Unmarshal(sc.Bytes(), &r) != nil {
				continue
			}
			if r.Start {
				started[r.Idx] = true
			} else {
				rr := r
				wo.finished[r.Idx] = &rr
			}
		}
		fh.Close()
	}
	os.Remove(in)
	os.Remove(out)
	for _, i := range idxs {
		switch {
		case wo.finished[i] != nil:
		case started[i]:
			wo.inFlight = append(wo.inFlight, i)
		default:
			wo.notRun = append(wo.notRun, i)
		}
	}
	return wo
}

// panicHead extracts the first lines of a Go crash report.
func panicHead(stderr string) string {
	if i := strings.Index(stderr, "panic:"); i >= 0 {
		stderr = stderr[i:]
	} else if i := strings.Index(stderr, "fatal error:"); i >= 0 {
		stderr = stderr[i:]
	}
	return vh.Clip(strings.TrimSpace(stderr), 1800)
}

func runInWorkers(env *vh.Env, rep *vh.Report, jobs []*job) {
	self, err := os.Executable()
	dir, _ := os.Getwd()
	if err != nil {
		rep.Fail("correspondence", "worker:cannot-start", "cannot locate the harness executable: "+err.Error(), map[string]interface{}{"case": &Case{Kind: "worker"}})
		return
	}
	const nProc, par = 4, 2
	// Deadlines only bound hangs.  A worker is stopped when it has made no progress at all for `stall`
	// (or the chunk exceeds `chunkDeadline`); that alone is never a verdict: the cases in flight are re-run
	// ALONE with the patient deadline `perCase`.  The first case that hangs alone establishes the hang
	// (`<kind>:hang`, with the case as replay): the scenario kind is then dead — its remaining cases are
	// skipped, the other kinds still run — so a deadlock is paid for once, not per chunk.
	stall, perCase, chunkDeadline := 150*time.Second, 4*time.Minute, 8*time.Minute
	if env.Thorough {
		stall, perCase, chunkDeadline = 10*time.Minute, 12*time.Minute, 40*time.Minute
	}
	pending := make([]int, len(jobs))
	for i := range jobs {
		pending[i] = i
	}
	dead := map[string]bool{}
	var together []interface{}
	crashReport := ""
	nSolo := 0
	for round := 0; round < 4 && len(pending) > 0; round++ {
		chunks := make([][]int, nProc)
		for k, i := range pending {
			chunks[k%nProc] = append(chunks[k%nProc], i)
		}
		outs := make([]*workerOutcome, nProc)
		var wg sync.WaitGroup
		for p := 0; p < nProc; p++ {
			if len(chunks[p]) == 0 {
				continue
			}
			wg.Add(1)
			go func(p int) {
				defer wg.Done()
				outs[p] = spawnWorker(self, dir, fmt.Sprintf("r%dp%d", round, p), jobs, chunks[p], par, chunkDeadline, stall)
			}(p)
		}
		wg.Wait()
		pending = nil
		type suspect struct {
			idx          int
			why          string
			deadlineOnly bool
		}
		var suspects []suspect
		for p := 0; p < nProc; p++ {
			wo := outs[p]
			if wo == nil {
				continue
			}
			for i, r := range wo.finished {
				jobs[i].res = r
			}
			if wo.crashed || wo.hung {
				what := "died"
				if wo.hung {
					what = fmt.Sprintf("made no progress for %v (or exceeded %v) and was stopped", stall, chunkDeadline)
				}
				rep.Note("worker %d of round %d %s with %d case(s) in flight, %d not started", p, round, what, len(wo.inFlight), len(wo.notRun))
				for _, i := range wo.inFlight {
					suspects = append(suspects, suspect{i, what + "\n" + panicHead(wo.stderr), wo.hung})
				}
				if len(wo.inFlight) == 0 && len(wo.notRun) > 0 && wo.crashed {
					// died outside any case (e.g. while decoding its input): do not loop for ever
					suspects = append(suspects, suspect{wo.notRun[0], what + "\n" + panicHead(wo.stderr), false})
					wo.notRun = wo.notRun[1:]
				}
			}
			pending = append(pending, wo.notRun...)
		}
		// every suspect alone, patiently — until its kind is dead
		for _, sp := range suspects {
			c := jobs[sp.idx].c
			if dead[c.Kind] || nSolo >= 12 {
				continue
			}
			nSolo++
			wo := spawnWorker(self, dir, fmt.Sprintf("solo%d", sp.idx), jobs, []int{sp.idx}, 1, perCase, perCase)
			if r := wo.finished[sp.idx]; r != nil {
				jobs[sp.idx].res = r
				if sp.deadlineOnly {
					rep.Note("case %d (%s) was in flight when a worker was stopped for lack of progress; re-run alone it finished normally", sp.idx, c.Kind)
				} else {
					together = append(together, c)
					crashReport = sp.why
				}
				continue
			}
			replay := map[string]interface{}{"case": c, "crash_report": panicHead(wo.stderr)}
			if wo.hung {
				dead[c.Kind] = true
				rep.Fail("property", c.Kind+":hang", fmt.Sprintf("this scenario, run alone in a fresh process, does not finish within %v: the sender (or a call into it) hangs; the remaining %q scenarios of this run are skipped", perCase, c.Kind), replay)
			} else {
				rep.Fail("property", c.Kind+":process-crash", "this scenario, run alone in a fresh process, crashes the process (a panic outside the caller's reach, e.g. in the sender's background goroutine): "+
					vh.Clip(firstLine(panicHead(wo.stderr)), 300), replay)
			}
		}
		if len(dead) > 0 {
			var keep []int
			skipped := 0
			for _, i := range pending {
				if dead[jobs[i].c.Kind] {
					skipped++
				} else {
					keep = append(keep, i)
				}
			}
			pending = keep
			if skipped > 0 {
				rep.Note("%d scenario(s) of a kind with an established hang skipped", skipped)
				rep.CountN("skipped:kind-with-established-hang", skipped)
			}
		}
	}
	if len(pending) > 0 {
		rep.Note("%d case(s) never ran: the workers kept dying", len(pending))
	}
	if len(together) > 0 {
		if len(together) > 6 {
			together = together[:6]
		}
		rep.Fail("property", "concurrent-senders:process-crash",
			"a worker process running several senders at the same time "+firstLine(crashReport)+"; each of the scenarios that were in flight passes when run alone in a fresh process: state shared between senders (or between a sender's callers) is corrupted by concurrent use — "+
				vh.Clip(firstLine(strings.SplitN(crashReport+"\n", "\n", 2)[1]), 300),
			map[string]interface{}{"case": &Case{Kind: "concurrent"}, "cases_in_flight": together, "crash_report": crashReport})
	}
}

func firstLine(s string) string {
	if i := strings.IndexByte(s, '\n'); i >= 0 {
		return s[:i]
	}
	return s
}
