// Correspondence harness for C09: the thirteen linked hash maps / sets of util/hmap against the
// Lean Spec `HMap.S.step` (an insertion-ordered, bounded dictionary) run by driver drv_c09.
//
// The model compared with is the *Spec* of the property, so a disagreement on a return value or on
// the Keys/Values/Entries/KeyArray/Size dump after an operation is a failure of the property itself
// on that history ("behaves exactly like an insertion-ordered dictionary").  Panics and hangs are
// outcomes of an operation, reported under <Type>.<Method>:panic / :deadlock.
package main

import (
	"encoding/json"
	"fmt"
	"math"
	"os"
	"sort"
	"strconv"
	"strings"
	"sync"
	"sync/atomic"
	"time"

	"github.com/whatap/golib/util/hash"
	"verif/harness/vh"
)

type ctor struct {
	def   bool
	cap   int
	lf    float32
	hmode byte
}

func (c ctor) String() string {
	if c.def {
		return fmt.Sprintf("default/h%d", c.hmode)
	}
	return fmt.Sprintf("cap=%d,lf=%g/h%d", c.cap, c.lf, c.hmode)
}

type op struct {
	t, src     int // target / source instance of the history's pool of live containers
	code, mode string
	k, k2      key // k2: EQ only (the second entry)
	v          int64
	n          int
	rel        bool // SM only: n is an offset from the target's Size() at the moment of the call (resolved when executed)
	asc        bool
}

type tdesc struct {
	name     string
	kkind    byte // 'i' int32  'l' int64  's' string  'o' LinkedKey object
	vkind    byte // 'o' interface{}  'i' int32  'l' int64  'f' float32  'u' set
	hasCtor  bool
	ops      []string
	xops     []string // operations involving another live container, a caller-held result or a kept enumerator
	mk       func(ctor) *inst
	repaired bool // a known finding of this type no longer reproduces: compare with the repaired descriptor
}

var baseOps = []string{"ESV", "EQ", "TS", "P:L", "P:FL", "P:FF", "G", "CK", "FK", "LK", "FV", "LV", "R", "RF", "RL", "C", "SZ", "IE", "IF", "SM", "SO"}
var addOps = []string{"A:L", "A:FL", "A:FF"}
var setOps = []string{"TS", "P:L", "P:FL", "P:FF", "CK", "FK", "LK", "R", "RF", "RL", "C", "SZ", "IE", "IF", "SM", "SO"}

func cat(xs ...[]string) []string {
	var out []string
	for _, x := range xs {
		out = append(out, x...)
	}
	return out
}

var types = []*tdesc{
	{name: "LinkedMap", kkind: 'o', vkind: 'o', hasCtor: true, ops: baseOps, mk: newLinkedMap},
	{name: "IntKeyLinkedMap", kkind: 'i', vkind: 'o', hasCtor: true, ops: cat(baseOps, []string{"GL", "CV", "VI", "TF", "TKS", "ENF"}), mk: newIntKeyLinkedMap},
	{name: "LongKeyLinkedMap", kkind: 'l', vkind: 'o', hasCtor: true, ops: baseOps, mk: newLongKeyLinkedMap},
	{name: "StringKeyLinkedMap", kkind: 's', vkind: 'o', ops: baseOps, mk: newStringKeyLinkedMap},
	{name: "IntIntLinkedMap", kkind: 'i', vkind: 'i', ops: cat(baseOps, addOps, []string{"AN", "CV"}), mk: newIntIntLinkedMap},
	{name: "IntFloatLinkedMap", kkind: 'i', vkind: 'f', ops: cat(baseOps, addOps, []string{"CV"}), mk: newIntFloatLinkedMap},
	{name: "LongFloatLinkedMap", kkind: 'l', vkind: 'f', ops: cat(baseOps, addOps, []string{"CV"}), mk: newLongFloatLinkedMap},
	{name: "LongLongLinkedMap", kkind: 'l', vkind: 'l', hasCtor: true, ops: cat(baseOps, addOps, []string{"CV", "SN", "ENF"}), mk: newLongLongLinkedMap},
	{name: "StringIntLinkedMap", kkind: 's', vkind: 'i', ops: cat(baseOps, addOps, []string{"CV", "SN", "ENF"}), mk: newStringIntLinkedMap},
	{name: "StringLongLinkedMap", kkind: 's', vkind: 'l', ops: cat(baseOps, addOps, []string{"CV", "SN", "ENF"}), mk: newStringLongLinkedMap},
	{name: "LinkedSet", kkind: 'o', vkind: 'u', ops: setOps, mk: newLinkedSet},
	{name: "IntLinkedSet", kkind: 'i', vkind: 'u', ops: setOps, mk: newIntLinkedSet},
	{name: "StringLinkedSet", kkind: 's', vkind: 'u', ops: cat(setOps, []string{"UP"}), mk: newStringLinkedSet},
}

func init() {
	for _, t := range types {
		t.xops = []string{"KAW", "EOB"}
		switch t.name {
		case "IntKeyLinkedMap":
			t.xops = append(t.xops, "GKS")
		case "IntIntLinkedMap", "LongLongLinkedMap", "IntFloatLinkedMap", "LongFloatLinkedMap":
			t.xops = append(t.xops, "TOF")
		}
	}
}

// method is the Go method an op code stands for (used in failure keys).
func (t *tdesc) method(o op) string {
	set := t.vkind == 'u'
	switch o.code {
	case "P":
		return map[string]string{"L": "Put", "FL": "PutLast", "FF": "PutFirst"}[o.mode]
	case "A":
		return map[string]string{"L": "Add", "FL": "AddLast", "FF": "AddFirst"}[o.mode]
	case "AN":
		return "AddNoOver"
	case "G":
		return "Get"
	case "GL":
		return "GetLRU"
	case "CK":
		if set {
			return "Contains"
		}
		return "ContainsKey"
	case "CV":
		return "ContainsValue"
	case "FK":
		if set {
			return "GetFirst"
		}
		return "GetFirstKey"
	case "LK":
		if set {
			return "GetLast"
		}
		return "GetLastKey"
	case "FV":
		return "GetFirstValue"
	case "LV":
		return "GetLastValue"
	case "R":
		return "Remove"
	case "RF":
		return "RemoveFirst"
	case "RL":
		return "RemoveLast"
	case "C":
		return "Clear"
	case "SZ":
		return "Size"
	case "IE":
		return "IsEmpty"
	case "IF":
		return "IsFull"
	case "SM":
		return "SetMax"
	case "SN":
		return "SetNullValue"
	case "SO":
		return "Sort"
	case "TS":
		return "ToString"
	case "TF":
		return "ToFormatString"
	case "ESV":
		return "Entry.SetValue"
	case "EQ":
		return "Entry.Equals"
	case "VI":
		return "ValueIterator"
	case "ENF":
		return "NewEnumer"
	case "TKS":
		return "ToKeySet"
	case "UP":
		return "Unipoint"
	case "TOF":
		return "ToObject"
	case "KAW":
		if t.name == "StringLinkedSet" {
			return "GetArray"
		}
		return "KeyArray"
	case "GKS":
		return "GetKeySet"
	case "EO", "ED":
		return "Enumerator"
	}
	return o.code
}

func (t *tdesc) keyTok(k key) string {
	if t.kkind == 's' {
		return strTok(k.s)
	}
	return strconv.FormatInt(k.i, 10)
}

// line is the request line sent to the driver for this op.
func (t *tdesc) line(o op) string { return fmt.Sprintf("@%d %s", o.t, t.line0(o)) }

func (t *tdesc) line0(o op) string {
	switch o.code {
	case "TOF":
		return fmt.Sprintf("TOF %d", o.src)
	case "KAW", "GKS":
		return "KS"
	case "ESV":
		return fmt.Sprintf("ESV %s %s", t.keyTok(o.k), valTok(o.v))
	case "EQ":
		return fmt.Sprintf("EQ %s %s", t.keyTok(o.k), t.keyTok(o.k2))
	case "UP", "ENF":
		return o.code + " " + t.keyTok(o.k)
	case "EO", "SN": // SN: SetNullValue only changes how "absent" is shown; the model sees a Size query
		return "SZ"
	case "ED":
		return "ES"
	case "P", "A":
		return fmt.Sprintf("%s %s %s %s", o.code, o.mode, t.keyTok(o.k), valTok(o.v))
	case "AN":
		return fmt.Sprintf("AN %s %d", t.keyTok(o.k), o.v)
	case "G", "GL", "CK", "R":
		return o.code + " " + t.keyTok(o.k)
	case "CV":
		return fmt.Sprintf("CV %d", o.v)
	case "SM":
		n := o.n
		if n < 0 {
			n = 0 // `this.max > 0` is the only test the code makes
		}
		return fmt.Sprintf("SM %d", n)
	case "SO":
		if o.asc {
			return "SO asc"
		}
		return "SO desc"
	}
	return o.code
}

func parseLine(t *tdesc, l string) (op, bool) {
	w := strings.Fields(l)
	tgt := 0
	if len(w) > 0 && strings.HasPrefix(w[0], "@") {
		tgt, _ = strconv.Atoi(w[0][1:])
		w = w[1:]
	}
	if len(w) == 0 {
		return op{}, false
	}
	o := op{code: w[0], t: tgt}
	if w[0] == "TOF" && len(w) == 2 {
		o.src, _ = strconv.Atoi(w[1])
		return o, true
	}
	pk := func(s string) key {
		if t.kkind == 's' {
			return key{s: tokStr(s)}
		}
		i, _ := strconv.ParseInt(s, 10, 64)
		return key{i: i}
	}
	switch w[0] {
	case "P", "A":
		if len(w) != 4 {
			return o, false
		}
		o.mode, o.k = w[1], pk(w[2])
		if w[3] == "nil" {
			o.v = nilV
		} else {
			o.v, _ = strconv.ParseInt(w[3], 10, 64)
		}
	case "AN":
		if len(w) != 3 {
			return o, false
		}
		o.k = pk(w[1])
		o.v, _ = strconv.ParseInt(w[2], 10, 64)
	case "G", "GL", "CK", "R", "UP", "ENF":
		if len(w) != 2 {
			return o, false
		}
		o.k = pk(w[1])
	case "ESV":
		if len(w) != 3 {
			return o, false
		}
		o.k = pk(w[1])
		if w[2] == "nil" {
			o.v = nilV
		} else {
			o.v, _ = strconv.ParseInt(w[2], 10, 64)
		}
	case "EQ":
		if len(w) != 3 {
			return o, false
		}
		o.k, o.k2 = pk(w[1]), pk(w[2])
	case "CV", "SN":
		o.v, _ = strconv.ParseInt(w[1], 10, 64)
	case "SM":
		o.n, _ = strconv.Atoi(w[1])
	case "SO":
		o.asc = w[1] == "asc"
	}
	return o, true
}

func mutating(code string) bool {
	switch code {
	case "P", "A", "AN", "GL", "R", "RF", "RL", "C", "SO", "SM", "TOF", "KAW", "GKS", "ESV", "UP":
		return true // (KAW / GKS do not mutate; they are followed by a dump because the caller modifies the returned slice / set)
	}
	return false
}

// thresholds of the successive capacities, computed with Go's own float32 arithmetic
// (`int(float32(cap) * loadFactor)`, the expression of every constructor and rehash()).
func thrList(c ctor) (int, string) {
	cp, lf := c.cap, c.lf
	if c.def {
		cp, lf = 101, 0.75
	}
	if cp == 0 {
		cp = 1
	}
	var parts []string
	x := cp
	for i := 0; i < 26 && x < 1<<40; i++ {
		parts = append(parts, fmt.Sprintf("%d:%d", x, int(float32(x)*lf)))
		x = 2*x + 1
	}
	return cp, strings.Join(parts, ",")
}

func (t *tdesc) newLine(c ctor) string {
	cp, thr := thrList(c)
	hk := []string{"id", "mod3", "const", "poly"}[int(c.hmode)%4]
	r := ""
	if t.repaired {
		r = " R"
	}
	return fmt.Sprintf("N %s %s %d %s%s", t.name, hk, cp, thr, r)
}

// ---------------------------------------------------------------- expected answers

// expect converts the driver's answer into the token the implementation shows for the same
// abstract result (absent-value sentinels: nil/""/0/NONE; sets return the key itself).
// none: the instance's current NONE (SetNullValue); as the code has it, Put/Add/Get/Remove answer NONE for an
// absent key; on an empty map GetFirstValue/GetLastValue/RemoveFirst/RemoveLast answer NONE in the String maps,
// but LongLongLinkedMap shows the header's zero value / the literal 0 whatever NONE is.
func (t *tdesc) expect(o op, model string, prev []pairS, none string) string {
	noneKey := map[byte]string{'i': "0", 'l': "0", 's': "~", 'o': "-"}[t.kkind]
	switch o.code {
	case "P", "A", "AN", "G", "GL", "FV", "LV", "R", "RF", "RL":
		switch t.vkind {
		case 'o':
			return model
		case 'u':
			if model == "-" {
				return "-"
			}
			switch o.code {
			case "RF":
				if len(prev) > 0 {
					return "K:" + prev[0].k
				}
			case "RL":
				if len(prev) > 0 {
					return "K:" + prev[len(prev)-1].k
				}
			default:
				return "K:" + t.keyTok(o.k)
			}
			return "K:?"
		default:
			if model == "-" {
				switch o.code {
				case "FV", "LV", "RF", "RL":
					if t.name == "LongLongLinkedMap" {
						return "0"
					}
				}
				return none
			}
			return model
		}
	case "FK", "LK":
		if model == "-" {
			return noneKey
		}
		return model
	case "TS", "TF": // the model renders the text; a float32 value is printed by Go's own %f
		if txt, ok := modelText(model); ok {
			return textTok(txt)
		}
		return "?model-text:" + vh.Clip(model, 60)
	}
	return model
}

func parseEnts(s string) []pairS {
	if s == "[]" || s == "" {
		return nil
	}
	var out []pairS
	for _, p := range strings.Split(s, ",") {
		i := strings.LastIndexByte(p, '=')
		if i < 0 {
			out = append(out, pairS{p, "?"})
			continue
		}
		out = append(out, pairS{p[:i], p[i+1:]})
	}
	return out
}

// ---------------------------------------------------------------- running a history on the implementation

type stepRes struct {
	line string
	o    op
	out  string // implementation's canonical answer ("" for a dump line)
	dmps []dump // dump of EVERY live instance after this step (nil: not dumped)
	rl   string // the line as stored in a replay
}

type histRes struct {
	t      *tdesc
	c      ctor   // constructor of instance 0
	cs     []ctor // constructors of all live instances
	steps  []stepRes
	ops    []op
	abort  string // "panic" | "timeout" | ""
	abortI int
	abortP string
}

// replayLine: the harness-side form of an op (KAW / GKS / EO / ED are not driver lines)
func (t *tdesc) replayLine(o op) string {
	switch o.code {
	case "KAW", "GKS", "EO", "ED":
		return fmt.Sprintf("@%d %s", o.t, o.code)
	case "SN":
		return fmt.Sprintf("@%d SN %d", o.t, o.v)
	}
	return t.line(o)
}

// execOp runs one operation of a multi-instance history.
func execOp(ms []*inst, o op) string {
	m := ms[o.t]
	switch o.code {
	case "TOF":
		m.toObjectBytes(ms[o.src].toBytes())
		return "u"
	case "KAW":
		return m.keyArrayWrite()
	case "GKS":
		return m.keySetWrite()
	case "EO":
		m.openEnum()
		return m.exec(op{code: "SZ"})
	case "ED":
		return m.drainEnum()
	}
	return m.exec(o)
}

func runImpl(t *tdesc, cs []ctor, ops []op, dumpEvery int) *histRes {
	// A hang is one operation (with its dump) that makes no progress for `stall`.  The verdict must not depend on the
	// machine's load: a history that stalls for 8 s is run once more with a 60 s limit — a real deadlock stalls again
	// (and is reported), a starved goroutine does not.
	h := runImplStall(t, cs, ops, dumpEvery, 8*time.Second)
	if _, known := confirmedHang.Load(t.name); h.abort == "timeout" && !known {
		h = runImplStall(t, cs, ops, dumpEvery, 60*time.Second)
		if h.abort == "timeout" {
			confirmedHang.Store(t.name, true) // this type really hangs: further stalls of it need no second look
		}
	}
	return h
}

var confirmedHang sync.Map

func runImplStall(t *tdesc, cs []ctor, ops []op, dumpEvery int, stall time.Duration) *histRes {
	h := &histRes{t: t, c: cs[0], cs: cs, ops: ops}
	var cur int64 = -1
	var mu sync.Mutex
	done := make(chan vh.Outcome, 1)
	go func() {
		done <- vh.Guard(func() {
			var ms []*inst
			for _, c := range cs {
				ms = append(ms, t.mk(c))
			}
			sinceDump := 0
			for i, o := range ops {
				atomic.StoreInt64(&cur, int64(i))
				if o.t >= len(ms) {
					o.t = 0
				}
				if o.src >= len(ms) {
					o.src = 0
				}
				if o.code == "SM" && o.rel { // size-1 / size / size+1 of the container as it is now
					sz, _ := strconv.Atoi(ms[o.t].exec(op{code: "SZ"}))
					o.n, o.rel = sz+o.n, false
				}
				out := execOp(ms, o)
				st := stepRes{line: t.line(o), rl: t.replayLine(o), o: o, out: out}
				if mutating(o.code) {
					sinceDump++
					if sinceDump >= dumpEvery || i == len(ops)-1 {
						for _, mi := range ms {
							st.dmps = append(st.dmps, mi.dump())
						}
						sinceDump = 0
					}
				}
				mu.Lock()
				h.steps = append(h.steps, st)
				mu.Unlock()
			}
		})
	}()
	// watchdog on progress: a hang is one operation (with its dump) that does not finish within
	// `stall`; a long history on a loaded machine is not a hang
	last, lastAt := int64(-2), time.Now()
	tick := time.NewTicker(200 * time.Millisecond)
	defer tick.Stop()
	for {
		select {
		case o := <-done:
			if !o.OK() {
				h.abort, h.abortI, h.abortP = "panic", int(atomic.LoadInt64(&cur)), o.Panic
			}
			return h
		case <-tick.C:
			if c := atomic.LoadInt64(&cur); c != last {
				last, lastAt = c, time.Now()
			} else if time.Since(lastAt) > stall {
				h.abort, h.abortI = "timeout", int(c)
				mu.Lock()
				h.steps = append([]stepRes(nil), h.steps...)
				mu.Unlock()
				return h
			}
		}
	}
}

type replayCase struct {
	Type   string   `json:"type"`
	Ctor   string   `json:"ctor"`
	New    string   `json:"new"`
	Ops    []string `json:"ops"`
	At     int      `json:"failing_op_index"`
	Want   string   `json:"spec"`
	Got    string   `json:"implementation"`
	Detail string   `json:"detail,omitempty"`
	Cap    int      `json:"cap"`
	Lf     float32  `json:"lf"`
	Def    bool     `json:"default_ctor"`
	Hmode  int      `json:"hmode"`
	Insts  []instJ  `json:"instances"`
}

type instJ struct {
	Cap   int     `json:"cap"`
	Lf    float32 `json:"lf"`
	Def   bool    `json:"default_ctor"`
	Hmode int     `json:"hmode"`
}

func ctorsJ(cs []ctor) []instJ {
	var out []instJ
	for _, c := range cs {
		out = append(out, instJ{c.cap, c.lf, c.def, int(c.hmode)})
	}
	return out
}

func ctorsStr(cs []ctor) string {
	var xs []string
	for _, c := range cs {
		xs = append(xs, c.String())
	}
	return strings.Join(xs, " | ")
}

func mkReplay(h *histRes, upto int, want, got, detail string) replayCase {
	var lines []string
	for i := 0; i <= upto && i < len(h.steps); i++ {
		lines = append(lines, h.steps[i].rl)
	}
	return replayCase{Type: h.t.name, Ctor: ctorsStr(h.cs), New: h.t.newLine(h.c), Ops: lines, At: upto, Want: want, Got: got, Detail: detail,
		Cap: h.c.cap, Lf: h.c.lf, Def: h.c.def, Hmode: int(h.c.hmode), Insts: ctorsJ(h.cs)}
}

// driverLines: the request lines of a history (N line, each op, ES after each dumped step).
func driverLines(h *histRes) []string {
	var ls []string
	for i, c := range h.cs {
		ls = append(ls, fmt.Sprintf("@%d %s", i, h.t.newLine(c)))
	}
	for _, s := range h.steps {
		ls = append(ls, s.line)
		for i := range s.dmps {
			ls = append(ls, fmt.Sprintf("@%d ES", i))
		}
	}
	return ls
}

type verdict struct {
	key, summary string
	rc           replayCase
}

// compare one history with the driver's answers.  A divergence of a result or of the state ends
// the comparison of that history; inconsistencies between the enumeration views (Keys / Values /
// KeyArray / Size against Entries) are independent observables and are collected once per kind.
func compare(h *histRes, ans []string) []*verdict {
	var vs []*verdict
	seen := map[string]bool{}
	side := func(v *verdict) {
		if !seen[v.key] {
			seen[v.key] = true
			vs = append(vs, v)
		}
	}
	if v := compare1(h, ans, side); v != nil {
		vs = append(vs, v)
	}
	return vs
}

func compare1(h *histRes, ans []string, side func(*verdict)) *verdict {
	t := h.t
	for i := range h.cs {
		if ans[i] != "ok" {
			return &verdict{key: t.name + ".New:driver", summary: "driver refused the session: " + ans[i], rc: mkReplay(h, -1, "ok", ans[i], "")}
		}
	}
	prevs := make([][]pairS, len(h.cs)) // last dumped entries per instance (nil: unknown)
	nones := make([]string, len(h.cs))  // current NONE per instance
	for i := range nones {
		nones[i] = "0"
	}
	j := len(h.cs)
	for i, s := range h.steps {
		model := ans[j]
		j++
		if strings.HasPrefix(model, "MISMATCH") || model == "bad-op" || model == "no-session" {
			return &verdict{key: t.name + "." + t.method(s.o) + ":model", summary: "Lean Spec and CodeModel disagree (theorem C09.refine_step would be violated): " + model,
				rc: mkReplay(h, i, model, s.out, "")}
		}
		want := t.expect(s.o, model, prevs[s.o.t], nones[s.o.t])
		if s.o.code == "SN" {
			nones[s.o.t] = strconv.FormatInt(s.o.v, 10)
		}
		if want == "K:?" && strings.HasPrefix(s.out, "K:") {
			want = s.out // the model's state was not dumped before this op (long history): only present/absent is compared
		}
		if want != s.out {
			return &verdict{key: t.name + "." + t.method(s.o) + ":result",
				summary: fmt.Sprintf("%s.%s returned %s, the dictionary model returns %s (op %d: %s)", t.name, t.method(s.o), s.out, want, i, s.line),
				rc:      mkReplay(h, i, want, s.out, "")}
		}
		for di := range s.dmps {
			es := ans[j]
			j++
			d := &s.dmps[di]
			got := joinPairs(d.entries)
			if d.note != "" {
				side(&verdict{key: t.name + ".Values:enumeration", summary: fmt.Sprintf("%s: %s (after op %d: %s)", t.name, d.note, i, s.line),
					rc: mkReplay(h, i, es, got, d.note)})
			}
			if got != es && di != s.o.t {
				return &verdict{key: t.name + "." + t.method(s.o) + ":aliasing",
					summary: fmt.Sprintf("%s.%s on instance %d changed ANOTHER live instance (%d): its entries are %s, its model has %s (op %d: %s)", t.name, t.method(s.o), s.o.t, di, vh.Clip(got, 160), vh.Clip(es, 160), i, s.rl),
					rc:      mkReplay(h, i, es, got, fmt.Sprintf("instance %d", di))}
			}
			if got != es {
				return &verdict{key: t.name + "." + t.method(s.o) + ":state",
					summary: fmt.Sprintf("after %s.%s the entries are %s, the dictionary model has %s (op %d: %s)", t.name, t.method(s.o), vh.Clip(got, 160), vh.Clip(es, 160), i, s.line),
					rc:      mkReplay(h, i, es, got, "")}
			}
			prevs[di] = d.entries
			var ks, vs []string
			for _, p := range d.entries {
				ks = append(ks, p.k)
				vs = append(vs, p.v)
			}
			if joinToks(d.keys) != joinToks(ks) {
				side(&verdict{key: t.name + ".Keys:enumeration", summary: fmt.Sprintf("%s.Keys() = %s but entries have %s", t.name, vh.Clip(joinToks(d.keys), 160), vh.Clip(joinToks(ks), 160)),
					rc: mkReplay(h, i, joinToks(ks), joinToks(d.keys), "")})
			}
			if d.hasVals && d.note == "" && joinToks(d.values) != joinToks(vs) {
				side(&verdict{key: t.name + ".Values:enumeration", summary: fmt.Sprintf("%s.Values() = %s but entries have %s", t.name, vh.Clip(joinToks(d.values), 160), vh.Clip(joinToks(vs), 160)),
					rc: mkReplay(h, i, joinToks(vs), joinToks(d.values), "")})
			}
			if joinToks(d.keyArray) != joinToks(ks) {
				side(&verdict{key: t.name + ".KeyArray:enumeration", summary: fmt.Sprintf("%s.KeyArray() = %s but entries have %s", t.name, vh.Clip(joinToks(d.keyArray), 160), vh.Clip(joinToks(ks), 160)),
					rc: mkReplay(h, i, joinToks(ks), joinToks(d.keyArray), "")})
			}
			if d.size != len(d.entries) {
				side(&verdict{key: t.name + ".Size:count", summary: fmt.Sprintf("%s.Size() = %d with %d entries enumerated", t.name, d.size, len(d.entries)),
					rc: mkReplay(h, i, strconv.Itoa(len(d.entries)), strconv.Itoa(d.size), "")})
			}
		}
		if len(s.dmps) == 0 && mutating(s.o.code) {
			prevs[s.o.t] = nil
		}
	}
	return nil
}

// ---------------------------------------------------------------- generators

var strCollide []string // strings whose CRC hash collides modulo 101 and 203 (the first two table sizes)

func initCollide() {
	target := uint(hash.HashStr("k0"))
	for i := 1; len(strCollide) < 7 && i < 5000000; i++ {
		s := "k" + strconv.Itoa(i)
		h := uint(hash.HashStr(s))
		if h%101 == target%101 && h%203 == target%203 {
			strCollide = append(strCollide, s)
		}
	}
	strCollide = append(strCollide, "k0")
	initFullCollide()
}

// fullCollide: per type, groups of DISTINCT keys whose *full* hash value (the value the type caches in
// keyHash / compares / re-buckets with) is identical — they share a bucket at every table size, so only
// the key comparison tells them apart.
var fullCollide = map[string][][]key{}

// crcPairs finds pairs of distinct printable strings with the same hash.HashStr (CRC-32) by a
// deterministic birthday search over "c0", "c1", …
func crcPairs(want int) [][]key {
	// names: 8 characters of [A-Za-z0-9] drawn from a fixed LCG (decimal counters do not work: CRC-32 is
	// affine and the few varying bits of same-length digit strings never cancel)
	const alpha = "ABCDEFGHIJKLMNOPQRSTUVWXYZabcdefghijklmnopqrstuvwxyz0123456789"
	seen := make(map[int32]string, 1<<19)
	var out [][]key
	x := uint64(0x9E3779B97F4A7C15)
	buf := make([]byte, 8)
	for i := 0; i < 4000000 && len(out) < want; i++ {
		for j := range buf {
			x = x*6364136223846793005 + 1442695040888963407
			buf[j] = alpha[(x>>33)%uint64(len(alpha))]
		}
		s := string(buf)
		h := hash.HashStr(s)
		if p, ok := seen[h]; ok && p != s {
			out = append(out, []key{{s: p}, {s: s}})
		} else {
			seen[h] = s
		}
	}
	return out
}

func ik(xs ...int64) []key {
	var out []key
	for _, x := range xs {
		out = append(out, key{i: x})
	}
	return out
}

func initFullCollide() {
	crc := crcPairs(5)
	for _, n := range []string{"StringKeyLinkedMap", "StringIntLinkedMap", "StringLongLinkedMap"} {
		fullCollide[n] = crc // hash() = uint(hash.HashStr(key)), cached in keyHash
	}
	// StringLinkedSet: stringutil.HashCode (31-polynomial): "Aa"/"BB" and their concatenations collide
	fullCollide["StringLinkedSet"] = [][]key{{{s: "Aa"}, {s: "BB"}}, {{s: "AaAa"}, {s: "BBBB"}, {s: "AaBB"}, {s: "BBAa"}}, {{s: "AaBBAa"}, {s: "BBAaBB"}}}
	// IntKeyLinkedMap: hash = key & MaxInt32 (sign bit masked): k and k+MinInt32 collide
	const min32 = math.MinInt32
	fullCollide["IntKeyLinkedMap"] = [][]key{ik(0, min32), ik(math.MaxInt32, -1), ik(101, 101+min32), ik(8344921, 8344921+min32), ik(7, 7+min32)}
	// LongKeyLinkedMap: hash = uint(key ^ key>>32) (arithmetic shift): k and ^k collide
	fullCollide["LongKeyLinkedMap"] = [][]key{ik(0, -1), ik(5, -6), ik(math.MaxInt64, math.MinInt64), ik(101, -102), ik(1<<32|1, ^(1<<32 | 1)), ik(8344921, -8344922)}
	// hash = uint(key) is injective for the remaining int/long types; keys that agree in their low 32
	// bits (they would collide under any 32-bit cached hash) are kept as a defensive family
	lo32 := [][]key{ik(5, 5+1<<32, 5-1<<32), ik(-1, -1+1<<32, 1<<33-1), ik(101, 101+1<<32)}
	fullCollide["LongLongLinkedMap"] = lo32
	fullCollide["LongFloatLinkedMap"] = lo32
	// LinkedMap / LinkedSet: the harness' LinkedKey hash modes 1 (|id| mod 3) and 2 (constant) make whole
	// pools collide on the full cached hash
}

func keyPool(t *tdesc, r *vh.Rng) []key {
	n := r.PickInt([]int{1, 2, 3, 4, 6, 9, 16, 40})
	var cand []key
	switch t.kkind {
	case 's':
		base := []string{"", "a", "b", "aa", "Aa", "BB", "AaAa", "BBBB", "AaBB", "z", "0", "key", "A_long_key_0123456789",
			"é", "日本語", "\xff\xfe", "a b", "k,=v", "\x00", "%25", "Aa\x80"}
		base = append(base, strCollide...)
		for _, s := range base {
			cand = append(cand, key{s: s})
		}
		for i := 0; i < 8; i++ {
			cand = append(cand, key{s: "r" + strconv.Itoa(r.Intn(1000))})
		}
	default:
		xs := []int64{0, 1, -1, 2, 3, 101, 202, 303, 203, 406, 407, 814, 8344921, 2 * 8344921, 3 * 8344921, -101, -202, -8344921,
			math.MaxInt32, math.MinInt32, math.MaxInt32 - 101, math.MinInt32 + 101, 1 << 31 >> 1}
		if t.kkind != 'i' {
			xs = append(xs, math.MaxInt64, math.MinInt64, 1<<32, 1<<32|1, 2<<32|2, 3<<32|3, -(1 << 32), math.MaxInt64-101)
		}
		for _, x := range xs {
			cand = append(cand, key{i: x})
		}
		for i := 0; i < 8; i++ {
			if t.kkind == 'i' {
				cand = append(cand, key{i: int64(int32(r.U64()))})
			} else {
				cand = append(cand, key{i: r.I64()})
			}
		}
	}
	// shuffle, take n; the empty string is kept with probability 1/2 when present
	for i := len(cand) - 1; i > 0; i-- {
		j := r.Intn(i + 1)
		cand[i], cand[j] = cand[j], cand[i]
	}
	if n > len(cand) {
		n = len(cand)
	}
	pool := append([]key(nil), cand[:n]...)
	if t.kkind == 's' && r.Chance(35) {
		pool[0] = key{s: ""}
	}
	// whole groups of keys with an identical full hash
	if gs := fullCollide[t.name]; len(gs) > 0 && r.Chance(50) {
		have := map[key]bool{}
		for _, k := range pool {
			have[k] = true
		}
		for g := 0; g < 1+r.Intn(2); g++ {
			for _, k := range gs[r.Intn(len(gs))] {
				if !have[k] {
					have[k] = true
					pool = append(pool, k)
				}
			}
		}
		if r.Chance(40) { // a pool of colliding keys only
			pool = pool[n:]
			if len(pool) == 0 {
				pool = append(pool, gs[0]...)
			}
		}
	}
	return pool
}

func genVal(t *tdesc, r *vh.Rng) int64 {
	switch t.vkind {
	case 'f': // the bit pattern of a float32: small and large integers, fractions, ±0, ±Inf, NaN, denormals, random
		switch r.Intn(10) {
		case 0:
			return int64(r.PickInt([]int{0, 0x80000000, 0x7f800000, 0xff800000, 0x7fc00000, 1, 0x007fffff, 0x7f7fffff, 0x4b800000, 0xcb800000}))
		case 1:
			return int64(uint32(r.U64()))
		case 2, 3:
			return int64(math.Float32bits(float32(r.Range(-1000, 1000)) / 8))
		case 4:
			return int64(math.Float32bits(float32(r.Range(-1<<40, 1<<40))))
		}
		return int64(math.Float32bits(float32(r.Range(-1000, 1000))))
	case 'i':
		if r.Chance(20) {
			return r.Pick64([]int64{0, math.MaxInt32, math.MinInt32, -1, 1})
		}
		return r.Range(-50, 50)
	case 'l':
		if r.Chance(20) {
			return r.Pick64([]int64{0, math.MaxInt64, math.MinInt64, -1, 1, math.MaxInt32 + 1})
		}
		return r.Range(-50, 50)
	case 'u':
		return 0
	}
	if r.Chance(10) {
		return r.Pick64([]int64{0, math.MaxInt64, math.MinInt64})
	}
	if r.Chance(6) {
		return nilV // a stored nil interface value
	}
	return r.Range(-50, 50)
}

var weights = map[string]int{"ESV": 6, "EQ": 3, "VI": 2, "TF": 2, "TKS": 1, "ENF": 3, "UP": 8, "TS": 2, "TOF": 5, "KAW": 2, "GKS": 2, "EOB": 3, "P:L": 18, "P:FL": 8, "P:FF": 8, "A:L": 5, "A:FL": 3, "A:FF": 3, "AN": 3, "G": 7, "GL": 5, "CK": 5, "CV": 3,
	"FK": 2, "LK": 2, "FV": 2, "LV": 2, "R": 9, "RF": 4, "RL": 4, "C": 1, "SZ": 2, "IE": 1, "IF": 2, "SM": 3, "SN": 2, "SO": 2}

// baseOnly: the single-object operations among the available ones
func baseOnly(avail []string) []string {
	var out []string
	for _, a := range avail {
		switch a {
		case "TOF", "KAW", "GKS", "EOB":
		default:
			out = append(out, a)
		}
	}
	return out
}

// genOps generates a history over `nInst` live instances of the type (one key pool for all of them).
// Cross-object operations: TOF (ToObject of another live instance's ToBytes, sometimes into a just-cleared
// target), KAW (KeyArray/GetArray overwritten by the caller), GKS (GetKeySet/ToKeySet results modified by
// the caller), EOB (enumerators taken, OTHER instances mutated, enumerators drained).
func genOps(t *tdesc, r *vh.Rng, avail []string, n int, nInst int) []op {
	pool := keyPool(t, r)
	total := 0
	for _, a := range avail {
		total += weights[a]
	}
	var vals []int64
	putK := make([][]key, nInst) // keys put so far, per instance
	ops := make([]op, 0, n)
	for len(ops) < n {
		x := r.Intn(total)
		var code string
		for _, a := range avail {
			x -= weights[a]
			if x < 0 {
				code = a
				break
			}
		}
		o := op{code: code, t: r.Intn(nInst)}
		if i := strings.IndexByte(code, ':'); i >= 0 {
			o.code, o.mode = code[:i], code[i+1:]
		}
		o.k = pool[r.Intn(len(pool))]
		switch o.code {
		case "TOF":
			o.src = r.Intn(nInst)
			if r.Chance(30) { // an empty target
				ops = append(ops, op{code: "C", t: o.t})
			}
		case "EOB":
			a := o.t
			ops = append(ops, op{code: "EO", t: a})
			for i, m := 0, 1+r.Intn(4); i < m; i++ {
				if nInst > 1 && r.Chance(50) {
					sub := genOps(t, r, baseOnly(avail), 1, 1)[0]
					sub.t = (a + 1 + r.Intn(nInst-1)) % nInst
					sub.k = pool[r.Intn(len(pool))]
					ops = append(ops, sub)
				} else {
					// a READ-ONLY operation on the enumerated container itself (a lookup is not a modification: the kept
					// enumerators must still yield every entry once, in order)
					c, ok := pickAvail(r, avail, []string{"G", "G", "CK", "CK", "SZ", "FK", "LK", "FV", "LV", "TS", "IE", "IF", "CV"})
					if !ok {
						c = "CK"
					}
					k := pool[r.Intn(len(pool))]
					if ks := putK[a]; len(ks) > 0 && r.Chance(70) {
						k = ks[r.Intn(len(ks))]
					}
					ops = append(ops, op{code: c, t: a, k: k})
				}
			}
			ops = append(ops, op{code: "ED", t: a})
			continue
		case "P", "A", "AN":
			o.v = genVal(t, r)
			vals = append(vals, o.v)
		case "CV":
			if len(vals) > 0 && r.Chance(70) {
				o.v = vals[r.Intn(len(vals))]
			} else {
				o.v = genVal(t, r)
			}
			if o.v == nilV {
				o.v = 0 // ContainsValue(nil) panics on purpose ("Value is Nil")
			}
		case "SM":
			// a configuration call at any point of a history: no bound (0, negative), tiny bounds, bounds around the
			// current size, and bounds above the table length of the default capacity (101 * 0.75 = 75.75)
			switch x := r.Intn(16); {
			case x < 3:
				o.n, o.rel = x-1, true // size-1, size, size+1
			default:
				o.n = r.PickInt([]int{0, -1, -1000, 1, 2, 3, 7, 75, 76, 77, 200, 1000, 100000})
			}
			ops = append(ops, o)
			// … followed by lookups / removals / updates of keys inserted BEFORE the call
			if ks := putK[o.t]; len(ks) > 0 {
				for i, m := 0, 2+r.Intn(5); i < m; i++ {
					if c, ok := pickAvail(r, avail, []string{"G", "CK", "CK", "R", "P:L", "P:FF", "A:L", "GL", "G"}); ok {
						b := op{code: c, t: o.t, k: ks[r.Intn(len(ks))], v: genVal(t, r)}
						if j := strings.IndexByte(c, ':'); j >= 0 {
							b.code, b.mode = c[:j], c[j+1:]
						}
						ops = append(ops, b)
					}
				}
				ops = append(ops, op{code: "SZ", t: o.t})
			}
			continue
		case "SN":
			o.v = int64(r.PickInt([]int{0, -1, 7, 5, 1, 100}))
			if len(vals) > 0 && r.Chance(30) && vals[len(vals)-1] != nilV {
				o.v = vals[r.Intn(len(vals))] // a NONE equal to a stored value
				if o.v == nilV {
					o.v = 0
				}
			}
		case "SO":
			o.asc = r.Bool()
		case "ESV", "EQ", "ENF": // mostly on keys that were put (an absent key has no entry object)
			if ks := putK[o.t]; len(ks) > 0 && r.Chance(80) {
				o.k = ks[r.Intn(len(ks))]
			}
			o.k2 = o.k
			if r.Chance(70) {
				o.k2 = pool[r.Intn(len(pool))]
				if ks := putK[o.t]; len(ks) > 0 && r.Chance(80) {
					o.k2 = ks[r.Intn(len(ks))]
				}
			}
			if o.code == "ESV" {
				o.v = genVal(t, r)
				vals = append(vals, o.v)
			}
		}
		if o.code == "P" || o.code == "A" || o.code == "AN" || o.code == "UP" {
			putK[o.t] = append(putK[o.t], o.k)
		}
		ops = append(ops, o)
	}
	return ops
}

func pickAvail(r *vh.Rng, avail, want []string) (string, bool) {
	for tries := 0; tries < 8; tries++ {
		w := want[r.Intn(len(want))]
		for _, a := range avail {
			if a == w {
				return w, true
			}
		}
	}
	return "", false
}

// smValues: the bounds every configuration history goes through (relative ones are resolved against Size())
var smValues = []op{{n: 0}, {n: -1}, {n: -1000}, {n: 1}, {n: -1, rel: true}, {n: 0, rel: true}, {n: 1, rel: true},
	{n: 75}, {n: 76}, {n: 77}, {n: 200}, {n: 1000}}

// genConfig: a populated container (pop distinct keys), ONE configuration call, then every key inserted before
// the call is looked up, some are removed, some updated, some fresh keys are inserted (eviction under the new
// bound), and the whole is enumerated.  capRel != 0: the bound is taken around the constructor's table length.
func genConfig(t *tdesc, r *vh.Rng, avail map[string]bool, pop int, sm op) []op {
	var ops []op
	var ks []key
	seen := map[string]bool{}
	pool := keyPool(t, r)
	for i := 0; len(ks) < pop; i++ {
		var k key
		if i < len(pool) && r.Chance(50) {
			k = pool[i]
		} else if t.kkind == 's' {
			k = key{s: "c" + strconv.Itoa(i*7919%100003)}
		} else {
			k = key{i: int64(i)*int64(r.PickInt([]int{1, 101, -203, 8344921})) - int64(r.Intn(3))}
		}
		if t.kkind == 'i' {
			k.i = int64(int32(k.i))
		}
		if tok := t.keyTok(k); seen[tok] || (t.kkind == 's' && k.s == "") {
			continue
		} else {
			seen[tok] = true
		}
		ks = append(ks, k)
		ops = append(ops, op{code: "P", mode: []string{"L", "L", "FL", "FF"}[r.Intn(4)], k: k, v: genVal(t, r)})
	}
	sm.code = "SM"
	ops = append(ops, sm, op{code: "SZ"}, op{code: "IF"})
	emit := func(code, mode string, k key) {
		if avail[code] {
			ops = append(ops, op{code: code, mode: mode, k: k, v: genVal(t, r)})
		}
	}
	for _, k := range ks {
		emit([]string{"G", "CK", "G", "GL"}[r.Intn(4)], "", k)
	}
	for _, k := range ks {
		switch r.Intn(6) {
		case 0:
			emit("R", "", k)
		case 1:
			emit("P", []string{"L", "FL", "FF"}[r.Intn(3)], k)
		case 2:
			emit("A", []string{"L", "FL", "FF"}[r.Intn(3)], k)
		case 3:
			emit("CK", "", k)
		}
	}
	ops = append(ops, op{code: "SZ"})
	for i, m := 0, 1+r.Intn(4); i < m; i++ { // fresh keys under the new bound
		k := key{s: "f" + strconv.Itoa(i), i: int64(1<<20 + i)}
		emit("P", []string{"L", "FF"}[r.Intn(2)], k)
	}
	if avail["SO"] && r.Chance(30) {
		ops = append(ops, op{code: "SO", asc: r.Bool()})
	}
	ops = append(ops, op{code: "SZ"}, op{code: "FK"}, op{code: "LK"})
	if avail["TS"] {
		ops = append(ops, op{code: "TS"})
	}
	return ops
}

func genCtor(t *tdesc, r *vh.Rng, capOK map[int]bool) ctor {
	c := ctor{def: true, hmode: byte(r.Intn(3))}
	if t.hasCtor && r.Chance(75) {
		caps := []int{0, 1, 2, 3, 101}
		for tries := 0; tries < 10; tries++ {
			c.cap = r.PickInt(caps)
			if ok, seen := capOK[c.cap]; !seen || ok {
				break
			}
			c.cap = 1
		}
		c.def = false
		c.lf = []float32{0.5, 0.75, 1, 4}[r.Intn(4)]
	}
	return c
}

// wide history: "inserted through path X, then the table grows, then looked up".  A good part (~60%) of `width`
// distinct keys is FIRST inserted through `path` (P:L P:FL P:FF A:L A:FL A:FF AN, or TOF: read from another
// container's bytes), the rest through Put; the width crosses a growth threshold of the table (75 / 152 / 305 with
// the default constructor, many thresholds with a small initial capacity).  During the growth and after it, the
// keys that came in through the path are looked up, added to a second time (no duplicate may appear), removed.
// Instance 0 is the container under test; instance 1 is the source of the bytes for TOF.
func genWide(t *tdesc, r *vh.Rng, avail map[string]bool, path string, width int) []op {
	var ops []op
	seen := map[string]bool{}
	mk := func(i int) key {
		for {
			var k key
			if t.kkind == 's' {
				k = key{s: "w" + strconv.Itoa((i*7919+r.Intn(3))%100003)}
			} else {
				k = key{i: int64(i)*int64(r.PickInt([]int{101, -203, 8344921, 1})) - int64(r.Intn(5))}
				if t.kkind == 'i' {
					k.i = int64(int32(k.i))
				}
			}
			if tok := t.keyTok(k); !seen[tok] {
				seen[tok] = true
				return k
			}
			i += 100003
		}
	}
	code, mode := path, ""
	if j := strings.IndexByte(path, ':'); j >= 0 {
		code, mode = path[:j], path[j+1:]
	}
	var viaPath, viaPut []key
	look := func(k key) {
		switch {
		case avail["G"] && r.Chance(50):
			ops = append(ops, op{code: "G", k: k})
		default:
			ops = append(ops, op{code: "CK", k: k})
		}
	}
	probeSome := func(m int) {
		for j := 0; j < m && len(viaPath) > 0; j++ {
			look(viaPath[r.Intn(len(viaPath))])
		}
		if len(viaPut) > 0 {
			look(viaPut[r.Intn(len(viaPut))])
		}
	}
	if code == "TOF" {
		// the source holds m keys; they enter the container under test through ToObject (which grows the table
		// itself when m is above a threshold), then the container keeps growing through Put
		m := width * 6 / 10
		if r.Chance(50) {
			m = width - r.Intn(4)
		}
		for i := 0; i < m; i++ {
			k := mk(i)
			viaPath = append(viaPath, k)
			ops = append(ops, op{code: "P", mode: "L", t: 1, k: k, v: genVal(t, r)})
		}
		if r.Chance(50) { // sometimes into a container that already holds entries
			for i := 0; i < 1+r.Intn(5); i++ {
				ops = append(ops, op{code: "P", mode: "L", t: 0, k: viaPath[r.Intn(len(viaPath))], v: genVal(t, r)})
			}
		}
		ops = append(ops, op{code: "TOF", t: 0, src: 1})
		probeSome(6)
		for i := m; i < width; i++ {
			k := mk(i)
			viaPut = append(viaPut, k)
			ops = append(ops, op{code: "P", mode: []string{"L", "FL", "FF"}[r.Intn(3)], k: k, v: genVal(t, r)})
			if i%20 == 0 {
				probeSome(3)
			}
		}
	} else {
		for i := 0; i < width; i++ {
			k := mk(i)
			if r.Chance(60) {
				viaPath = append(viaPath, k)
				ops = append(ops, op{code: code, mode: mode, k: k, v: genVal(t, r)})
			} else {
				viaPut = append(viaPut, k)
				ops = append(ops, op{code: "P", mode: "L", k: k, v: genVal(t, r)})
			}
			if i%20 == 19 {
				probeSome(3)
			}
		}
	}
	ops = append(ops, op{code: "SZ"})
	// after the growth: every key that came in through the path is looked up …
	for _, k := range viaPath {
		look(k)
	}
	// … a part is added to / put a second time (a duplicate would show in the dump and in Size), a part removed, looked up again
	for _, k := range viaPath {
		switch x := r.Intn(10); {
		case x < 3 && avail["A"]:
			ops = append(ops, op{code: "A", mode: []string{"L", "FL", "FF"}[r.Intn(3)], k: k, v: genVal(t, r)})
		case x < 3 || x == 3:
			ops = append(ops, op{code: "P", mode: []string{"L", "FL", "FF"}[r.Intn(3)], k: k, v: genVal(t, r)})
		case x < 6:
			ops = append(ops, op{code: "R", k: k})
			if r.Chance(30) {
				look(k)
			}
		}
	}
	ops = append(ops, op{code: "SZ"})
	for _, k := range viaPut {
		if r.Chance(30) {
			look(k)
		}
	}
	if avail["TS"] && r.Chance(30) {
		ops = append(ops, op{code: "TS"})
	}
	return ops
}

// growth history: many distinct keys, so that the table grows more than five times.
func genGrowth(t *tdesc, r *vh.Rng, avail map[string]bool, n int) []op {
	var ops []op
	mk := func(i int) key {
		if t.kkind == 's' {
			return key{s: "g" + strconv.Itoa(i*7919%100003)}
		}
		var x int64
		switch r.Intn(3) {
		case 0:
			x = int64(i) * 101
		case 1:
			x = -int64(i) * 203
		default:
			x = int64(i)*8344921 - 5
		}
		if t.kkind == 'i' {
			x = int64(int32(x))
		}
		return key{i: x}
	}
	modes := []string{"L", "L", "FL", "FF"}
	var gk []key
	for _, g := range fullCollide[t.name] {
		gk = append(gk, g...)
	}
	probeOp := func() op {
		k := gk[r.Intn(len(gk))]
		switch r.Intn(5) {
		case 0:
			return op{code: "P", mode: modes[r.Intn(4)], k: k, v: genVal(t, r)}
		case 1:
			return op{code: "R", k: k}
		case 2:
			if avail["A"] {
				return op{code: "A", mode: modes[r.Intn(4)], k: k, v: genVal(t, r)}
			}
		case 3:
			if avail["G"] {
				return op{code: "G", k: k}
			}
		}
		return op{code: "CK", k: k}
	}
	for _, k := range gk {
		if r.Chance(70) {
			ops = append(ops, op{code: "P", mode: modes[r.Intn(4)], k: k, v: genVal(t, r)})
		}
	}
	for i := 0; i < n; i++ {
		if len(gk) > 0 && r.Chance(3) {
			ops = append(ops, probeOp())
		}
		o := op{code: "P", mode: modes[r.Intn(4)], k: mk(i), v: genVal(t, r)}
		ops = append(ops, o)
		if r.Chance(6) {
			ops = append(ops, op{code: "R", k: mk(r.Intn(i + 1))})
		}
		if r.Chance(4) {
			if avail["G"] {
				ops = append(ops, op{code: "G", k: mk(r.Intn(i + 1))})
			} else {
				ops = append(ops, op{code: "CK", k: mk(r.Intn(i + 1))})
			}
		}
		if r.Chance(1) && avail["SO"] {
			ops = append(ops, op{code: "SO", asc: r.Bool()})
		}
	}
	for _, k := range gk { // after all the growth: every colliding key is looked up, some removed
		ops = append(ops, op{code: "CK", k: k})
		if r.Chance(50) {
			ops = append(ops, op{code: "R", k: k})
		}
	}
	return ops
}

// ---------------------------------------------------------------- probes (one call of every public method)

type probeOut struct {
	excluded map[string]bool // op codes that hang or panic on a trivial state
	capOK    map[int]bool
	dumpOK   bool
}

func probe(t *tdesc, rep *vh.Report) probeOut {
	po := probeOut{excluded: map[string]bool{}, capOK: map[int]bool{}, dumpOK: true}
	k := func(i int) key {
		if t.kkind == 's' {
			return key{s: "p" + strconv.Itoa(i)}
		}
		return key{i: int64(i)}
	}
	setup := []op{{code: "P", mode: "L", k: k(3), v: 30}, {code: "P", mode: "L", k: k(1), v: 10}, {code: "P", mode: "L", k: k(2), v: 20}}
	lines := func(os []op) []string {
		var ls []string
		for _, o := range os {
			ls = append(ls, t.line(o))
		}
		return ls
	}
	c := ctor{def: true}
	// the enumeration side first
	{
		o := guardProbe(func() {
			m := t.mk(c)
			for _, s := range setup {
				m.exec(s)
			}
			m.dump()
		})
		if !o.OK() {
			po.dumpOK = false
			kind := map[bool]string{true: "deadlock", false: "panic"}[o.Timeout]
			rep.Fail("property", t.name+".Entries:"+kind, fmt.Sprintf("%s: enumerating Keys/Values/Entries/KeyArray of a 3-element map ends in %s %s", t.name, o.String(), vh.Clip(o.Panic, 120)),
				replayCase{Type: t.name, Ctor: c.String(), New: t.newLine(c), Ops: append(lines(setup), "ES"), At: 3, Want: "3 entries", Got: o.String(), Def: true})
			return po
		}
	}
	for _, code := range t.ops {
		o := op{code: code, k: k(1), k2: k(2), v: 10, n: 2, asc: true}
		if i := strings.IndexByte(code, ':'); i >= 0 {
			o.code, o.mode = code[:i], code[i+1:]
		}
		out := guardProbe(func() {
			m := t.mk(c)
			for _, s := range setup {
				m.exec(s)
			}
			m.exec(o)
		})
		if !out.OK() {
			po.excluded[code] = true
			kind := map[bool]string{true: "deadlock", false: "panic"}[out.Timeout]
			rep.Fail("property", t.name+"."+t.method(o)+":"+kind,
				fmt.Sprintf("%s.%s on a 3-element map: %s %s", t.name, t.method(o), out.String(), vh.Clip(out.Panic, 120)),
				replayCase{Type: t.name, Ctor: c.String(), New: t.newLine(c), Ops: append(lines(setup), t.line(o)), At: 3, Want: "a result", Got: out.String(), Detail: out.Panic, Def: true})
		}
	}
	if t.hasCtor {
		for _, cp := range []int{0, 1, 2, 3, 101} {
			cc := ctor{cap: cp, lf: 0.75}
			out := guardProbe(func() {
				m := t.mk(cc)
				for _, s := range setup {
					m.exec(s)
				}
				m.exec(op{code: "G", k: k(1)})
			})
			po.capOK[cp] = out.OK()
			if !out.OK() {
				rep.Fail("property", fmt.Sprintf("%s.New:capacity%d", t.name, cp),
					fmt.Sprintf("New%s(%d, 0.75) then Put: %s %s", t.name, cp, out.String(), vh.Clip(out.Panic, 120)),
					replayCase{Type: t.name, Ctor: cc.String(), New: t.newLine(cc), Ops: lines(setup), At: 0, Want: "-", Got: out.String(), Detail: out.Panic, Cap: cp, Lf: 0.75})
			}
		}
	}
	return po
}

// ---------------------------------------------------------------- known findings (D15): replayed on every run

func knownReplays(rep *vh.Report) {
	byName := map[string]*tdesc{}
	for _, t := range types {
		byName[t.name] = t
	}
	{ // StringLinkedSet stores "" but Contains("") answers false
		still := false
		vh.Guard(func() {
			m := byName["StringLinkedSet"].mk(ctor{def: true})
			m.exec(op{code: "P", mode: "L", k: key{s: ""}})
			d := m.dump()
			c := m.exec(op{code: "CK", k: key{s: ""}})
			still = d.size == 1 && len(d.keys) == 1 && d.keys[0] == "~" && c == "F"
		})
		rep.KnownReplay("StringLinkedSet.Contains:empty-key", still, "StringLinkedSet: Put(\"\") stores the empty string (Size 1, enumerated) but Contains(\"\") = false")
		byName["StringLinkedSet"].repaired = !still
	}
	for _, n := range []string{"StringIntLinkedMap", "StringLongLinkedMap"} {
		still := false
		vh.Guard(func() {
			m := byName[n].mk(ctor{def: true})
			m.exec(op{code: "P", mode: "L", k: key{s: ""}, v: 5})
			g := m.exec(op{code: "G", k: key{s: ""}})
			d := m.dump()
			still = d.size == 0 && g == "0"
		})
		rep.KnownReplay(n+".Put:empty-key", still, n+": Put(\"\", 5) is ignored (Size stays 0, Get(\"\") = NONE) although the quantifier names empty-string keys")
		byName[n].repaired = !still
	}
}

// ---------------------------------------------------------------- main

func main() {
	env, rep := vh.Parse("C09")
	rng := vh.NewRng(env.Seed*0x2545F4914F6CDD1D + 0x1B873593) // decorrelate consecutive seeds (vh seeds are one splitmix step apart)
	initCollide()
	rep.Rule = "one case = one history (constructor + ≤200 public operations, or a >2500-insert growth history) on one of the 13 linked types; " +
		"non-trivial = at least one operation changes the state; distinct = different canonical text (type, constructor, operation lines)"

	for _, t := range types {
		if gs := fullCollide[t.name]; len(gs) > 0 {
			var names []string
			for _, g := range gs {
				var ks []string
				for _, k := range g {
					ks = append(ks, t.keyTok(k))
				}
				names = append(names, strings.Join(ks, "~"))
			}
			rep.Note("full-hash collision groups of %s: %s", t.name, strings.Join(names, " | "))
		}
	}
	if env.Replay != "" {
		replayFile(env, rep)
		rep.Write(env.Out)
		return
	}

	setryProbe(rep)
	staleEntryProbe(rep)
	knownReplays(rep) // first: a finding that no longer reproduces switches its type to the repaired descriptor

	perType := 160
	growthPer := 2
	growthN := 2700
	if env.Thorough {
		perType = 1540
		growthPer = 6
		growthN = 6000
	}

	var hists []*histRes
	for _, t := range types {
		po := probe(t, rep)
		if !po.dumpOK {
			continue
		}
		var avail []string
		availSet := map[string]bool{}
		for _, c := range t.ops {
			if !po.excluded[c] {
				avail = append(avail, c)
				availSet[strings.SplitN(c, ":", 2)[0]] = true
			}
		}
		type job struct {
			cs  []ctor
			ops []op
			de  int
		}
		availX := append(append([]string(nil), avail...), t.xops...)
		genCtors := func(r *vh.Rng) []ctor {
			n := r.PickInt([]int{1, 2, 2, 2, 3, 3})
			cs := []ctor{genCtor(t, r, po.capOK)}
			for len(cs) < n {
				if r.Chance(50) {
					cs = append(cs, cs[0]) // same capacity / load factor / hash mode
				} else {
					c := genCtor(t, r, po.capOK)
					c.hmode = cs[0].hmode // LinkedKey objects of one history share their hash mode
					cs = append(cs, c)
				}
			}
			return cs
		}
		var jobs []job
		for i := 0; i < perType; i++ {
			r := rng.Fork()
			n := 10 + r.Intn(191)
			if env.Thorough && r.Chance(2) {
				n = 1000 + r.Intn(4000)
			}
			de := 1
			if n > 400 {
				de = 25
			}
			cs := genCtors(r)
			jobs = append(jobs, job{cs, genOps(t, r, availX, n, len(cs)), de})
		}
		if availSet["SM"] { // configuration calls on populated containers (every bound of smValues, small and large populations)
			pops := [][]int{{1, 2, 5}, {40, 60, 74}, {76, 90, 120}}
			for _, sm := range smValues {
				for pi, ps := range pops {
					if !env.Thorough && pi == 1 && (sm.n < 70 && !sm.rel) {
						continue // quick tier: the middle population only with the relative and the large bounds
					}
					r := rng.Fork()
					c := genCtor(t, r, po.capOK)
					if r.Chance(50) {
						c = ctor{def: true, hmode: c.hmode}
					}
					if t.kkind != 'o' {
						c.hmode = 0
					}
					jobs = append(jobs, job{[]ctor{c}, genConfig(t, r, availSet, r.PickInt(ps), sm), 8})
					rep.Count("config-history")
				}
			}
		}
		{ // wide histories: every insertion path × every growth threshold of the default table, and small random capacities
			paths := []string{}
			for _, p := range append(append([]string(nil), avail...), t.xops...) {
				switch strings.SplitN(p, ":", 2)[0] {
				case "P", "A", "AN", "TOF":
					paths = append(paths, p)
				}
			}
			for _, p := range paths {
				for wi, w := range [][2]int{{78, 100}, {155, 180}, {308, 330}, {20, 330}} {
					r := rng.Fork()
					c := ctor{def: true, hmode: byte(r.Intn(3))}
					if wi == 3 || (env.Thorough && r.Chance(40)) {
						c = genCtor(t, r, po.capOK)
					}
					if t.kkind != 'o' {
						c.hmode = 0
					}
					cs := []ctor{c}
					if p == "TOF" {
						cs = append(cs, genCtor(t, r, po.capOK))
						cs[1].hmode = c.hmode
					}
					reps := 1
					if env.Thorough {
						reps = 4
					}
					for q := 0; q < reps; q++ {
						jobs = append(jobs, job{cs, genWide(t, r, availSet, p, int(r.Range(int64(w[0]), int64(w[1])))), 16})
						rep.Count("wide-history:" + p)
					}
				}
			}
		}
		for i := 0; i < growthPer; i++ {
			r := rng.Fork()
			c := genCtor(t, r, po.capOK)
			if t.kkind != 'o' {
				c.hmode = 0 // only selects the hash of the driver's CodeModel (arbitrary); a constant hash makes 2700-key chains quadratic there
			}
			jobs = append(jobs, job{[]ctor{c}, genGrowth(t, r, availSet, growthN), 64})
		}
		res := make([]*histRes, len(jobs))
		var wg sync.WaitGroup
		sem := make(chan struct{}, 12)
		for i, j := range jobs {
			wg.Add(1)
			sem <- struct{}{}
			go func(i int, j job) {
				defer wg.Done()
				res[i] = runImpl(t, j.cs, j.ops, j.de)
				<-sem
			}(i, j)
		}
		wg.Wait()
		hists = append(hists, res...)
	}

	// implementation-side aborts (panic / hang in the middle of a history)
	for _, h := range hists {
		if h.abort == "" {
			continue
		}
		kind := map[string]string{"panic": "panic", "timeout": "deadlock"}[h.abort]
		meth, line := "?", "?"
		if h.abortI >= 0 && h.abortI < len(h.ops) {
			meth, line = h.t.method(h.ops[h.abortI]), h.t.line(h.ops[h.abortI])
		}
		rc := mkReplay(h, len(h.steps)-1, "a result", h.abort, h.abortP)
		rc.Ops = append(rc.Ops, line)
		rc.At = len(rc.Ops) - 1
		rep.Fail("property", h.t.name+"."+meth+":"+kind,
			fmt.Sprintf("%s.%s (operation %d of a history: %s) ended in %s %s", h.t.name, meth, h.abortI, line, h.abort, vh.Clip(h.abortP, 120)), rc)
	}

	// the driver side, in parallel chunks
	nw := 12
	chunks := make([][]*histRes, nw)
	for i, h := range hists {
		chunks[i%nw] = append(chunks[i%nw], h)
	}
	type cres struct {
		vs  [][]*verdict
		err error
	}
	out := make([]cres, nw)
	var wg sync.WaitGroup
	for w := 0; w < nw; w++ {
		wg.Add(1)
		go func(w int) {
			defer wg.Done()
			var lines []string
			var offs []int
			for _, h := range chunks[w] {
				offs = append(offs, len(lines))
				lines = append(lines, driverLines(h)...)
			}
			if len(lines) == 0 {
				return
			}
			if d := os.Getenv("VERIF_DUMP_LINES"); d != "" {
				os.WriteFile(fmt.Sprintf("%s/chunk%d.txt", d, w), []byte(strings.Join(lines, "\n")+"\n"), 0o644)
			}
			ans, err := vh.RunDriver(env.Driver, lines)
			if err != nil {
				out[w].err = err
				return
			}
			for i, h := range chunks[w] {
				end := len(lines)
				if i+1 < len(offs) {
					end = offs[i+1]
				}
				out[w].vs = append(out[w].vs, compare(h, ans[offs[i]:end]))
			}
		}(w)
	}
	wg.Wait()
	for w := 0; w < nw; w++ {
		if out[w].err != nil {
			vh.Die("%v", out[w].err)
		}
	}

	// bookkeeping + failures
	var pending []pendingFail
	sampled := map[string]bool{}
	for w := 0; w < nw; w++ {
		for i, h := range chunks[w] {
			var sb strings.Builder
			sb.WriteString(h.t.name + " " + h.c.String())
			nontriv := false
			maxSize := 0
			for _, s := range h.steps {
				sb.WriteByte(';')
				sb.WriteString(s.line)
				rep.Count("op:" + s.o.code)
				if mutating(s.o.code) {
					nontriv = true
				}
				for _, d := range s.dmps {
					if d.size > maxSize {
						maxSize = d.size
					}
				}
			}
			rep.Case(sb.String(), nontriv)
			rep.Count("type:" + h.t.name)
			if touchesGroup(h.t, h.ops) {
				rep.Count("history-with-full-hash-collision:" + h.t.name)
			}
			rep.Count("ctor:" + h.c.String())
			rep.Count(fmt.Sprintf("live-instances:%d", len(h.cs)))
			rep.Count(fmt.Sprintf("history-length:%s", bucket(len(h.steps))))
			rep.Count(fmt.Sprintf("max-size:%s", bucket(maxSize)))
			rep.Count(fmt.Sprintf("growth-steps:%d", growthSteps(h.c, maxSize)))
			if !sampled[h.t.name] && len(h.steps) > 5 && len(h.steps) < 40 {
				sampled[h.t.name] = true
				rep.Sample(map[string]interface{}{"type": h.t.name, "ctor": h.c.String(), "ops": driverLines(h)[1:]})
			}
			for _, v := range out[w].vs[i] {
				pending = append(pending, pendingFail{h, v})
			}
		}
	}
	reportShrunk(env, rep, pending)
	rep.Write(env.Out)
}

// ---------------------------------------------------------------- shrinking of failing histories

type pendingFail struct {
	h *histRes
	v *verdict
}

// failsWith re-runs a candidate history on the implementation and the driver and says whether the
// failure with the given key is still there.
func failsWith(env *vh.Env, t *tdesc, c []ctor, ops []op, key string) (*histRes, *verdict) {
	h := runImplStall(t, c, ops, 1, 8*time.Second)
	if h.abort != "" {
		return nil, nil
	}
	ans, err := vh.RunDriver(env.Driver, driverLines(h))
	if err != nil {
		return nil, nil
	}
	for _, v := range compare(h, ans) {
		if v.key == key {
			return h, v
		}
	}
	return nil, nil
}

// shrink removes chunks of operations (halves, quarters, … single operations) while the same
// failure key persists; at most `budget` re-executions.
func shrink(env *vh.Env, h *histRes, v *verdict, budget int) (*histRes, *verdict) {
	upto := v.rc.At + 1
	if upto > len(h.ops) || upto <= 0 {
		upto = len(h.ops)
	}
	cur := append([]op(nil), h.ops[:upto]...)
	bestH, bestV := failsWith(env, h.t, h.cs, cur, v.key)
	if bestH == nil {
		return h, v // not reproducible in isolation (should not happen: histories are deterministic)
	}
	n := 2
	deadline := time.Now().Add(20 * time.Second) // candidates that hang cost a watchdog period each
	for len(cur) >= 2 && budget > 0 && time.Now().Before(deadline) {
		chunk := (len(cur) + n - 1) / n
		reduced := false
		for i := 0; i < len(cur) && budget > 0 && time.Now().Before(deadline); i += chunk {
			j := i + chunk
			if j > len(cur) {
				j = len(cur)
			}
			cand := append(append([]op(nil), cur[:i]...), cur[j:]...)
			budget--
			if hh, vv := failsWith(env, h.t, h.cs, cand, v.key); hh != nil {
				cur, bestH, bestV = cand, hh, vv
				reduced = true
				if n > 2 {
					n--
				}
				break
			}
		}
		if !reduced {
			if chunk == 1 {
				break
			}
			n *= 2
			if n > len(cur) {
				n = len(cur)
			}
		}
	}
	return bestH, bestV
}

// reportShrunk reports every collected failure; the first one of each key is shrunk first.
func reportShrunk(env *vh.Env, rep *vh.Report, pending []pendingFail) {
	first := map[string]int{}
	for i, p := range pending {
		if _, ok := first[p.v.key]; !ok {
			first[p.v.key] = i
		}
	}
	var wg sync.WaitGroup
	sem := make(chan struct{}, 12)
	for _, i := range first {
		wg.Add(1)
		sem <- struct{}{}
		go func(i int) {
			defer wg.Done()
			p := pending[i]
			n0 := p.v.rc.At + 1
			_, v := shrink(env, p.h, p.v, 160)
			if len(v.rc.Ops) < n0 {
				v.rc.Detail = strings.TrimSpace(v.rc.Detail + fmt.Sprintf(" (shrunk from %d operations)", n0))
			}
			pending[i].v = v
			<-sem
		}(i)
	}
	wg.Wait()
	// shrunk ones first, so that they are among the three kept per key
	keys := make([]string, 0, len(first))
	for k := range first {
		keys = append(keys, k)
	}
	sort.Strings(keys)
	for _, k := range keys {
		v := pending[first[k]].v
		rep.Fail("property", v.key, v.summary, v.rc)
	}
	for i, p := range pending {
		if first[p.v.key] != i {
			rep.Fail("property", p.v.key, p.v.summary, p.v.rc)
		}
	}
}

// touchesGroup: does the history insert at least two distinct keys of one full-hash collision group?
func touchesGroup(t *tdesc, ops []op) bool {
	for _, g := range fullCollide[t.name] {
		in := map[key]bool{}
		for _, k := range g {
			in[k] = true
		}
		put := map[key]bool{}
		for _, o := range ops {
			if (o.code == "P" || o.code == "A" || o.code == "U" || o.code == "AN") && in[o.k] {
				put[o.k] = true
			}
		}
		if len(put) >= 2 {
			return true
		}
	}
	return false
}

func bucket(n int) string {
	switch {
	case n == 0:
		return "0"
	case n <= 3:
		return "1-3"
	case n <= 10:
		return "4-10"
	case n <= 50:
		return "11-50"
	case n <= 200:
		return "51-200"
	case n <= 1000:
		return "201-1000"
	}
	return ">1000"
}

func growthSteps(c ctor, maxSize int) int {
	cp, lf := c.cap, c.lf
	if c.def {
		cp, lf = 101, 0.75
	}
	if cp == 0 {
		cp = 1
	}
	g := 0
	for int(float32(cp)*lf) < maxSize && g < 30 {
		cp = 2*cp + 1
		g++
	}
	return g
}

// ---------------------------------------------------------------- replay of a stored case

func replayFile(env *vh.Env, rep *vh.Report) {
	raw, err := os.ReadFile(env.Replay)
	if err != nil {
		vh.Die("replay file: %v", err)
	}
	var f struct {
		Cases []replayCase `json:"cases"`
	}
	if err := json.Unmarshal(raw, &f); err != nil {
		vh.Die("replay file: %v", err)
	}
	byName := map[string]*tdesc{}
	for _, t := range types {
		byName[t.name] = t
	}
	for _, rc := range f.Cases {
		t := byName[rc.Type]
		if t == nil {
			continue
		}
		c := ctor{def: rc.Def, cap: rc.Cap, lf: rc.Lf, hmode: byte(rc.Hmode)}
		var ops []op
		for _, l := range rc.Ops {
			if l == "ES" {
				continue
			}
			if o, ok := parseLine(t, l); ok {
				ops = append(ops, o)
			}
		}
		cs := []ctor{c}
		if len(rc.Insts) > 0 {
			cs = nil
			for _, x := range rc.Insts {
				cs = append(cs, ctor{def: x.Def, cap: x.Cap, lf: x.Lf, hmode: byte(x.Hmode)})
			}
		}
		h := runImpl(t, cs, ops, 1)
		if h.abort != "" {
			rep.Fail("property", rc.Type+".replay:"+h.abort, fmt.Sprintf("replayed history ends in %s at op %d: %s", h.abort, h.abortI, vh.Clip(h.abortP, 160)),
				mkReplay(h, len(h.steps)-1, "a result", h.abort, h.abortP))
		}
		ans, err := vh.RunDriver(env.Driver, driverLines(h))
		if err != nil {
			vh.Die("%v", err)
		}
		rep.Case(rc.Type+" "+strings.Join(rc.Ops, ";"), true)
		for _, v := range compare(h, ans) {
			rep.Fail("property", v.key, v.summary, v.rc)
		}
	}
	sort.Slice(rep.Failures, func(i, j int) bool { return rep.Failures[i].Key < rep.Failures[j].Key })
}

// guardProbe runs a probe (a handful of operations on a 3-element container) under a watchdog that only bounds hangs:
// 2 s, and if that expires once more with 30 s — a real deadlock expires twice, a starved goroutine on a busy machine does not.
func guardProbe(f func()) vh.Outcome {
	o := vh.GuardTimeout(2*time.Second, f)
	if o.Timeout {
		o = vh.GuardTimeout(30*time.Second, f)
	}
	return o
}
