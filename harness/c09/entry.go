// Extended API (round 4 of the deepening): entry objects, container text, enumerators opened at an entry.
// The model side is lean/Golib/HMap/Entry.lean (`XOp`, theorem C09.refine_xstep).
package main

import (
	"encoding/hex"
	"fmt"
	"hash/crc32"
	"math"
	"strconv"
	"strings"

	"github.com/whatap/golib/util/hmap"
	"verif/harness/vh"
)

// textTok: the canonical token of a text result (checksum, length, clipped printable prefix).
func textTok(s string) string {
	var b strings.Builder
	for i := 0; i < len(s) && b.Len() < 96; i++ {
		if c := s[i]; c > 32 && c < 127 {
			b.WriteByte(c)
		} else if c == ' ' {
			b.WriteByte('_')
		} else {
			b.WriteByte('.')
		}
	}
	return fmt.Sprintf("%08x:%d:%s", crc32.ChecksumIEEE([]byte(s)), len(s), b.String())
}

// modelText decodes the driver's answer to TS / TF: `x<hex>|f<bits>|<hex>…` — hex = bytes of the text,
// `f<bits>` = a float32 value printed with the verb of the float entries' ToString (`%f`).
func modelText(ans string) (string, bool) {
	if !strings.HasPrefix(ans, "x") {
		return "", false
	}
	var b strings.Builder
	for _, piece := range strings.Split(ans[1:], "|") {
		if strings.HasPrefix(piece, "f") {
			bits, err := strconv.ParseUint(piece[1:], 10, 32)
			if err != nil {
				return "", false
			}
			b.WriteString(fmt.Sprintf("%f", math.Float32frombits(uint32(bits))))
			continue
		}
		raw, err := hex.DecodeString(piece)
		if err != nil {
			return "", false
		}
		b.Write(raw)
	}
	return b.String(), true
}

// setryProbe: the cells of the three sets (`…LinkedSetry`) are never handed out by the public API; only their zero
// values can be built by a caller.  Get / Equals / HashCode / ToString are evaluated on those.
func setryProbe(rep *vh.Report) {
	bad := func(what, got, want string) {
		rep.Fail("property", "Setry."+what+":result", fmt.Sprintf("%s = %s, want %s", what, got, want),
			map[string]string{"call": what, "got": got, "want": want})
	}
	o := vh.Guard(func() {
		a, b := &hmap.IntLinkedSetry{}, &hmap.IntLinkedSetry{}
		if a.Get() != 0 || !a.Equals(b) || a.HashCode() != 0 || a.ToString() != "0" {
			bad("IntLinkedSetry{}", fmt.Sprint(a.Get(), a.Equals(b), a.HashCode(), a.ToString()), "0 true 0 0")
		}
		s, t := &hmap.StringLinkedSetry{}, &hmap.StringLinkedSetry{}
		if s.Get() != "" || !s.Equals(t) || s.HashCode() != 0 || s.ToString() != "" {
			bad("StringLinkedSetry{}", fmt.Sprint(s.Get(), s.Equals(t), s.HashCode(), s.ToString()), " true 0 ")
		}
		l := &hmap.LinkedSetry{}
		if l.Get() != nil || l.ToString() != "<nil>" {
			bad("LinkedSetry{}", fmt.Sprint(l.Get(), l.ToString()), "<nil> <nil>")
		}
		rep.Count("setry-zero-value-probe")
	})
	if !o.OK() {
		bad("zero-value cells", o.String()+" "+vh.Clip(o.Panic, 100), "no panic")
	}
}

// staleEntryProbe: an entry object kept by the caller after its key was removed (or re-put) is no longer part of the
// container: SetValue on it must not change the container; the live entry of a re-put key is a different object.
func staleEntryProbe(rep *vh.Report) {
	o := vh.Guard(func() {
		m := hmap.NewIntIntLinkedMap()
		m.Put(1, 10)
		m.Put(2, 20)
		m.Put(3, 30)
		var kept *hmap.IntIntLinkedEntry
		for en := m.Entries(); en.HasMoreElements(); {
			if e := en.NextElement().(*hmap.IntIntLinkedEntry); e.GetKey() == 2 {
				kept = e
			}
		}
		m.Remove(2)
		m.Put(2, 21) // a new cell, at the back
		old := kept.SetValue(99) // (remove() resets the value of the removed cell to NONE: what a kept cell holds is not part of the property)
		got := fmt.Sprint(m.KeyArray(), m.Get(1), m.Get(3), m.Get(2), m.Size())
		if want := "[1 3 2] 10 30 21 3"; got != want {
			rep.Fail("property", "IntIntLinkedMap.SetValue:stale-entry",
				fmt.Sprintf("SetValue on an entry kept across Remove/Put changed the container: returned %d, KeyArray/Get(1)/Get(3)/Get(2)/Size = %s", old, got),
				map[string]string{"history": "Put 1 10; Put 2 20; Put 3 30; e := entry(2); Remove 2; Put 2 21; e.SetValue(99)", "got": got, "want": want})
		}
		rep.Count("stale-entry-probe")
	})
	if !o.OK() {
		rep.Fail("property", "IntIntLinkedMap.SetValue:panic", "stale entry probe: "+o.String()+" "+vh.Clip(o.Panic, 100), map[string]string{"history": "stale entry probe"})
	}
}
