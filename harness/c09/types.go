// Adapters: one uniform, string-canonicalised view of the public API of each of the thirteen
// linked types of util/hmap.  Only public methods are called; every observable is rendered to a
// canonical token so that it can be compared with the Lean driver's answer.
package main

import (
	"encoding/hex"
	"fmt"
	"math"
	"strconv"
	"strings"

	gio "github.com/whatap/golib/io"
	"github.com/whatap/golib/util/hash"
	"github.com/whatap/golib/util/hmap"
)

// key is a key of any of the four key kinds ('i' int32, 'l' int64, 's' string, 'o' LinkedKey object).
type key struct {
	i int64
	s string
}

// V is the value type stored in the interface{}-valued maps (distinct from int so that the
// `return 0` / `return ""` sentinels of the implementation are recognisable).
type V int64

// hk implements hmap.LinkedKey with a harness-chosen hash (to force collisions).
type hk struct {
	id   int64
	mode byte // 0: uint(id)   1: |id| mod 3   2: constant
}

func (h *hk) Hash() uint {
	switch h.mode {
	case 1:
		x := h.id % 3
		if x < 0 {
			x = -x
		}
		return uint(x)
	case 2:
		return 7
	}
	return uint(h.id)
}
func (h *hk) String() string { return strconv.FormatInt(h.id, 10) }
func (h *hk) Equals(o hmap.LinkedKey) bool {
	p, ok := o.(*hk)
	return ok && p != nil && p.id == h.id
}

// ---------------------------------------------------------------- canonical tokens

// strTok: a Go string is a byte string.  `~` = ""; bytes [A-Za-z0-9_] as they are; anything else `%<hex>`.
func strTok(s string) string {
	if s == "" {
		return "~"
	}
	plain := s[0] != '%'
	for i := 0; i < len(s) && plain; i++ {
		c := s[i]
		plain = (c >= '0' && c <= '9') || (c >= 'A' && c <= 'Z') || (c >= 'a' && c <= 'z') || c == '_'
	}
	if plain {
		return s
	}
	return "%" + hex.EncodeToString([]byte(s))
}

// tokStr is the inverse of strTok.
func tokStr(t string) string {
	if t == "~" {
		return ""
	}
	if strings.HasPrefix(t, "%") {
		b, _ := hex.DecodeString(t[1:])
		return string(b)
	}
	return t
}

// nilV stands for a nil interface value in an op (token `nil`).
const nilV = math.MinInt64 + 7777

func boxV(v int64) interface{} {
	if v == nilV {
		return nil
	}
	return V(v)
}

func valTok(v int64) string {
	if v == nilV {
		return "nil"
	}
	return strconv.FormatInt(v, 10)
}

// objVal renders an interface{} result of the interface-valued maps: a stored V → its number,
// every "absent" sentinel of the implementation (nil, "", int 0) → "-".
func objVal(x interface{}) string {
	switch t := x.(type) {
	case nil:
		return "-"
	case V:
		return strconv.FormatInt(int64(t), 10)
	case string:
		if t == "" {
			return "-"
		}
	case int:
		if t == 0 {
			return "-"
		}
	}
	return fmt.Sprintf("?%T:%v", x, x)
}

// f32Tok: a float32 is shown as its IEEE-754 bit pattern (any NaN as `nan`: payloads are not compared).
func f32Tok(f float32) string {
	if f != f {
		return "nan"
	}
	return strconv.FormatUint(uint64(math.Float32bits(f)), 10)
}

type pairS struct{ k, v string }

func joinPairs(ps []pairS) string {
	if len(ps) == 0 {
		return "[]"
	}
	var b strings.Builder
	for i, p := range ps {
		if i > 0 {
			b.WriteByte(',')
		}
		b.WriteString(p.k)
		b.WriteByte('=')
		b.WriteString(p.v)
	}
	return b.String()
}
func joinToks(xs []string) string {
	if len(xs) == 0 {
		return "[]"
	}
	return strings.Join(xs, ",")
}

// dump is everything the enumeration side of the API shows.
type dump struct {
	entries  []pairS
	keys     []string
	values   []string
	keyArray []string
	size     int
	hasVals  bool
	note     string // non-empty: an enumeration element had an unexpected dynamic type
}

// inst is one live container behind the uniform view.
type inst struct {
	exec func(o op) string // canonical result of one operation ("?unsupported" if the type lacks it)
	dump func() dump
	// several live containers / caller-held results
	keyArrayWrite func() string  // KeyArray()/GetArray(): the keys, then the caller overwrites the returned slice
	openEnum      func()         // take Entries()/Keys() enumerators now …
	drainEnum     func() string  // … drain them later (the container is not modified in between)
	toBytes       func() []byte  // IntIntLinkedMap / LongLongLinkedMap
	toObjectBytes func(b []byte) // ToObject of another map's bytes
	keySetWrite   func() string  // IntKeyLinkedMap.GetKeySet()/ToKeySet(): the keys, then the caller modifies the returned set
}

const enumSlack = 8

// ---------------------------------------------------------------- interface{}-valued maps

type objAPI[K any] struct {
	size                    func() int
	put, putLast, putFirst  func(K, interface{}) interface{}
	get, getLRU             func(K) interface{}
	containsKey             func(K) bool
	containsValue           func(interface{}) bool
	firstKey, lastKey       func() K
	firstValue, lastValue   func() interface{}
	remove                  func(K) interface{}
	removeFirst, removeLast func() interface{}
	isEmpty, isFull         func() bool
	clear                   func()
	setMax                  func(int)
	sort                    func(func(a, b K) bool)
	keys, keyArray          func() []K
	values                  func() []interface{}
	entries                 func() []interface{}
	toK                     func(key) K
	kTok                    func(K) string
	less                    func(a, b K) bool
	openKeys                func() func() []K
	openEntries             func() func() []interface{}
	dm                      *int
	toString                func() string
	// extended API (entry objects, text, enumerators opened at an entry)
	toFormatString func() string                           // IntKeyLinkedMap
	entryEq        func(a, b interface{}) (bool, uint)     // a.Equals(b), a.HashCode()
	hashWant       func(K) (uint, bool)                    // HashCode delegated to the key: what it must be
	valueIter      func() []interface{}                    // IntKeyLinkedMap.ValueIterator via HasNext / Next / Remove
	enumFrom       func(e interface{}) []K                 // New<Type>Enumer(parent, e, KEYS) drained
	toKeySet       func() []K                              // IntKeyLinkedMap.ToKeySet front → back
}

// findEntry: the live entry object of key k, taken from Entries() (nil: not stored)
func (a *objAPI[K]) findEntry(k K) interface{} {
	save := *a.dm
	*a.dm = 0
	defer func() { *a.dm = save }()
	for _, e := range a.entries() {
		if g, ok := e.(kvGetter[K]); ok && a.kTok(g.GetKey()) == a.kTok(k) {
			return e
		}
	}
	return nil
}

type kvGetter[K any] interface {
	GetKey() K
	GetValue() interface{}
}

func (a *objAPI[K]) inst() *inst {
	it := &inst{
		exec: func(o op) string {
			k := a.toK(o.k)
			switch o.code {
			case "P":
				switch o.mode {
				case "L":
					return objVal(a.put(k, boxV(o.v)))
				case "FL":
					return objVal(a.putLast(k, boxV(o.v)))
				case "FF":
					return objVal(a.putFirst(k, boxV(o.v)))
				}
			case "G":
				return objVal(a.get(k))
			case "GL":
				if a.getLRU != nil {
					return objVal(a.getLRU(k))
				}
			case "CK":
				return boolTok(a.containsKey(k))
			case "CV":
				if a.containsValue != nil {
					return boolTok(a.containsValue(V(o.v)))
				}
			case "FK":
				return a.kTok(a.firstKey())
			case "LK":
				return a.kTok(a.lastKey())
			case "FV":
				return objVal(a.firstValue())
			case "LV":
				return objVal(a.lastValue())
			case "R":
				return objVal(a.remove(k))
			case "RF":
				return objVal(a.removeFirst())
			case "RL":
				return objVal(a.removeLast())
			case "C":
				a.clear()
				return "u"
			case "SZ":
				return strconv.Itoa(a.size())
			case "IE":
				return boolTok(a.isEmpty())
			case "IF":
				return boolTok(a.isFull())
			case "SM":
				a.setMax(o.n)
				return "u"
			case "SO":
				if o.asc {
					a.sort(a.less)
				} else {
					a.sort(func(x, y K) bool { return a.less(y, x) })
				}
				return "u"
			case "TS": // ToString(): the text the model renders from the dictionary
				return textTok(a.toString())
			case "TF":
				if a.toFormatString != nil {
					return textTok(a.toFormatString())
				}
			case "ESV": // SetValue on the live entry object handed out by Entries()
				e := a.findEntry(k)
				if e == nil {
					return "-"
				}
				if sv, ok := e.(interface{ SetValue(interface{}) interface{} }); ok {
					return objVal(sv.SetValue(boxV(o.v)))
				}
				return fmt.Sprintf("?%T", e)
			case "EQ":
				if a.entryEq != nil {
					e1, e2 := a.findEntry(k), a.findEntry(a.toK(o.k2))
					if e1 == nil || e2 == nil {
						return "-"
					}
					eq, h := a.entryEq(e1, e2)
					if a.hashWant != nil {
						if w, ok := a.hashWant(k); ok && w == h {
							h = 0
						}
					}
					return boolTok(eq) + ":" + strconv.FormatUint(uint64(h), 10)
				}
			case "VI":
				if a.valueIter != nil {
					var toks []string
					for _, v := range a.valueIter() {
						toks = append(toks, objVal(v))
					}
					return joinToks(toks)
				}
			case "ENF":
				if a.enumFrom != nil {
					e := a.findEntry(k)
					if e == nil {
						return "[]"
					}
					var toks []string
					for _, x := range a.enumFrom(e) {
						toks = append(toks, a.kTok(x))
					}
					return joinToks(toks)
				}
			case "TKS":
				if a.toKeySet != nil {
					var toks []string
					for _, x := range a.toKeySet() {
						toks = append(toks, a.kTok(x))
					}
					return joinToks(toks)
				}
			}
			return "?unsupported"
		},
		dump: func() dump {
			*a.dm++ // next way of driving the enumerators
			d := dump{hasVals: true}
			for _, e := range a.entries() {
				g, ok := e.(kvGetter[K])
				if !ok {
					d.note = fmt.Sprintf("Entries() element of type %T", e)
					continue
				}
				d.entries = append(d.entries, pairS{a.kTok(g.GetKey()), objVal(g.GetValue())})
			}
			for _, k := range a.keys() {
				d.keys = append(d.keys, a.kTok(k))
			}
			for _, v := range a.values() {
				d.values = append(d.values, objVal(v))
			}
			for _, k := range a.keyArray() {
				d.keyArray = append(d.keyArray, a.kTok(k))
			}
			d.size = a.size()
			return d
		},
	}
	var keptArr []K // a result the caller kept unmodified: it must still hold its keys at the next call
	var keptToks string
	kaCalls := 0
	it.keyArrayWrite = func() string {
		note := ""
		if keptArr != nil {
			var toks []string
			for _, k := range keptArr {
				toks = append(toks, a.kTok(k))
			}
			if joinToks(toks) != keptToks {
				note = "!kept-KeyArray-result-changed:" + joinToks(toks)
			}
			keptArr = nil
		}
		ks := a.keyArray()
		var toks []string
		for _, k := range ks {
			toks = append(toks, a.kTok(k))
		}
		kaCalls++
		if kaCalls%2 == 1 && len(ks) > 0 {
			keptArr, keptToks = ks, joinToks(toks)
		} else { // the caller owns the slice and overwrites it
			var zero K
			for i := range ks {
				ks[i] = zero
			}
		}
		return joinToks(toks) + note
	}
	var pendE func() []interface{}
	var pendK func() []K
	it.openEnum = func() { *a.dm++; pendE, pendK = a.openEntries(), a.openKeys() }
	it.drainEnum = func() string {
		if pendE == nil {
			it.openEnum()
		}
		var ps []pairS
		var ks, ks2 []string
		for _, e := range pendE() {
			if g, ok := e.(kvGetter[K]); ok {
				ps = append(ps, pairS{a.kTok(g.GetKey()), objVal(g.GetValue())})
				ks = append(ks, a.kTok(g.GetKey()))
			}
		}
		for _, k := range pendK() {
			ks2 = append(ks2, a.kTok(k))
		}
		pendE, pendK = nil, nil
		out := joinPairs(ps)
		if joinToks(ks) != joinToks(ks2) {
			out += "!keys=" + joinToks(ks2)
		}
		return out
	}
	return it
}

func boolTok(b bool) string {
	if b {
		return "T"
	}
	return "F"
}

// drive runs an enumerator in one of three ways (`*mode` mod 3):
//
//	0  while HasMoreElements() { Next }                                   (with a slack bound)
//	1  exactly `size` calls of Next with NO HasMoreElements in between     (the Size()-driven loops of ToString / KeyArray / callers)
//	2  mixed: HasMoreElements called 0–3 times before each Next, `size` elements
//
// After 1 and 2, HasMoreElements must be false; whatever is still there is drained so that it shows up as a difference.
func drive(mode *int, size int, hasMore func() bool, next func()) {
	m := 0
	if mode != nil {
		m = *mode % 3
	}
	switch m {
	case 0:
		for i := 0; hasMore() && i < size+enumSlack; i++ {
			next()
		}
		return
	case 1:
		for i := 0; i < size; i++ {
			next()
		}
	case 2:
		for i := 0; i < size; i++ {
			stop := false
			for k := (i*7 + 3) % 4; k > 0; k-- {
				if !hasMore() {
					stop = true
				}
			}
			if stop {
				return
			}
			next()
		}
	}
	for i := 0; hasMore() && i < enumSlack; i++ {
		next()
	}
}

func drainEnum(en hmap.Enumeration, limit int, mode *int) []interface{} {
	var out []interface{}
	drive(mode, limit, en.HasMoreElements, func() { out = append(out, en.NextElement()) })
	return out
}
func drainInt(en hmap.IntEnumer, limit int, mode *int) []int32 {
	var out []int32
	drive(mode, limit, en.HasMoreElements, func() { out = append(out, en.NextInt()) })
	return out
}
func drainLong(en hmap.LongEnumer, limit int, mode *int) []int64 {
	var out []int64
	drive(mode, limit, en.HasMoreElements, func() { out = append(out, en.NextLong()) })
	return out
}
func drainFloat(en hmap.FloatEnumer, limit int, mode *int) []float32 {
	var out []float32
	drive(mode, limit, en.HasMoreElements, func() { out = append(out, en.NextFloat()) })
	return out
}
func drainStr(en hmap.StringEnumer, limit int, mode *int) []string {
	var out []string
	drive(mode, limit, en.HasMoreElements, func() { out = append(out, en.NextString()) })
	return out
}

func i32Tok(k int32) string    { return strconv.FormatInt(int64(k), 10) }
func i64Tok(k int64) string    { return strconv.FormatInt(k, 10) }
func toI32(k key) int32        { return int32(k.i) }
func toI64(k key) int64        { return k.i }
func toStr(k key) string       { return k.s }
func lessI32(a, b int32) bool  { return a < b }
func lessI64(a, b int64) bool  { return a < b }
func lessStr(a, b string) bool { return a < b }

func objKeyTok(k hmap.LinkedKey) string {
	if k == nil {
		return "-"
	}
	if p, ok := k.(*hk); ok && p != nil {
		return strconv.FormatInt(p.id, 10)
	}
	return fmt.Sprintf("?%T", k)
}
func lessObj(a, b hmap.LinkedKey) bool { return a.(*hk).id < b.(*hk).id }

func newLinkedMap(c ctor) *inst {
	dm := new(int) // how the enumerators of this instance are driven (rotated by the dumps)
	var m *hmap.LinkedMap
	if c.def {
		m = hmap.NewLinkedMapDefault()
	} else {
		m = hmap.NewLinkedMap(c.cap, c.lf)
	}
	a := &objAPI[hmap.LinkedKey]{dm: dm, toString: m.ToString, size: m.Size, put: m.Put, putLast: m.PutLast, putFirst: m.PutFirst, get: m.Get,
		containsKey: m.ContainsKey, firstKey: m.GetFirstKey, lastKey: m.GetLastKey,
		firstValue: m.GetFirstValue, lastValue: m.GetLastValue, remove: m.Remove,
		removeFirst: m.RemoveFirst, removeLast: m.RemoveLast, isEmpty: m.IsEmpty, isFull: m.IsFull, clear: m.Clear,
		setMax: func(n int) { m.SetMax(n) }, sort: m.Sort,
		keys: func() []hmap.LinkedKey {
			var out []hmap.LinkedKey
			for _, x := range drainEnum(m.Keys(), m.Size(), dm) {
				lk, _ := x.(hmap.LinkedKey)
				out = append(out, lk)
			}
			return out
		},
		openKeys: func() func() []hmap.LinkedKey {
			en := m.Keys()
			return func() []hmap.LinkedKey {
				var out []hmap.LinkedKey
				for _, x := range drainEnum(en, m.Size(), dm) {
					lk, _ := x.(hmap.LinkedKey)
					out = append(out, lk)
				}
				return out
			}
		},
		keyArray: m.KeyArray,
		values:   func() []interface{} { return drainEnum(m.Values(), m.Size(), dm) },
		entries:  func() []interface{} { return drainEnum(m.Entries(), m.Size(), dm) },
		openEntries: func() func() []interface{} {
			en := m.Entries()
			return func() []interface{} { return drainEnum(en, m.Size(), dm) }
		},
		toK: func(k key) hmap.LinkedKey { return &hk{id: k.i, mode: c.hmode} }, kTok: objKeyTok, less: lessObj}
	a.entryEq = func(x, y interface{}) (bool, uint) {
		p, q := x.(*hmap.LinkedEntry), y.(*hmap.LinkedEntry)
		return p.Equals(q), p.HashCode()
	}
	a.hashWant = func(k hmap.LinkedKey) (uint, bool) { return k.Hash(), true }
	return a.inst()
}

func newIntKeyLinkedMap(c ctor) *inst {
	dm := new(int) // how the enumerators of this instance are driven (rotated by the dumps)
	var m *hmap.IntKeyLinkedMap
	if c.def {
		m = hmap.NewIntKeyLinkedMapDefault()
	} else {
		m = hmap.NewIntKeyLinkedMap(c.cap, c.lf)
	}
	a := &objAPI[int32]{dm: dm, toString: m.ToString, size: m.Size, put: m.Put, putLast: m.PutLast, putFirst: m.PutFirst, get: m.Get, getLRU: m.GetLRU,
		containsKey: m.ContainsKey, containsValue: m.ContainsValue, firstKey: m.GetFirstKey, lastKey: m.GetLastKey,
		firstValue: m.GetFirstValue, lastValue: m.GetLastValue, remove: m.Remove,
		removeFirst: m.RemoveFirst, removeLast: m.RemoveLast, isEmpty: m.IsEmpty, isFull: m.IsFull, clear: m.Clear,
		setMax: func(n int) { m.SetMax(n) }, sort: m.Sort,
		keys: func() []int32 { return drainInt(m.Keys(), m.Size(), dm) },
		openKeys: func() func() []int32 {
			en := m.Keys()
			return func() []int32 { return drainInt(en, m.Size(), dm) }
		},
		keyArray: m.KeyArray,
		values:   func() []interface{} { return drainEnum(m.Values(), m.Size(), dm) },
		entries:  func() []interface{} { return drainEnum(m.Entries(), m.Size(), dm) },
		openEntries: func() func() []interface{} {
			en := m.Entries()
			return func() []interface{} { return drainEnum(en, m.Size(), dm) }
		},
		toK: toI32, kTok: i32Tok, less: lessI32}
	a.entryEq = func(x, y interface{}) (bool, uint) {
		p, q := x.(*hmap.IntKeyLinkedEntry), y.(*hmap.IntKeyLinkedEntry)
		return p.Equals(q), p.HashCode()
	}
	a.toFormatString = m.ToFormatString
	a.valueIter = func() []interface{} { // ValueIterator(), driven with HasNext / Next; Remove() is a no-op
		en, ok := m.ValueIterator().(*hmap.IntKeyLinkedEnumer)
		if !ok {
			return []interface{}{"?ValueIterator type"}
		}
		var out []interface{}
		for i := 0; en.HasNext() && i < m.Size()+enumSlack; i++ {
			out = append(out, en.Next())
			en.Remove()
		}
		return out
	}
	a.enumFrom = func(e interface{}) []int32 {
		return drainInt(hmap.NewIntKeyLinkedEnumer(m, e.(*hmap.IntKeyLinkedEntry), hmap.ELEMENT_TYPE_KEYS), m.Size(), nil)
	}
	a.toKeySet = func() []int32 {
		var out []int32
		l := m.ToKeySet()
		for e := l.Front(); e != nil; e = e.Next() {
			if k, ok := e.Value.(int32); ok {
				out = append(out, k)
			}
		}
		return out
	}
	it := a.inst()
	var keptSet *hmap.IntLinkedSet // a result the caller kept unmodified; it must still hold its keys later
	var keptKeys string
	calls := 0
	it.keySetWrite = func() string {
		note := ""
		if keptSet != nil {
			var toks []string
			for _, k := range drainInt(keptSet.Keys(), keptSet.Size(), nil) {
				toks = append(toks, i32Tok(k))
			}
			if joinToks(toks) != keptKeys {
				note = "!kept-GetKeySet-result-changed:" + joinToks(toks)
			}
			keptSet = nil
		}
		set := m.GetKeySet()
		var toks []string
		for _, k := range drainInt(set.Keys(), set.Size(), nil) {
			toks = append(toks, i32Tok(k))
		}
		l := m.ToKeySet() // PushFront of every key: back → front is the map's order
		var toks2 []string
		for e := l.Back(); e != nil; e = e.Prev() {
			if k, ok := e.Value.(int32); ok {
				toks2 = append(toks2, i32Tok(k))
			}
		}
		out := joinToks(toks)
		if joinToks(toks2) != out {
			out += "!ToKeySet=" + joinToks(toks2)
		}
		calls++
		if calls%2 == 1 {
			keptSet, keptKeys = set, joinToks(toks) // kept as returned
		} else { // the caller owns the results and modifies them
			set.Put(123456789)
			set.RemoveFirst()
			set.Clear()
		}
		l.Init()
		return out + note
	}
	return it
}

func newLongKeyLinkedMap(c ctor) *inst {
	dm := new(int) // how the enumerators of this instance are driven (rotated by the dumps)
	var m *hmap.LongKeyLinkedMap
	if c.def {
		m = hmap.NewLongKeyLinkedMapDefault()
	} else {
		m = hmap.NewLongKeyLinkedMap(c.cap, c.lf)
	}
	a := &objAPI[int64]{dm: dm, toString: m.ToString, size: m.Size, put: m.Put, putLast: m.PutLast, putFirst: m.PutFirst, get: m.Get,
		containsKey: m.ContainsKey, firstKey: m.GetFirstKey, lastKey: m.GetLastKey,
		firstValue: m.GetFirstValue, lastValue: m.GetLastValue, remove: m.Remove,
		removeFirst: m.RemoveFirst, removeLast: m.RemoveLast, isEmpty: m.IsEmpty, isFull: m.IsFull, clear: m.Clear,
		setMax: func(n int) { m.SetMax(n) }, sort: m.Sort,
		keys: func() []int64 { return drainLong(m.Keys(), m.Size(), dm) },
		openKeys: func() func() []int64 {
			en := m.Keys()
			return func() []int64 { return drainLong(en, m.Size(), dm) }
		},
		keyArray: m.KeyArray,
		values:   func() []interface{} { return drainEnum(m.Values(), m.Size(), dm) },
		entries:  func() []interface{} { return drainEnum(m.Entries(), m.Size(), dm) },
		openEntries: func() func() []interface{} {
			en := m.Entries()
			return func() []interface{} { return drainEnum(en, m.Size(), dm) }
		},
		toK: toI64, kTok: i64Tok, less: lessI64}
	a.entryEq = func(x, y interface{}) (bool, uint) {
		p, q := x.(*hmap.LongKeyLinkedEntry), y.(*hmap.LongKeyLinkedEntry)
		return p.Equals(q), p.HashCode()
	}
	return a.inst()
}

func newStringKeyLinkedMap(c ctor) *inst {
	dm := new(int) // how the enumerators of this instance are driven (rotated by the dumps)
	m := hmap.NewStringKeyLinkedMap()
	a := &objAPI[string]{dm: dm, toString: m.ToString, size: m.Size, put: m.Put, putLast: m.PutLast, putFirst: m.PutFirst, get: m.Get,
		containsKey: m.ContainsKey, firstKey: m.GetFirstKey, lastKey: m.GetLastKey,
		firstValue: m.GetFirstValue, lastValue: m.GetLastValue, remove: m.Remove,
		removeFirst: m.RemoveFirst, removeLast: m.RemoveLast, isEmpty: m.IsEmpty, isFull: m.IsFull, clear: m.Clear,
		setMax: func(n int) { m.SetMax(n) }, sort: m.Sort,
		keys: func() []string { return drainStr(m.Keys(), m.Size(), dm) },
		openKeys: func() func() []string {
			en := m.Keys()
			return func() []string { return drainStr(en, m.Size(), dm) }
		},
		keyArray: m.KeyArray,
		values:   func() []interface{} { return drainEnum(m.Values(), m.Size(), dm) },
		entries:  func() []interface{} { return drainEnum(m.Entries(), m.Size(), dm) },
		openEntries: func() func() []interface{} {
			en := m.Entries()
			return func() []interface{} { return drainEnum(en, m.Size(), dm) }
		},
		toK: toStr, kTok: strTok, less: lessStr}
	a.entryEq = func(x, y interface{}) (bool, uint) {
		p, q := x.(*hmap.StringKeyLinkedEntry), y.(*hmap.StringKeyLinkedEntry)
		return p.Equals(q), p.HashCode()
	}
	a.hashWant = func(k string) (uint, bool) { return uint(hash.Hash([]byte(k))), true }
	return a.inst()
}

// ---------------------------------------------------------------- typed-value maps

type numAPI[K any, W any] struct {
	size                              func() int
	put, putLast, putFirst            func(K, W) W
	add, addLast, addFirst, addNoOver func(K, W) W
	get                               func(K) W
	containsKey                       func(K) bool
	containsValue                     func(W) bool
	firstKey, lastKey                 func() K
	firstValue, lastValue             func() W
	remove                            func(K) W
	removeFirst, removeLast           func() W
	isEmpty, isFull                   func() bool
	clear                             func()
	setMax                            func(int)
	setNull                           func(W) // SetNullValue (three types)
	sort                              func(func(a, b K) bool)
	keys, keyArray                    func() []K
	values                            func() ([]W, string)
	entries                           func() []interface{}
	toK                               func(key) K
	kTok                              func(K) string
	less                              func(a, b K) bool
	toW                               func(int64) W
	wTok                              func(W) string
	openKeys                          func() func() []K
	openEntries                       func() func() []interface{}
	dm                                *int
	toString                          func() string
	entryEq                           func(a, b interface{}) (bool, uint) // a.Equals(b), a.HashCode()
	hashWant                          func(K) (uint, bool)                // HashCode delegated to the key: what it must be
	enumFrom                          func(e interface{}) []K             // New<Type>Enumer(parent, e, KEYS) drained
}

func (a *numAPI[K, W]) findEntry(k K) interface{} {
	save := *a.dm
	*a.dm = 0
	defer func() { *a.dm = save }()
	for _, e := range a.entries() {
		if g, ok := e.(kwGetter[K, W]); ok && a.kTok(g.GetKey()) == a.kTok(k) {
			return e
		}
	}
	return nil
}

type kwGetter[K any, W any] interface {
	GetKey() K
	GetValue() W
}

func (a *numAPI[K, W]) inst() *inst {
	it := &inst{
		exec: func(o op) string {
			k := a.toK(o.k)
			w := a.toW(o.v)
			switch o.code {
			case "P":
				switch o.mode {
				case "L":
					return a.wTok(a.put(k, w))
				case "FL":
					return a.wTok(a.putLast(k, w))
				case "FF":
					return a.wTok(a.putFirst(k, w))
				}
			case "A":
				switch o.mode {
				case "L":
					return a.wTok(a.add(k, w))
				case "FL":
					return a.wTok(a.addLast(k, w))
				case "FF":
					return a.wTok(a.addFirst(k, w))
				}
			case "AN":
				if a.addNoOver != nil {
					return a.wTok(a.addNoOver(k, w))
				}
			case "G":
				return a.wTok(a.get(k))
			case "CK":
				return boolTok(a.containsKey(k))
			case "CV":
				return boolTok(a.containsValue(w))
			case "FK":
				return a.kTok(a.firstKey())
			case "LK":
				return a.kTok(a.lastKey())
			case "FV":
				return a.wTok(a.firstValue())
			case "LV":
				return a.wTok(a.lastValue())
			case "R":
				return a.wTok(a.remove(k))
			case "RF":
				return a.wTok(a.removeFirst())
			case "RL":
				return a.wTok(a.removeLast())
			case "C":
				a.clear()
				return "u"
			case "SZ":
				return strconv.Itoa(a.size())
			case "IE":
				return boolTok(a.isEmpty())
			case "IF":
				return boolTok(a.isFull())
			case "SM":
				a.setMax(o.n)
				return "u"
			case "SN":
				if a.setNull != nil {
					a.setNull(w)
					return strconv.Itoa(a.size())
				}
			case "SO":
				if o.asc {
					a.sort(a.less)
				} else {
					a.sort(func(x, y K) bool { return a.less(y, x) })
				}
				return "u"
			case "TS": // ToString(): the text the model renders from the dictionary
				return textTok(a.toString())
			case "ESV": // SetValue on the live entry object handed out by Entries()
				e := a.findEntry(k)
				if e == nil {
					return "-"
				}
				if sv, ok := e.(interface{ SetValue(W) W }); ok {
					return a.wTok(sv.SetValue(w))
				}
				return fmt.Sprintf("?%T", e)
			case "EQ":
				if a.entryEq != nil {
					e1, e2 := a.findEntry(k), a.findEntry(a.toK(o.k2))
					if e1 == nil || e2 == nil {
						return "-"
					}
					eq, h := a.entryEq(e1, e2)
					if a.hashWant != nil {
						if w, ok := a.hashWant(k); ok && w == h {
							h = 0
						}
					}
					return boolTok(eq) + ":" + strconv.FormatUint(uint64(h), 10)
				}
			case "ENF":
				if a.enumFrom != nil {
					e := a.findEntry(k)
					if e == nil {
						return "[]"
					}
					var toks []string
					for _, x := range a.enumFrom(e) {
						toks = append(toks, a.kTok(x))
					}
					return joinToks(toks)
				}
			}
			return "?unsupported"
		},
		dump: func() dump {
			*a.dm++ // next way of driving the enumerators
			d := dump{hasVals: true}
			for _, e := range a.entries() {
				g, ok := e.(kwGetter[K, W])
				if !ok {
					d.note = fmt.Sprintf("Entries() element of type %T", e)
					continue
				}
				d.entries = append(d.entries, pairS{a.kTok(g.GetKey()), a.wTok(g.GetValue())})
			}
			for _, k := range a.keys() {
				d.keys = append(d.keys, a.kTok(k))
			}
			vs, note := a.values()
			if note != "" {
				d.note = note
			}
			for _, v := range vs {
				d.values = append(d.values, a.wTok(v))
			}
			for _, k := range a.keyArray() {
				d.keyArray = append(d.keyArray, a.kTok(k))
			}
			d.size = a.size()
			return d
		},
	}
	var keptArr []K // a result the caller kept unmodified: it must still hold its keys at the next call
	var keptToks string
	kaCalls := 0
	it.keyArrayWrite = func() string {
		note := ""
		if keptArr != nil {
			var toks []string
			for _, k := range keptArr {
				toks = append(toks, a.kTok(k))
			}
			if joinToks(toks) != keptToks {
				note = "!kept-KeyArray-result-changed:" + joinToks(toks)
			}
			keptArr = nil
		}
		ks := a.keyArray()
		var toks []string
		for _, k := range ks {
			toks = append(toks, a.kTok(k))
		}
		kaCalls++
		if kaCalls%2 == 1 && len(ks) > 0 {
			keptArr, keptToks = ks, joinToks(toks)
		} else { // the caller owns the slice and overwrites it
			var zero K
			for i := range ks {
				ks[i] = zero
			}
		}
		return joinToks(toks) + note
	}
	var pendE func() []interface{}
	var pendK func() []K
	it.openEnum = func() { *a.dm++; pendE, pendK = a.openEntries(), a.openKeys() }
	it.drainEnum = func() string {
		if pendE == nil {
			it.openEnum()
		}
		var ps []pairS
		var ks, ks2 []string
		for _, e := range pendE() {
			if g, ok := e.(kwGetter[K, W]); ok {
				ps = append(ps, pairS{a.kTok(g.GetKey()), a.wTok(g.GetValue())})
				ks = append(ks, a.kTok(g.GetKey()))
			}
		}
		for _, k := range pendK() {
			ks2 = append(ks2, a.kTok(k))
		}
		pendE, pendK = nil, nil
		out := joinPairs(ps)
		if joinToks(ks) != joinToks(ks2) {
			out += "!keys=" + joinToks(ks2)
		}
		return out
	}
	return it
}

func w32(v int64) int32    { return int32(v) }
func w64(v int64) int64    { return v }
func wf32(v int64) float32 { return math.Float32frombits(uint32(v)) } // the op carries the bit pattern

func newIntIntLinkedMap(c ctor) *inst {
	dm := new(int) // how the enumerators of this instance are driven (rotated by the dumps)
	m := hmap.NewIntIntLinkedMap()
	a := &numAPI[int32, int32]{dm: dm, toString: m.ToString, size: m.Size, put: m.Put, putLast: m.PutLast, putFirst: m.PutFirst,
		add: m.Add, addLast: m.AddLast, addFirst: m.AddFirst, addNoOver: m.AddNoOver, get: m.Get,
		containsKey: m.ContainsKey, containsValue: m.ContainsValue, firstKey: m.GetFirstKey, lastKey: m.GetLastKey,
		firstValue: m.GetFirstValue, lastValue: m.GetLastValue, remove: m.Remove, removeFirst: m.RemoveFirst, removeLast: m.RemoveLast,
		isEmpty: m.IsEmpty, isFull: m.IsFull, clear: m.Clear, setMax: func(n int) { m.SetMax(n) }, sort: m.Sort,
		keys: func() []int32 { return drainInt(m.Keys(), m.Size(), dm) }, keyArray: m.KeyArray,
		openKeys: func() func() []int32 {
			en := m.Keys()
			return func() []int32 { return drainInt(en, m.Size(), dm) }
		},
		values:  func() ([]int32, string) { return drainInt(m.Values(), m.Size(), dm), "" },
		entries: func() []interface{} { return drainEnum(m.Entries(), m.Size(), dm) },
		openEntries: func() func() []interface{} {
			en := m.Entries()
			return func() []interface{} { return drainEnum(en, m.Size(), dm) }
		},
		toK: toI32, kTok: i32Tok, less: lessI32, toW: w32, wTok: i32Tok}
	a.entryEq = func(x, y interface{}) (bool, uint) {
		p, q := x.(*hmap.IntIntLinkedEntry), y.(*hmap.IntIntLinkedEntry)
		return p.Equals(q), p.HashCode()
	}
	it := a.inst()
	it.toBytes = func() []byte {
		o := gio.NewDataOutputX()
		m.ToBytes(o)
		return o.ToByteArray()
	}
	it.toObjectBytes = func(b []byte) { m.ToObject(gio.NewDataInputX(b)) }
	return it
}

func newLongLongLinkedMap(c ctor) *inst {
	dm := new(int) // how the enumerators of this instance are driven (rotated by the dumps)
	var m *hmap.LongLongLinkedMap
	if c.def {
		m = hmap.NewLongLongLinkedMapDefault()
	} else {
		m = hmap.NewLongLongLinkedMap(c.cap, c.lf)
	}
	a := &numAPI[int64, int64]{dm: dm, setNull: func(v int64) { m.SetNullValue(v) }, toString: m.ToString, size: m.Size, put: m.Put, putLast: m.PutLast, putFirst: m.PutFirst,
		add: m.Add, addLast: m.AddLast, addFirst: m.AddFirst, get: m.Get,
		containsKey: m.ContainsKey, containsValue: m.ContainsValue, firstKey: m.GetFirstKey, lastKey: m.GetLastKey,
		firstValue: m.GetFirstValue, lastValue: m.GetLastValue, remove: m.Remove, removeFirst: m.RemoveFirst, removeLast: m.RemoveLast,
		isEmpty: m.IsEmpty, isFull: m.IsFull, clear: m.Clear, setMax: func(n int) { m.SetMax(n) }, sort: m.Sort,
		keys: func() []int64 { return drainLong(m.Keys(), m.Size(), dm) }, keyArray: m.KeyArray,
		openKeys: func() func() []int64 {
			en := m.Keys()
			return func() []int64 { return drainLong(en, m.Size(), dm) }
		},
		values:  func() ([]int64, string) { return drainLong(m.Values(), m.Size(), dm), "" },
		entries: func() []interface{} { return drainEnum(m.Entries(), m.Size(), dm) },
		openEntries: func() func() []interface{} {
			en := m.Entries()
			return func() []interface{} { return drainEnum(en, m.Size(), dm) }
		},
		toK: toI64, kTok: i64Tok, less: lessI64, toW: w64, wTok: i64Tok}
	a.entryEq = func(x, y interface{}) (bool, uint) {
		p, q := x.(*hmap.LongLongLinkedEntry), y.(*hmap.LongLongLinkedEntry)
		return p.Equals(q), p.HashCode()
	}
	a.enumFrom = func(e interface{}) []int64 { // the exported constructor leaves isKey unset: NextElement hands out the entries
		var out []int64
		for _, x := range drainEnum(hmap.NewLongLongLinkedEnumer(m, e.(*hmap.LongLongLinkedEntry), hmap.ELEMENT_TYPE_KEYS), m.Size(), nil) {
			if g, ok := x.(*hmap.LongLongLinkedEntry); ok {
				out = append(out, g.GetKey())
			}
		}
		return out
	}
	it := a.inst()
	it.toBytes = func() []byte {
		o := gio.NewDataOutputX()
		m.ToBytes(o)
		return o.ToByteArray()
	}
	it.toObjectBytes = func(b []byte) { m.ToObject(gio.NewDataInputX(b)) }
	return it
}

func newIntFloatLinkedMap(c ctor) *inst {
	dm := new(int) // how the enumerators of this instance are driven (rotated by the dumps)
	m := hmap.NewIntFloatLinkedMap()
	a := &numAPI[int32, float32]{dm: dm, toString: m.ToString, size: m.Size, put: m.Put, putLast: m.PutLast, putFirst: m.PutFirst,
		add: m.Add, addLast: m.AddLast, addFirst: m.AddFirst, get: m.Get,
		containsKey: m.ContainsKey, containsValue: m.ContainsValue, firstKey: m.GetFirstKey, lastKey: m.GetLastKey,
		firstValue: m.GetFirstValue, lastValue: m.GetLastValue, remove: m.Remove, removeFirst: m.RemoveFirst, removeLast: m.RemoveLast,
		isEmpty: m.IsEmpty, isFull: m.IsFull, clear: m.Clear, setMax: func(n int) { m.SetMax(n) }, sort: m.Sort,
		keys: func() []int32 { return drainInt(m.Keys(), m.Size(), dm) }, keyArray: m.KeyArray,
		openKeys: func() func() []int32 {
			en := m.Keys()
			return func() []int32 { return drainInt(en, m.Size(), dm) }
		},
		values:  func() ([]float32, string) { return drainFloat(m.Values(), m.Size(), dm), "" },
		entries: func() []interface{} { return drainEnum(m.Entries(), m.Size(), dm) },
		openEntries: func() func() []interface{} {
			en := m.Entries()
			return func() []interface{} { return drainEnum(en, m.Size(), dm) }
		},
		toK: toI32, kTok: i32Tok, less: lessI32, toW: wf32, wTok: f32Tok}
	a.entryEq = func(x, y interface{}) (bool, uint) {
		p, q := x.(*hmap.IntFloatLinkedEntry), y.(*hmap.IntFloatLinkedEntry)
		return p.Equals(q), p.HashCode()
	}
	it := a.inst()
	it.toBytes = func() []byte {
		o := gio.NewDataOutputX()
		m.ToBytes(o)
		return o.ToByteArray()
	}
	it.toObjectBytes = func(b []byte) { m.ToObject(gio.NewDataInputX(b)) }
	return it
}

func newLongFloatLinkedMap(c ctor) *inst {
	dm := new(int) // how the enumerators of this instance are driven (rotated by the dumps)
	m := hmap.NewLongFloatLinkedMap()
	a := &numAPI[int64, float32]{dm: dm, toString: m.ToString, size: m.Size, put: m.Put, putLast: m.PutLast, putFirst: m.PutFirst,
		add: m.Add, addLast: m.AddLast, addFirst: m.AddFirst, get: m.Get,
		containsKey: m.ContainsKey, containsValue: m.ContainsValue, firstKey: m.GetFirstKey, lastKey: m.GetLastKey,
		firstValue: m.GetFirstValue, lastValue: m.GetLastValue, remove: m.Remove, removeFirst: m.RemoveFirst, removeLast: m.RemoveLast,
		isEmpty: m.IsEmpty, isFull: m.IsFull, clear: m.Clear, setMax: func(n int) { m.SetMax(n) }, sort: m.Sort,
		keys: func() []int64 { return drainLong(m.Keys(), m.Size(), dm) }, keyArray: m.KeyArray,
		openKeys: func() func() []int64 {
			en := m.Keys()
			return func() []int64 { return drainLong(en, m.Size(), dm) }
		},
		values:  func() ([]float32, string) { return drainFloat(m.Values(), m.Size(), dm), "" },
		entries: func() []interface{} { return drainEnum(m.Entries(), m.Size(), dm) },
		openEntries: func() func() []interface{} {
			en := m.Entries()
			return func() []interface{} { return drainEnum(en, m.Size(), dm) }
		},
		toK: toI64, kTok: i64Tok, less: lessI64, toW: wf32, wTok: f32Tok}
	a.entryEq = func(x, y interface{}) (bool, uint) {
		p, q := x.(*hmap.LongFloatLinkedEntry), y.(*hmap.LongFloatLinkedEntry)
		return p.Equals(q), p.HashCode()
	}
	it := a.inst()
	it.toBytes = func() []byte {
		o := gio.NewDataOutputX()
		m.ToBytes(o)
		return o.ToByteArray()
	}
	it.toObjectBytes = func(b []byte) { m.ToObject(gio.NewDataInputX(b)) }
	return it
}

func newStringIntLinkedMap(c ctor) *inst {
	dm := new(int) // how the enumerators of this instance are driven (rotated by the dumps)
	m := hmap.NewStringIntLinkedMap()
	asV := func(x interface{}) int32 { return x.(int32) }
	a := &numAPI[string, int32]{dm: dm, setNull: func(v int32) { m.SetNullValue(v) }, toString: m.ToString, size: m.Size, put: m.Put, putLast: m.PutLast, putFirst: m.PutFirst,
		add: m.Add, addLast: m.AddLast, addFirst: m.AddFirst, get: m.Get,
		containsKey: m.ContainsKey, containsValue: m.ContainsValue, firstKey: m.GetFirstKey, lastKey: m.GetLastKey,
		firstValue: func() int32 { return asV(m.GetFirstValue()) }, lastValue: func() int32 { return asV(m.GetLastValue()) },
		remove:      func(k string) int32 { return asV(m.Remove(k)) },
		removeFirst: func() int32 { return asV(m.RemoveFirst()) }, removeLast: func() int32 { return asV(m.RemoveLast()) },
		isEmpty: m.IsEmpty, isFull: m.IsFull, clear: m.Clear, setMax: func(n int) { m.SetMax(n) }, sort: m.Sort,
		keys: func() []string { return drainStr(m.Keys(), m.Size(), dm) }, keyArray: m.KeyArray,
		openKeys: func() func() []string {
			en := m.Keys()
			return func() []string { return drainStr(en, m.Size(), dm) }
		},
		values: func() ([]int32, string) {
			var out []int32
			note := ""
			for _, x := range drainEnum(m.Values(), m.Size(), dm) {
				if v, ok := x.(int32); ok {
					out = append(out, v)
				} else {
					note = fmt.Sprintf("Values() element of type %T", x)
				}
			}
			return out, note
		},
		entries: func() []interface{} { return drainEnum(m.Entries(), m.Size(), dm) },
		openEntries: func() func() []interface{} {
			en := m.Entries()
			return func() []interface{} { return drainEnum(en, m.Size(), dm) }
		},
		toK: toStr, kTok: strTok, less: lessStr, toW: w32, wTok: i32Tok}
	a.entryEq = func(x, y interface{}) (bool, uint) {
		p, q := x.(*hmap.StringIntLinkedEntry), y.(*hmap.StringIntLinkedEntry)
		return p.Equals(q), p.HashCode()
	}
	a.hashWant = func(k string) (uint, bool) { return uint(hash.Hash([]byte(k))), true }
	a.enumFrom = func(e interface{}) []string {
		return drainStr(hmap.NewStringIntLinkedEnumer(m, e.(*hmap.StringIntLinkedEntry), hmap.ELEMENT_TYPE_KEYS), m.Size(), nil)
	}
	return a.inst()
}

func newStringLongLinkedMap(c ctor) *inst {
	dm := new(int) // how the enumerators of this instance are driven (rotated by the dumps)
	m := hmap.NewStringLongLinkedMap()
	asV := func(x interface{}) int64 { return x.(int64) }
	a := &numAPI[string, int64]{dm: dm, setNull: func(v int64) { m.SetNullValue(v) }, toString: m.ToString, size: m.Size, put: m.Put, putLast: m.PutLast, putFirst: m.PutFirst,
		add: m.Add, addLast: m.AddLast, addFirst: m.AddFirst, get: m.Get,
		containsKey: m.ContainsKey, containsValue: m.ContainsValue, firstKey: m.GetFirstKey, lastKey: m.GetLastKey,
		firstValue: func() int64 { return asV(m.GetFirstValue()) }, lastValue: func() int64 { return asV(m.GetLastValue()) },
		remove:      func(k string) int64 { return asV(m.Remove(k)) },
		removeFirst: func() int64 { return asV(m.RemoveFirst()) }, removeLast: func() int64 { return asV(m.RemoveLast()) },
		isEmpty: m.IsEmpty, isFull: m.IsFull, clear: m.Clear, setMax: func(n int) { m.SetMax(n) }, sort: m.Sort,
		keys: func() []string { return drainStr(m.Keys(), m.Size(), dm) }, keyArray: m.KeyArray,
		openKeys: func() func() []string {
			en := m.Keys()
			return func() []string { return drainStr(en, m.Size(), dm) }
		},
		values: func() ([]int64, string) {
			var out []int64
			note := ""
			for _, x := range drainEnum(m.Values(), m.Size(), dm) {
				if v, ok := x.(int64); ok {
					out = append(out, v)
				} else {
					note = fmt.Sprintf("Values() element of type %T", x)
				}
			}
			return out, note
		},
		entries: func() []interface{} { return drainEnum(m.Entries(), m.Size(), dm) },
		openEntries: func() func() []interface{} {
			en := m.Entries()
			return func() []interface{} { return drainEnum(en, m.Size(), dm) }
		},
		toK: toStr, kTok: strTok, less: lessStr, toW: w64, wTok: i64Tok}
	a.entryEq = func(x, y interface{}) (bool, uint) {
		p, q := x.(*hmap.StringLongLinkedEntry), y.(*hmap.StringLongLinkedEntry)
		return p.Equals(q), p.HashCode()
	}
	a.hashWant = func(k string) (uint, bool) { return uint(hash.Hash([]byte(k))), true }
	a.enumFrom = func(e interface{}) []string {
		return drainStr(hmap.NewStringLongLinkedEnumer(m, e.(*hmap.StringLongLinkedEntry), hmap.ELEMENT_TYPE_KEYS), m.Size(), nil)
	}
	return a.inst()
}

// ---------------------------------------------------------------- sets

type setAPI[K any] struct {
	size                    func() int
	put, putLast, putFirst  func(K) interface{}
	contains                func(K) bool
	first, last             func() K
	remove                  func(K) interface{}
	removeFirst, removeLast func() interface{}
	isEmpty, isFull         func() bool
	clear                   func()
	setMax                  func(int)
	sort                    func(func(a, b K) bool)
	keys, keyArray          func() []K
	toK                     func(key) K
	kTok                    func(K) string
	less                    func(a, b K) bool
	retTok                  func(interface{}) string // the key an operation returned
	openKeys                func() func() []K
	dm                      *int
	toString                func() string
	kStr                    func(K) string // how ToString prints a key
	unipoint                func(K) K      // StringLinkedSet.Unipoint
}

// setRet renders the result of put/remove on a set: the key itself when the element was present,
// nil / int 0 when it was not.
func (a *setAPI[K]) ret(x interface{}) string {
	switch t := x.(type) {
	case nil:
		return "-"
	case int:
		if t == 0 {
			return "-"
		}
	}
	return "K:" + a.retTok(x)
}

func (a *setAPI[K]) inst() *inst {
	it := &inst{
		exec: func(o op) string {
			k := a.toK(o.k)
			switch o.code {
			case "P":
				switch o.mode {
				case "L":
					return a.ret(a.put(k))
				case "FL":
					return a.ret(a.putLast(k))
				case "FF":
					return a.ret(a.putFirst(k))
				}
			case "CK":
				return boolTok(a.contains(k))
			case "FK":
				return a.kTok(a.first())
			case "LK":
				return a.kTok(a.last())
			case "R":
				return a.ret(a.remove(k))
			case "RF":
				return a.ret(a.removeFirst())
			case "RL":
				return a.ret(a.removeLast())
			case "C":
				a.clear()
				return "u"
			case "SZ":
				return strconv.Itoa(a.size())
			case "IE":
				return boolTok(a.isEmpty())
			case "IF":
				return boolTok(a.isFull())
			case "SM":
				a.setMax(o.n)
				return "u"
			case "SO":
				if o.asc {
					a.sort(a.less)
				} else {
					a.sort(func(x, y K) bool { return a.less(y, x) })
				}
				return "u"
			case "TS": // ToString(): the text the model renders from the dictionary
				return textTok(a.toString())
			case "UP":
				if a.unipoint != nil {
					return a.kTok(a.unipoint(k))
				}
			}
			return "?unsupported"
		},
		dump: func() dump {
			*a.dm++
			d := dump{}
			for _, k := range a.keys() {
				d.keys = append(d.keys, a.kTok(k))
				d.entries = append(d.entries, pairS{a.kTok(k), "0"})
			}
			for _, k := range a.keyArray() {
				d.keyArray = append(d.keyArray, a.kTok(k))
			}
			d.size = a.size()
			return d
		},
	}
	var keptArr []K // a result the caller kept unmodified: it must still hold its keys at the next call
	var keptToks string
	kaCalls := 0
	it.keyArrayWrite = func() string {
		note := ""
		if keptArr != nil {
			var toks []string
			for _, k := range keptArr {
				toks = append(toks, a.kTok(k))
			}
			if joinToks(toks) != keptToks {
				note = "!kept-KeyArray-result-changed:" + joinToks(toks)
			}
			keptArr = nil
		}
		ks := a.keyArray()
		var toks []string
		for _, k := range ks {
			toks = append(toks, a.kTok(k))
		}
		kaCalls++
		if kaCalls%2 == 1 && len(ks) > 0 {
			keptArr, keptToks = ks, joinToks(toks)
		} else { // the caller owns the slice and overwrites it
			var zero K
			for i := range ks {
				ks[i] = zero
			}
		}
		return joinToks(toks) + note
	}
	var pendK func() []K
	it.openEnum = func() { *a.dm++; pendK = a.openKeys() }
	it.drainEnum = func() string {
		if pendK == nil {
			it.openEnum()
		}
		var ps []pairS
		for _, k := range pendK() {
			ps = append(ps, pairS{a.kTok(k), "0"})
		}
		pendK = nil
		return joinPairs(ps)
	}
	return it
}

func newLinkedSet(c ctor) *inst {
	dm := new(int) // how the enumerators of this instance are driven (rotated by the dumps)
	m := hmap.NewLinkedSet()
	a := &setAPI[hmap.LinkedKey]{dm: dm, toString: m.ToString, size: m.Size, put: m.Put, putLast: m.PutLast, putFirst: m.PutFirst, contains: m.Contains,
		first: m.GetFirst, last: m.GetLast, remove: m.Remove, removeFirst: m.RemoveFirst, removeLast: m.RemoveLast,
		isEmpty: m.IsEmpty, isFull: m.IsFull, clear: m.Clear, setMax: func(n int) { m.SetMax(n) }, sort: m.Sort,
		keys: func() []hmap.LinkedKey {
			var out []hmap.LinkedKey
			for _, x := range drainEnum(m.Keys(), m.Size(), dm) {
				lk, _ := x.(hmap.LinkedKey)
				out = append(out, lk)
			}
			return out
		},
		openKeys: func() func() []hmap.LinkedKey {
			en := m.Keys()
			return func() []hmap.LinkedKey {
				var out []hmap.LinkedKey
				for _, x := range drainEnum(en, m.Size(), dm) {
					lk, _ := x.(hmap.LinkedKey)
					out = append(out, lk)
				}
				return out
			}
		},
		keyArray: m.KeyArray,
		toK:      func(k key) hmap.LinkedKey { return &hk{id: k.i, mode: c.hmode} }, kTok: objKeyTok, less: lessObj,
		kStr: func(k hmap.LinkedKey) string { return fmt.Sprintf("%v", k) },
		retTok: func(x interface{}) string {
			lk, _ := x.(hmap.LinkedKey)
			return objKeyTok(lk)
		}}
	return a.inst()
}

func newIntLinkedSet(c ctor) *inst {
	dm := new(int) // how the enumerators of this instance are driven (rotated by the dumps)
	m := hmap.NewIntLinkedSet()
	a := &setAPI[int32]{dm: dm, toString: m.ToString, size: m.Size, put: m.Put, putLast: m.PutLast, putFirst: m.PutFirst, contains: m.Contains,
		first: m.GetFirst, last: m.GetLast, remove: m.Remove, removeFirst: m.RemoveFirst, removeLast: m.RemoveLast,
		isEmpty: m.IsEmpty, isFull: m.IsFull, clear: m.Clear, setMax: func(n int) { m.SetMax(n) }, sort: m.Sort,
		keys: func() []int32 { return drainInt(m.Keys(), m.Size(), dm) },
		openKeys: func() func() []int32 {
			en := m.Keys()
			return func() []int32 { return drainInt(en, m.Size(), dm) }
		},
		keyArray: m.KeyArray,
		toK:      toI32, kTok: i32Tok, less: lessI32,
		kStr: func(k int32) string { return fmt.Sprintf("%d", k) },
		retTok: func(x interface{}) string {
			if v, ok := x.(int32); ok {
				return i32Tok(v)
			}
			return fmt.Sprintf("?%T", x)
		}}
	return a.inst()
}

func newStringLinkedSet(c ctor) *inst {
	dm := new(int) // how the enumerators of this instance are driven (rotated by the dumps)
	m := hmap.NewStringLinkedSet()
	a := &setAPI[string]{dm: dm, toString: m.ToString, size: m.Size, put: m.Put, putLast: m.PutLast, putFirst: m.PutFirst, contains: m.Contains,
		first: m.GetFirst, last: m.GetLast, remove: m.Remove, removeFirst: m.RemoveFirst, removeLast: m.RemoveLast,
		isEmpty: m.IsEmpty, isFull: m.IsFull, clear: m.Clear, setMax: func(n int) { m.SetMax(n) }, sort: m.Sort,
		keys: func() []string { return drainStr(m.Keys(), m.Size(), dm) },
		openKeys: func() func() []string {
			en := m.Keys()
			return func() []string { return drainStr(en, m.Size(), dm) }
		},
		keyArray: m.GetArray,
		toK:      toStr, kTok: strTok, less: lessStr,
		kStr: func(k string) string { return k },
		retTok: func(x interface{}) string {
			if v, ok := x.(string); ok {
				return strTok(v)
			}
			return fmt.Sprintf("?%T", x)
		}}
	a.unipoint = m.Unipoint
	return a.inst()
}
