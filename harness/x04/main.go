// Correspondence harness for the extension check X04: lang/topology.NODE, util/panicutil (Safe, SafeFor, switches,
// perf map, Cycle), util/keygen, util/dateutil DateSyncTime against the Lean CodeModels Golib.Ext.Topo /
// Golib.Ext.SafeLoop (driver drv_x04).
//
// Every case is a request line in the driver's syntax; the real code (impl.go) and the Lean model answer it.
// Beside that the evident laws are evaluated directly on the implementation (laws.go).
//
//	law fails on the implementation                  → kind "property"
//	laws hold (or the known quirk), model ≠ impl     → kind "correspondence"
package main

import (
	"encoding/json"
	"fmt"
	"os"
	"strings"

	"verif/harness/vh"
)

type kase struct {
	line string
	impl string
}

func main() {
	env, rep := vh.Parse("X04")
	rng := vh.NewRng(env.Seed)
	rep.Rule = "one case = one request line: a NODE history (N: AddListen/AddOutter/IsAttachable/ToBytes over address strings assembled from " +
		"dotted quads, wildcards, IPv6 forms, 127.x, malformed octets, missing separators, boundary ports), a NODE.ToObject on valid payloads, " +
		"type-byte-stripped payloads, truncations and mutations (D), dotted-quad parsing (P4), IPO predicates (I), a panicutil op history (S: " +
		"SetLoopOffMap/SetOnOff/AllOff/Safe/SafeFor/ResetPerfMap/Cycle with returning, panicking and AllOff-setting callbacks, ids around 0 and " +
		"MAX_COUNTERS), keygen logic (K) and the DateSyncTime life cycle (Y); non-trivial: histories with at least one state-changing op / " +
		"lines with a non-empty argument; distinct = distinct request lines"

	var lines []string
	if env.Replay != "" {
		lines = loadReplay(env.Replay)
	} else {
		nNode, nDec, nStr, nSafe := 1500, 1500, 1500, 250
		if env.Thorough {
			nNode, nDec, nStr, nSafe = 40000, 40000, 30000, 4000
		}
		lines = append(lines, fixedLines()...)
		lines = append(lines, genNodeLines(rng.Fork(), nNode, rep)...)
		lines = append(lines, genDecLines(rng.Fork(), nDec, rep)...)
		lines = append(lines, genStrLines(rng.Fork(), nStr, rep)...)
		lines = append(lines, genSafeLines(rng.Fork(), nSafe, rep)...)
		lines = append(lines, genKeyLines(rng.Fork(), 300, rep)...)
	}

	cases := make([]kase, len(lines))
	for i, l := range lines {
		cases[i] = kase{line: l, impl: implAnswer(l)}
		rep.Case(l, nontrivial(l))
		rep.Count("line:" + strings.SplitN(l, " ", 2)[0])
		if i%499 == 0 {
			rep.Sample(map[string]string{"line": vh.Clip(l, 300), "impl": vh.Clip(cases[i].impl, 300)})
		}
	}

	if env.Replay == "" {
		nodeLaws(rng.Fork(), env.Thorough, rep)
		safeLaws(rng.Fork(), env.Thorough, rep)
		keyLaws(rng.Fork(), env.Thorough, rep)
		knownReplays(rep)
	}
	lawFailed := rep.NFail() > 0

	outs, err := vh.RunDriver(env.Driver, lines)
	if err != nil {
		vh.Die("driver: %v", err)
	}
	if len(outs) != len(lines) {
		vh.Die("driver answered %d of %d lines", len(outs), len(lines))
	}
	for i, c := range cases {
		model := outs[i]
		if strings.HasPrefix(c.line, "Y ") { // the clock values are the model's only
			model = strings.SplitN(model, "|", 2)[0]
		}
		if model == c.impl {
			continue
		}
		key := "model:" + lineKey(c.line)
		kind := "correspondence"
		sum := fmt.Sprintf("model and implementation disagree on %s: impl=%s model=%s", vh.Clip(c.line, 200), vh.Clip(c.impl, 200), vh.Clip(model, 200))
		if d := directLaw(c.line); d != "" {
			kind = "property"
			sum = d + "; " + sum
		}
		rep.Fail(kind, key, sum, map[string]string{"line": c.line, "impl": c.impl, "model": model})
	}
	if !lawFailed && rep.NFail() > 0 {
		rep.Note("property-directed search around the disagreeing lines: the laws of laws.go were evaluated on the implementation for the same generators and held")
	}
	rep.Write(env.Out)
}

func lineKey(l string) string {
	switch strings.SplitN(l, " ", 2)[0] {
	case "N":
		return "NODE.history"
	case "D":
		return "NODE.ToObject"
	case "P4":
		return "CreateLINK.dotted-quad"
	case "I":
		return "IPO.predicates"
	case "S":
		return "panicutil.history"
	case "K":
		return "keygen." + strings.SplitN(l, " ", 3)[1]
	case "Y":
		return "DateSyncTime.lifecycle"
	}
	return "line"
}

func nontrivial(l string) bool {
	ts := strings.Split(l, " ")
	switch ts[0] {
	case "N":
		return strings.Contains(l, "L:") || strings.Contains(l, "O:")
	case "S":
		return strings.ContainsAny(ts[1], "mosfc")
	}
	return len(ts) > 1 && ts[1] != "-"
}

func loadReplay(path string) []string {
	b, err := os.ReadFile(path)
	if err != nil {
		vh.Die("replay: %v", err)
	}
	var r struct {
		Cases []map[string]interface{} `json:"cases"`
	}
	var one map[string]interface{}
	var out []string
	if err := json.Unmarshal(b, &r); err == nil {
		for _, c := range r.Cases {
			if l, ok := c["line"].(string); ok {
				out = append(out, l)
			}
		}
	}
	if len(out) == 0 && json.Unmarshal(b, &one) == nil {
		if l, ok := one["line"].(string); ok {
			out = append(out, l)
		}
	}
	return out
}
