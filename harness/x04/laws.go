package main

import (
	"bytes"
	"fmt"
	"math"
	"math/rand"
	"strings"

	"github.com/whatap/golib/io"
	"github.com/whatap/golib/lang/topology"
	"github.com/whatap/golib/lang/value"
	"github.com/whatap/golib/util/dateutil"
	"github.com/whatap/golib/util/hmap"
	"github.com/whatap/golib/util/keygen"
	"github.com/whatap/golib/util/panicutil"

	"verif/harness/vh"
)

const (
	kNodeBytes  = "NODE.ToObject:type-byte-not-read" // shared with X01, which met it first
	kHasListen  = "NODE.hasListen:always-false"
	kZeroLink   = "NODE.AddListen:unresolvable-zero-link"
	kSafeEscape = "panicutil.Safe:no-recover"
	kCycleRange = "panicutil.Cycle:out-of-range-panic"
	kSetOnOff   = "panicutil.SetOnOff:nil-map-panic"
	kAddSeed    = "keygen.AddSeed:args-ignored-or-panic"
	kSyncLife   = "dateutil.SyncTime:lifecycle"
)

type link struct {
	ip   string
	port int
}

// decodeNode: the link lists out of ToBytes (after ver + type byte), with the library's own readers
func decodeNode(b []byte) (listen, outter []link, ok bool) {
	g := vh.Guard(func() {
		in := io.NewDataInputX(b[2:])
		value.NewMapValue().Read(in)
		for s := 0; s < 2; s++ {
			n := int(in.ReadDecimal())
			for i := 0; i < n; i++ {
				k := topology.NewLINK().ToObject(in)
				l := link{string(k.IP), k.Port}
				if s == 0 {
					listen = append(listen, l)
				} else {
					outter = append(outter, l)
				}
			}
		}
	})
	return listen, outter, g.OK()
}

func nodup(ls []link) bool {
	seen := map[link]bool{}
	for _, l := range ls {
		if seen[l] {
			return false
		}
		seen[l] = true
	}
	return true
}

func isPrefix(a, b []link) bool {
	if len(a) > len(b) {
		return false
	}
	for i := range a {
		if a[i] != b[i] {
			return false
		}
	}
	return true
}

// nodeHistoryLaws evaluates N1/N3 on the implementation along one history; "" = all hold
func nodeHistoryLaws(attr, ops string) string {
	n := newNode(attr)
	var pl, po []link
	for _, op := range strings.Split(ops, ";") {
		if op[0] != 'L' && op[0] != 'O' {
			continue
		}
		nodeOp(n, op)
		var b []byte
		if g := vh.Guard(func() { b = n.ToBytes() }); !g.OK() {
			return "NODE.ToBytes panics after " + op
		}
		l, o, ok := decodeNode(b)
		if !ok {
			return "the link lists of ToBytes cannot be read back after " + op
		}
		if !nodup(l) || !nodup(o) {
			return "a link is stored twice after " + op
		}
		if !isPrefix(pl, l) || !isPrefix(po, o) {
			return "a stored link was removed or moved by " + op
		}
		if op[0] == 'L' && !isPrefix(po, o[:len(po)]) || op[0] == 'L' && len(o) != len(po) {
			return "AddListen changed the outter set: " + op
		}
		if op[0] == 'O' && len(l) != len(pl) {
			return "AddOutter changed the listen set: " + op
		}
		pl, po = l, o
		// idempotence
		nodeOp(n, op)
		if b2 := n.ToBytes(); !bytes.Equal(b, b2) {
			return "repeating " + op + " changed the NODE"
		}
		// every listen link attaches itself
		for _, k := range l {
			lk := topology.NewLINK()
			lk.IP, lk.Port = []byte(k.ip), k.port
			if !n.IsAttachable(lk) {
				return "a listen link is not attachable to its own NODE"
			}
		}
		// N3 (partial): the payload without the type byte reads back to the same NODE
		stripped := append([]byte{b[0]}, b[2:]...)
		var back []byte
		if g := vh.Guard(func() { back = topology.NewNODE().ToObject(stripped).ToBytes() }); !g.OK() || !bytes.Equal(back, b) {
			return "ToObject of the payload (type byte removed) does not give the NODE back after " + op
		}
	}
	return ""
}

func nodeLaws(rng *vh.Rng, thorough bool, rep *vh.Report) {
	n := 600
	if thorough {
		n = 15000
	}
	for i := 0; i < n; i++ {
		l := genNodeLine(rng, rep)
		ts := strings.Split(l, " ")
		rep.Count("law:node-history")
		if d := nodeHistoryLaws(ts[2], ts[3]); d != "" {
			rep.Fail("property", "NODE.sets-and-roundtrip", d, map[string]string{"line": l})
			return
		}
	}
}

// safeLawsOnce: S1 (off ⇒ not run, on ⇒ run, AllOff ⇒ not run), S2 (counters), perf keys
func safeLawsOnce(rng *vh.Rng) string {
	base := resetSafe()
	defer resetSafe()
	name := rng.PickStr([]string{"a", "b", "", "countermanager.poll"})
	m := map[string]bool{}
	panicutil.SetLoopOffMap(&m)
	ran := 0
	cb := func() { ran++ }
	panicutil.Safe(name, cb)
	if ran != 1 {
		return "Safe did not run a callback whose name is not in the switch map"
	}
	panicutil.SetOnOff(name, false)
	panicutil.Safe(name, cb)
	if ran != 1 {
		return "Safe ran a callback whose name is switched off"
	}
	panicutil.SetOnOff(name, true)
	panicutil.Safe(name, cb)
	if ran != 2 {
		return "Safe did not run a callback whose name is switched on"
	}
	panicutil.AllOff = true
	panicutil.Safe(name, cb)
	panicutil.SafeFor(name, cb)
	if ran != 2 {
		return "Safe/SafeFor ran a callback under AllOff"
	}
	panicutil.AllOff = false
	if _, ok := panicutil.ResetPerfMap()[name]; !ok {
		return "Safe left no PerfMap entry"
	}
	if len(panicutil.ResetPerfMap()) != 0 {
		return "ResetPerfMap did not install an empty map"
	}
	// counters
	want := map[int]int64{}
	for i, k := 0, 1+rng.Intn(30); i < k; i++ {
		id := rng.PickInt([]int{0, 1, 10, 81, 8191, 8192, -1, rng.Intn(8192)})
		g := vh.Guard(func() { panicutil.Cycle(id) })
		if id >= 0 && id < panicutil.MAX_COUNTERS {
			if !g.OK() {
				return fmt.Sprintf("Cycle(%d) panics inside the table", id)
			}
			want[id]++
		}
	}
	for id := range cyclecounts {
		if cyclecounts[id]-base[id] != want[id] {
			return fmt.Sprintf("counter %d moved by %d after %d Cycle calls", id, cyclecounts[id]-base[id], want[id])
		}
	}
	return ""
}

func safeLaws(rng *vh.Rng, thorough bool, rep *vh.Report) {
	n := 60
	if thorough {
		n = 1500
	}
	for i := 0; i < n; i++ {
		rep.Count("law:panicutil")
		var d string
		if g := vh.Guard(func() { d = safeLawsOnce(rng) }); !g.OK() {
			d = "a panicutil law sequence panicked: " + g.Panic
		}
		if d != "" {
			rep.Fail("property", "panicutil.switches-and-counters", d, map[string]string{"law": "safeLawsOnce", "seed": fmt.Sprint(rep.Seed)})
			return
		}
	}
}

func keyLaws(rng *vh.Rng, thorough bool, rep *vh.Report) {
	n := 200
	if thorough {
		n = 5000
	}
	for i := 0; i < n; i++ {
		rep.Count("law:keygen")
		seed := rng.Pick64(vh.SignedBoundaries())
		if rng.Chance(50) {
			seed = rng.I64()
		}
		bound31 := int32(rng.Pick64([]int64{1, 2, 3, 100, 1 << 30, math.MaxInt32}))
		bound63 := rng.Pick64([]int64{1, 2, 3, 1 << 40, math.MaxInt64})
		seq := func() (out []int64) {
			keygen.SetSeed(seed)
			for j := 0; j < 4; j++ {
				out = append(out, keygen.Next(), int64(keygen.RandInt(bound31)), keygen.RandLong(bound63))
			}
			return
		}
		var a, b []int64
		if g := vh.Guard(func() { a = seq(); keygen.Next(); b = seq() }); !g.OK() {
			rep.Fail("property", "keygen.seeded:panic", "a seeded sequence panics: "+g.Panic, map[string]interface{}{"seed": seed})
			return
		}
		r := rand.New(rand.NewSource(seed))
		for j := 0; j < len(a); j += 3 {
			w := []int64{int64(math.Float64bits(r.NormFloat64())), int64(r.Int31n(bound31)), r.Int63n(bound63)}
			if a[j] != b[j] || a[j+1] != b[j+1] || a[j+2] != b[j+2] {
				rep.Fail("property", "keygen.seeded:not-deterministic", fmt.Sprintf("SetSeed(%d) twice gives different sequences", seed), map[string]interface{}{"seed": seed})
				return
			}
			if a[j+1] < 0 || a[j+1] >= int64(bound31) || a[j+2] < 0 || a[j+2] >= bound63 {
				rep.Fail("property", "keygen.Rand:out-of-range", fmt.Sprintf("RandInt(%d)=%d RandLong(%d)=%d", bound31, a[j+1], bound63, a[j+2]), map[string]interface{}{"seed": seed})
				return
			}
			if a[j] != w[0] || a[j+1] != w[1] || a[j+2] != w[2] {
				rep.Fail("property", "keygen.seeded:not-math-rand", fmt.Sprintf("SetSeed(%d): sequence differs from rand.New(rand.NewSource(seed))", seed), map[string]interface{}{"seed": seed})
				return
			}
		}
	}
	keygen.SetSeed(keySeed)
}

func knownReplays(rep *vh.Report) {
	// NODE.ToObject reads the type byte as the map count
	nb := topology.NewNODE().ToBytes()
	var back []byte
	on := vh.Guard(func() { back = topology.NewNODE().ToObject(nb).ToBytes() })
	rep.KnownReplay(kNodeBytes, !on.OK() || !bytes.Equal(back, nb), fmt.Sprintf("NewNODE().ToBytes() = %s; NewNODE().ToObject(it): %s", vh.Hex(nb), on))

	// hasListen always false: the local end is a listen address, the outer link is added all the same
	n := topology.NewNODE()
	empty := localsSet()
	n.AddListen(empty, "10.0.0.1:80")
	before := n.ToBytes()
	n.AddOutter("10.0.0.1:80", "8.8.8.8:53")
	_, o, _ := decodeNode(n.ToBytes())
	rep.KnownReplay(kHasListen, len(o) == 1 && !bytes.Equal(before, n.ToBytes()),
		fmt.Sprintf("AddListen(10.0.0.1:80); AddOutter(local 10.0.0.1:80, remote 8.8.8.8:53) stores %d outer link(s)", len(o)))

	// unresolvable listen address → 0.0.0.0:0
	n2 := topology.NewNODE()
	n2.AddListen(empty, "[::1]:8080")
	l, _, _ := decodeNode(n2.ToBytes())
	z := topology.NewLINK()
	z.IP, z.Port = []byte{0, 0, 0, 0}, 12345
	rep.KnownReplay(kZeroLink, len(l) == 1 && l[0] == link{"\x00\x00\x00\x00", 0} && n2.IsAttachable(z),
		fmt.Sprintf("AddListen([::1]:8080) stores %v; IsAttachable(0.0.0.0:12345) = %v", l, n2.IsAttachable(z)))

	// Safe / SafeFor: no recover
	resetSafe()
	g1 := vh.Guard(func() { panicutil.Safe("x", func() { panic("boom") }) })
	calls := 0
	g2 := vh.Guard(func() {
		panicutil.SafeFor("x", func() {
			calls++
			if calls == 3 {
				panic("boom")
			}
		})
	})
	rep.KnownReplay(kSafeEscape, !g1.OK() && !g2.OK(), fmt.Sprintf("Safe(x, panicking callback): %s; SafeFor(x, callback panicking at its 3rd call): %s after %d calls", g1, g2, calls))

	g3 := vh.Guard(func() { panicutil.Cycle(panicutil.MAX_COUNTERS) })
	g4 := vh.Guard(func() { panicutil.Cycle(-1) })
	rep.KnownReplay(kCycleRange, !g3.OK() && !g4.OK(), fmt.Sprintf("Cycle(8192): %s; Cycle(-1): %s", g3, g4))

	resetSafe() // onofflookup = nil map, the state of a fresh process
	g5 := vh.Guard(func() { panicutil.SetOnOff("x", false) })
	rep.KnownReplay(kSetOnOff, !g5.OK(), "SetOnOff(x, false) before any SetLoopOffMap: "+g5.String())
	resetSafe()

	g6 := vh.Guard(func() { keygen.AddSeed(float64(1.5)) })
	g7 := vh.Guard(func() { keygen.AddSeed(int64(5), uint8(1)) })
	rep.KnownReplay(kAddSeed, !g6.OK() && g7.OK(), fmt.Sprintf("AddSeed(float64(1.5)): %s; AddSeed(int64(5), uint8(1)): %s (arguments not used)", g6, g7))
	keygen.SetSeed(keySeed)

	// DateSyncTime life cycle (the Y line has already started and stopped the ticker; replay what is still observable)
	wasNil := !dateutil.IsSyncTime()
	g8 := vh.Outcome{}
	if wasNil {
		g8 = vh.Guard(dateutil.StopSyncTime)
	}
	dateutil.StartSyncTime()
	dateutil.StopSyncTime()
	rep.KnownReplay(kSyncLife, dateutil.IsSyncTime() && (!wasNil || !g8.OK()),
		fmt.Sprintf("StopSyncTime before StartSyncTime: %s (checked by the Y line when the ticker had been started); IsSyncTime after Start+Stop = %v", g8, dateutil.IsSyncTime()))
}

func localsSet() *hmap.StringSet { s, _ := localsOf("-"); return s }

// directLaw: for a line on which model and implementation disagree, evaluate the laws on the implementation
func directLaw(l string) string {
	ts := strings.Split(l, " ")
	switch ts[0] {
	case "N":
		if len(ts) == 4 {
			return nodeHistoryLaws(ts[2], ts[3])
		}
	case "S":
		var d string
		vh.Guard(func() { d = safeLawsOnce(vh.NewRng(1)) })
		return d
	}
	return ""
}
