package main

import (
	"fmt"
	"math"
	"math/rand"
	"net"
	"net/netip"
	"sort"
	"strconv"
	"strings"
	"time"
	_ "unsafe"

	"github.com/whatap/golib/io"
	"github.com/whatap/golib/lang/topology"
	"github.com/whatap/golib/lang/value"
	"github.com/whatap/golib/util/dateutil"
	"github.com/whatap/golib/util/hmap"
	"github.com/whatap/golib/util/keygen"
	"github.com/whatap/golib/util/panicutil"

	"verif/harness/vh"
)

// the counter table has no accessor; read it where it lives (read-only, for observation)
//
//go:linkname cyclecounts github.com/whatap/golib/util/panicutil.cyclecounts
var cyclecounts []int64

func hx(s string) string   { return vh.Hex([]byte(s)) }
func unhx(s string) string { return string(vh.UnHex(s)) }

func implAnswer(l string) string {
	ts := strings.Split(l, " ")
	switch ts[0] {
	case "P4":
		a, err := netip.ParseAddr(unhx(ts[1]))
		if err != nil || !a.Is4() {
			return "none"
		}
		b := a.As4()
		return vh.Hex(b[:])
	case "I":
		o := topology.NewIPO()
		o.IP = unhx(ts[1])
		var a, b bool
		if g := vh.Guard(func() { a, b = o.IsIPv6(), o.IsLocal127() }); !g.OK() {
			return "panic"
		}
		return b01(a) + b01(b)
	case "N":
		return implNode(ts[2], ts[3])
	case "D":
		var back []byte
		if g := vh.Guard(func() { back = topology.NewNODE().ToObject(vh.UnHex(ts[1])).ToBytes() }); !g.OK() {
			return "fail"
		}
		return "ok " + vh.Hex(back)
	case "S":
		return implSafe(ts[1])
	case "K":
		return implKey(ts[1:])
	case "Y":
		return implSync(ts[1])
	}
	return "bad"
}

func b01(b bool) string {
	if b {
		return "1"
	}
	return "0"
}

// ---------------------------------------------------------------- NODE

// attrOf decodes the attr argument (hex of WriteValue(map)) with the library's own reader
func attrOf(hexs string) *value.MapValue {
	v := value.ReadValue(io.NewDataInputX(vh.UnHex(hexs)))
	return v.(*value.MapValue)
}

func newNode(attr string) *topology.NODE {
	n := topology.NewNODE()
	n.Attr = attrOf(attr)
	return n
}

// localsOf builds the StringSet and returns it with its own enumeration order
func localsOf(arg string) (*hmap.StringSet, []string) {
	set := hmap.NewStringSet()
	if arg != "-" {
		for _, h := range strings.Split(arg, "+") {
			set.Put(unhx(h))
		}
	}
	var order []string
	en := set.Keys()
	for en.HasMoreElements() {
		order = append(order, en.NextString())
	}
	return set, order
}

func nodeOp(n *topology.NODE, op string) string {
	f := strings.Split(op, ":")
	out := "panic"
	vh.Guard(func() {
		switch f[0] {
		case "L":
			set, _ := localsOf(f[1])
			n.AddListen(set, unhx(f[2]))
			out = "."
		case "O":
			n.AddOutter(unhx(f[1]), unhx(f[2]))
			out = "."
		case "A":
			p, _ := strconv.Atoi(f[2])
			k := topology.NewLINK()
			k.IP = vh.UnHex(f[1])
			k.Port = p
			out = b01(n.IsAttachable(k))
		case "B":
			out = vh.Hex(n.ToBytes())
		}
	})
	return out
}

func implNode(attr, ops string) string {
	n := newNode(attr)
	var outs []string
	for _, op := range strings.Split(ops, ";") {
		outs = append(outs, nodeOp(n, op))
	}
	return strings.Join(outs, ";")
}

// extEntry: what net.LookupIP says about s, in the driver's syntax ("" for a dotted quad: the model parses those itself)
func extEntry(s string) string {
	if a, err := netip.ParseAddr(s); err == nil && a.Is4() {
		return ""
	}
	var arr []net.IP
	var err error
	if g := vh.Guard(func() { arr, err = net.LookupIP(s) }); !g.OK() || err != nil {
		return hx(s) + "=e"
	}
	for _, v := range arr {
		if ip := v.To4(); ip != nil {
			return hx(s) + "=v" + vh.Hex(ip)
		}
		break
	}
	return hx(s) + "=o"
}

// ---------------------------------------------------------------- panicutil

func resetSafe() []int64 {
	var nm map[string]bool
	panicutil.SetLoopOffMap(&nm)
	panicutil.AllOff = false
	panicutil.OffSleepTime = 1
	panicutil.ResetPerfMap()
	base := make([]int64, len(cyclecounts))
	copy(base, cyclecounts)
	return base
}

func implSafe(ops string) string {
	base := resetSafe()
	defer resetSafe()
	var outs []string
	for _, op := range strings.Split(ops, ";") {
		outs = append(outs, safeOp(op, base))
	}
	return strings.Join(outs, ";")
}

func guardDot(f func()) string {
	if g := vh.Guard(f); !g.OK() {
		return "panic"
	}
	return "."
}

func safeOp(op string, base []int64) string {
	f := strings.Split(op, ":")
	switch f[0] {
	case "m":
		switch f[1] {
		case "nil":
			return guardDot(func() { panicutil.SetLoopOffMap(nil) })
		case "nilmap":
			var nm map[string]bool
			return guardDot(func() { panicutil.SetLoopOffMap(&nm) })
		}
		m := map[string]bool{}
		if f[1] != "-" {
			for _, e := range strings.Split(f[1], "+") {
				kv := strings.Split(e, "=")
				m[unhx(kv[0])] = kv[1] == "1"
			}
		}
		return guardDot(func() { panicutil.SetLoopOffMap(&m) })
	case "o":
		return guardDot(func() { panicutil.SetOnOff(unhx(f[1]), f[2] == "1") })
	case "a":
		panicutil.AllOff = f[1] == "1"
		return "."
	case "s":
		ran := false
		g := vh.Guard(func() {
			panicutil.Safe(unhx(f[1]), func() {
				ran = true
				switch f[2] {
				case "p":
					panic("x04 callback")
				case "a":
					panicutil.AllOff = true
				}
			})
		})
		return "s" + b01(ran) + b01(!g.OK())
	case "f":
		kind := f[2][0]
		k, _ := strconv.Atoi(f[2][1:])
		expectSpin := len(f) > 4 // generator's hint: only chooses the length of the watchdog, never the verdict
		runs := 0
		done := make(chan vh.Outcome, 1)
		go func() {
			done <- vh.Guard(func() {
				panicutil.SafeFor(unhx(f[1]), func() {
					i := runs
					runs++
					if i >= k {
						if kind == 'p' {
							panic("x04 callback")
						}
						panicutil.AllOff = true
					}
				})
			})
		}()
		wd := 20 * time.Second
		if expectSpin {
			wd = 150 * time.Millisecond
		}
		select {
		case g := <-done:
			if g.OK() {
				return fmt.Sprintf("f%dr", runs)
			}
			return fmt.Sprintf("f%de", runs)
		case <-time.After(wd):
			r := runs
			panicutil.AllOff = true // the only way out of the loop
			<-done
			panicutil.AllOff = false
			if r == 0 && runs == 0 {
				return "f0s"
			}
			return fmt.Sprintf("f%dtimeout", runs)
		}
	case "r":
		var keys []string
		for k := range panicutil.ResetPerfMap() {
			keys = append(keys, hx(k))
		}
		sort.Strings(keys)
		return "k" + strings.Join(keys, ",")
	case "c":
		id, _ := strconv.Atoi(f[1])
		return guardDot(func() { panicutil.Cycle(id) })
	case "q":
		id, _ := strconv.Atoi(f[1])
		if id < 0 || id >= len(cyclecounts) {
			return "n0"
		}
		return fmt.Sprintf("n%d", cyclecounts[id]-base[id])
	}
	return "bad"
}

// ---------------------------------------------------------------- keygen / DateSyncTime

var keySeed int64 = 1

func dyn(ty string) interface{} {
	switch ty {
	case "int8":
		return int8(3)
	case "int16":
		return int16(3)
	case "int32":
		return int32(3)
	case "int64":
		return int64(3)
	case "uint8":
		return uint8(3)
	case "uint16":
		return uint16(3)
	case "uint32":
		return uint32(3)
	case "uint64":
		return uint64(3)
	case "float32":
		return float32(1.5)
	case "float64":
		return float64(1.5)
	}
	return "other"
}

func implKey(ts []string) string {
	switch ts[0] {
	case "next":
		// the request carries the bits the oracle PRNG delivers at this point: ts[2] = seed, ts[3] = position
		seed, _ := strconv.ParseInt(ts[2], 10, 64)
		pos, _ := strconv.Atoi(ts[3])
		var v int64
		if g := vh.Guard(func() {
			keygen.SetSeed(seed)
			for i := 0; i <= pos; i++ {
				v = keygen.Next()
			}
		}); !g.OK() {
			return "panic"
		}
		return strconv.FormatInt(v, 10)
	case "int":
		i, _ := strconv.ParseInt(ts[1], 10, 64)
		return okPanic(vh.Guard(func() { keygen.RandInt(int32(i)) }))
	case "long":
		i, _ := strconv.ParseInt(ts[1], 10, 64)
		return okPanic(vh.Guard(func() { keygen.RandLong(i) }))
	case "add":
		var args []interface{}
		if ts[1] != "-" {
			for _, t := range strings.Split(ts[1], ",") {
				args = append(args, dyn(t))
			}
		}
		r := okPanic(vh.Guard(func() { keygen.AddSeed(args...) }))
		keygen.SetSeed(keySeed)
		return r
	}
	return "bad"
}

func okPanic(g vh.Outcome) string {
	if g.OK() {
		return "ok"
	}
	return "panic"
}

// oracleBits: Float64bits of the pos-th NormFloat64 of a math/rand generator seeded with seed
func oracleBits(seed int64, pos int) uint64 {
	r := rand.New(rand.NewSource(seed))
	var f float64
	for i := 0; i <= pos; i++ {
		f = r.NormFloat64()
	}
	return math.Float64bits(f)
}

func implSync(ops string) string {
	var outs []string
	for _, op := range strings.Split(ops, ";") {
		f := strings.Split(op, ":")
		switch f[0] {
		case "st":
			outs = append(outs, guardDot(dateutil.StartSyncTime))
		case "sp":
			outs = append(outs, guardDot(dateutil.StopSyncTime))
		case "is":
			outs = append(outs, b01(dateutil.IsSyncTime()))
		default:
			outs = append(outs, "bad")
		}
	}
	return strings.Join(outs, ";")
}
