package main

import (
	"fmt"
	"strings"

	"github.com/whatap/golib/io"
	"github.com/whatap/golib/lang/value"

	"verif/harness/vh"
)

var v4Pool = []string{"10.0.0.1", "10.0.0.2", "192.168.0.7", "8.8.8.8", "255.255.255.255", "0.0.0.1", "1.2.3.4"}
var specialPool = []string{"*", "0.0.0.0", "::", "127.0.0.1", "127.0.0.2"}
var oddPool = []string{"01.2.3.4", "256.1.1.1", "1.2.3", "1.2.3.4.5", "[::1]", "::1", "::ffff:1.2.3.4", "", "fe80::1", "1..2.3", " 1.2.3.4", "1.2.3.4 ", "[fe80::1]", "0", "127.0.0.01"}
var portPool = []string{"80", "0", "22", "3306", "65535", "65536", "2147483647", "2147483648", "-1", "+5", "", "x", "4294967376", "99999999999999999999", "08", "-2147483649"}

func genIP(rng *vh.Rng) string {
	switch n := rng.Intn(100); {
	case n < 55:
		return rng.PickStr(v4Pool)
	case n < 75:
		return rng.PickStr(specialPool)
	case n < 95:
		return rng.PickStr(oddPool)
	}
	alpha := "0123456789.:*"
	b := make([]byte, rng.Intn(9))
	for i := range b {
		b[i] = alpha[rng.Intn(len(alpha))]
	}
	return string(b)
}

func genAddr(rng *vh.Rng, rep *vh.Report) string {
	ip := genIP(rng)
	port := rng.PickStr(portPool)
	switch n := rng.Intn(100); {
	case n < 80:
		rep.Count("addr:colon")
		return ip + ":" + port
	case n < 90:
		rep.Count("addr:dot")
		return ip + "." + port
	case n < 95:
		rep.Count("addr:bare-ip")
		return ip
	}
	rep.Count("addr:no-separator")
	return strings.NewReplacer(".", "", ":", "").Replace(ip + port)
}

// extTable: the resolver's answers for every string CreateLINK may be asked about in this history
func extTable(addrs []string, locals []string) string {
	seen := map[string]bool{}
	var ents []string
	add := func(s string) {
		if seen[s] {
			return
		}
		seen[s] = true
		if e := extEntry(s); e != "" {
			ents = append(ents, e)
		}
	}
	for _, a := range addrs {
		for x := 0; x < len(a); x++ {
			if a[x] == ':' || a[x] == '.' {
				add(a[:x])
			}
		}
	}
	for _, l := range locals {
		add(l)
	}
	if len(ents) == 0 {
		return "-"
	}
	return strings.Join(ents, ",")
}

func genAttr(rng *vh.Rng) string {
	m := value.NewMapValue()
	for i, n := 0, rng.Intn(4); i < n; i++ {
		k := rng.PickStr([]string{"type", "was", "os", "", "type"})
		switch rng.Intn(3) {
		case 0:
			m.PutString(k, rng.PickStr([]string{"java", "JAVA", "", "go"}))
		case 1:
			m.Put(k, value.NewDecimalValue(rng.Pick64(vh.SignedBoundaries())))
		default:
			m.Put(k, value.NewBoolValue(rng.Bool()))
		}
	}
	return vh.Hex(value.WriteValue(io.NewDataOutputX(), m).ToByteArray())
}

func genNodeLine(rng *vh.Rng, rep *vh.Report) string {
	var ops, addrs, locals []string
	for i, n := 0, 1+rng.Intn(10); i < n; i++ {
		switch k := rng.Intn(100); {
		case k < 45:
			var ls []string
			for j, m := 0, rng.Intn(4); j < m; j++ {
				l := rng.PickStr(v4Pool)
				if rng.Chance(15) {
					l = rng.PickStr(oddPool)
				}
				if l == "" { // "-" is the empty list in the line syntax
					l = "1.2.3"
				}
				ls = append(ls, hx(l))
				locals = append(locals, l)
			}
			a := genAddr(rng, rep)
			if len(ops) > 0 && rng.Chance(15) && len(addrs) > 0 {
				a = addrs[rng.Intn(len(addrs))]
			}
			addrs = append(addrs, a)
			la, en := "-", "-"
			if len(ls) > 0 {
				// the set is built in the order `la`; the model is told the order in which the StringSet then enumerates (`en`)
				la = strings.Join(ls, "+")
				_, order := localsOf(la)
				hs := make([]string, len(order))
				for i, o := range order {
					hs[i] = hx(o)
				}
				en = strings.Join(hs, "+")
			}
			ops = append(ops, "L:"+la+":"+hx(a)+":"+en)
			rep.Count("op:AddListen")
		case k < 75:
			l, r := genAddr(rng, rep), genAddr(rng, rep)
			if rng.Chance(25) && len(addrs) > 0 {
				l = addrs[rng.Intn(len(addrs))]
			}
			addrs = append(addrs, l, r)
			ops = append(ops, "O:"+hx(l)+":"+hx(r))
			rep.Count("op:AddOutter")
		case k < 90:
			ip := []byte{10, 0, 0, byte(1 + rng.Intn(2))}
			if rng.Chance(30) {
				ip = []byte{0, 0, 0, 0}
			}
			if rng.Chance(10) {
				ip = nil
			}
			ops = append(ops, fmt.Sprintf("A:%s:%d", vh.Hex(ip), rng.Pick64([]int64{0, 80, 22, 3306, 65535, -1, 12345})))
			rep.Count("op:IsAttachable")
		default:
			ops = append(ops, "B")
		}
	}
	ops = append(ops, "B")
	return "N " + extTable(addrs, locals) + " " + genAttr(rng) + " " + strings.Join(ops, ";")
}

func genNodeLines(rng *vh.Rng, n int, rep *vh.Report) []string {
	out := make([]string, 0, n)
	for i := 0; i < n; i++ {
		out = append(out, genNodeLine(rng, rep))
	}
	return out
}

// nodeBytes: ToBytes of the NODE a generated history reaches
func nodeBytes(rng *vh.Rng, rep *vh.Report) []byte {
	l := genNodeLine(rng, rep)
	ts := strings.Split(l, " ")
	outs := strings.Split(implNode(ts[2], ts[3]), ";")
	return vh.UnHex(outs[len(outs)-1])
}

func genDecLines(rng *vh.Rng, n int, rep *vh.Report) []string {
	small := []byte{0, 1, 2, 3, 4, 5, 8, 80}
	out := make([]string, 0, n)
	for i := 0; i < n; i++ {
		b := nodeBytes(rng, rep)
		if len(b) < 2 {
			continue
		}
		stripped := append([]byte{b[0]}, b[2:]...)
		var c []byte
		switch k := rng.Intn(100); {
		case k < 15:
			c = b
			rep.Count("dec:as-written")
		case k < 55:
			c = stripped
			rep.Count("dec:type-byte-removed")
		case k < 65:
			c = append(append([]byte{}, stripped...), rng.Bytes(rng.Intn(4))...)
			rep.Count("dec:trailing")
		case k < 80:
			c = stripped[:rng.Intn(len(stripped)+1)]
			rep.Count("dec:truncated")
		case k < 95:
			c = append([]byte{}, stripped...)
			c[rng.Intn(len(c))] = small[rng.Intn(len(small))]
			rep.Count("dec:mutated")
		default:
			c = append(append([]byte{}, b...), make([]byte, rng.Intn(9))...)
			rep.Count("dec:as-written+zeros")
		}
		out = append(out, "D "+vh.Hex(c))
	}
	return out
}

func genStrLines(rng *vh.Rng, n int, rep *vh.Report) []string {
	out := make([]string, 0, n)
	for i := 0; i < n; i++ {
		var s string
		switch k := rng.Intn(100); {
		case k < 30:
			s = genIP(rng)
		case k < 70:
			// four octets with boundary values and deformations
			parts := make([]string, 3+rng.Intn(3))
			for j := range parts {
				parts[j] = rng.PickStr([]string{"0", "1", "9", "10", "99", "100", "199", "249", "255", "256", "260", "300", "00", "01", "", "1000", "a", "-1", "+1", " 1"})
			}
			if rng.Chance(70) {
				parts = append(parts[:0], parts[:min(len(parts), 4)]...)
				for len(parts) < 4 {
					parts = append(parts, "7")
				}
			}
			s = strings.Join(parts, ".")
		default:
			alpha := "0123456789.:%"
			b := make([]byte, rng.Intn(12))
			for i := range b {
				b[i] = alpha[rng.Intn(len(alpha))]
			}
			s = string(b)
		}
		if rng.Chance(80) {
			out = append(out, "P4 "+hx(s))
		} else {
			out = append(out, "I "+hx(s))
		}
	}
	return out
}

// ---------------------------------------------------------------- panicutil histories

func genSafeLines(rng *vh.Rng, n int, rep *vh.Report) []string {
	names := []string{"a", "b", "", "countermanager.poll"}
	ids := []int64{0, 1, 10, 81, 8191, 8192, 8193, -1, 100000}
	out := make([]string, 0, n)
	spins := 0
	for i := 0; i < n; i++ {
		var lookup map[string]bool // the generator's own book-keeping: chooses watchdog lengths only
		allOff := false
		var ops []string
		for j, m := 0, 4+rng.Intn(14); j < m; j++ {
			name := rng.PickStr(names)
			switch k := rng.Intn(100); {
			case k < 10:
				switch rng.Intn(6) {
				case 0:
					ops = append(ops, "m:nil")
				case 1:
					ops = append(ops, "m:nilmap")
					lookup = nil
				default:
					lookup = map[string]bool{}
					var es []string
					for _, nm := range names {
						if rng.Chance(50) {
							b := rng.Bool()
							lookup[nm] = b
							es = append(es, hx(nm)+"="+b01(b))
						}
					}
					if len(es) == 0 {
						ops = append(ops, "m:-")
					} else {
						ops = append(ops, "m:"+strings.Join(es, "+"))
					}
				}
				rep.Count("op:SetLoopOffMap")
			case k < 25:
				b := rng.Bool()
				if lookup != nil {
					lookup[name] = b
				}
				ops = append(ops, "o:"+hx(name)+":"+b01(b))
				rep.Count("op:SetOnOff")
			case k < 33:
				allOff = rng.Chance(40)
				ops = append(ops, "a:"+b01(allOff))
				rep.Count("op:AllOff")
			case k < 58:
				kind := rng.PickStr([]string{"r", "r", "p", "a"})
				on, ok := lookup[name]
				if kind == "a" && !allOff && !(ok && !on) {
					allOff = true
				}
				ops = append(ops, "s:"+hx(name)+":"+kind)
				rep.Count("op:Safe:" + kind)
			case k < 70:
				kind := rng.PickStr([]string{"p", "p", "a"})
				cnt := rng.Intn(4)
				on, ok := lookup[name]
				off := ok && !on
				if !allOff && off {
					if spins >= 12 || rng.Chance(70) {
						continue
					}
					spins++
					ops = append(ops, fmt.Sprintf("f:%s:%s%d:%d:s", hx(name), kind, cnt, cnt+5))
					rep.Count("op:SafeFor:spin")
					continue
				}
				if !allOff && kind == "a" {
					allOff = true
				}
				ops = append(ops, fmt.Sprintf("f:%s:%s%d:%d", hx(name), kind, cnt, cnt+5))
				rep.Count("op:SafeFor:" + kind)
			case k < 76:
				ops = append(ops, "r")
				rep.Count("op:ResetPerfMap")
			case k < 92:
				id := rng.Pick64(ids)
				if rng.Chance(30) {
					id = int64(rng.Intn(8192))
				}
				ops = append(ops, fmt.Sprintf("c:%d", id))
				if rng.Chance(50) {
					ops = append(ops, fmt.Sprintf("q:%d", id))
				}
				rep.Count("op:Cycle")
			default:
				ops = append(ops, fmt.Sprintf("q:%d", rng.Pick64(ids)))
			}
		}
		ops = append(ops, "r", "q:10")
		out = append(out, "S "+strings.Join(ops, ";"))
	}
	return out
}

func genKeyLines(rng *vh.Rng, n int, rep *vh.Report) []string {
	tys := []string{"int8", "int16", "int32", "int64", "uint8", "uint16", "uint32", "uint64", "float32", "float64", "string"}
	var out []string
	for i := 0; i < n; i++ {
		switch rng.Intn(4) {
		case 0:
			seed := rng.Pick64(vh.SignedBoundaries())
			pos := rng.Intn(6)
			out = append(out, fmt.Sprintf("K next %d %d %d", oracleBits(seed, pos), seed, pos))
		case 1:
			out = append(out, fmt.Sprintf("K int %d", rng.Pick64([]int64{-2147483648, -5, -1, 0, 1, 2, 100, 2147483647})))
		case 2:
			out = append(out, fmt.Sprintf("K long %d", rng.Pick64([]int64{-9223372036854775808, -1, 0, 1, 2, 1 << 40, 9223372036854775807})))
		default:
			var as []string
			for j, m := 0, rng.Intn(4); j < m; j++ {
				as = append(as, rng.PickStr(tys))
			}
			if len(as) == 0 {
				out = append(out, "K add -")
			} else {
				out = append(out, "K add "+strings.Join(as, ","))
			}
		}
	}
	return out
}

func fixedLines() []string {
	return []string{
		"P4 " + hx("10.0.0.1"), "P4 " + hx("256.0.0.1"), "P4 " + hx("01.0.0.1"), "P4 -", "I " + hx("127.0.0.1"), "I " + hx("::1"), "I -",
		// X04.finding_node_type_byte / _silent
		"D 0050000000", "D 005000000000000000000000", "D 00000000", "D -",
		// X04.finding_has_listen_always_false
		"N - 5000 L:-:" + hx("10.0.0.1:80") + ";O:" + hx("10.0.0.1:80") + ":" + hx("8.8.8.8:53") + ";B",
		// X04.finding_unresolvable_listen_zero_link
		"N " + extTable([]string{"[::1]:8080"}, nil) + " 5000 L:-:" + hx("[::1]:8080") + ";A:00000000:12345;B",
		// wildcards
		"N - 5000 L:" + hx("192.168.0.7") + ":" + hx("*:22") + ";L:" + hx("192.168.0.7") + ":" + hx(":::22") + ";L:-:" + hx("0.0.0.0:22") + ";B",
		// X04.SafeLoop findings and the example history
		"S o:" + hx("x") + ":0", "S s:" + hx("x") + ":p", "S f:" + hx("x") + ":p2:10", "S c:8192;c:-1;c:8191;q:8191",
		"S m:" + hx("a") + "=0;s:" + hx("a") + ":r;s:" + hx("b") + ":r;c:10;c:10;c:8192;r;q:10",
		"S m:" + hx("a") + "=0;f:" + hx("a") + ":p0:5:s;a:1;f:" + hx("a") + ":p0:5;s:" + hx("b") + ":r;r",
		"S m:nil;m:nilmap;o:" + hx("a") + ":1;m:-;o:" + hx("a") + ":0;s:" + hx("a") + ":r;o:" + hx("a") + ":1;s:" + hx("a") + ":a;s:" + hx("a") + ":r;r",
		"K add float64", "K add int64,uint8", "K add -", "K int 0", "K long 0", "K int 1",
		"Y sp;is;st:0;is;sp;is;sp",
	}
}
