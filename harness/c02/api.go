package main

// API stage: histories of the exported calls on ONE MapValue / IntMapValue / ListValue, against the model
// Golib.Value.Api (driver request `A`), and the map-only entry points of Value.go.
//
//	script   3-40 calls: Put / PutString / PutLong / NewList / PutAll / Clear and, in between, Get / GetString /
//	         GetBool / GetLong / GetFloat / ContainsKey / Size / IsEmpty (lists: Add / AddString / AddLong /
//	         Set / Clear, Get / GetString / GetBool / Size), over a small key pool (so that keys are overwritten,
//	         cleared and re-put) that includes colliding and bucket-0 keys
//	compared every call's output, the final content (through Keys + Get) and the bytes of WriteValue with the
//	         model's; directly on the implementation: decode(encode obj) = obj, Available() = 0, re-encoding;
//	         WriteMapValue / IntMapValue.WriteValue write the bytes WriteValue writes; ReadMapValue gives the
//	         map back, with 0-3 trailing bytes left; on the encoding of any non-map value it returns nil with
//	         exactly one byte consumed (driver request `R`)
//	also     NewIP4ValueString("a.b.c.d") encodes as NewIP4Value([a b c d]) and as the model says

import (
	"fmt"
	"math"
	"strconv"
	"strings"

	gio "github.com/whatap/golib/io"
	"github.com/whatap/golib/lang/value"
	"verif/harness/c02/vg"
	"verif/harness/vh"
)

type apiCall struct {
	name string // the Go method, for keys and replays
	node *vg.V  // the call as a value of the script
	run  func(obj value.Value) string
}

func txt(s string) *vg.V          { return &vg.V{K: "T", Bs: []byte(s)} }
func opNode(code string, a ...*vg.V) *vg.V {
	return &vg.V{K: "l", L: append([]*vg.V{txt(code)}, a...)}
}
func boolLine(b bool) string { return (&vg.V{K: "B", B: b}).Line() }
func decLine(n int64) string { return (&vg.V{K: "D", I: n}).Line() }

// genScript draws one history for a container of the given kind
func genScript(r *vh.Rng, gen *vg.Gen, kind string) []apiCall {
	n := 3 + r.Intn(38)
	var calls []apiCall
	// key pool
	var skeys [][]byte
	var ikeys []int32
	if kind == "m" {
		skeys = gen.StrKeys(2 + r.Intn(6))
	} else if kind == "im" {
		ikeys = gen.IntKeys(2 + r.Intn(6))
	}
	child := func() *vg.V {
		if r.Chance(70) {
			return gen.Flat(vg.FlatKinds[r.Intn(len(vg.FlatKinds))])
		}
		return gen.Tree(12)
	}
	size := 0 // a lower-level guess of the list size, to keep Set / Get inside the list
	for i := 0; i < n; i++ {
		switch kind {
		case "m":
			k := skeys[r.Intn(len(skeys))]
			if r.Chance(8) {
				k = []byte("absent" + strconv.Itoa(r.Intn(3)))
			}
			ks, kn := string(k), txt(string(k))
			switch c := r.Intn(100); {
			case c < 22:
				v := child()
				calls = append(calls, apiCall{"Put", opNode("p", kn, v), func(o value.Value) string { o.(*value.MapValue).Put(ks, v.ToGo()); return "~" }})
			case c < 30:
				s := string(gen.Flat("T").Bs)
				calls = append(calls, apiCall{"PutString", opNode("s", kn, txt(s)), func(o value.Value) string { o.(*value.MapValue).PutString(ks, s); return "~" }})
			case c < 38:
				x := vg.GenI64(r)
				calls = append(calls, apiCall{"PutLong", opNode("n", kn, &vg.V{K: "D", I: x}), func(o value.Value) string { o.(*value.MapValue).PutLong(ks, x); return "~" }})
			case c < 42:
				calls = append(calls, apiCall{"NewList", opNode("L", kn), func(o value.Value) string {
					if l := o.(*value.MapValue).NewList(ks); l == nil || l.Size() != 0 {
						return "NewList returned something else than an empty list"
					}
					return "~"
				}})
			case c < 50:
				other := gen.Container("m", 2)
				if r.Chance(50) { // overlapping keys
					for j := range other.Ks {
						if r.Chance(50) {
							cand := skeys[r.Intn(len(skeys))]
							dup := false
							for _, e := range other.Ks {
								dup = dup || string(e) == string(cand)
							}
							if !dup {
								other.Ks[j] = cand
							}
						}
					}
				}
				calls = append(calls, apiCall{"PutAll", opNode("A", other), func(o value.Value) string { o.(*value.MapValue).PutAll(other.ToGo().(*value.MapValue)); return "~" }})
			case c < 55:
				calls = append(calls, apiCall{"Clear", opNode("c"), func(o value.Value) string { o.(*value.MapValue).Clear(); return "~" }})
			case c < 65:
				calls = append(calls, apiCall{"Get", opNode("g", kn), func(o value.Value) string {
					g := o.(*value.MapValue).Get(ks)
					if g == nil {
						return "~"
					}
					return vg.FromGo(g).Line()
				}})
			case c < 72:
				calls = append(calls, apiCall{"GetString", opNode("t", kn), func(o value.Value) string { return txt(o.(*value.MapValue).GetString(ks)).Line() }})
			case c < 77:
				calls = append(calls, apiCall{"GetBool", opNode("b", kn), func(o value.Value) string { return boolLine(o.(*value.MapValue).GetBool(ks)) }})
			case c < 82:
				calls = append(calls, apiCall{"GetLong", opNode("o", kn), func(o value.Value) string { return decLine(o.(*value.MapValue).GetLong(ks)) }})
			case c < 86:
				calls = append(calls, apiCall{"GetFloat", opNode("f", kn), func(o value.Value) string {
					return (&vg.V{K: "F", U: uint64(math.Float32bits(o.(*value.MapValue).GetFloat(ks)))}).Line()
				}})
			case c < 91:
				calls = append(calls, apiCall{"ContainsKey", opNode("k", kn), func(o value.Value) string { return boolLine(o.(*value.MapValue).ContainsKey(ks)) }})
			case c < 96:
				calls = append(calls, apiCall{"Size", opNode("z"), func(o value.Value) string { return decLine(int64(o.(*value.MapValue).Size())) }})
			default:
				calls = append(calls, apiCall{"IsEmpty", opNode("e"), func(o value.Value) string { return boolLine(o.(*value.MapValue).IsEmpty()) }})
			}
		case "im":
			k := ikeys[r.Intn(len(ikeys))]
			if r.Chance(8) {
				k = int32(r.Intn(5)) - 77777
			}
			kn := &vg.V{K: "I", I: int64(k)}
			switch c := r.Intn(100); {
			case c < 30:
				v := child()
				calls = append(calls, apiCall{"Put", opNode("p", kn, v), func(o value.Value) string { o.(*value.IntMapValue).Put(k, v.ToGo()); return "~" }})
			case c < 40:
				s := string(gen.Flat("T").Bs)
				calls = append(calls, apiCall{"PutString", opNode("s", kn, txt(s)), func(o value.Value) string { o.(*value.IntMapValue).PutString(k, s); return "~" }})
			case c < 50:
				x := vg.GenI64(r)
				calls = append(calls, apiCall{"PutLong", opNode("n", kn, &vg.V{K: "D", I: x}), func(o value.Value) string { o.(*value.IntMapValue).PutLong(k, x); return "~" }})
			case c < 55:
				calls = append(calls, apiCall{"NewList", opNode("L", kn), func(o value.Value) string {
					if l := o.(*value.IntMapValue).NewList(k); l == nil || l.Size() != 0 {
						return "NewList returned something else than an empty list"
					}
					return "~"
				}})
			case c < 62:
				calls = append(calls, apiCall{"Clear", opNode("c"), func(o value.Value) string { o.(*value.IntMapValue).Clear(); return "~" }})
			case c < 76:
				calls = append(calls, apiCall{"Get", opNode("g", kn), func(o value.Value) string {
					g := o.(*value.IntMapValue).Get(k)
					if g == nil {
						return "~"
					}
					return vg.FromGo(g).Line()
				}})
			case c < 85:
				calls = append(calls, apiCall{"GetString", opNode("t", kn), func(o value.Value) string { return txt(o.(*value.IntMapValue).GetString(k)).Line() }})
			case c < 92:
				calls = append(calls, apiCall{"GetBool", opNode("b", kn), func(o value.Value) string { return boolLine(o.(*value.IntMapValue).GetBool(k)) }})
			default:
				calls = append(calls, apiCall{"Size", opNode("z"), func(o value.Value) string { return decLine(int64(o.(*value.IntMapValue).Size())) }})
			}
		default: // list
			idx := 0
			if size > 0 {
				idx = r.Intn(size)
			}
			in := &vg.V{K: "D", I: int64(idx)}
			c := r.Intn(100)
			if size == 0 && c >= 50 && c < 95 {
				c = r.Intn(50) // nothing to index yet
			}
			switch {
			case c < 25:
				v := child()
				size++
				calls = append(calls, apiCall{"Add", opNode("a", v), func(o value.Value) string { o.(*value.ListValue).Add(v.ToGo()); return "~" }})
			case c < 35:
				s := string(gen.Flat("T").Bs)
				size++
				calls = append(calls, apiCall{"AddString", opNode("s", txt(s)), func(o value.Value) string { o.(*value.ListValue).AddString(s); return "~" }})
			case c < 45:
				x := vg.GenI64(r)
				size++
				calls = append(calls, apiCall{"AddLong", opNode("n", &vg.V{K: "D", I: x}), func(o value.Value) string { o.(*value.ListValue).AddLong(x); return "~" }})
			case c < 50:
				size = 0
				calls = append(calls, apiCall{"Clear", opNode("c"), func(o value.Value) string { o.(*value.ListValue).Clear(); return "~" }})
			case c < 65:
				v := child()
				calls = append(calls, apiCall{"Set", opNode("S", in, v), func(o value.Value) string { o.(*value.ListValue).Set(idx, v.ToGo()); return "~" }})
			case c < 80:
				calls = append(calls, apiCall{"Get", opNode("g", in), func(o value.Value) string { return vg.FromGo(o.(*value.ListValue).Get(idx)).Line() }})
			case c < 88:
				calls = append(calls, apiCall{"GetString", opNode("t", in), func(o value.Value) string { return txt(o.(*value.ListValue).GetString(idx)).Line() }})
			case c < 95:
				calls = append(calls, apiCall{"GetBool", opNode("b", in), func(o value.Value) string { return boolLine(o.(*value.ListValue).GetBool(idx)) }})
			default:
				calls = append(calls, apiCall{"Size", opNode("z"), func(o value.Value) string { return decLine(int64(o.(*value.ListValue).Size())) }})
			}
		}
	}
	return calls
}

func apiStage(env *vh.Env, rep *vh.Report, seed uint64) int {
	r := vh.NewRng(seed ^ 0x6666)
	nScripts := 900
	if env.Thorough {
		nScripts = 9000
	}
	gen := vg.New(r.Fork(), vg.Opt{Depth: 3, Width: 4, Nil: true})
	type acase struct {
		kind   string
		calls  []apiCall
		script *vg.V
		outs   []string // implementation
		panic  string
		obj    value.Value
		bytes  []byte
		rest   []byte
	}
	var cases []*acase
	var lines []string
	newObj := func(kind string) value.Value {
		switch kind {
		case "m":
			return value.NewMapValue()
		case "im":
			return value.NewIntMapValue()
		}
		return value.NewListValue(nil)
	}
	for i := 0; i < nScripts; i++ {
		kind := []string{"m", "m", "im", "l"}[r.Intn(4)]
		c := &acase{kind: kind, calls: genScript(r, gen, kind)}
		c.script = &vg.V{K: "l"}
		for _, call := range c.calls {
			c.script.L = append(c.script.L, call.node)
		}
		if r.Chance(50) {
			c.rest = r.Bytes(1 + r.Intn(3))
		}
		o := vh.GuardTimeout(implDeadline, func() {
			c.obj = newObj(kind)
			for _, call := range c.calls {
				c.outs = append(c.outs, call.run(c.obj))
			}
			c.bytes = encode(c.obj)
		})
		if !o.OK() {
			c.panic = o.String()
		}
		cases = append(cases, c)
		lines = append(lines, "A "+kind+" "+c.script.Line())
		if c.panic == "" {
			lines = append(lines, "R "+vh.Hex(append(append([]byte{}, c.bytes...), c.rest...)))
		} else {
			lines = append(lines, "R 00")
		}
	}
	outs, err := vh.RunDriver(env.Driver, lines)
	if err != nil {
		vh.Die("%v", err)
	}
	for i, c := range cases {
		tn := vg.TypeName[c.kind]
		var names []string
		for _, call := range c.calls {
			names = append(names, call.name)
			rep.Count("api:" + tn + "." + call.name)
		}
		rep.Case("api "+c.kind+" "+c.script.Line(), true)
		rep.Count("api:histories")
		replay := map[string]interface{}{"stage": "api", "seed": seed, "kind": c.kind, "script": vh.Clip(c.script.LineX(), 4000), "calls": names, "rest": vh.Hex(c.rest)}
		with := func(kv ...interface{}) map[string]interface{} {
			m := map[string]interface{}{}
			for k, v := range replay {
				m[k] = v
			}
			for j := 0; j+1 < len(kv); j += 2 {
				m[kv[j].(string)] = kv[j+1]
			}
			return m
		}
		if c.panic != "" {
			rep.Fail("property", tn+":panic-in-api-history", "a history of exported calls on one "+tn+" panicked / hung: "+vh.Clip(c.panic, 200), replay)
			continue
		}
		f := strings.SplitN(outs[2*i], " ", 4)
		if len(f) != 4 || f[0] != "ok" {
			rep.Fail("correspondence", "model:api-script-rejected", "the model does not run the script: "+vh.Clip(outs[2*i], 200), replay)
			continue
		}
		mHex, mFinal, mOuts := f[1], f[2], strings.Split(f[3], ";")
		// every call's output
		for j := range c.outs {
			if j < len(mOuts) && c.outs[j] != mOuts[j] {
				rep.Fail("correspondence", tn+"."+c.calls[j].name+":output-differs-from-model",
					fmt.Sprintf("call %d (%s) of a history on one %s returns %s, the model %s", j+1, c.calls[j].name, tn, vh.Clip(c.outs[j], 200), vh.Clip(mOuts[j], 200)),
					with("call", j, "implementation", vh.Clip(c.outs[j], 1000), "model", vh.Clip(mOuts[j], 1000)))
				break
			}
		}
		// the property, directly: the object as it is now round-trips
		var content, back, reenc string
		var avail int32
		o := vh.GuardTimeout(implDeadline, func() {
			content = vg.FromGo(c.obj).Line()
			din := gio.NewDataInputX(append(append([]byte{}, c.bytes...), c.rest...))
			d := value.ReadValue(din)
			avail = din.Available()
			back = vg.FromGo(d).Line()
			reenc = vh.Hex(encode(d))
		})
		hexB := vh.Hex(c.bytes)
		switch {
		case !o.OK():
			rep.Fail("property", "ReadValue:"+tn+":panic-after-api-history", "decoding the encoding of an object built by a history of exported calls panicked: "+vh.Clip(o.String(), 200), with("bytes", vh.Clip(hexB, 2000)))
			continue
		case back != content || int(avail) != len(c.rest) || reenc != hexB:
			rep.Fail("property", "ReadValue:"+tn+":roundtrip-differs-after-api-history",
				fmt.Sprintf("decode(encode obj) differs from obj for an object built by a history of exported calls (Available %d, expected %d; re-encoding equal: %v)", avail, len(c.rest), reenc == hexB),
				with("content", vh.Clip(content, 1500), "decoded", vh.Clip(back, 1500), "bytes", vh.Clip(hexB, 2000)))
			continue
		}
		if content != mFinal || hexB != mHex {
			rep.Fail("property", "WriteValue:"+tn+":wrong-bytes-after-api-history",
				"after a history of exported calls the object's content / encoding is not that of the insertion-ordered dictionary (list) the calls describe (the model's fold of the history, encoded by the reference encoder)",
				with("content", vh.Clip(content, 1500), "expected_content", vh.Clip(mFinal, 1500), "bytes", vh.Clip(hexB, 1500), "expected_bytes", vh.Clip(mHex, 1500)))
			continue
		}
		// the map-only entry points
		full := append(append([]byte{}, c.bytes...), c.rest...)
		var rmLine string
		var rmAvail int32
		rmNil := false
		o = vh.GuardTimeout(implDeadline, func() {
			din := gio.NewDataInputX(full)
			m := value.ReadMapValue(din)
			rmAvail = din.Available()
			if m == nil {
				rmNil = true
			} else {
				rmLine = vg.FromGo(m).Line()
			}
		})
		got := "fail"
		if o.OK() && rmNil {
			got = "nil " + strconv.Itoa(int(rmAvail))
		} else if o.OK() {
			got = "ok " + rmLine + " " + strconv.Itoa(int(rmAvail))
		}
		rep.Count("api:ReadMapValue")
		if c.kind == "m" {
			if got != "ok "+content+" "+strconv.Itoa(len(c.rest)) {
				rep.Fail("property", "ReadMapValue:MapValue:roundtrip-differs", "ReadMapValue does not give back the map that was written (or does not leave exactly what followed): "+vh.Clip(got, 300),
					with("bytes", vh.Clip(vh.Hex(full), 2000), "content", vh.Clip(content, 1500)))
			}
			var wm []byte
			o2 := vh.Guard(func() { wm = append([]byte{}, value.WriteMapValue(gio.NewDataOutputX(), c.obj.(*value.MapValue)).ToByteArray()...) })
			rep.Count("api:WriteMapValue")
			if !o2.OK() || vh.Hex(wm) != hexB {
				rep.Fail("property", "WriteMapValue:MapValue:bytes-differ-from-WriteValue", "WriteMapValue does not write the bytes WriteValue (and the reference encoder) writes for the same map", with("bytes", vh.Clip(vh.Hex(wm), 1500), "expected_bytes", vh.Clip(hexB, 1500)))
			}
		}
		if c.kind == "im" {
			var wm []byte
			o2 := vh.Guard(func() { wm = append([]byte{}, c.obj.(*value.IntMapValue).WriteValue(gio.NewDataOutputX()).ToByteArray()...) })
			rep.Count("api:IntMapValue.WriteValue")
			if !o2.OK() || vh.Hex(wm) != hexB {
				rep.Fail("property", "IntMapValue.WriteValue:IntMapValue:bytes-differ-from-WriteValue", "IntMapValue.WriteValue does not write the bytes WriteValue writes for the same map", with("bytes", vh.Clip(vh.Hex(wm), 1500), "expected_bytes", vh.Clip(hexB, 1500)))
			}
		}
		if got != outs[2*i+1] {
			rep.Fail("correspondence", "ReadMapValue:"+tn+":differs-from-model", "ReadMapValue on the encoding of a "+tn+": implementation "+vh.Clip(got, 200)+", model "+vh.Clip(outs[2*i+1], 200), with("bytes", vh.Clip(vh.Hex(full), 2000)))
		}
	}

	// ReadMapValue on the encodings of values of every other type, and on cut maps
	var rlines []string
	var rins [][]byte
	for _, k := range vg.Kinds {
		for j := 0; j < 4; j++ {
			var v *vg.V
			if k == "l" || k == "m" || k == "im" {
				v = gen.Container(k, 2)
			} else {
				v = gen.Flat(k)
			}
			var b []byte
			if o := vh.Guard(func() { b = encode(v.ToGo()) }); !o.OK() {
				continue
			}
			rins = append(rins, b)
			if k == "m" && len(b) > 3 {
				rins = append(rins, b[:len(b)-1], b[:2])
			}
		}
	}
	rins = append(rins, []byte{})
	for _, b := range rins {
		rlines = append(rlines, "R "+vh.Hex(b))
	}
	routs, err := vh.RunDriver(env.Driver, rlines)
	if err != nil {
		vh.Die("%v", err)
	}
	for i, b := range rins {
		got := "fail"
		o := vh.GuardTimeout(implDeadline, func() {
			din := gio.NewDataInputX(append([]byte{}, b...))
			m := value.ReadMapValue(din)
			if m == nil {
				got = "nil " + strconv.Itoa(int(din.Available()))
			} else {
				got = "ok " + vg.FromGo(m).Line() + " " + strconv.Itoa(int(din.Available()))
			}
		})
		if !o.OK() {
			got = "fail"
		}
		rep.Case("ReadMapValue "+vh.Hex(b), true)
		rep.Count("api:ReadMapValue-on-any-type")
		if got != routs[i] {
			tag := "empty"
			if len(b) > 0 {
				tag = "tag-" + strconv.Itoa(int(b[0]))
			}
			rep.Fail("correspondence", "ReadMapValue:"+tag+":differs-from-model", "ReadMapValue: implementation "+vh.Clip(got, 200)+", model "+vh.Clip(routs[i], 200), map[string]interface{}{"stage": "api", "seed": seed, "bytes": vh.Clip(vh.Hex(b), 2000)})
		}
	}

	// NewIP4ValueString
	for i := 0; i < 200; i++ {
		q := [4]byte{byte(r.Intn(256)), byte(r.Intn(256)), byte(r.Intn(256)), byte(r.Intn(256))}
		if i < 4 {
			q = [][4]byte{{0, 0, 0, 0}, {255, 255, 255, 255}, {127, 0, 0, 1}, {10, 0, 0, 255}}[i]
		}
		s := fmt.Sprintf("%d.%d.%d.%d", q[0], q[1], q[2], q[3])
		var a, b []byte
		var back string
		o := vh.Guard(func() {
			a = encode(value.NewIP4ValueString(s))
			b = encode(value.NewIP4Value(q[:]))
			back = vg.FromGo(value.ReadValue(gio.NewDataInputX(append([]byte{}, a...)))).Line()
		})
		want := (&vg.V{K: "P", Bs: q[:]}).Line()
		rep.Case("NewIP4ValueString "+s, true)
		rep.Count("api:NewIP4ValueString")
		if !o.OK() || vh.Hex(a) != vh.Hex(b) || back != want || vh.Hex(a) != "3d"+vh.Hex(q[:]) {
			rep.Fail("property", "NewIP4ValueString:IP4Value:roundtrip-differs", "the IPv4 value built from the dotted string "+s+" does not encode / decode as the address "+want+": "+vh.Hex(a)+" "+back+" "+vh.Clip(o.Panic, 100),
				map[string]interface{}{"stage": "api", "seed": seed, "address": s})
		}
	}
	// "equal content" of the two summaries as every exported accessor sees it: original vs decoded
	for i := 0; i < 300; i++ {
		v := gen.Flat([]string{"S", "M"}[i%2])
		view := func(g value.Value) string {
			sv := g.(value.SummaryValue)
			ts := ""
			switch x := g.(type) {
			case *value.DoubleSummary:
				ts = x.ToString()
			case *value.LongSummary:
				ts = x.ToString()
			}
			return fmt.Sprintf("%d %d %d %d %x %x %x %x %d %s", sv.LongSum(), sv.LongMin(), sv.LongMax(), sv.LongAvg(), math.Float64bits(sv.DoubleSum()),
				math.Float64bits(sv.DoubleMin()), math.Float64bits(sv.DoubleMax()), math.Float64bits(sv.DoubleAvg()), sv.GetCount(), strings.TrimSpace(ts))
		}
		var a, b string
		o := vh.Guard(func() {
			g := v.ToGo()
			a = view(g)
			b = view(value.ReadValue(gio.NewDataInputX(encode(g))))
		})
		rep.Case("summary accessors "+v.Line(), true)
		rep.Count("api:summary-accessors")
		if !o.OK() || a != b {
			rep.Fail("property", "ReadValue:"+vg.TypeName[v.K]+":accessors-differ-after-roundtrip", "the decoded summary does not show the original's content through its exported accessors (LongSum … GetCount, ToString): "+vh.Clip(a, 200)+" vs "+vh.Clip(b, 200)+" "+vh.Clip(o.Panic, 100),
				map[string]interface{}{"stage": "api", "seed": seed, "value": v.Line()})
		}
	}
	return len(lines) + len(rlines)
}
