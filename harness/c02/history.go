package main

// Stages that look for state the codec keeps between calls.  They run in a CHILD process (the same
// binary, `-child history`): an unrecoverable runtime fatal (concurrent map writes …) or a hang
// then becomes a property failure reported by the parent, with the stage and seed as replay.
//
//	decode-history   one process decodes a long sequence of maps / int maps / lists of text / text
//	                 arrays whose keys and texts contain pairs with EQUAL 32-bit hashes (the library's
//	                 hash.HashStr = CRC32, Java's 31-hash, FNV-1a; found by search at start-up) and
//	                 equal-length same-prefix strings, each pair in both orders: every decode must
//	                 return its own value whatever was decoded before
//	after-failures   k = 1 … 3000 failing decodes (truncated nested values, a bad type byte inside
//	                 nesting, count bombs; every second one a chain of 500-2000 nested containers that
//	                 fails at the innermost level — millions of levels entered and abandoned in total), each through recover like a real caller, then valid
//	                 nested values of depth 1 … 12 must still round-trip
//	concurrent       12 goroutines encode and decode their own streams at the same time, all types
//	                 (the fixed-layout ones over-represented); every result must equal the one
//	                 computed sequentially beforehand

import (
	"encoding/json"
	"fmt"
	"hash/fnv"
	"os"
	"os/exec"
	"strconv"
	"strings"
	"sync"
	"time"

	gio "github.com/whatap/golib/io"
	"github.com/whatap/golib/lang/value"
	"github.com/whatap/golib/util/hash"
	"verif/harness/c02/vg"
	"verif/harness/vh"
)

type childFailure struct {
	Kind    string                 `json:"kind"`
	Key     string                 `json:"key"`
	Summary string                 `json:"summary"`
	Replay  map[string]interface{} `json:"replay"`
}

type childResult struct {
	Failures []childFailure `json:"failures"`
	Counts   map[string]int `json:"counts"`
	Cases    int            `json:"cases"`
}

func (r *childResult) fail(key, summary string, replay map[string]interface{}) {
	n := 0
	for _, f := range r.Failures {
		if f.Key == key {
			n++
		}
	}
	r.Counts["fail:"+key]++
	if n < 3 {
		r.Failures = append(r.Failures, childFailure{"property", key, summary, replay})
	}
}

func java31(s string) uint32 {
	var h uint32
	for i := 0; i < len(s); i++ {
		h = 31*h + uint32(s[i])
	}
	return h
}

func fnv1a(s string) uint32 {
	h := fnv.New32a()
	h.Write([]byte(s))
	return h.Sum32()
}

// collidingPairs searches strings with equal 32-bit hash (birthday search over short strings)
func collidingPairs(h func(string) uint32, prefix string, n, want int) [][2]string {
	seen := make(map[uint32]string, n)
	var out [][2]string
	for i := 0; i < n && len(out) < want; i++ {
		// well-mixed 13-character strings: CRC-32 cannot collide on inputs that differ in <= 4 adjacent bytes
		z := (uint64(i) + 0x9E3779B97F4A7C15) * 0xBF58476D1CE4E5B9
		z ^= z >> 29
		s := prefix + strconv.FormatUint(z, 36)
		k := h(s)
		if o, ok := seen[k]; ok && o != s {
			out = append(out, [2]string{o, s})
		} else {
			seen[k] = s
		}
	}
	return out
}

func roundtripLine(v *vg.V) (string, vh.Outcome) {
	var back string
	o := vh.Guard(func() {
		b := encode(v.ToGo())
		back = vg.FromGo(value.ReadValue(gio.NewDataInputX(b))).Line()
	})
	return back, o
}

// a small value that carries the given strings as map keys / texts, in one of several shapes
func carrier(r *vh.Rng, strs []string, shape int) *vg.V {
	txt := func(s string) *vg.V { return &vg.V{K: "T", Bs: []byte(s)} }
	switch shape % 6 {
	case 0: // string-keyed map, the strings are the keys
		m := &vg.V{K: "m"}
		seen := map[string]bool{}
		for i, s := range strs {
			if seen[s] {
				continue
			}
			seen[s] = true
			m.Ks = append(m.Ks, []byte(s))
			m.L = append(m.L, &vg.V{K: "D", I: int64(i)})
		}
		return m
	case 1: // int-keyed map of texts
		m := &vg.V{K: "im"}
		for i, s := range strs {
			m.IKs = append(m.IKs, int32(i*101))
			m.L = append(m.L, txt(s))
		}
		return m
	case 2: // list of texts
		l := &vg.V{K: "l"}
		for _, s := range strs {
			l.L = append(l.L, txt(s))
		}
		return l
	case 3: // text array
		a := &vg.V{K: "at"}
		for _, s := range strs {
			a.Ss = append(a.Ss, []byte(s))
		}
		return a
	case 4: // map whose keys and values are the strings, nested in a list
		m := &vg.V{K: "m"}
		seen := map[string]bool{}
		for i, s := range strs {
			if seen[s] {
				continue
			}
			seen[s] = true
			m.Ks = append(m.Ks, []byte(s))
			m.L = append(m.L, txt(strs[(i+1)%len(strs)]))
		}
		return &vg.V{K: "l", L: []*vg.V{m, {K: "B", B: r.Bool()}}}
	}
	return txt(strs[0])
}

func stageDecodeHistory(seed uint64, thorough bool, res *childResult) {
	fmt.Fprintln(os.Stderr, "stage decode-history")
	r := vh.NewRng(seed ^ 0x1111)
	nSearch := 400000
	var pairs [][2]string
	lib := collidingPairs(func(s string) uint32 { return uint32(hash.HashStr(s)) }, "k", nSearch, 12)
	res.Counts["history:colliding-pairs:HashStr"] = len(lib)
	pairs = append(pairs, lib...)
	j := collidingPairs(java31, "j", nSearch, 8)
	res.Counts["history:colliding-pairs:java31"] = len(j)
	pairs = append(pairs, j...)
	pairs = append(pairs, [2]string{"Aa", "BB"}, [2]string{"AaAa", "BBBB"}, [2]string{"AaBB", "BBAa"})
	f := collidingPairs(fnv1a, "f", nSearch, 8)
	res.Counts["history:colliding-pairs:fnv1a"] = len(f)
	pairs = append(pairs, f...)
	for i := 0; i < 6; i++ { // equal length, same prefix
		pairs = append(pairs, [2]string{fmt.Sprintf("service.name.%04d", i), fmt.Sprintf("service.name.%04d", i+1)})
	}
	rounds := 12
	if thorough {
		rounds = 120
	}
	var recent []string
	step := 0
	check := func(v *vg.V, note string) {
		step++
		res.Cases++
		line := v.Line()
		progress("decode-history step " + strconv.Itoa(step) + " " + vh.Clip(line, 300))
		back, o := roundtripLine(v)
		if !o.OK() || back != line {
			res.fail("ReadValue:"+vg.TypeName[v.K]+":depends-on-earlier-decodes",
				"decode(encode v) differs from v at step "+strconv.Itoa(step)+" of a decode history in one process ("+note+"); the same value round-trips in a fresh process",
				map[string]interface{}{"stage": "history", "seed": seed, "step": step, "value": vh.Clip(line, 1500), "decoded": vh.Clip(back, 1500),
					"panic": vh.Clip(o.Panic, 200), "previous": append([]string{}, recent...)})
		}
		recent = append(recent, vh.Clip(line, 200))
		if len(recent) > 6 {
			recent = recent[1:]
		}
	}
	gen := vg.New(r.Fork(), vg.Opt{Depth: 3, Width: 4, Nil: true})
	for round := 0; round < rounds; round++ {
		for pi, p := range pairs {
			shape := round + pi
			a, b := p[0], p[1]
			if round%2 == 1 {
				a, b = b, a // both orders over the rounds
			}
			check(carrier(r, []string{a, "x"}, shape), "first of a pair with equal hash")
			if r.Chance(40) {
				check(gen.Tree(15), "unrelated value in between")
			}
			check(carrier(r, []string{b, "x"}, shape), "second of the pair")
			check(carrier(r, []string{a, b}, shape+1), "both in one value")
			check(carrier(r, []string{b}, shape+2), "second alone, another shape")
			check(carrier(r, []string{a}, shape+2), "first again")
		}
	}
	res.Counts["history:decodes"] = step
}

func stageAfterFailures(seed uint64, thorough bool, res *childResult) {
	fmt.Fprintln(os.Stderr, "stage after-failures")
	r := vh.NewRng(seed ^ 0x2222)
	gen := vg.New(r.Fork(), vg.Opt{Depth: 5, Width: 3, Nil: true})
	nested := func(depth int) *vg.V {
		v := &vg.V{K: "T", Bs: []byte("leaf")}
		for i := 0; i < depth; i++ {
			switch (i + depth) % 3 {
			case 0:
				v = &vg.V{K: "l", L: []*vg.V{v, {K: "D", I: int64(i)}}}
			case 1:
				v = &vg.V{K: "m", Ks: [][]byte{[]byte("k")}, L: []*vg.V{v}}
			default:
				v = &vg.V{K: "im", IKs: []int32{int32(i)}, L: []*vg.V{v}}
			}
		}
		return v
	}
	// malformed inputs
	var bad [][]byte
	for d := 1; d <= 8; d++ {
		full := encode(nested(d).ToGo())
		for _, cut := range []int{len(full) - 1, len(full) / 2, 2, len(full) - 3} {
			if cut > 0 && cut < len(full) {
				bad = append(bad, full[:cut]) // truncated inside the nesting
			}
		}
		b := append([]byte{}, full...)
		for i := 0; i+6 <= len(b); i++ { // the tag of the innermost text "leaf": an unknown type byte deep inside
			if b[i] == 50 && b[i+1] == 4 && string(b[i+2:i+6]) == "leaf" {
				b[i] = 0xEE
			}
		}
		bad = append(bad, b)
	}
	bad = append(bad,
		[]byte{70, 4, 0x7f, 0xff, 0xff, 0xff},          // list, count 2^31-1, nothing follows
		[]byte{80, 4, 0x7f, 0xff, 0xff, 0xff},          // map, count 2^31-1
		[]byte{81, 8, 0x7f, 0, 0, 0, 0, 0, 0, 0},       // int map, count 2^62
		[]byte{71, 0x7f, 0xff},                         // int array, count 32767, no elements
		[]byte{70, 1, 2, 70, 1, 2, 70, 1, 2, 80, 1, 1}, // nested lists / map cut short
		[]byte{70, 1, 1, 99})                           // list of one value with unknown tag
	// DEEP failing inputs: a chain of several hundred to two thousand nested containers (3-6 bytes a
	// level) that ends in a failure at the innermost level, so that ONE failing decode passes through
	// (and, if the codec kept such a thing, leaks) its whole depth; every way a decode can end is used
	deepChain := func(depth int, shape int, tail []byte) []byte {
		var b []byte
		for i := 0; i < depth; i++ {
			switch {
			case shape == 1 && i%3 == 1:
				b = append(b, 80, 1, 1, 1, 'k') // map, one entry, key "k"
			case shape == 2 && i%2 == 1:
				b = append(b, 81, 1, 1, 0, 0, 0, byte(i)) // int map, one entry
			default:
				b = append(b, 70, 1, 1) // list of one
			}
		}
		return append(b, tail...)
	}
	var deep [][]byte
	for _, depth := range []int{500, 900, 1400, 2000} {
		for shape := 0; shape < 3; shape++ {
			deep = append(deep,
				deepChain(depth, shape, nil),                                   // input ends: the tag byte of the innermost value is missing
				deepChain(depth, shape, []byte{50, 9, 'a'}),                    // innermost text shorter than its length says
				deepChain(depth, shape, []byte{0xEE}),                          // unknown type byte at the innermost level (CreateValue)
				deepChain(depth, shape, []byte{70, 4, 0x7f, 0xff, 0xff, 0xff}), // count guard: list of 2^31-1 with nothing behind
				deepChain(depth, shape, []byte{71, 0xff, 0xff}),                // negative array count
				deepChain(depth, shape, []byte{73, 0, 2, 1, 'x'}),              // text array cut after its first element
				deepChain(depth, shape, []byte{45, 0, 0, 0}))                   // fixed-layout summary cut short
		}
	}
	res.Counts["after-failures:deep-inputs"] = len(deep)
	{ // the unchanged code must be able to decode that depth when the input is complete
		ok := 0
		for _, depth := range []int{500, 2000} {
			b := deepChain(depth, 0, []byte{0})
			if o := vh.Guard(func() { value.ReadValue(gio.NewDataInputX(b)) }); o.OK() {
				ok++
			}
		}
		res.Counts["after-failures:deep-valid-decodes-ok"] = ok
	}
	for i := 0; i < 20; i++ {
		b := encode(gen.Container([]string{"l", "m", "im"}[r.Intn(3)], 4).ToGo())
		if len(b) > 3 {
			bad = append(bad, b[:1+r.Intn(len(b)-1)])
		}
	}
	ks := []int{1, 10, 100, 1000, 3000}
	if thorough {
		ks = append(ks, 20000)
	}
	failed, succeeded := 0, 0
	for _, k := range ks {
		progress("after-failures k=" + strconv.Itoa(k))
		for i := 0; i < k; i++ {
			b := bad[(i+k)%len(bad)]
			if i%2 == 1 {
				b = deep[(i/2+k)%len(deep)]
			}
			o := vh.Guard(func() { value.ReadValue(gio.NewDataInputX(b)) }) // recover: what a real caller does
			if o.OK() {
				succeeded++
			} else {
				failed++
			}
		}
		for depth := 1; depth <= 12; depth++ {
			progress("after-failures valid depth " + strconv.Itoa(depth))
			v := nested(depth)
			res.Cases++
			back, o := roundtripLine(v)
			if !o.OK() || back != v.Line() {
				res.fail("ReadValue:"+vg.TypeName[v.K]+":fails-after-failed-decodes",
					fmt.Sprintf("after %d failed decodes (recovered panics) a valid nested value of depth %d no longer round-trips", k, depth),
					map[string]interface{}{"stage": "history", "seed": seed, "failed_decodes": k, "depth": depth, "value": vh.Clip(v.Line(), 1500),
						"decoded": vh.Clip(back, 1500), "panic": vh.Clip(o.Panic, 200)})
			}
		}
		for i := 0; i < 30; i++ { // and ordinary values
			v := gen.Tree(40)
			res.Cases++
			back, o := roundtripLine(v)
			if !o.OK() || back != v.Line() {
				res.fail("ReadValue:"+vg.TypeName[v.K]+":fails-after-failed-decodes",
					fmt.Sprintf("after %d failed decodes a valid value no longer round-trips", k),
					map[string]interface{}{"stage": "history", "seed": seed, "failed_decodes": k, "value": vh.Clip(v.Line(), 1500), "decoded": vh.Clip(back, 1500)})
			}
		}
	}
	res.Counts["after-failures:failing-decodes"] = failed
	res.Counts["after-failures:malformed-but-accepted"] = succeeded
}

func stageConcurrent(seed uint64, thorough bool, res *childResult) {
	fmt.Fprintln(os.Stderr, "stage concurrent")
	const workers = 12
	iters := 150
	if thorough {
		iters = 1500
	}
	type item struct {
		v     *vg.V
		line  string
		bytes string
	}
	streams := make([][]item, workers)
	base := vh.NewRng(seed ^ 0x3333)
	fixed := []string{"S", "M", "af", "al", "ai", "P", "D", "G", "F", "L", "I", "H", "X", "T", "at", "B", "N"}
	for w := range streams {
		r := base.Fork()
		gen := vg.New(r, vg.Opt{Depth: 3, Width: 4, Nil: true})
		for i := 0; i < 40; i++ {
			var v *vg.V
			if i%2 == 0 {
				v = gen.Flat(fixed[(i/2+w)%len(fixed)])
			} else {
				v = gen.Tree(20)
			}
			streams[w] = append(streams[w], item{v, v.Line(), vh.Hex(encode(v.ToGo()))}) // sequential reference
		}
	}
	var mu sync.Mutex
	progressed := false
	var wg sync.WaitGroup
	start := make(chan struct{})
	for w := 0; w < workers; w++ {
		wg.Add(1)
		go func(w int) {
			defer wg.Done()
			<-start
			for it := 0; it < iters; it++ {
				mu.Lock()
				progressed = true
				mu.Unlock()
				for _, x := range streams[w] {
					var b []byte
					var back string
					o := vh.Guard(func() {
						b = encode(x.v.ToGo())
						back = vg.FromGo(value.ReadValue(gio.NewDataInputX(b))).Line()
					})
					if o.OK() && vh.Hex(b) == x.bytes && back == x.line {
						continue
					}
					mu.Lock()
					what, key := "bytes differ from the sequentially computed encoding", "WriteValue:"+vg.TypeName[x.v.K]+":differs-under-concurrency"
					if o.OK() && vh.Hex(b) == x.bytes {
						what, key = "decoded value differs", "ReadValue:"+vg.TypeName[x.v.K]+":differs-under-concurrency"
					}
					res.fail(key, fmt.Sprintf("with %d goroutines encoding / decoding their own values at once: %s", workers, what),
						map[string]interface{}{"stage": "history", "seed": seed, "value": vh.Clip(x.line, 1500), "expected_bytes": vh.Clip(x.bytes, 800),
							"bytes": vh.Clip(vh.Hex(b), 800), "decoded": vh.Clip(back, 800), "panic": vh.Clip(o.Panic, 200)})
					mu.Unlock()
				}
			}
		}(w)
	}
	close(start)
	progress("concurrent encode/decode")
	go func() {
		for range time.Tick(5 * time.Second) {
			mu.Lock()
			p := progressed
			progressed = false
			mu.Unlock()
			if p {
				progress("concurrent encode/decode")
			}
		}
	}()
	wg.Wait()
	res.Cases += workers * iters * 40
	res.Counts["concurrent:encode+decode"] = workers * iters * 40
}

// ---- shared read-only values

// stageShared: several goroutines use the SAME value objects at once, read-only (encode, Equals,
// CompareTo, enumerate Keys, Size, Get, String): every encoding must be the sequential one and every
// enumeration must yield each key once.  Before that, deterministically: an encode / Size / Get /
// String / a second full enumeration issued from INSIDE a loop over Keys() must not disturb that loop.
func stageShared(seed uint64, thorough bool, res *childResult) {
	fmt.Fprintln(os.Stderr, "stage shared")
	r := vh.NewRng(seed ^ 0x4444)
	gen := vg.New(r.Fork(), vg.Opt{Depth: 3, Width: 6, Wide: 90, WidePct: 15, Nil: true})
	type shared struct {
		v     *vg.V
		g     value.Value
		bytes string
	}
	var objs []*shared
	for i := 0; i < 24; i++ {
		var v *vg.V
		switch i % 4 {
		case 0:
			v = gen.Container("m", 3)
		case 1:
			v = gen.Container("im", 3)
		case 2:
			v = gen.Container("l", 3)
		default:
			v = &vg.V{K: "l", L: []*vg.V{gen.Container("m", 2), gen.Container("im", 2), gen.Flat("at"), gen.Flat("S")}}
		}
		if (v.K == "m" || v.K == "im") && len(v.L) < 2 {
			v = gen.Container(v.K, 2)
		}
		var g value.Value
		if o := vh.Guard(func() { g = v.ToGo() }); !o.OK() {
			continue
		}
		objs = append(objs, &shared{v, g, vh.Hex(encode(g))})
	}
	// keys of a container, through its enumerator, with a nested use inside the loop
	enumerate := func(g value.Value, nested func()) (keys []string, size int) {
		switch x := g.(type) {
		case *value.MapValue:
			en := x.Keys()
			for en.HasMoreElements() {
				k := en.NextString()
				keys = append(keys, k)
				if nested != nil {
					nested()
					x.Get(k)
				}
			}
			size = x.Size()
		case *value.IntMapValue:
			en := x.Keys()
			for en.HasMoreElements() {
				k := en.NextInt()
				keys = append(keys, strconv.Itoa(int(k)))
				if nested != nil {
					nested()
					x.Get(k)
				}
			}
			size = x.Size()
		case *value.ListValue:
			for i := 0; i < x.Size(); i++ {
				keys = append(keys, strconv.Itoa(i))
				if nested != nil {
					nested()
					x.Get(i)
				}
			}
			size = x.Size()
		}
		return
	}
	wantKeys := func(v *vg.V) []string {
		var ks []string
		for i := range v.L {
			switch v.K {
			case "m":
				ks = append(ks, string(v.Ks[i]))
			case "im":
				ks = append(ks, strconv.Itoa(int(v.IKs[i])))
			default:
				ks = append(ks, strconv.Itoa(i))
			}
		}
		return ks
	}
	same := func(a, b []string) bool {
		if len(a) != len(b) {
			return false
		}
		for i := range a {
			if a[i] != b[i] {
				return false
			}
		}
		return true
	}
	// deterministic nested-use probe
	for _, o := range objs {
		o := o
		nestedUses := map[string]func(){
			"WriteValue":                  func() { encode(o.g) },
			"Size":                        func() { enumerate(o.g, nil) },
			"Keys (a second enumeration)": func() { enumerate(o.g, nil) },
			"Equals(self)":                func() { o.g.Equals(o.g) },
			"CompareTo(self)":             func() { o.g.CompareTo(o.g) },
			"String":                      func() { _ = fmt.Sprint(o.g) },
		}
		for name, use := range nestedUses {
			progress("nested " + name + " in " + vh.Clip(o.v.Line(), 300))
			var got []string
			var size int
			out := vh.Guard(func() { got, size = enumerate(o.g, use) })
			res.Cases++
			if !out.OK() || !same(got, wantKeys(o.v)) || size != len(o.v.L) {
				res.fail(vg.TypeName[o.v.K]+".Keys:enumeration-disturbed-by-nested-"+strings.Fields(name)[0],
					fmt.Sprintf("a loop over the keys of a value yields %d of its %d keys when %s of the same value is called inside the loop", len(got), len(o.v.L), name),
					map[string]interface{}{"stage": "history", "seed": seed, "value": vh.Clip(o.v.Line(), 1500), "nested_call": name, "keys_seen": len(got), "panic": vh.Clip(out.Panic, 200)})
			}
			if b := vh.Hex(encode(o.g)); b != o.bytes {
				res.fail("WriteValue:"+vg.TypeName[o.v.K]+":changes-after-read-only-use", "the encoding of an unmodified value changed after read-only calls on it",
					map[string]interface{}{"stage": "history", "seed": seed, "value": vh.Clip(o.v.Line(), 1500), "nested_call": name})
			}
		}
	}
	// concurrent read-only use of the same objects
	const workers = 10
	iters := 60
	if thorough {
		iters = 600
	}
	var mu sync.Mutex
	var wg sync.WaitGroup
	start := make(chan struct{})
	for w := 0; w < workers; w++ {
		wg.Add(1)
		go func(w int) {
			defer wg.Done()
			<-start
			for it := 0; it < iters; it++ {
				for i := range objs {
					o := objs[(i+w)%len(objs)]
					var b string
					var keys []string
					var size int
					eq, cmp := true, 0
					out := vh.Guard(func() {
						b = vh.Hex(encode(o.g))
						keys, size = enumerate(o.g, nil)
						eq = o.g.Equals(o.g) || o.v.HasNaN()
						cmp = o.g.CompareTo(o.g)
						if o.v.HasNaN() || o.v.HasMap() {
							cmp = 0
						}
					})
					if out.OK() && b == o.bytes && same(keys, wantKeys(o.v)) && size == len(o.v.L) && eq && cmp == 0 {
						continue
					}
					mu.Lock()
					what := "encoding differs from the sequential one"
					key := "WriteValue:" + vg.TypeName[o.v.K] + ":differs-when-shared-concurrently"
					if out.OK() && b == o.bytes {
						what = fmt.Sprintf("enumeration yields %d of %d keys / Equals(self) %v / CompareTo(self) %d", len(keys), len(o.v.L), eq, cmp)
						key = vg.TypeName[o.v.K] + ".Keys:differs-when-shared-concurrently"
					}
					res.fail(key, fmt.Sprintf("%d goroutines use the same unmodified value read-only at once: %s", workers, what),
						map[string]interface{}{"stage": "history", "seed": seed, "value": vh.Clip(o.v.Line(), 1500), "bytes": vh.Clip(b, 600), "expected_bytes": vh.Clip(o.bytes, 600), "panic": vh.Clip(out.Panic, 200)})
					mu.Unlock()
				}
			}
		}(w)
	}
	close(start)
	progress("concurrent read-only use of shared values")
	wg.Wait()
	res.Cases += workers * iters * len(objs)
	res.Counts["shared:concurrent-read-only-uses"] = workers * iters * len(objs)
	res.Counts["shared:objects"] = len(objs)
}

// ---- watchdog of the child process: a stage that makes no progress is reported and the process exits

var (
	progressMu   sync.Mutex
	progressNote string
	progressAt   = time.Now()
)

func progress(s string) {
	progressMu.Lock()
	progressNote, progressAt = s, time.Now()
	progressMu.Unlock()
}

func startWatchdog(limit time.Duration) {
	go func() {
		for {
			time.Sleep(time.Second)
			progressMu.Lock()
			idle, n := time.Since(progressAt), progressNote
			progressMu.Unlock()
			if idle > limit {
				fmt.Fprintln(os.Stderr, "HANG "+n)
				os.Exit(9)
			}
		}
	}()
}

// childMain runs the stages and prints the result as JSON
func childMain(seed uint64, thorough bool) {
	// one JSON line per stage, flushed at once: what a stage found survives a crash of a later one
	startWatchdog(120 * time.Second)
	for _, st := range []func(uint64, bool, *childResult){stageDecodeHistory, stageAfterFailures, stageConcurrent, stageShared} {
		res := &childResult{Counts: map[string]int{}}
		st(seed, thorough, res)
		b, _ := json.Marshal(res)
		os.Stdout.Write(append(b, '\n'))
	}
	fmt.Fprintln(os.Stderr, "stages done")
}

// runChild starts the child process and merges what it found into the report
func runChild(env *vh.Env, rep *vh.Report, seed uint64) {
	exe, err := os.Executable()
	if err != nil {
		vh.Die("child: %v", err)
	}
	cmd := exec.Command(exe, "-child", "history", "-seed", strconv.FormatUint(seed, 10), "-tier", env.Tier)
	cmd.Env = append(os.Environ(), "GOMEMLIMIT=4GiB")
	var stdout, stderr lockedBuf
	cmd.Stdout, cmd.Stderr = &stdout, &stderr
	limit := 480 * time.Second // bounds hangs only; the stages take seconds on an idle machine
	if env.Thorough {
		limit = 1800 * time.Second
	}
	done := make(chan error, 1)
	if err := cmd.Start(); err != nil {
		vh.Die("child: %v", err)
	}
	go func() { done <- cmd.Wait() }()
	var werr error
	timedOut := false
	select {
	case werr = <-done:
	case <-time.After(limit):
		timedOut = true
		cmd.Process.Kill()
		<-done
	}
	nStages := 0
	for _, ln := range strings.Split(string(stdout.Bytes()), "\n") {
		var res childResult
		if len(ln) == 0 || json.Unmarshal([]byte(ln), &res) != nil {
			continue
		}
		nStages++
		for _, f := range res.Failures {
			rep.Fail(f.Kind, f.Key, f.Summary, f.Replay)
		}
		for k, n := range res.Counts {
			rep.CountN(k, n)
		}
		rep.Evaluations += res.Cases
	}
	if timedOut || werr != nil || nStages < 4 {
		tail := stderr.String()
		stage := "?"
		for _, s := range []string{"shared", "concurrent", "after-failures", "decode-history"} {
			if containsLine(tail, "stage "+s) {
				stage = s
				break
			}
		}
		if len(tail) > 1500 {
			tail = tail[len(tail)-1500:]
		}
		what := "crashed"
		if timedOut || containsLine(tail, "HANG ") {
			what = "hung"
		}
		rep.Fail("property", "WriteValue+ReadValue:process-"+what+"-in-"+stage,
			"the process running the "+stage+" stage "+what+" (an unrecoverable runtime fatal or a deadlock inside the codec)",
			map[string]interface{}{"stage": "history", "seed": seed, "stderr": tail})
	}
}

func containsLine(s, line string) bool {
	for i := 0; i+len(line) <= len(s); i++ {
		if s[i:i+len(line)] == line {
			return true
		}
	}
	return false
}

type lockedBuf struct {
	mu sync.Mutex
	b  []byte
}

func (l *lockedBuf) Write(p []byte) (int, error) {
	l.mu.Lock()
	defer l.mu.Unlock()
	l.b = append(l.b, p...)
	return len(p), nil
}
func (l *lockedBuf) Bytes() []byte  { l.mu.Lock(); defer l.mu.Unlock(); return append([]byte{}, l.b...) }
func (l *lockedBuf) String() string { return string(l.Bytes()) }
