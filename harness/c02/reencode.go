package main

// Re-encoding after in-place mutation of reachable children, encoding twice, and buffer aliasing.
//
// A value is encoded, then a child reachable through the public accessors is mutated in place
// (vg.MutateInPlace: ListValue.Add/Set/Clear, nested MapValue / IntMapValue Put / Clear / NewList,
// element writes through the exposed slices of arrays / blobs, summary AddCount / Add, scalar field
// writes), then the *same object* is encoded again: the bytes must be the reference encoding of the
// value as it is now — not what an earlier encode saw.

import (
	"fmt"

	gio "github.com/whatap/golib/io"
	"github.com/whatap/golib/lang/value"
	"verif/harness/c02/vg"
	"verif/harness/vh"
)

type reSpec struct {
	Value string `json:"value"`
	HSeed uint64 `json:"history_seed"`
	MSeed uint64 `json:"mutation_seed"`
	Steps int    `json:"steps"`
	Root  bool   `json:"root"` // the steps are life-cycle steps on the root object itself (vg.MutateRoot)
}

type reStep struct {
	line  string // the content the object should now have
	what  string // the mutation applied
	bytes []byte // encode(g) after it
	twice []byte // encode(g) once more
	fresh []byte // encode of a freshly built value with that content
	back  string // decode(bytes)
	stale string // type of the deepest object on the mutated path whose own encoding is stale
	out   vh.Outcome
}

func rawEncode(g value.Value) []byte {
	out := gio.NewDataOutputX()
	value.WriteValue(out, g)
	return out.ToByteArray() // deliberately not copied
}

func runReencode(sp reSpec) (steps []reStep, ok bool) {
	v, err := vg.ParseLine(sp.Value)
	if err != nil {
		vh.Die("reencode value: %v", err)
	}
	var g value.Value
	if o := vh.GuardTimeout(implDeadline, func() { g = build(v, sp.HSeed) }); !o.OK() {
		return []reStep{{what: "build", line: v.Line(), out: o}}, false
	}
	r := vh.NewRng(sp.MSeed)
	gen := vg.New(r.Fork(), vg.Opt{Depth: 2, Width: 3, Nil: false})
	for k := 0; k <= sp.Steps; k++ {
		st := reStep{what: "build"}
		st.out = vh.GuardTimeout(implDeadline, func() {
			if k > 0 {
				var path []vg.PathNode
				if sp.Root {
					st.what = vg.MutateRoot(r, g, v, gen)
					path = []vg.PathNode{{G: g, V: v}}
				} else {
					path, st.what = vg.MutateInPlace(r, g, v, gen)
				}
				defer func() {
					// which object on the path serves stale bytes (deepest first)?
					for i := len(path) - 1; i >= 0; i-- {
						if vh.Hex(encode(path[i].G)) != vh.Hex(encode(path[i].V.ToGo())) {
							st.stale = vg.TypeName[path[i].V.K]
							break
						}
					}
				}()
			}
			st.line = v.Line()
			st.bytes = encode(g)
			st.twice = encode(g)
			st.fresh = encode(v.ToGo())
			st.back = vg.FromGo(value.ReadValue(gio.NewDataInputX(st.bytes))).Line()
		})
		steps = append(steps, st)
		if !st.out.OK() {
			break
		}
	}
	return steps, true
}

func reencodeStage(env *vh.Env, rep *vh.Report, rng *vh.Rng, specs []reSpec) int {
	if specs == nil {
		n := 700
		if env.Thorough {
			n = 8000
		}
		g := vg.New(rng.Fork(), vg.Opt{Depth: 4, Width: 4, Nil: true})
		for i := 0; i < n; i++ {
			v := g.Container([]string{"l", "m", "im"}[rng.Intn(3)], 2+rng.Intn(3))
			sp := reSpec{Value: v.LineX(), MSeed: rng.U64() | 1, Steps: 1 + rng.Intn(3)}
			if rng.Chance(50) {
				sp.HSeed = rng.U64() | 1
			}
			specs = append(specs, sp)
		}
		// life cycles of ONE container object: encode, mutate it through its own public methods (Put*, PutAll,
		// Clear, Clear-then-refill under the same keys with lookups around it, Add / Set …), encode again, …
		nl := 500
		if env.Thorough {
			nl = 6000
		}
		small := vg.New(rng.Fork(), vg.Opt{Depth: 2, Width: 3, Nil: true})
		for i := 0; i < nl; i++ {
			v := small.Container([]string{"m", "m", "im", "l"}[rng.Intn(4)], 2)
			if i%5 == 0 && v.K == "m" { // the single-entry map: first key = last key
				v = &vg.V{K: "m", Ks: [][]byte{[]byte("only")}, L: []*vg.V{{K: "T", Bs: []byte("before")}}}
			}
			specs = append(specs, reSpec{Value: v.LineX(), MSeed: rng.U64() | 1, Steps: 3 + rng.Intn(6), Root: true})
		}
	}
	var lines []string
	var all [][]reStep
	hangs := 0
	for _, sp := range specs {
		if hangs >= 1 { // every hang leaves a spinning goroutine behind: stop the stage, the reports are made
			all = append(all, nil)
			continue
		}
		steps, _ := runReencode(sp)
		for _, st := range steps {
			if st.out.Timeout {
				hangs++
			}
		}
		all = append(all, steps)
		for _, st := range steps {
			if st.out.OK() {
				lines = append(lines, "E "+st.line)
			}
		}
	}
	outs, err := vh.RunDriver(env.Driver, lines)
	if err != nil {
		vh.Die("%v", err)
	}
	li := 0
	for i, steps := range all {
		sp := specs[i]
		for k, st := range steps {
			replay := map[string]interface{}{"value": vh.Clip(sp.Value, 3000), "history_seed": sp.HSeed, "mutation_seed": sp.MSeed, "steps": sp.Steps, "root": sp.Root,
				"failing_step": k, "mutation": st.what, "content_now": vh.Clip(st.line, 2000)}
			top := "?"
			if len(steps) > 0 {
				if v, err := vg.ParseLine(sp.Value); err == nil {
					top = vg.TypeName[v.K]
				}
			}
			if st.out.Timeout {
				rep.Fail("property", "WriteValue:"+top+":hangs-after-in-place-mutation", "building / encoding / decoding did not finish within its deadline after "+st.what, replay)
				break
			}
			if !st.out.OK() {
				rep.Fail("property", "WriteValue:"+top+":panic-after-in-place-mutation", "encode / decode panicked after "+st.what+": "+vh.Clip(st.out.Panic, 200), replay)
				break
			}
			model := outs[li]
			li++
			rep.Case("reencode "+st.line+" #"+fmt.Sprint(k), true)
			if k == 0 {
				rep.Count("reencode:build")
			} else {
				rep.Count("reencode:mutation:" + st.what)
			}
			hexB := vh.Hex(st.bytes)
			if vh.Hex(st.twice) != hexB {
				rep.Fail("property", "WriteValue:"+top+":encode-twice-differs", "encoding the same unchanged object twice gives different bytes", replay)
			}
			if hexB != model {
				replay["implementation"] = vh.Clip(hexB, 1500)
				replay["reference"] = vh.Clip(model, 1500)
				if k > 0 && vh.Hex(st.fresh) == model {
					who := st.stale
					if who == "" {
						who = top
					}
					key := ":stale-bytes-after-in-place-mutation"
					if sp.Root {
						key = ":wrong-bytes-after-life-cycle-step"
					}
					rep.Fail("property", "WriteValue:"+who+key,
						"after "+st.what+" on a reachable child the object encodes to bytes that are not the encoding of its current content (a freshly built equal value encodes correctly)", replay)
				} else {
					rep.Fail("property", "WriteValue:"+top+":bytes-differ-from-reference-after-mutation", "bytes differ from the reference encoder after "+st.what, replay)
				}
			} else if st.back != st.line {
				replay["decoded"] = vh.Clip(st.back, 1500)
				rep.Fail("property", "ReadValue:"+top+":roundtrip-differs-after-mutation", "decode(encode v) differs from the current content after "+st.what, replay)
			}
		}
	}

	// buffer aliasing: encode A, encode B, then decode A's bytes (the slices are used as returned, not copied)
	if len(specs) > 1 {
		nAlias := 0
		for i := 0; i+1 < len(specs) && nAlias < 300; i += 2 {
			va, e1 := vg.ParseLine(specs[i].Value)
			vb, e2 := vg.ParseLine(specs[i+1].Value)
			if e1 != nil || e2 != nil {
				continue
			}
			nAlias++
			var backA, backA2, backB string
			if hangs >= 1 {
				break
			}
			o := vh.GuardTimeout(implDeadline, func() {
				ga, gb := build(va, specs[i].HSeed), build(vb, specs[i+1].HSeed)
				rawA := rawEncode(ga)
				rawB := rawEncode(gb)
				rawA2 := rawEncode(ga) // the same object once more, into another stream
				backA = vg.FromGo(value.ReadValue(gio.NewDataInputX(rawA))).Line()
				backB = vg.FromGo(value.ReadValue(gio.NewDataInputX(rawB))).Line()
				backA2 = vg.FromGo(value.ReadValue(gio.NewDataInputX(rawA2))).Line()
			})
			if o.Timeout {
				hangs++
			}
			rep.Case("alias "+va.Line()+" | "+vb.Line(), true)
			rep.Count("reencode:encodeA-encodeB-decodeA")
			if !o.OK() || backA != va.Line() || backB != vb.Line() || backA2 != va.Line() {
				rep.Fail("property", "WriteValue:"+vg.TypeName[va.K]+":bytes-change-after-another-encode",
					"bytes obtained from WriteValue no longer decode to the value after another value (or the same one again) was encoded",
					map[string]interface{}{"a": vh.Clip(va.LineX(), 2000), "b": vh.Clip(vb.LineX(), 2000), "decoded_a": vh.Clip(backA, 1000), "decoded_b": vh.Clip(backB, 1000)})
			}
		}
	}
	return len(lines)
}
