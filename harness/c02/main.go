// Correspondence harness for C02: lang/value WriteValue / ReadValue against the Lean CodeModel
// Golib.Value.Model (driver drv_c02).
//
// The model is the independent reference encoder of the value format, so a disagreement on the
// bytes of a well-formed value *is* a failure of the property.  In addition the property is
// evaluated directly on the implementation: decode(encode v) has the same type and content with
// entries and items in their order, decoding consumes exactly the encoding (Available), and
// re-encoding the decoded value reproduces the bytes.
package main

import (
	"encoding/json"
	"flag"
	"fmt"
	"os"
	"sort"
	"strconv"
	"strings"
	"time"

	gio "github.com/whatap/golib/io"
	"github.com/whatap/golib/lang/value"
	"verif/harness/c02/vg"
	"verif/harness/vh"
)

type tcase struct {
	v    *vg.V
	line string
	rest []byte
	// implementation
	wOut     vh.Outcome
	bytes    []byte
	rOut     vh.Outcome
	back     string // line of the decoded value
	avail    int32
	reenc    []byte
	reOut    vh.Outcome
	errExp   bool   // the encoding is outside the format (array too long): both sides must reject it
	skipped  bool   // not run: twelve hangs were already confirmed
	hung     bool   // the worker did not answer within the deadline and was killed
	died     bool   // the worker process died
	phase    string // where it was: build | encode | decode
	connLine string // decoded through a net.Conn-backed DataInputX
	connOut  vh.Outcome
	connRun  bool
	hseed    uint64 // non-zero: the implementation value is built through a mutation history (vg.ToGoH) from this seed
}

func build(v *vg.V, hseed uint64) value.Value {
	if hseed == 0 {
		return v.ToGo()
	}
	return v.ToGoH(vh.NewRng(hseed))
}

// roundtripFails: decode(encode v) differs from v when v is built plainly (hseed 0) or through a history
func roundtripFails(n *vg.V, hseed uint64) bool {
	x := &tcase{v: n, line: n.Line(), hseed: hseed}
	runImpl(x)
	return x.wOut.OK() && x.rOut.OK() && x.back != x.line
}

// historySeeds: a few seeds derived from the failing case's, to re-try a history on a sub-value
func historySeeds(h uint64) []uint64 {
	if h == 0 {
		return []uint64{0}
	}
	return []uint64{0, h, h + 2, h + 4, h + 6, h + 8, h + 10, h + 12, h + 14}
}

func encode(g value.Value) []byte {
	out := gio.NewDataOutputX()
	value.WriteValue(out, g)
	return append([]byte{}, out.ToByteArray()...)
}

func runImpl(c *tcase) {
	var g value.Value
	c.wOut = vh.GuardTimeout(implDeadline, func() {
		g = build(c.v, c.hseed)
		c.bytes = encode(g)
	})
	if !c.wOut.OK() {
		return
	}
	in := append(append([]byte{}, c.bytes...), c.rest...)
	c.rOut = vh.GuardTimeout(implDeadline, func() {
		din := gio.NewDataInputX(in)
		d := value.ReadValue(din)
		c.avail = din.Available()
		c.back = vg.FromGo(d).Line()
		c.reOut = vh.Guard(func() { c.reenc = encode(d) })
	})
	if connLimit > 0 && len(in) <= connLimit {
		c.connRun = true
		c.connLine, c.connOut = decodeViaConn(in)
	}
}

// encodings up to this size are also decoded through a connection-backed input (0 = off)
// deadline of an implementation call made in this process (shrinking, tag table, re-encode stage);
// a call that exceeds it leaves its goroutine behind and is reported as a hang
const implDeadline = 60 * time.Second

var connLimit = 0

// how many hanging cases have been narrowed down to their smallest hanging container
var hangProbes = 0

func kindPath(v *vg.V) string { return vg.TypeName[v.K] }

// smallest sub-value (by node count, then line length) for which bad() holds
func shrink(v *vg.V, bad func(*vg.V) bool) *vg.V {
	best := v
	v.Walk(func(n *vg.V) {
		if n == v {
			return
		}
		if n.Nodes() < best.Nodes() || (n.Nodes() == best.Nodes() && len(n.Line()) < len(best.Line())) {
			if bad(n) {
				best = n
			}
		}
	})
	return best
}

func main() {
	child := flag.String("child", "", "internal: run the state-hunting stages in this (child) process")
	env, rep := vh.Parse("C02")
	if *child == "history" {
		childMain(env.Seed, env.Thorough)
		return
	}
	if *child == "worker" {
		workerMain()
		return
	}
	if *child == "cold" {
		coldChildMain()
		return
	}
	rng := vh.NewRng(env.Seed)
	connLimit = 1 << 16
	if env.Thorough {
		connLimit = 1 << 20
	}
	rep.Rule = "a case is one generated value tree (all 20 implemented type codes, depth<=6 quick / 12 thorough, boundary-biased scalars, " +
		"wide and hash-colliding maps; 60% of the values are built on the Go side through a random mutation history: junk+Clear rounds over the same / bucket-0 / colliding keys, placeholder+overwrite, PutString/PutLong/NewList, PutAll, Add/Set) plus 0-3 trailing bytes, decoded from a byte slice and from a net.Conn-backed input; in a child process: a decode history over strings with equal 32-bit hashes, valid decodes after thousands of failed ones, 12 goroutines at once; in hundreds of FRESH processes: 1-32 goroutines making the first library calls of the process at the same moment; non-trivial = its encoding is longer than one byte; distinct by one-line form"

	var cases []*tcase
	var flush0 func()
	pendingBytes := 0
	add := func(v *vg.V, rest []byte) *tcase {
		if len(cases) >= 1000 || pendingBytes >= 6<<20 {
			flush0()
			pendingBytes = 0
		}
		c := &tcase{v: v, line: v.Line(), rest: rest}
		pendingBytes += len(c.line)
		cases = append(cases, c)
		return c
	}

	totalLines, nDone := 0, 0
	// the driver is the slow side: up to four batches (each at most 1000 cases / 6 MB of value text) are in flight while the next ones are generated
	type drvRes struct {
		outs []string
		err  error
	}
	type job struct {
		cases []*tcase
		lines []string
		final bool
		res   chan drvRes
	}
	var queue []*job
	var finish func(j *job)
	var flush func(final bool)
	flush0 = func() { flush(false) }
	flush = func(final bool) {
		runBatch(cases) // implementation calls happen in worker processes, each case under a deadline
		var lines []string
		for _, c := range cases {
			lines = append(lines, "E "+c.line, "W "+c.line)
			if c.wOut.OK() {
				lines = append(lines, "D "+vh.Hex(append(append([]byte{}, c.bytes...), c.rest...)))
			} else {
				lines = append(lines, "D -")
			}
		}
		if env.Replay == "" && final {
			for t := 0; t < 256; t++ {
				lines = append(lines, "D "+vh.Hex([]byte{byte(t)}), "D "+vh.Hex(append([]byte{byte(t)}, make([]byte, 40)...)))
			}
		}
		j := &job{cases: cases, lines: lines, final: final, res: make(chan drvRes, 1)}
		go func() {
			outs, err := vh.RunDriver(env.Driver, j.lines)
			j.res <- drvRes{outs, err}
		}()
		queue = append(queue, j)
		cases = nil
		for len(queue) > 3 || (final && len(queue) > 0) {
			finish(queue[0])
			queue = queue[1:]
		}
	}
	finish = func(j *job) {
		r := <-j.res
		if r.err != nil {
			vh.Die("%v", r.err)
		}
		cases, lines, outs, final := j.cases, j.lines, r.outs, j.final
		totalLines += len(lines)

		replayOf := func(c *tcase, extra map[string]interface{}) map[string]interface{} {
			m := map[string]interface{}{"value": vh.Clip(c.v.LineX(), 4000), "rest": vh.Hex(c.rest), "history_seed": c.hseed}
			if len(c.line) > 4000 {
				m["value_truncated"] = true
			}
			for k, v := range extra {
				m[k] = v
			}
			return m
		}

		var second []string // second driver batch for shrinking byte mismatches
		type pend struct {
			c    *tcase
			subs []*vg.V
		}
		var pends []pend

		for i, c := range cases {
			mEnc, mWF, mDec := outs[3*i], outs[3*i+1], outs[3*i+2]
			rep.Case(c.line, len(c.bytes) > 1)
			rep.Count("kind:" + c.v.K)
			rep.Count(fmt.Sprintf("depth:%d", min(c.v.Depth(), 13)))
			switch n := c.v.Nodes(); {
			case n == 1:
				rep.Count("nodes:1")
			case n <= 10:
				rep.Count("nodes:2-10")
			case n <= 100:
				rep.Count("nodes:11-100")
			case n <= 1000:
				rep.Count("nodes:101-1000")
			default:
				rep.Count("nodes:>1000")
			}
			switch n := len(c.bytes); {
			case n <= 1:
				rep.Count("enc:<=1B")
			case n <= 127:
				rep.Count("enc:2-127B")
			case n <= 65535:
				rep.Count("enc:128B-64K")
			default:
				rep.Count("enc:>64K")
			}
			if c.v.HasNil() {
				rep.Count("has-nil-payload")
			}
			if (nDone+i)%97 == 0 {
				rep.Sample(map[string]string{"value": vh.Clip(c.line, 300), "bytes": vh.Clip(vh.Hex(c.bytes), 200)})
			}

			if c.skipped {
				rep.Count("skipped-after-12-hangs")
				continue
			}
			if c.hung || c.died {
				// non-termination (or a fatal crash) of the implementation: name the smallest container that does it alone
				what, verb := "did not finish within its deadline (the worker process was killed)", "hangs"
				if c.died {
					what, verb = "killed its process (unrecoverable runtime fatal)", "crashes"
				}
				bad, phase := c.v, c.phase
				if hangProbes < 2 {
					hangProbes++
					var cands []*vg.V
					c.v.Walk(func(n *vg.V) {
						if n != c.v && (n.K == "l" || n.K == "m" || n.K == "im") {
							cands = append(cands, n)
						}
					})
					sort.SliceStable(cands, func(i, j int) bool { return cands[i].Nodes() < cands[j].Nodes() })
					if len(cands) > 12 {
						cands = cands[:12]
					}
					for _, n := range cands {
						if h, ph := hangsAlone(n, c.hseed, 20*time.Second); h {
							bad, phase = n, ph
							break
						}
					}
				}
				op := "WriteValue"
				if phase == "decode" {
					op = "ReadValue"
				}
				rep.Fail("property", op+":"+kindPath(bad)+":"+verb,
					"the implementation "+what+" while it was in phase '"+phase+"' (build = Put / Add calls constructing the value, encode = WriteValue, decode = ReadValue / re-encode)",
					replayOf(c, map[string]interface{}{"phase": phase, "smallest": vh.Clip(bad.LineX(), 3000)}))
				rep.Count("hang-or-crash")
				continue
			}
			if c.errExp {
				rep.Count("outside-format:array-too-long")
				if c.wOut.OK() && vh.Hex(c.bytes) != mEnc {
					rep.Fail("correspondence", "WriteValue:"+kindPath(c.v)+":array-too-long-bytes", "writer and model differ on an over-long array", replayOf(c, nil))
				}
				implRejects := !c.rOut.OK()
				modelRejects := mDec == "fail"
				if implRejects != modelRejects {
					rep.Fail("correspondence", "ReadValue:"+kindPath(c.v)+":array-too-long", fmt.Sprintf("over-long array: implementation rejects=%v, model rejects=%v", implRejects, modelRejects), replayOf(c, nil))
				}
				continue
			}
			if mWF != "1" {
				rep.Fail("correspondence", "generator:not-well-formed", "the generator produced a value outside the scope of the theorems (model wfV = "+mWF+")", replayOf(c, nil))
				continue
			}
			if !c.wOut.OK() {
				rep.Fail("property", "WriteValue:"+kindPath(c.v)+":panic", "WriteValue panicked on a well-formed value: "+vh.Clip(c.wOut.Panic, 200), replayOf(c, nil))
				continue
			}
			hexGo := vh.Hex(c.bytes)
			if hexGo != mEnc {
				// the reference encoder disagrees: find the smallest sub-value that shows it
				var subs []*vg.V
				c.v.Walk(func(n *vg.V) { subs = append(subs, n) })
				if len(subs) > 400 {
					subs = subs[:400]
				}
				for _, s := range subs {
					second = append(second, "E "+s.Line())
				}
				pends = append(pends, pend{c, subs})
			}
			if !c.rOut.OK() {
				bad := shrink(c.v, func(n *vg.V) bool {
					x := &tcase{v: n, line: n.Line()}
					runImpl(x)
					return x.wOut.OK() && !x.rOut.OK()
				})
				rep.Fail("property", "ReadValue:"+kindPath(bad)+":panic", "ReadValue panicked on the encoding of a well-formed value: "+vh.Clip(c.rOut.Panic, 200),
					replayOf(c, map[string]interface{}{"bytes": vh.Clip(hexGo, 2000), "smallest": vh.Clip(bad.LineX(), 2000)}))
				continue
			}
			if c.back != c.line {
				// smallest sub-value that shows it, built plainly if that suffices, else through a history
				how, hs := "", uint64(0)
				bad := shrink(c.v, func(n *vg.V) bool {
					for _, h := range historySeeds(c.hseed) {
						if roundtripFails(n, h) {
							return true
						}
					}
					return false
				})
				for _, h := range historySeeds(c.hseed) {
					if roundtripFails(bad, h) {
						hs = h
						break
					}
				}
				what := ""
				if hs != 0 {
					how = "-after-history"
					what = " for a value built by a Put/Clear/overwrite/PutAll/Set history"
				}
				rep.Fail("property", "ReadValue:"+kindPath(bad)+":roundtrip-differs"+how,
					"decode(encode v) differs from v (type, content or order)"+what+": got "+vh.Clip(c.back, 300),
					replayOf(c, map[string]interface{}{"smallest": vh.Clip(bad.LineX(), 2000), "smallest_history_seed": hs, "decoded": vh.Clip(c.back, 2000)}))
			}
			if c.connRun && c.back == c.line && (!c.connOut.OK() || c.connLine != c.line) {
				bad := shrink(c.v, func(n *vg.V) bool {
					var b []byte
					if o := vh.Guard(func() { b = encode(n.ToGo()) }); !o.OK() {
						return false
					}
					l, o := decodeViaConn(b)
					return !o.OK() || l != n.Line()
				})
				rep.Fail("property", "ReadValue:"+kindPath(bad)+":differs-over-connection",
					"the same bytes decode correctly from a byte slice but not from a connection-backed input (io.NewDataInputNet; Available() is 0 there): "+c.connOut.String()+" "+vh.Clip(c.connLine, 200),
					replayOf(c, map[string]interface{}{"smallest": vh.Clip(bad.LineX(), 2000), "decoded_over_connection": vh.Clip(c.connLine, 1500), "panic": vh.Clip(c.connOut.Panic, 200)}))
			}
			if c.connRun {
				rep.Count("decoded-over-connection")
			}
			if int(c.avail) != len(c.rest) {
				rep.Fail("property", "ReadValue:"+kindPath(c.v)+":consumed", fmt.Sprintf("Available() after decoding = %d, expected %d", c.avail, len(c.rest)), replayOf(c, nil))
			}
			if c.back == c.line && (!c.reOut.OK() || vh.Hex(c.reenc) != hexGo) {
				rep.Fail("property", "WriteValue:"+kindPath(c.v)+":reencode-differs", "re-encoding the decoded value does not reproduce the bytes", replayOf(c, map[string]interface{}{"bytes": vh.Clip(hexGo, 2000), "reencoded": vh.Clip(vh.Hex(c.reenc), 2000)}))
			}
			want := "ok " + c.line + " " + strconv.Itoa(len(c.rest))
			if mDec != want && hexGo == mEnc {
				rep.Fail("correspondence", "model:decode-of-own-encoding", "the model does not decode the (agreed) encoding back to the value", replayOf(c, map[string]interface{}{"model": vh.Clip(mDec, 500)}))
			}
		}

		// ---- tag table (decode direction): every tag byte alone and followed by zeros
		var tagIn [][]byte
		for t := 0; t < 256; t++ {
			tagIn = append(tagIn, []byte{byte(t)}, append([]byte{byte(t)}, make([]byte, 40)...))
		}
		if env.Replay == "" && final {
			base := 3 * len(cases)
			for j, b := range tagIn {
				m := outs[base+j]
				var got string
				o := vh.GuardTimeout(implDeadline, func() {
					din := gio.NewDataInputX(b)
					d := value.ReadValue(din)
					got = "ok " + vg.FromGo(d).Line() + " " + strconv.Itoa(int(din.Available()))
				})
				if o.Timeout {
					rep.Fail("property", fmt.Sprintf("ReadValue:tag-%d:hangs", b[0]), "ReadValue did not return on a short input", map[string]interface{}{"bytes": vh.Hex(b)})
					continue
				}
				if !o.OK() {
					got = "fail"
				}
				rep.Case("tag "+vh.Hex(b), true)
				rep.Count("tag-table")
				if got != m {
					kind := "correspondence"
					key := fmt.Sprintf("ReadValue:tag-%d:factory", b[0])
					rep.Fail(kind, key, "tag byte "+strconv.Itoa(int(b[0]))+": implementation "+vh.Clip(got, 120)+", model "+vh.Clip(m, 120),
						map[string]interface{}{"bytes": vh.Hex(b)})
				}
			}
		}

		// ---- shrink byte mismatches against the reference encoder
		if len(second) > 0 {
			outs2, err := vh.RunDriver(env.Driver, second)
			if err != nil {
				vh.Die("%v", err)
			}
			totalLines += len(second)
			k := 0
			viaHistory := map[*vg.V]bool{}
			for _, p := range pends {
				var best *vg.V
				var bestModel, bestImpl string
				for _, s := range p.subs {
					m := outs2[k]
					k++
					var b []byte
					differs := false
					for _, h := range historySeeds(p.c.hseed) {
						o := vh.GuardTimeout(implDeadline, func() { b = encode(build(s, h)) })
						if o.OK() && vh.Hex(b) != m {
							differs = true
							if h != 0 {
								viaHistory[s] = true
							}
							break
						}
					}
					if !differs {
						continue
					}
					if best == nil || s.Nodes() < best.Nodes() || (s.Nodes() == best.Nodes() && len(s.Line()) < len(best.Line())) {
						best, bestModel, bestImpl = s, m, vh.Hex(b)
					}
				}
				if best == nil {
					best = p.c.v
				}
				how := ""
				if viaHistory[best] || (bestImpl == "" && p.c.hseed != 0) {
					how = "-after-history"
				}
				rep.Fail("property", "WriteValue:"+kindPath(best)+":bytes-differ-from-reference"+how,
					"the bytes written differ from what the reference encoder of the format emits",
					replayOf(p.c, map[string]interface{}{"smallest": vh.Clip(best.Line(), 2000), "implementation": vh.Clip(bestImpl, 2000), "reference": vh.Clip(bestModel, 2000)}))
			}
		}

		nDone += len(cases)
	}

	var reSpecs []reSpec
	var childSeeds, coldSeeds, apiSeeds []uint64
	if env.Replay != "" {
		b, err := os.ReadFile(env.Replay)
		if err != nil {
			vh.Die("replay: %v", err)
		}
		var rf struct {
			Cases []struct {
				Value string `json:"value"`
				Rest  string `json:"rest"`
				HSeed uint64 `json:"history_seed"`
				MSeed uint64 `json:"mutation_seed"`
				Steps int    `json:"steps"`
				Root  bool   `json:"root"`
				Stage string `json:"stage"`
				Seed  uint64 `json:"seed"`
			} `json:"cases"`
		}
		if err := json.Unmarshal(b, &rf); err != nil {
			vh.Die("replay: %v", err)
		}
		for _, rc := range rf.Cases {
			if rc.Stage == "history" {
				childSeeds = append(childSeeds, rc.Seed)
				continue
			}
			if rc.Stage == "cold" {
				coldSeeds = append(coldSeeds, rc.Seed)
				continue
			}
			if rc.Stage == "api" {
				apiSeeds = append(apiSeeds, rc.Seed)
				continue
			}
			if rc.Value == "" {
				continue
			}
			if rc.MSeed != 0 {
				reSpecs = append(reSpecs, reSpec{Value: rc.Value, HSeed: rc.HSeed, MSeed: rc.MSeed, Steps: rc.Steps, Root: rc.Root})
				continue
			}
			v, err := vg.ParseLine(rc.Value)
			if err != nil {
				vh.Die("replay value: %v", err)
			}
			add(v, vh.UnHex(rc.Rest)).hseed = rc.HSeed
		}
	} else {
		n := 4000
		opt := vg.Opt{Depth: 6, Width: 8, Wide: 130, WidePct: 5, Huge: 0, BigBytes: false, Nil: true}
		if env.Thorough {
			n = 40000
			opt = vg.Opt{Depth: 12, Width: 8, Wide: 130, WidePct: 5, Huge: 33000, BigBytes: true, Nil: true}
		}
		gen := vg.New(rng, opt)
		// every kind alone, with boundary payloads
		for _, k := range vg.Kinds {
			for i := 0; i < 12; i++ {
				if k == "l" || k == "m" || k == "im" {
					add(gen.Container(k, 2), nil)
				} else {
					add(gen.Flat(k), nil)
				}
			}
		}
		// fixed shapes: empty containers, >76 keys (growth), colliding keys, nested
		for _, k := range []string{"l", "m", "im"} {
			add(&vg.V{K: k}, nil)
		}
		for _, w := range []int{75, 76, 77, 127, 128, 152, 153, 154, 300} {
			g2 := vg.New(rng.Fork(), vg.Opt{Depth: 2, Width: w, Nil: true})
			m := &vg.V{K: "m"}
			for _, key := range g2.StrKeys(w) {
				m.Ks = append(m.Ks, key)
				m.L = append(m.L, g2.Flat("D"))
			}
			add(m, nil)
			im := &vg.V{K: "im"}
			for _, key := range g2.IntKeys(w) {
				im.IKs = append(im.IKs, key)
				im.L = append(im.L, g2.Flat("T"))
			}
			add(im, nil)
			l := &vg.V{K: "l"}
			for i := 0; i < w; i++ {
				l.L = append(l.L, g2.Flat(vg.FlatKinds[i%len(vg.FlatKinds)]))
			}
			add(l, nil)
		}
		// WIDE and COLLIDING: 76 … 420 entries (every growth threshold of the tables: 75, 152, 305) whose keys
		// share buckets at every table size, built plainly and through a history
		for _, w := range []int{76, 77, 100, 152, 153, 160, 230, 305, 306, 420} {
			g2 := vg.New(rng.Fork(), vg.Opt{Depth: 2, Width: w, Nil: true})
			for rep2 := 0; rep2 < 3; rep2++ {
				im := &vg.V{K: "im"}
				for _, key := range g2.WideCollidingIntKeys(w) {
					im.IKs = append(im.IKs, key)
					im.L = append(im.L, g2.Flat([]string{"D", "T", "N"}[rep2]))
				}
				m := &vg.V{K: "m"}
				for _, key := range g2.WideCollidingStrKeys(w) {
					m.Ks = append(m.Ks, key)
					m.L = append(m.L, g2.Flat([]string{"B", "I", "X"}[rep2]))
				}
				c1, c2 := add(im, nil), add(m, nil)
				if rep2 == 1 {
					c1.hseed, c2.hseed = rng.U64()|1, rng.U64()|1
				}
				if rep2 == 2 { // nested: the wide map sits inside a list inside a map
					add(&vg.V{K: "m", Ks: [][]byte{[]byte("outer")}, L: []*vg.V{{K: "l", L: []*vg.V{im.Clone(), m.Clone()}}}}, nil)
				}
				rep.Count("wide-and-colliding")
			}
		}
		{ // deep chain alternating the three containers
			depth := 40
			if env.Thorough {
				depth = 400
			}
			v := &vg.V{K: "T", Bs: []byte("leaf")}
			for i := 0; i < depth; i++ {
				switch i % 3 {
				case 0:
					v = &vg.V{K: "l", L: []*vg.V{v}}
				case 1:
					v = &vg.V{K: "m", Ks: [][]byte{[]byte("k")}, L: []*vg.V{v}}
				default:
					v = &vg.V{K: "im", IKs: []int32{int32(-i)}, L: []*vg.V{v}}
				}
			}
			add(v, nil)
		}
		for i := 0; i < n; i++ {
			v := gen.Tree(400)
			var rest []byte
			if rng.Chance(50) {
				rest = rng.Bytes(1 + rng.Intn(3))
			}
			c := add(v, rest)
			if rng.Chance(60) {
				c.hseed = rng.U64() | 1
				rep.Count("built-by-history")
			}
		}
		// small maps and lists over bucket-0 / colliding keys, always through a history
		{
			g3 := vg.New(rng.Fork(), vg.Opt{Depth: 3, Width: 5, Nil: true})
			nh := 600
			if env.Thorough {
				nh = 6000
			}
			for i := 0; i < nh; i++ {
				c := add(g3.Container([]string{"m", "im", "im", "l"}[rng.Intn(4)], 2+rng.Intn(2)), nil)
				c.hseed = rng.U64() | 1
				rep.Count("built-by-history")
			}
		}
		// outside the format: arrays longer than the signed 16-bit count; writer wraps, reader must reject
		for _, k := range vg.ArrayKinds {
			for _, sz := range []int{32768, 40000} {
				v := &vg.V{K: k}
				for i := 0; i < sz; i++ {
					switch k {
					case "ai", "al":
						v.Is = append(v.Is, int64(i%7))
					case "af":
						v.Us = append(v.Us, uint64(i%7))
					case "at":
						v.Ss = append(v.Ss, []byte{})
					}
				}
				c := add(v, nil)
				c.errExp = true
			}
		}
	}

	flush(true)
	if env.Replay == "" || len(reSpecs) > 0 {
		totalLines += reencodeStage(env, rep, rng.Fork(), reSpecs)
	}
	if env.Replay == "" {
		sharingStage(env, rep, rng.Fork())
		totalLines += largeStage(env, rep)
	}
	if env.Replay == "" {
		childSeeds = []uint64{env.Seed}
		coldSeeds = []uint64{env.Seed}
		apiSeeds = []uint64{env.Seed}
	}
	doneAPI := map[uint64]bool{}
	for _, as := range apiSeeds {
		if !doneAPI[as] {
			doneAPI[as] = true
			totalLines += apiStage(env, rep, as)
		}
	}
	doneCold := map[uint64]bool{}
	for _, cs := range coldSeeds {
		if !doneCold[cs] {
			doneCold[cs] = true
			coldStage(env, rep, cs)
		}
	}
	done := map[uint64]bool{}
	for _, cs := range childSeeds {
		if !done[cs] {
			done[cs] = true
			runChild(env, rep, cs)
		}
	}

	if slowCases > 0 {
		rep.CountN("exceeded-first-deadline-but-completed-alone", slowCases)
	}
	g1, g2 := vg.CollidingGroups()
	rep.Note("colliding string keys: %d groups of >=%d strings with equal hash index modulo 101 and 203; %d strings in bucket 0", g1, g2, vg.ZeroBucketStrings())
	rep.Note("%s", strings.TrimSpace(fmt.Sprintf("cases=%d driver lines=%d", nDone, totalLines)))
	rep.Write(env.Out)
}
