// Package vg is the neutral value tree shared by the C02 and C20 harnesses:
// generator, conversion to and from the repository's value.Value, and the
// one-line text form understood by the Lean drivers (Golib/Value/Line.lean).
package vg

import (
	"fmt"
	"math"
	"os"
	"sort"
	"strconv"
	"strings"

	"github.com/whatap/golib/lang/value"
	"github.com/whatap/golib/util/hash"
	"verif/harness/vh"
)

// V is one node of a value tree. K is the token of the one-line form.
type V struct {
	K   string // N B D I L F G S M T H X P l ai af at al m im
	B   bool
	I   int64     // D I L H
	U   uint64    // F G (bit pattern)
	Q   [4]int64  // M: sum,count,min,max ; S: count in Q[1]
	QU  [4]uint64 // S: sum,-,min,max bit patterns
	Bs  []byte    // T X P
	Nil bool      // hand a nil payload (instead of an empty one) to the implementation
	Raw bool      // P only: assign the payload to the exported field directly (&IP4Value{Val: …}), whatever its length
	Is  []int64   // ai al
	Us  []uint64  // af
	Ss  [][]byte  // at
	L   []*V      // l, and the values of m / im
	Ks  [][]byte  // m keys
	IKs []int32   // im keys
}

var Kinds = []string{"N", "B", "D", "I", "L", "F", "G", "S", "M", "T", "H", "X", "P", "l", "ai", "af", "at", "al", "m", "im"}
var FlatKinds = Kinds[:13]
var ArrayKinds = []string{"ai", "af", "at", "al"}

var TagOf = map[string]int{"N": 0, "B": 10, "D": 20, "I": 21, "L": 22, "F": 30, "G": 40, "S": 45, "M": 46, "T": 50, "H": 51,
	"X": 60, "P": 61, "l": 70, "ai": 71, "af": 72, "at": 73, "al": 74, "m": 80, "im": 81}

var TypeName = map[string]string{"N": "NullValue", "B": "BoolValue", "D": "DecimalValue", "I": "IntValue", "L": "LongValue",
	"F": "FloatValue", "G": "DoubleValue", "S": "DoubleSummary", "M": "LongSummary", "T": "TextValue", "H": "TextHashValue",
	"X": "BlobValue", "P": "IP4Value", "l": "ListValue", "ai": "IntArray", "af": "FloatArray", "at": "TextArray", "al": "LongArray",
	"m": "MapValue", "im": "IntMapValue"}

func hx(b []byte) string { return vh.Hex(b) }

// ---------------------------------------------------------------- one-line form

func (v *V) toks(out *[]string) {
	a := func(s ...string) { *out = append(*out, s...) }
	i := func(x int64) string { return strconv.FormatInt(x, 10) }
	u := func(x uint64) string { return strconv.FormatUint(x, 10) }
	switch v.K {
	case "N":
		a("N")
	case "B":
		if v.B {
			a("B", "1")
		} else {
			a("B", "0")
		}
	case "D", "I", "L", "H":
		a(v.K, i(v.I))
	case "F", "G":
		a(v.K, u(v.U))
	case "S":
		a("S", u(v.QU[0]), i(v.Q[1]), u(v.QU[2]), u(v.QU[3]))
	case "M":
		a("M", i(v.Q[0]), i(v.Q[1]), i(v.Q[2]), i(v.Q[3]))
	case "T", "X", "P":
		a(v.K, hx(v.Bs))
	case "l":
		a("l", strconv.Itoa(len(v.L)))
		for _, c := range v.L {
			c.toks(out)
		}
	case "ai", "al":
		a(v.K, strconv.Itoa(len(v.Is)))
		for _, x := range v.Is {
			a(i(x))
		}
	case "af":
		a(v.K, strconv.Itoa(len(v.Us)))
		for _, x := range v.Us {
			a(u(x))
		}
	case "at":
		a(v.K, strconv.Itoa(len(v.Ss)))
		for _, x := range v.Ss {
			a(hx(x))
		}
	case "m":
		a("m", strconv.Itoa(len(v.L)))
		for k, c := range v.L {
			a(hx(v.Ks[k]))
			c.toks(out)
		}
	case "im":
		a("im", strconv.Itoa(len(v.L)))
		for k, c := range v.L {
			a(i(int64(v.IKs[k])))
			c.toks(out)
		}
	default:
		panic("vg: bad kind " + v.K)
	}
}

// Line is the one-line text form (nil payloads print like empty ones: the format has no nil).
func (v *V) Line() string {
	var t []string
	v.toks(&t)
	return strings.Join(t, ",")
}

// LineX is Line with nil payloads marked: the hex / count token of a nil blob or array is "~".
// Only ParseLine reads it (replay files); the drivers never see it.
func (v *V) LineX() string {
	raw := false
	v.Walk(func(n *V) { raw = raw || n.Raw })
	if !v.HasNil() && !raw {
		return v.Line()
	}
	c := v.Clone()
	var t []string
	c.toksX(&t)
	return strings.Join(t, ",")
}

func (v *V) toksX(out *[]string) {
	if v.K == "P" && v.Raw {
		h := hx(v.Bs)
		if v.Nil {
			h = "~"
		}
		*out = append(*out, "P!", h)
		return
	}
	if v.Nil {
		*out = append(*out, v.K, "~")
		return
	}
	switch v.K {
	case "l":
		*out = append(*out, "l", strconv.Itoa(len(v.L)))
		for _, c := range v.L {
			c.toksX(out)
		}
	case "m":
		*out = append(*out, "m", strconv.Itoa(len(v.L)))
		for k, c := range v.L {
			*out = append(*out, hx(v.Ks[k]))
			c.toksX(out)
		}
	case "im":
		*out = append(*out, "im", strconv.Itoa(len(v.L)))
		for k, c := range v.L {
			*out = append(*out, strconv.FormatInt(int64(v.IKs[k]), 10))
			c.toksX(out)
		}
	default:
		v.toks(out)
	}
}

type parser struct {
	t []string
	p int
}

func (p *parser) next() string {
	if p.p >= len(p.t) {
		panic("vg: short line")
	}
	s := p.t[p.p]
	p.p++
	return s
}
func (p *parser) i() int64 {
	x, err := strconv.ParseInt(p.next(), 10, 64)
	if err != nil {
		panic(err)
	}
	return x
}
func (p *parser) u() uint64 {
	x, err := strconv.ParseUint(p.next(), 10, 64)
	if err != nil {
		panic(err)
	}
	return x
}
func (p *parser) val() *V {
	k := p.next()
	raw := false
	if k == "P!" { // IPv4 payload assigned directly (LineX only)
		k, raw = "P", true
	}
	v := &V{K: k, Raw: raw}
	switch k {
	case "N":
	case "B":
		v.B = p.next() == "1"
	case "D", "I", "L", "H":
		v.I = p.i()
	case "F", "G":
		v.U = p.u()
	case "S":
		v.QU[0] = p.u()
		v.Q[1] = p.i()
		v.QU[2] = p.u()
		v.QU[3] = p.u()
	case "M":
		for j := 0; j < 4; j++ {
			v.Q[j] = p.i()
		}
	case "T", "X", "P":
		if h := p.next(); h == "~" {
			v.Nil = true
		} else {
			v.Bs = vh.UnHex(h)
		}
	case "l":
		n := int(p.i())
		v.L = make([]*V, n)
		for j := range v.L {
			v.L[j] = p.val()
		}
	case "ai", "al":
		if p.t[p.p] == "~" {
			p.p++
			v.Nil = true
			return v
		}
		n := int(p.i())
		v.Is = make([]int64, n)
		for j := range v.Is {
			v.Is[j] = p.i()
		}
	case "af":
		if p.t[p.p] == "~" {
			p.p++
			v.Nil = true
			return v
		}
		n := int(p.i())
		v.Us = make([]uint64, n)
		for j := range v.Us {
			v.Us[j] = p.u()
		}
	case "at":
		if p.t[p.p] == "~" {
			p.p++
			v.Nil = true
			return v
		}
		n := int(p.i())
		v.Ss = make([][]byte, n)
		for j := range v.Ss {
			v.Ss[j] = vh.UnHex(p.next())
		}
	case "m":
		n := int(p.i())
		for j := 0; j < n; j++ {
			v.Ks = append(v.Ks, vh.UnHex(p.next()))
			v.L = append(v.L, p.val())
		}
	case "im":
		n := int(p.i())
		for j := 0; j < n; j++ {
			v.IKs = append(v.IKs, int32(p.i()))
			v.L = append(v.L, p.val())
		}
	default:
		panic("vg: bad token " + k)
	}
	return v
}

// ParseLine reads the one-line form back (used for replays and driver answers).
func ParseLine(s string) (v *V, err error) {
	defer func() {
		if r := recover(); r != nil {
			err = fmt.Errorf("%v", r)
		}
	}()
	p := &parser{t: strings.Split(s, ",")}
	v = p.val()
	if p.p != len(p.t) {
		return nil, fmt.Errorf("trailing tokens")
	}
	return v, nil
}

// ---------------------------------------------------------------- to / from the implementation

// ToGo builds the repository's value. Only exported constructors, fields and methods are used.
func (v *V) ToGo() value.Value {
	switch v.K {
	case "N":
		return value.NewNullValue()
	case "B":
		return value.NewBoolValue(v.B)
	case "D":
		return value.NewDecimalValue(v.I)
	case "I":
		return value.NewIntValue(int32(v.I))
	case "L":
		return value.NewLongValue(v.I)
	case "F":
		return value.NewFloatValue(math.Float32frombits(uint32(v.U)))
	case "G":
		return value.NewDoubleValue(math.Float64frombits(v.U))
	case "S":
		s := value.NewDoubleSummary()
		s.Sum, s.Count, s.Min, s.Max = math.Float64frombits(v.QU[0]), int32(v.Q[1]), math.Float64frombits(v.QU[2]), math.Float64frombits(v.QU[3])
		return s
	case "M":
		s := value.NewLongSummary()
		s.Sum, s.Count, s.Min, s.Max = v.Q[0], int32(v.Q[1]), v.Q[2], v.Q[3]
		return s
	case "T":
		return value.NewTextValue(string(v.Bs))
	case "H":
		return value.NewTextHashValue(int32(v.I))
	case "X":
		if v.Nil && len(v.Bs) == 0 {
			return value.NewBlobValue(nil)
		}
		return value.NewBlobValue(append([]byte{}, v.Bs...))
	case "P":
		if v.Raw {
			if v.Nil && len(v.Bs) == 0 {
				return &value.IP4Value{} // the zero value: Val is nil
			}
			return &value.IP4Value{Val: append([]byte{}, v.Bs...)}
		}
		return value.NewIP4Value(append([]byte{}, v.Bs...))
	case "l":
		l := value.NewListValue(nil)
		for _, c := range v.L {
			l.Add(c.ToGo())
		}
		return l
	case "ai":
		if v.Nil && len(v.Is) == 0 {
			return value.NewIntArray(nil)
		}
		a := make([]int32, len(v.Is))
		for i, x := range v.Is {
			a[i] = int32(x)
		}
		return value.NewIntArray(a)
	case "al":
		if v.Nil && len(v.Is) == 0 {
			return value.NewLongArray(nil)
		}
		return value.NewLongArray(append([]int64{}, v.Is...))
	case "af":
		if v.Nil && len(v.Us) == 0 {
			return value.NewFloatArray(nil)
		}
		a := make([]float32, len(v.Us))
		for i, x := range v.Us {
			a[i] = math.Float32frombits(uint32(x))
		}
		return value.NewFloatArray(a)
	case "at":
		if v.Nil && len(v.Ss) == 0 {
			return value.NewTextArray(nil)
		}
		a := make([]string, len(v.Ss))
		for i, x := range v.Ss {
			a[i] = string(x)
		}
		return value.NewTextArray(a)
	case "m":
		m := value.NewMapValue()
		for i, c := range v.L {
			m.Put(string(v.Ks[i]), c.ToGo())
		}
		return m
	case "im":
		m := value.NewIntMapValue()
		for i, c := range v.L {
			m.Put(v.IKs[i], c.ToGo())
		}
		return m
	}
	panic("vg: bad kind " + v.K)
}

// FromGo reads a value of the implementation back into a tree (public accessors only).
func FromGo(g value.Value) *V {
	switch x := g.(type) {
	case *value.NullValue:
		return &V{K: "N"}
	case *value.BoolValue:
		return &V{K: "B", B: x.Val}
	case *value.DecimalValue:
		return &V{K: "D", I: x.Val}
	case *value.IntValue:
		return &V{K: "I", I: int64(x.Val)}
	case *value.LongValue:
		return &V{K: "L", I: x.Val}
	case *value.FloatValue:
		return &V{K: "F", U: uint64(math.Float32bits(x.Val))}
	case *value.DoubleValue:
		return &V{K: "G", U: math.Float64bits(x.Val)}
	case *value.DoubleSummary:
		v := &V{K: "S"}
		v.QU[0], v.Q[1], v.QU[2], v.QU[3] = math.Float64bits(x.Sum), int64(x.Count), math.Float64bits(x.Min), math.Float64bits(x.Max)
		return v
	case *value.LongSummary:
		v := &V{K: "M"}
		v.Q[0], v.Q[1], v.Q[2], v.Q[3] = x.Sum, int64(x.Count), x.Min, x.Max
		return v
	case *value.TextValue:
		return &V{K: "T", Bs: []byte(x.Val)}
	case *value.TextHashValue:
		return &V{K: "H", I: int64(x.Val)}
	case *value.BlobValue:
		return &V{K: "X", Bs: x.Val, Nil: x.Val == nil}
	case *value.IP4Value:
		return &V{K: "P", Bs: x.Val}
	case *value.ListValue:
		v := &V{K: "l"}
		for i := 0; i < x.Size(); i++ {
			v.L = append(v.L, FromGo(x.Get(i)))
		}
		return v
	case *value.IntArray:
		v := &V{K: "ai", Nil: x.Val == nil}
		for _, e := range x.Val {
			v.Is = append(v.Is, int64(e))
		}
		return v
	case *value.LongArray:
		return &V{K: "al", Nil: x.Val == nil, Is: append([]int64{}, x.Val...)}
	case *value.FloatArray:
		v := &V{K: "af", Nil: x.Val == nil}
		for _, e := range x.Val {
			v.Us = append(v.Us, uint64(math.Float32bits(e)))
		}
		return v
	case *value.TextArray:
		v := &V{K: "at", Nil: x.Val == nil}
		for _, e := range x.Val {
			v.Ss = append(v.Ss, []byte(e))
		}
		return v
	case *value.MapValue:
		v := &V{K: "m"}
		en := x.Keys()
		for en.HasMoreElements() {
			k := en.NextString()
			v.Ks = append(v.Ks, []byte(k))
			v.L = append(v.L, FromGo(x.Get(k)))
		}
		return v
	case *value.IntMapValue:
		v := &V{K: "im"}
		en := x.Keys()
		for en.HasMoreElements() {
			k := en.NextInt()
			v.IKs = append(v.IKs, k)
			v.L = append(v.L, FromGo(x.Get(k)))
		}
		return v
	}
	panic(fmt.Sprintf("vg: unknown implementation type %T", g))
}

// Nodes counts the nodes of the tree; Depth its height.
func (v *V) Nodes() int {
	n := 1
	for _, c := range v.L {
		n += c.Nodes()
	}
	return n
}
func (v *V) Depth() int {
	d := 0
	for _, c := range v.L {
		if x := c.Depth(); x > d {
			d = x
		}
	}
	return d + 1
}

// Walk calls f on every node (pre-order).
func (v *V) Walk(f func(*V)) {
	f(v)
	for _, c := range v.L {
		c.Walk(f)
	}
}

// Clone is a deep copy.
func (v *V) Clone() *V {
	c := *v
	c.Bs = append([]byte(nil), v.Bs...)
	c.Is = append([]int64(nil), v.Is...)
	c.Us = append([]uint64(nil), v.Us...)
	c.Ss = nil
	for _, s := range v.Ss {
		c.Ss = append(c.Ss, append([]byte(nil), s...))
	}
	c.Ks = nil
	for _, s := range v.Ks {
		c.Ks = append(c.Ks, append([]byte(nil), s...))
	}
	c.IKs = append([]int32(nil), v.IKs...)
	c.L = nil
	for _, x := range v.L {
		c.L = append(c.L, x.Clone())
	}
	return &c
}

// ---------------------------------------------------------------- mutation histories

// bucket-0 keys of the backing tables (initial capacity 101, first grown capacity 203)
var zeroStr []string // strings whose hash index is 0 modulo 101 and modulo 203

func zeroIntKey(r *vh.Rng) int32 {
	k := int32(r.Intn(40)) * 20503 // 0, 20503, … : index 0 modulo 101 and 203
	if r.Chance(25) {
		k |= math.MinInt32 // the hash masks the sign bit off
	}
	if r.Chance(20) {
		k = int32(r.Intn(6)) * 101 // index 0 only before growth
	}
	return k
}

func junkValue(r *vh.Rng) value.Value {
	switch r.Intn(4) {
	case 0:
		return value.NewNullValue()
	case 1:
		return value.NewDecimalValue(r.Range(-3, 3))
	case 2:
		return value.NewTextValue("junk")
	}
	return value.NewBoolValue(r.Bool())
}

// ToGoH builds the implementation value through a random *history* of the exported mutators
// whose final state, by insertion-ordered dictionary / list semantics, is exactly v:
//
//	maps   rounds of (fill with junk — the target's own keys, bucket-0 keys, colliding keys, enough
//	       keys to cross the growth threshold — then Clear()), then the target entries put in
//	       order, some of them first with a placeholder value and overwritten afterwards
//	       (an existing key keeps its place), PutString / PutLong / NewList where they apply,
//	       and for MapValue a tail copied in with PutAll from a second map
//	lists  junk Add + Clear() rounds, then Add / AddString / AddLong, some items placed with Set
//
// The children are built the same way.  Every choice derives from r.
func (v *V) ToGoH(r *vh.Rng) value.Value {
	switch v.K {
	case "l":
		l := value.NewListValue(nil)
		for rounds := r.Intn(3); rounds > 0; rounds-- {
			for i := r.Intn(6); i > 0; i-- {
				l.Add(junkValue(r))
			}
			l.Clear()
		}
		var later []int
		for i, c := range v.L {
			switch {
			case r.Chance(25):
				l.Add(junkValue(r)) // placeholder, Set below
				later = append(later, i)
			case c.K == "T" && r.Chance(50):
				l.AddString(string(c.Bs))
			case c.K == "D" && r.Chance(50):
				l.AddLong(c.I)
			default:
				l.Add(c.ToGoH(r))
			}
		}
		for _, i := range later {
			l.Set(i, v.L[i].ToGoH(r))
		}
		return l
	case "m":
		m := value.NewMapValue()
		for rounds := r.Intn(3); rounds > 0; rounds-- {
			n := r.Intn(8)
			if r.Chance(15) {
				n = 80 + r.Intn(10) // cross the growth threshold before the Clear
			}
			for i := 0; i < n; i++ {
				var k string
				switch {
				case len(v.Ks) > 0 && r.Chance(45):
					k = string(v.Ks[r.Intn(len(v.Ks))])
				case len(zeroStr) > 0 && r.Chance(40):
					k = zeroStr[r.Intn(len(zeroStr))]
				case len(collStr) > 0 && r.Chance(30):
					g := collStr[r.Intn(len(collStr))]
					k = g[r.Intn(len(g))]
				default:
					k = "j" + strconv.Itoa(r.Intn(200))
				}
				m.Put(k, junkValue(r))
			}
			m.Clear()
		}
		split := len(v.L)
		if len(v.L) > 1 && r.Chance(25) {
			split = 1 + r.Intn(len(v.L)-1) // the tail arrives through PutAll
		}
		var later []int
		put := func(dst *value.MapValue, i int) {
			c, k := v.L[i], string(v.Ks[i])
			switch {
			case r.Chance(25):
				dst.Put(k, junkValue(r))
				later = append(later, i)
			case c.K == "T" && r.Chance(50):
				dst.PutString(k, string(c.Bs))
			case c.K == "D" && r.Chance(50):
				dst.PutLong(k, c.I)
			case c.K == "l" && len(c.L) == 0 && r.Chance(50):
				dst.NewList(k)
			default:
				dst.Put(k, c.ToGoH(r))
			}
		}
		for i := 0; i < split; i++ {
			put(m, i)
		}
		if split < len(v.L) {
			other := value.NewMapValue()
			if r.Chance(50) { // the source map has a history of its own
				other.Put(string(v.Ks[split]), junkValue(r))
				other.Clear()
			}
			for i := split; i < len(v.L); i++ {
				put(other, i)
			}
			for _, i := range later { // settle placeholders before the copy
				if i >= split {
					other.Put(string(v.Ks[i]), v.L[i].ToGoH(r))
				}
			}
			m.PutAll(other)
		}
		for _, i := range later {
			if i < split {
				m.Put(string(v.Ks[i]), v.L[i].ToGoH(r))
			}
		}
		return m
	case "im":
		m := value.NewIntMapValue()
		for rounds := r.Intn(3); rounds > 0; rounds-- {
			n := r.Intn(8)
			if r.Chance(15) {
				n = 80 + r.Intn(10)
			}
			for i := 0; i < n; i++ {
				var k int32
				switch {
				case len(v.IKs) > 0 && r.Chance(45):
					k = v.IKs[r.Intn(len(v.IKs))]
				case r.Chance(50):
					k = zeroIntKey(r)
				default:
					k = int32(r.Range(-100, 300))
				}
				m.Put(k, junkValue(r))
			}
			m.Clear()
		}
		var later []int
		for i, c := range v.L {
			k := v.IKs[i]
			switch {
			case r.Chance(25):
				m.Put(k, junkValue(r))
				later = append(later, i)
			case c.K == "T" && r.Chance(50):
				m.PutString(k, string(c.Bs))
			case c.K == "D" && r.Chance(50):
				m.PutLong(k, c.I)
			case c.K == "l" && len(c.L) == 0 && r.Chance(50):
				m.NewList(k)
			default:
				m.Put(k, c.ToGoH(r))
			}
		}
		for _, i := range later {
			m.Put(v.IKs[i], v.L[i].ToGoH(r))
		}
		return m
	}
	return v.ToGo()
}

// ---------------------------------------------------------------- in-place mutation of reachable children

// PathNode is one step of the walk MutateInPlace took: the implementation object and its tree.
type PathNode struct {
	G value.Value
	V *V
}

func child(g value.Value, v *V, i int) value.Value {
	switch x := g.(type) {
	case *value.ListValue:
		return x.Get(i)
	case *value.MapValue:
		return x.Get(string(v.Ks[i]))
	case *value.IntMapValue:
		return x.Get(v.IKs[i])
	}
	return nil
}

// MutateInPlace walks from the root g (whose content is v) down a random path of children, obtained
// through the public accessors (ListValue.Get, MapValue.Get, IntMapValue.Get — the very objects the
// parent holds), and mutates the node it stops at *in place* through what that type exports:
//
//	ListValue    Add / AddString / AddLong / Set / Clear          MapValue   Put (new key, overwrite) / PutString / PutLong / NewList+Add / Clear
//	IntMapValue  Put / PutString / NewList+Add / Clear            arrays, blob, IPv4   element writes through the exposed slice `Val`
//	summaries    AddCount, Add(other summary), field writes       scalars    write of the exported field `Val`
//
// The same change is applied to the tree v, so v stays the content the implementation value now
// *should* have.  It returns the path (root first) and a description.  rootOnly=false prefers
// nodes below the root.
func MutateInPlace(r *vh.Rng, g value.Value, v *V, gen *Gen) ([]PathNode, string) {
	path := []PathNode{{g, v}}
	for len(v.L) > 0 && (len(path) == 1 && r.Chance(85) || len(path) > 1 && r.Chance(55)) {
		i := r.Intn(len(v.L))
		c := child(g, v, i)
		if c == nil {
			break
		}
		g, v = c, v.L[i]
		path = append(path, PathNode{g, v})
	}
	fresh := func() *V { return gen.Flat(FlatKinds[r.Intn(len(FlatKinds))]) }
	what := v.K + ":"
	switch x := g.(type) {
	case *value.ListValue:
		switch {
		case len(v.L) > 0 && r.Chance(35):
			i := r.Intn(len(v.L))
			n := fresh()
			x.Set(i, n.ToGo())
			v.L[i] = n
			what += "Set"
		case len(v.L) > 0 && r.Chance(10):
			x.Clear()
			v.L = nil
			what += "Clear"
		case r.Chance(30):
			x.AddString("added")
			v.L = append(v.L, &V{K: "T", Bs: []byte("added")})
			what += "AddString"
		case r.Chance(30):
			x.AddLong(-7)
			v.L = append(v.L, &V{K: "D", I: -7})
			what += "AddLong"
		default:
			n := fresh()
			x.Add(n.ToGo())
			v.L = append(v.L, n)
			what += "Add"
		}
	case *value.MapValue:
		switch {
		case len(v.L) > 0 && r.Chance(35): // overwrite: place kept
			i := r.Intn(len(v.L))
			n := fresh()
			x.Put(string(v.Ks[i]), n.ToGo())
			v.L[i] = n
			what += "Put(existing)"
		case len(v.L) > 0 && r.Chance(10):
			x.Clear()
			v.L, v.Ks = nil, nil
			what += "Clear"
		default:
			k := []byte("+" + strconv.Itoa(r.Intn(1000000)))
			for _, e := range v.Ks {
				if string(e) == string(k) {
					k = append(k, '!')
				}
			}
			switch r.Intn(4) {
			case 0:
				x.PutString(string(k), "s")
				v.L = append(v.L, &V{K: "T", Bs: []byte("s")})
				what += "PutString"
			case 1:
				x.PutLong(string(k), 42)
				v.L = append(v.L, &V{K: "D", I: 42})
				what += "PutLong"
			case 2:
				l := x.NewList(string(k))
				l.AddLong(1)
				v.L = append(v.L, &V{K: "l", L: []*V{{K: "D", I: 1}}})
				what += "NewList+AddLong"
			default:
				n := fresh()
				x.Put(string(k), n.ToGo())
				v.L = append(v.L, n)
				what += "Put(new)"
			}
			v.Ks = append(v.Ks, k)
		}
	case *value.IntMapValue:
		switch {
		case len(v.L) > 0 && r.Chance(35):
			i := r.Intn(len(v.L))
			n := fresh()
			x.Put(v.IKs[i], n.ToGo())
			v.L[i] = n
			what += "Put(existing)"
		case len(v.L) > 0 && r.Chance(10):
			x.Clear()
			v.L, v.IKs = nil, nil
			what += "Clear"
		default:
			k := int32(2000000 + r.Intn(1000000))
			for _, e := range v.IKs {
				if e == k {
					k += 1000003
				}
			}
			switch r.Intn(3) {
			case 0:
				x.PutString(k, "s")
				v.L = append(v.L, &V{K: "T", Bs: []byte("s")})
				what += "PutString"
			case 1:
				l := x.NewList(k)
				l.AddString("e")
				v.L = append(v.L, &V{K: "l", L: []*V{{K: "T", Bs: []byte("e")}}})
				what += "NewList+AddString"
			default:
				n := fresh()
				x.Put(k, n.ToGo())
				v.L = append(v.L, n)
				what += "Put(new)"
			}
			v.IKs = append(v.IKs, k)
		}
	case *value.BoolValue:
		x.Val = !x.Val
		v.B = x.Val
		what += "Val="
	case *value.DecimalValue:
		x.Val = GenI64(r)
		v.I = x.Val
		what += "Val="
	case *value.IntValue:
		x.Val = int32(GenI32(r))
		v.I = int64(x.Val)
		what += "Val="
	case *value.LongValue:
		x.Val = GenI64(r)
		v.I = x.Val
		what += "Val="
	case *value.TextHashValue:
		x.Val = int32(GenI32(r))
		v.I = int64(x.Val)
		what += "Val="
	case *value.FloatValue:
		v.U = GenF32(r)
		x.Val = math.Float32frombits(uint32(v.U))
		what += "Val="
	case *value.DoubleValue:
		v.U = GenF64(r)
		x.Val = math.Float64frombits(v.U)
		what += "Val="
	case *value.TextValue:
		x.Val = x.Val + "~"
		v.Bs = append(append([]byte{}, v.Bs...), '~')
		what += "Val="
	case *value.BlobValue:
		if len(x.Val) > 0 {
			i := r.Intn(len(x.Val))
			x.Val[i] ^= 0x5a
			v.Bs = append([]byte{}, x.Val...)
			what += "Val[i]="
		} else {
			x.Val = []byte{9}
			v.Bs, v.Nil = []byte{9}, false
			what += "Val="
		}
	case *value.IP4Value:
		i := r.Intn(4)
		x.Val[i] ^= 0x5a
		v.Bs = append([]byte{}, x.Val...)
		what += "Val[i]="
	case *value.IntArray:
		if len(x.Val) > 0 {
			i := r.Intn(len(x.Val))
			x.Val[i] = int32(GenI32(r))
			v.Is[i] = int64(x.Val[i])
			what += "Val[i]="
		} else {
			x.Val = []int32{5}
			v.Is, v.Nil = []int64{5}, false
			what += "Val="
		}
	case *value.LongArray:
		if len(x.Val) > 0 {
			i := r.Intn(len(x.Val))
			x.Val[i] = GenI64(r)
			v.Is[i] = x.Val[i]
			what += "Val[i]="
		} else {
			x.Val = []int64{5}
			v.Is, v.Nil = []int64{5}, false
			what += "Val="
		}
	case *value.FloatArray:
		if len(x.Val) > 0 {
			i := r.Intn(len(x.Val))
			v.Us[i] = GenF32(r)
			x.Val[i] = math.Float32frombits(uint32(v.Us[i]))
			what += "Val[i]="
		} else {
			x.Val = []float32{1}
			v.Us, v.Nil = []uint64{0x3f800000}, false
			what += "Val="
		}
	case *value.TextArray:
		if len(x.Val) > 0 {
			i := r.Intn(len(x.Val))
			x.Val[i] = x.Val[i] + "~"
			v.Ss[i] = append(append([]byte{}, v.Ss[i]...), '~')
			what += "Val[i]="
		} else {
			x.Val = []string{"t"}
			v.Ss, v.Nil = [][]byte{[]byte("t")}, false
			what += "Val="
		}
	case *value.LongSummary:
		switch {
		case r.Chance(40) && x.Count < math.MaxInt32:
			x.AddCount()
			v.Q[1]++
			what += "AddCount"
		case r.Chance(50) && abs64(x.Sum) < 1<<40 && abs64(x.Min) < 1<<40 && abs64(x.Max) < 1<<40 && x.Count < 1<<20 && x.Count > -(1<<20):
			o := value.NewLongSummary()
			o.Sum, o.Count, o.Min, o.Max = r.Range(-1000, 1000), int32(r.Range(1, 5)), r.Range(-1000, 0), r.Range(0, 1000)
			x.Add(o)
			v.Q[0], v.Q[1], v.Q[2], v.Q[3] = x.Sum, int64(x.Count), x.Min, x.Max // read back: Add's arithmetic is not the subject here
			what += "Add"
		default:
			x.Min = GenI64(r)
			v.Q[2] = x.Min
			what += "Min="
		}
	case *value.DoubleSummary:
		if r.Chance(50) && x.Count < math.MaxInt32 {
			x.AddCount()
			v.Q[1]++
			what += "AddCount"
		} else {
			v.QU[3] = GenF64(r)
			x.Max = math.Float64frombits(v.QU[3])
			what += "Max="
		}
	default:
		what += "none"
	}
	return path, what
}

func abs64(x int64) int64 {
	if x < 0 {
		return -x
	}
	return x
}

// ---------------------------------------------------------------- life cycle of ONE container object

func putMirror(v *V, key []byte, n *V) {
	for i, k := range v.Ks {
		if string(k) == string(key) {
			v.L[i] = n
			return
		}
	}
	v.Ks = append(v.Ks, append([]byte{}, key...))
	v.L = append(v.L, n)
}

func putMirrorI(v *V, key int32, n *V) {
	for i, k := range v.IKs {
		if k == key {
			v.L[i] = n
			return
		}
	}
	v.IKs = append(v.IKs, key)
	v.L = append(v.L, n)
}

// MutateRoot applies one step of a life cycle to the container object g ITSELF (whose content is v)
// through its public methods, and mirrors it on v:
//
//	lookups (no change)   Get / GetString / GetBool / GetLong / GetFloat / ContainsKey / Size / IsEmpty / Keys
//	MapValue              Put new / overwrite, PutString / PutLong on new and on EXISTING keys (whatever type
//	                      the old value has), NewList, PutAll from another map (new and overlapping keys),
//	                      Clear, and Clear-then-REFILL with the SAME keys (new values), with a lookup of one
//	                      of those keys right before the Clear and right after the first Put of the refill
//	IntMapValue           the same without PutAll / PutLong
//	ListValue             Add / AddString / AddLong / Set / Clear / Clear-then-refill, Get / GetString / GetBool
func MutateRoot(r *vh.Rng, g value.Value, v *V, gen *Gen) string {
	fresh := func() *V { return gen.Flat(FlatKinds[r.Intn(len(FlatKinds))]) }
	switch x := g.(type) {
	case *value.MapValue:
		anyKey := func() string {
			if len(v.Ks) > 0 && r.Chance(80) {
				return string(v.Ks[r.Intn(len(v.Ks))])
			}
			return "absent" + strconv.Itoa(r.Intn(50))
		}
		switch op := r.Intn(10); op {
		case 0, 1: // lookups only
			k := anyKey()
			x.Get(k)
			x.GetString(k)
			x.GetBool(k)
			x.GetLong(k)
			x.GetFloat(k)
			x.ContainsKey(k)
			x.Size()
			x.IsEmpty()
			en := x.Keys()
			for en.HasMoreElements() {
				en.NextString()
			}
			return "m:lookups"
		case 2:
			k, n := anyKey(), fresh()
			x.Put(k, n.ToGo())
			putMirror(v, []byte(k), n)
			return "m:Put"
		case 3:
			k := anyKey()
			txt := "ps" + strconv.Itoa(r.Intn(9))
			x.PutString(k, txt)
			putMirror(v, []byte(k), &V{K: "T", Bs: []byte(txt)})
			return "m:PutString"
		case 4:
			k, val := anyKey(), r.Range(-5, 5)
			x.PutLong(k, val)
			putMirror(v, []byte(k), &V{K: "D", I: val})
			return "m:PutLong"
		case 5:
			k := anyKey()
			l := x.NewList(k)
			l.AddLong(3)
			putMirror(v, []byte(k), &V{K: "l", L: []*V{{K: "D", I: 3}}})
			return "m:NewList"
		case 6: // PutAll from another map: overlapping keys keep their place, new ones are appended
			o := value.NewMapValue()
			var oks [][]byte
			var ovs []*V
			for i := 0; i < 1+r.Intn(3); i++ {
				k, n := anyKey(), fresh()
				dup := false
				for _, e := range oks {
					dup = dup || string(e) == k
				}
				if dup {
					continue
				}
				o.Put(k, n.ToGo())
				oks, ovs = append(oks, []byte(k)), append(ovs, n)
			}
			x.PutAll(o)
			for i := range oks {
				putMirror(v, oks[i], ovs[i])
			}
			return "m:PutAll"
		case 7:
			x.Clear()
			v.Ks, v.L = nil, nil
			return "m:Clear"
		default: // Clear, then refill under the SAME keys
			if len(v.Ks) == 0 {
				x.Put("first", value.NewDecimalValue(1))
				putMirror(v, []byte("first"), &V{K: "D", I: 1})
				return "m:Put"
			}
			before := string(v.Ks[0])
			if r.Chance(40) {
				before = string(v.Ks[r.Intn(len(v.Ks))])
			}
			x.Get(before) // the last key looked up before the Clear …
			x.Clear()
			for i, k := range v.Ks {
				n := fresh()
				if v.L[i].K == "T" && r.Chance(60) { // same type, other payload
					n = &V{K: "T", Bs: append(append([]byte{}, v.L[i].Bs...), '2')}
				}
				if r.Chance(30) {
					x.PutString(string(k), "refilled")
					n = &V{K: "T", Bs: []byte("refilled")}
				} else {
					x.Put(string(k), n.ToGo())
				}
				v.L[i] = n
				if i == 0 {
					x.Get(string(k)) // … is the first one looked up after the refill
					x.ContainsKey(string(k))
				}
			}
			return "m:Clear+refill-same-keys"
		}
	case *value.IntMapValue:
		anyKey := func() int32 {
			if len(v.IKs) > 0 && r.Chance(80) {
				return v.IKs[r.Intn(len(v.IKs))]
			}
			return int32(900000 + r.Intn(50))
		}
		switch op := r.Intn(8); op {
		case 0, 1:
			k := anyKey()
			x.Get(k)
			x.GetString(k)
			x.GetBool(k)
			x.Size()
			en := x.Keys()
			for en.HasMoreElements() {
				en.NextInt()
			}
			return "im:lookups"
		case 2:
			k, n := anyKey(), fresh()
			x.Put(k, n.ToGo())
			putMirrorI(v, k, n)
			return "im:Put"
		case 3:
			k := anyKey()
			x.PutString(k, "ps")
			putMirrorI(v, k, &V{K: "T", Bs: []byte("ps")})
			return "im:PutString"
		case 4:
			k := anyKey()
			x.PutLong(k, 7)
			putMirrorI(v, k, &V{K: "D", I: 7})
			return "im:PutLong"
		case 5:
			x.Clear()
			v.IKs, v.L = nil, nil
			return "im:Clear"
		default:
			if len(v.IKs) == 0 {
				x.Put(0, value.NewDecimalValue(1))
				putMirrorI(v, 0, &V{K: "D", I: 1})
				return "im:Put"
			}
			x.Get(v.IKs[0])
			x.Clear()
			for i, k := range v.IKs {
				n := fresh()
				x.Put(k, n.ToGo())
				v.L[i] = n
				if i == 0 {
					x.Get(k)
				}
			}
			return "im:Clear+refill-same-keys"
		}
	case *value.ListValue:
		switch op := r.Intn(7); op {
		case 0:
			if len(v.L) > 0 {
				i := r.Intn(len(v.L))
				x.Get(i)
				x.GetString(i)
				x.GetBool(i)
			}
			x.Size()
			return "l:lookups"
		case 1:
			n := fresh()
			x.Add(n.ToGo())
			v.L = append(v.L, n)
			return "l:Add"
		case 2:
			x.AddString("as")
			v.L = append(v.L, &V{K: "T", Bs: []byte("as")})
			return "l:AddString"
		case 3:
			x.AddLong(9)
			v.L = append(v.L, &V{K: "D", I: 9})
			return "l:AddLong"
		case 4:
			if len(v.L) > 0 {
				i, n := r.Intn(len(v.L)), fresh()
				x.Set(i, n.ToGo())
				v.L[i] = n
				return "l:Set"
			}
			x.AddLong(1)
			v.L = append(v.L, &V{K: "D", I: 1})
			return "l:AddLong"
		case 5:
			x.Clear()
			v.L = nil
			return "l:Clear"
		default:
			n := len(v.L)
			x.Clear()
			v.L = nil
			for i := 0; i < n; i++ {
				e := fresh()
				x.Add(e.ToGo())
				v.L = append(v.L, e)
			}
			return "l:Clear+refill"
		}
	}
	return "none"
}

// ---------------------------------------------------------------- float helpers

func IsNaN32(b uint64) bool { return b&0x7fffffff > 0x7f800000 }
func IsNaN64(b uint64) bool { return b&0x7fffffffffffffff > 0x7ff0000000000000 }

// HasNaN: a NaN that the comparison looks at (float scalars, summary sum, float array elements).
func (v *V) HasNaN() bool {
	found := false
	v.Walk(func(n *V) {
		switch n.K {
		case "F":
			found = found || IsNaN32(n.U)
		case "G":
			found = found || IsNaN64(n.U)
		case "S":
			found = found || IsNaN64(n.QU[0])
		case "af":
			for _, x := range n.Us {
				found = found || IsNaN32(x)
			}
		}
	})
	return found
}

// HasMap: contains a string- or int-keyed map with at least one entry.
func (v *V) HasMap() bool {
	found := false
	v.Walk(func(n *V) {
		if (n.K == "m" || n.K == "im") && len(n.L) > 0 {
			found = true
		}
	})
	return found
}

// HasRawIP: an IPv4 value whose payload was assigned directly and is not four bytes long (it cannot
// round-trip: the reader takes exactly four bytes).
func (v *V) HasRawIP() bool {
	found := false
	v.Walk(func(n *V) { found = found || (n.K == "P" && n.Raw && len(n.Bs) != 4) })
	return found
}

// HasNil: a nil payload somewhere.
func (v *V) HasNil() bool {
	found := false
	v.Walk(func(n *V) { found = found || n.Nil })
	return found
}

// ---------------------------------------------------------------- generator

var bounds = vh.SignedBoundaries()

var F32 = []uint64{0, 0x80000000, 0x7f800000, 0xff800000, 0x7fc00000, 0x7fc00001, 0xffc12345, 0x7f800001, 1, 0x80000001, 0x007fffff,
	0x3f800000, 0xbf800000, 0x40000000, 0x7f7fffff, 0xff7fffff, 0xffffffff}
var F64 = []uint64{0, 0x8000000000000000, 0x7ff0000000000000, 0xfff0000000000000, 0x7ff8000000000000, 0x7ff8000000000001,
	0xfff8123456789abc, 0x7ff0000000000001, 1, 0x8000000000000001, 0x000fffffffffffff, 0x3ff0000000000000, 0xbff0000000000000,
	0x4000000000000000, 0x7fefffffffffffff, 0xffefffffffffffff, 0xffffffffffffffff}

func clampTo(v, lo, hi int64) int64 {
	if v < lo || v > hi {
		span := uint64(hi-lo) + 1
		return lo + int64(uint64(v-lo)%span)
	}
	return v
}

func GenI64(r *vh.Rng) int64 {
	switch {
	case r.Chance(45):
		return r.Pick64(bounds)
	case r.Chance(40):
		return r.Range(-300, 300)
	}
	return r.I64()
}
func GenI32(r *vh.Rng) int64 {
	switch {
	case r.Chance(45):
		return clampTo(r.Pick64(bounds), math.MinInt32, math.MaxInt32)
	case r.Chance(40):
		return r.Range(-300, 300)
	}
	return r.Range(math.MinInt32, math.MaxInt32)
}
func GenF32(r *vh.Rng) uint64 {
	switch {
	case r.Chance(40):
		return F32[r.Intn(len(F32))]
	case r.Chance(50):
		return uint64(math.Float32bits(float32(r.Range(-5, 5))))
	}
	return r.U64() & 0xffffffff
}
func GenF64(r *vh.Rng) uint64 {
	switch {
	case r.Chance(40):
		return F64[r.Intn(len(F64))]
	case r.Chance(50):
		return math.Float64bits(float64(r.Range(-5, 5)))
	}
	return r.U64()
}

var lens = []int{0, 1, 2, 3, 252, 253, 254, 255, 256, 300}
var lensBig = []int{65534, 65535, 65536, 65537}

// Opt bounds the generator.
type Opt struct {
	Depth    int  // maximal nesting depth
	Width    int  // ordinary container width
	Wide     int  // size of an occasional wide container (0 = none)
	WidePct  int  // chance (percent) that a container is wide
	Huge     int  // size of a rare huge list / array (0 = none)
	BigBytes bool // allow 64 KiB texts / blobs
	NaNPct   int  // extra chance of NaN patterns among floats (0 for C02's default mix)
	Nil      bool // produce nil payloads
}

type Gen struct {
	R      *vh.Rng
	O      Opt
	budget int
}

func (g *Gen) bytes(maxLen int) []byte {
	r := g.R
	n := 0
	switch {
	case r.Chance(35):
		n = r.PickInt(lens)
	case g.O.BigBytes && r.Chance(2):
		n = r.PickInt(lensBig)
	default:
		n = r.Intn(12)
	}
	if maxLen > 0 && n > maxLen {
		n = n % (maxLen + 1)
	}
	b := make([]byte, n)
	switch r.Intn(3) {
	case 0: // printable
		for i := range b {
			b[i] = byte('a' + r.Intn(26))
		}
	case 1: // arbitrary bytes, invalid UTF-8 included
		for i := range b {
			b[i] = byte(r.U64())
		}
	default: // extremes
		for i := range b {
			b[i] = []byte{0, 1, 0x7f, 0x80, 0xff, 0xc3, 0x28}[r.Intn(7)]
		}
	}
	return b
}

func (g *Gen) f32() uint64 {
	if g.O.NaNPct > 0 && g.R.Chance(g.O.NaNPct) {
		return []uint64{0x7fc00000, 0xffc00000, 0x7f800001, 0x7fffffff}[g.R.Intn(4)]
	}
	return GenF32(g.R)
}
func (g *Gen) f64() uint64 {
	if g.O.NaNPct > 0 && g.R.Chance(g.O.NaNPct) {
		return []uint64{0x7ff8000000000000, 0xfff8000000000000, 0x7ff0000000000001}[g.R.Intn(3)]
	}
	return GenF64(g.R)
}

// width of a container
func (g *Gen) width() int {
	r := g.R
	if g.O.Wide > 0 && r.Chance(g.O.WidePct) && g.budget > g.O.Wide {
		return g.O.Wide + r.Intn(3)
	}
	switch {
	case r.Chance(15):
		return 0
	case r.Chance(15):
		return 1
	}
	return r.Intn(g.O.Width + 1)
}

// Flat generates a value of kind k without value children.
func (g *Gen) Flat(k string) *V {
	r := g.R
	v := &V{K: k}
	switch k {
	case "N":
	case "B":
		v.B = r.Bool()
	case "D", "L":
		v.I = GenI64(r)
	case "I", "H":
		v.I = GenI32(r)
	case "F":
		v.U = g.f32()
	case "G":
		v.U = g.f64()
	case "S":
		v.QU[0], v.Q[1], v.QU[2], v.QU[3] = g.f64(), GenI32(r), g.f64(), g.f64()
	case "M":
		v.Q[0], v.Q[1], v.Q[2], v.Q[3] = GenI64(r), GenI32(r), GenI64(r), GenI64(r)
	case "T", "X":
		v.Bs = g.bytes(0)
		if k == "X" && len(v.Bs) == 0 && g.O.Nil && r.Bool() {
			v.Nil = true
		}
	case "P":
		v.Bs = r.Bytes(4)
		if r.Chance(30) {
			v.Bs = [][]byte{{0, 0, 0, 0}, {255, 255, 255, 255}, {127, 0, 0, 1}, {10, 0, 0, 255}}[r.Intn(4)]
		}
	case "ai", "al", "af", "at":
		n := g.width()
		if g.O.Huge > 0 && r.Chance(1) {
			n = []int{255, 256, 32767}[r.Intn(3)]
		}
		if n == 0 && g.O.Nil && r.Bool() {
			v.Nil = true
		}
		for i := 0; i < n; i++ {
			switch k {
			case "ai":
				v.Is = append(v.Is, GenI32(r))
			case "al":
				v.Is = append(v.Is, GenI64(r))
			case "af":
				v.Us = append(v.Us, g.f32())
			case "at":
				if n > 1000 {
					v.Ss = append(v.Ss, g.bytes(6))
				} else {
					v.Ss = append(v.Ss, g.bytes(300))
				}
			}
		}
	default:
		panic("vg: not flat " + k)
	}
	return v
}

func (g *Gen) pickFlatOrArray() string {
	k := Kinds[g.R.Intn(len(Kinds))]
	for k == "l" || k == "m" || k == "im" {
		k = Kinds[g.R.Intn(len(Kinds))]
	}
	return k
}

// Any generates a value: a flat value, an array or a container.
func (g *Gen) Any(d int) *V {
	r := g.R
	g.budget--
	if d <= 1 || g.budget <= 0 || r.Chance(40) {
		return g.Flat(g.pickFlatOrArray())
	}
	return g.Container([]string{"l", "m", "im"}[r.Intn(3)], d)
}

// Container generates a list or a map of kind k with children of depth < d.
func (g *Gen) Container(k string, d int) *V {
	r := g.R
	v := &V{K: k}
	n := g.width()
	if k == "l" && g.O.Huge > 0 && r.Chance(2) && g.budget > 0 {
		// a huge list of small scalars: crosses the 1/2/3-byte classes of the decimal count
		n = g.O.Huge + r.Intn(5)
		for i := 0; i < n; i++ {
			v.L = append(v.L, g.Flat([]string{"N", "B", "D"}[r.Intn(3)]))
		}
		return v
	}
	child := func() *V {
		if n > 40 { // wide: keep the elements small
			return g.Flat(g.pickFlatOrArray())
		}
		return g.Any(d - 1)
	}
	switch k {
	case "l":
		same := r.Chance(30) // homogeneous list
		sk := g.pickFlatOrArray()
		for i := 0; i < n; i++ {
			if same {
				v.L = append(v.L, g.Flat(sk))
			} else {
				v.L = append(v.L, child())
			}
		}
	case "m":
		keys := g.StrKeys(n)
		if n > 40 && r.Chance(60) {
			keys = g.WideCollidingStrKeys(n)
		}
		for _, key := range keys {
			v.Ks = append(v.Ks, key)
			v.L = append(v.L, child())
		}
	case "im":
		keys := g.IntKeys(n)
		if n > 40 && r.Chance(60) {
			keys = g.WideCollidingIntKeys(n)
		}
		for _, key := range keys {
			v.IKs = append(v.IKs, key)
			v.L = append(v.L, child())
		}
	}
	g.budget -= n
	return v
}

// ---- keys: distinct, and biased towards collisions in the backing hash table

var collStr [][]string // groups of strings with equal hash index modulo 101 and modulo 203 (initial and first grown capacity)

func init() {
	// a process that probes the very first library calls of its life (harness/c02/cold.go) must not have
	// touched util/hash before: it sets this variable and uses no generator, only ParseLine / ToGo / FromGo
	if os.Getenv("VERIF_VG_NO_HASH_SEARCH") == "1" {
		return
	}
	type key struct{ a, b uint }
	groups := map[key][]string{}
	for i := 0; i < 300000; i++ {
		s := "c" + strconv.Itoa(i)
		h := uint(hash.HashStr(s))
		k := key{h % 101, h % 203}
		groups[k] = append(groups[k], s)
	}
	zeroStr = groups[key{0, 0}]
	var keys []key
	for k := range groups {
		keys = append(keys, k)
	}
	sort.Slice(keys, func(i, j int) bool {
		if keys[i].a != keys[j].a {
			return keys[i].a < keys[j].a
		}
		return keys[i].b < keys[j].b
	})
	for _, min := range []int{20, 12, 6} {
		for _, k := range keys {
			if g := groups[k]; len(g) >= min && len(collStr) < 8 {
				collStr = append(collStr, g)
			}
		}
		if len(collStr) > 0 {
			break
		}
	}
}

// CollidingGroups reports how many collision groups were found (for the evidence).
func CollidingGroups() (int, int) {
	if len(collStr) == 0 {
		return 0, 0
	}
	return len(collStr), len(collStr[0])
}

// ZeroBucketStrings reports how many strings with hash index 0 (mod 101 and 203) are known.
func ZeroBucketStrings() int { return len(zeroStr) }

func (g *Gen) StrKeys(n int) [][]byte {
	r := g.R
	seen := map[string]bool{}
	var out [][]byte
	mode := r.Intn(4)
	var grp []string
	if len(collStr) > 0 {
		grp = collStr[r.Intn(len(collStr))]
	}
	for tries := 0; len(out) < n && tries < 20*n+100; tries++ {
		var k []byte
		switch {
		case mode == 0 && grp != nil && len(out) < len(grp): // colliding
			k = []byte(grp[(len(out)+r.Intn(3))%len(grp)])
		case mode == 1 && len(zeroStr) > 0 && r.Chance(40): // bucket 0 of the backing table
			k = []byte(zeroStr[r.Intn(len(zeroStr))])
		case mode == 1:
			k = []byte("k" + strconv.Itoa(r.Intn(4*n+4)))
		case mode == 2 && r.Chance(30):
			k = g.bytes(300) // empty key, long keys, arbitrary bytes
		default:
			k = []byte(strings.Repeat(string(rune('a'+r.Intn(26))), 1+r.Intn(3)) + strconv.Itoa(r.Intn(1000)))
		}
		if !seen[string(k)] {
			seen[string(k)] = true
			out = append(out, k)
		}
	}
	return out
}

func (g *Gen) IntKeys(n int) []int32 {
	r := g.R
	seen := map[int32]bool{}
	var out []int32
	mode := r.Intn(4)
	base := int32(r.Intn(1000))
	for tries := 0; len(out) < n && tries < 20*n+100; tries++ {
		var k int32
		if mode == 3 && r.Chance(50) { // bucket 0 of the backing table
			k := zeroIntKey(r)
			if !seen[k] {
				seen[k] = true
				out = append(out, k)
			}
			continue
		}
		switch mode {
		case 0: // equal index modulo 101 and 203; the sign bit is masked off by the hash
			k = base + int32(len(out)+r.Intn(2))*20503
			if r.Chance(30) {
				k |= math.MinInt32
			}
		case 1:
			k = int32(r.Intn(4*n + 4))
		case 2:
			k = int32(GenI32(r))
		default:
			k = int32(r.Range(-50, 50))
		}
		if !seen[k] {
			seen[k] = true
			out = append(out, k)
		}
	}
	return out
}

// WideCollidingIntKeys: n distinct int keys for a WIDE map whose keys also share buckets of the
// backing table at every size it grows through (101, 203, 407, 815): clusters k, k+101, k+202 …
// (one bucket before the first growth), k + j·20503 (one bucket at 101 and at 203), k + j·8365221
// (101·203·407), 0 and the sign-bit twins, filled up with consecutive keys.
func (g *Gen) WideCollidingIntKeys(n int) []int32 {
	r := g.R
	seen := map[int32]bool{}
	var out []int32
	put := func(k int32) {
		if !seen[k] && len(out) < n {
			seen[k] = true
			out = append(out, k)
		}
	}
	base := int32(r.Intn(101))
	if r.Chance(40) {
		base = 0
	}
	steps := []int32{101, 203, 20503, 407, 8365221 % 2000000}
	step := steps[r.Intn(len(steps))]
	cluster := n / 2
	if r.Chance(30) {
		cluster = n
	}
	for j := 0; j < cluster; j++ {
		k := base + int32(j)*step
		if r.Chance(10) {
			k |= math.MinInt32
		}
		put(k)
	}
	for j := int32(0); len(out) < n; j++ {
		put(base + 1 + j)
	}
	// insertion order: clustered first, interleaved or reversed
	switch r.Intn(3) {
	case 1:
		for i, j := 0, len(out)-1; i < j; i, j = i+1, j-1 {
			out[i], out[j] = out[j], out[i]
		}
	case 2:
		for i := range out {
			j := r.Intn(i + 1)
			out[i], out[j] = out[j], out[i]
		}
	}
	return out
}

// WideCollidingStrKeys: n distinct string keys for a wide map: all strings of several collision
// groups (equal index modulo 101 and 203), the bucket-0 strings, filled up with ordinary keys.
func (g *Gen) WideCollidingStrKeys(n int) [][]byte {
	r := g.R
	seen := map[string]bool{}
	var out [][]byte
	put := func(k string) {
		if !seen[k] && len(out) < n {
			seen[k] = true
			out = append(out, []byte(k))
		}
	}
	if r.Chance(50) {
		for _, z := range zeroStr {
			put(z)
		}
	}
	for _, grp := range collStr {
		if len(out) >= n*3/4 {
			break
		}
		for _, s := range grp {
			put(s)
		}
	}
	for j := 0; len(out) < n; j++ {
		put("w" + strconv.Itoa(j))
	}
	if r.Chance(50) {
		for i := range out {
			j := r.Intn(i + 1)
			out[i], out[j] = out[j], out[i]
		}
	}
	return out
}

// New returns a generator; Budget bounds the number of nodes of one tree.
func New(r *vh.Rng, o Opt) *Gen { return &Gen{R: r, O: o} }

// Tree generates one value with a fresh node budget.
func (g *Gen) Tree(budget int) *V {
	g.budget = budget
	if g.O.Depth > 1 && g.R.Chance(55) {
		return g.Container([]string{"l", "m", "im"}[g.R.Intn(3)], 2+g.R.Intn(g.O.Depth-1))
	}
	return g.Any(g.O.Depth)
}
