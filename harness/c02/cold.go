package main

// Cold start: the FIRST library calls of a process, made by several goroutines at the same moment.
//
// "Every value … written and read back" includes the first values a process ever handles, and an
// agent that opens several connections at start-up decodes its first values on several goroutines at
// once.  Anything the library builds on first use (a constructor table, a type registry, a hash or
// CRC table, a pool) is complete for every later call of that process — all the other stages of this
// harness run in processes that have long been warm — so the situation exists once per process and
// this stage creates it again and again: every trial is a FRESH child process (the same binary,
// `-child cold`; package vg's start-up hash search is switched off there so that not even util/hash
// has been called) that parses its script, parks G goroutines (1 … 32) on a spin barrier, releases
// them together (optionally staggered by a few hundred spins so that late-comers meet a half-built
// structure) and lets each run a short script of its own:
//
//	dec     ReadValue of a given encoding: the decoded value, Available() = 0 and the re-encoding
//	enc     build the value through the exported constructors, WriteValue: the bytes
//	rt      enc, then dec of those bytes
//	create  CreateValue(tag).GetValueType() = tag
//
// The expected results were computed before, sequentially, in the (warm) parent, where the main flow
// compares them with the model.  A script step that fails in the child is a failure of the property on
// that input in that situation: `ReadValue|WriteValue|CreateValue:<Type>:fails-on-concurrent-first-use`
// (`…:fails-on-first-use` when G = 1).  A child that dies (runtime fatal such as "concurrent map
// writes") or does not finish is reported as `WriteValue+ReadValue:process-crashed|hung-on-concurrent-first-use`.

import (
	"bytes"
	"encoding/json"
	"fmt"
	"io"
	"os"
	"os/exec"
	"strconv"
	"strings"
	"sync"
	"sync/atomic"
	"time"

	gio "github.com/whatap/golib/io"
	"github.com/whatap/golib/lang/value"
	"verif/harness/c02/vg"
	"verif/harness/vh"
)

type coldItem struct {
	Kind  string `json:"kind"`
	LineX string `json:"linex"` // nil-marking form, what ParseLine reads
	Line  string `json:"line"`  // canonical form, what a decode must give back
	Bytes string `json:"bytes"` // the encoding (hex), computed sequentially in the warm parent
}

type coldOp struct {
	Op   string `json:"op"`
	Item int    `json:"item"`
}

type coldSpec struct {
	Items   []coldItem `json:"items"`
	Scripts [][]coldOp `json:"scripts"` // one per goroutine
	Stagger []int      `json:"stagger"` // spins between the release of the barrier and the goroutine's first call
}

type coldFail struct {
	G     int    `json:"g"`
	Pos   int    `json:"pos"`
	Op    string `json:"op"`
	Item  int    `json:"item"`
	What  string `json:"what"`
	Got   string `json:"got"`
	Panic string `json:"panic"`
}

type coldResult struct {
	Fails []coldFail `json:"fails"`
	Ops   int        `json:"ops"`
	Done  bool       `json:"done"`
}

// coldChildMain: the fresh process.  Nothing of lang/value, io, util/hmap or util/hash has run before the barrier opens.
func coldChildMain() {
	raw, err := io.ReadAll(os.Stdin)
	if err != nil {
		vh.Die("cold child: %v", err)
	}
	var spec coldSpec
	if err := json.Unmarshal(raw, &spec); err != nil {
		vh.Die("cold child: %v", err)
	}
	vals := make([]*vg.V, len(spec.Items))
	encs := make([][]byte, len(spec.Items))
	for i, it := range spec.Items {
		v, err := vg.ParseLine(it.LineX)
		if err != nil {
			vh.Die("cold child: item %d: %v", i, err)
		}
		vals[i], encs[i] = v, vh.UnHex(it.Bytes)
	}
	n := len(spec.Scripts)
	var ready, start int32
	var mu sync.Mutex
	res := coldResult{}
	var wg sync.WaitGroup
	var sink uint64
	for g := 0; g < n; g++ {
		wg.Add(1)
		go func(g int) {
			defer wg.Done()
			stagger := 0
			if g < len(spec.Stagger) {
				stagger = spec.Stagger[g]
			}
			atomic.AddInt32(&ready, 1)
			for atomic.LoadInt32(&start) == 0 {
			}
			x := uint64(g)
			for i := 0; i < stagger; i++ {
				x = x*6364136223846793005 + 1442695040888963407
			}
			atomic.AddUint64(&sink, x)
			for pos, op := range spec.Scripts[g] {
				it := spec.Items[op.Item]
				what, got := "", ""
				o := vh.Guard(func() {
					switch op.Op {
					case "create":
						tag := byte(vg.TagOf[it.Kind])
						if t := value.CreateValue(tag).GetValueType(); t != tag {
							what, got = "CreateValue returns a value of another type", strconv.Itoa(int(t))
						}
					case "enc", "rt":
						b := encode(vals[op.Item].ToGo())
						if !bytes.Equal(b, encs[op.Item]) {
							what, got = "the bytes written differ from the encoding computed sequentially", vh.Hex(b)
							return
						}
						if op.Op == "enc" {
							return
						}
						fallthrough
					case "dec":
						din := gio.NewDataInputX(append([]byte{}, encs[op.Item]...))
						d := value.ReadValue(din)
						if back := vg.FromGo(d).Line(); back != it.Line {
							what, got = "the decoded value differs", back
						} else if a := din.Available(); a != 0 {
							what, got = "decoding did not consume exactly the encoding", "Available="+strconv.Itoa(int(a))
						} else if re := encode(d); !bytes.Equal(re, encs[op.Item]) {
							what, got = "re-encoding the decoded value gives other bytes", vh.Hex(re)
						}
					}
				})
				mu.Lock()
				res.Ops++
				if !o.OK() || what != "" {
					if !o.OK() {
						what = "panic"
					}
					res.Fails = append(res.Fails, coldFail{G: g, Pos: pos, Op: op.Op, Item: op.Item, What: what, Got: vh.Clip(got, 600), Panic: vh.Clip(o.Panic, 300)})
				}
				mu.Unlock()
			}
		}(g)
	}
	for atomic.LoadInt32(&ready) != int32(n) {
		time.Sleep(50 * time.Microsecond)
	}
	atomic.StoreInt32(&start, 1)
	wg.Wait()
	res.Done = true
	b, _ := json.Marshal(res)
	os.Stdout.Write(append(b, '\n'))
}

// runColdChild runs one trial; ok=false: the process died or produced nothing; hung: killed at the deadline
func runColdChild(spec []byte, deadline time.Duration) (res coldResult, ok, hung bool, stderrTail string) {
	exe, err := os.Executable()
	if err != nil {
		vh.Die("cold: %v", err)
	}
	cmd := exec.Command(exe, "-child", "cold")
	cmd.Env = append(os.Environ(), "VERIF_VG_NO_HASH_SEARCH=1", "GOMEMLIMIT=2GiB")
	cmd.Stdin = bytes.NewReader(spec)
	var stdout, stderr lockedBuf
	cmd.Stdout, cmd.Stderr = &stdout, &stderr
	if err := cmd.Start(); err != nil {
		vh.Die("cold: %v", err)
	}
	done := make(chan error, 1)
	go func() { done <- cmd.Wait() }()
	select {
	case <-done:
	case <-time.After(deadline):
		hung = true
		cmd.Process.Kill()
		<-done
	}
	stderrTail = stderr.String()
	if len(stderrTail) > 1500 {
		stderrTail = stderrTail[:1500]
	}
	for _, ln := range strings.Split(string(stdout.Bytes()), "\n") {
		var r coldResult
		if len(ln) > 0 && json.Unmarshal([]byte(ln), &r) == nil && r.Done {
			return r, true, hung, stderrTail
		}
	}
	return res, false, hung, stderrTail
}

func coldStage(env *vh.Env, rep *vh.Report, seed uint64) {
	began := time.Now()
	r := vh.NewRng(seed ^ 0x5555)
	// the pool of inputs: every kind, small containers, a few trees; expected results computed here, warm and sequential
	gen := vg.New(r.Fork(), vg.Opt{Depth: 3, Width: 4, Nil: true})
	var cand []*vg.V
	for _, k := range vg.Kinds {
		for i := 0; i < 3; i++ {
			if k == "l" || k == "m" || k == "im" {
				cand = append(cand, gen.Container(k, 2))
			} else {
				cand = append(cand, gen.Flat(k))
			}
		}
	}
	for i := 0; i < 12; i++ {
		cand = append(cand, gen.Tree(25))
	}
	// nested containers whose decoding creates several kinds below the first tag
	cand = append(cand,
		&vg.V{K: "im", IKs: []int32{5}, L: []*vg.V{{K: "B", B: true}}},
		&vg.V{K: "m", Ks: [][]byte{[]byte("k")}, L: []*vg.V{{K: "l", L: []*vg.V{{K: "N"}, {K: "I", I: 9}}}}},
		&vg.V{K: "im", IKs: []int32{1}, L: []*vg.V{{K: "m", Ks: [][]byte{[]byte("a")}, L: []*vg.V{{K: "P", Bs: []byte{10, 0, 0, 1}}}}}},
		&vg.V{K: "l", L: []*vg.V{{K: "al", Is: []int64{7}}, {K: "at", Ss: [][]byte{[]byte("x")}}, {K: "S"}, {K: "M"}}})
	var items []coldItem
	byKind := map[string][]int{}
	for _, v := range cand {
		var b []byte
		var back string
		o := vh.Guard(func() {
			b = encode(v.ToGo())
			back = vg.FromGo(value.ReadValue(gio.NewDataInputX(append([]byte{}, b...)))).Line()
		})
		if !o.OK() || back != v.Line() || len(v.LineX()) > 4000 {
			rep.Count("cold:candidate-skipped") // does not round-trip even warm: the main flow reports that
			continue
		}
		byKind[v.K] = append(byKind[v.K], len(items))
		items = append(items, coldItem{Kind: v.K, LineX: v.LineX(), Line: v.Line(), Bytes: vh.Hex(b)})
	}
	if len(items) == 0 {
		return
	}
	trials := 240
	if env.Thorough {
		trials = 2400
	}
	type trial struct {
		t     int
		mode  string
		spec  coldSpec
		bytes []byte
	}
	mk := func(t int) *trial {
		g := []int{1, 2, 2, 3, 4, 8, 16, 16, 16, 32}[r.Intn(10)]
		mode := []string{"dec", "dec", "mixed", "mixed", "enc", "create"}[r.Intn(6)]
		// a trial uses a handful of the items, so that the goroutines' first calls are of different types
		sub := make([]int, 0, 6)
		for len(sub) < 6 {
			sub = append(sub, r.Intn(len(items)))
		}
		tr := &trial{t: t, mode: mode}
		for _, ix := range sub {
			tr.spec.Items = append(tr.spec.Items, items[ix])
		}
		staggerMode := r.Intn(3)
		for i := 0; i < g; i++ {
			n := 1 + r.Intn(5)
			var sc []coldOp
			for j := 0; j < n; j++ {
				op := mode
				if mode == "mixed" || j > 0 {
					op = []string{"dec", "dec", "enc", "rt", "create"}[r.Intn(5)]
				}
				sc = append(sc, coldOp{Op: op, Item: r.Intn(len(sub))})
			}
			tr.spec.Scripts = append(tr.spec.Scripts, sc)
			st := 0
			switch staggerMode {
			case 1:
				st = r.Intn(3000)
			case 2:
				st = i * (20 + r.Intn(200))
			}
			tr.spec.Stagger = append(tr.spec.Stagger, st)
		}
		tr.bytes, _ = json.Marshal(tr.spec)
		return tr
	}
	all := make([]*trial, trials)
	for t := range all {
		all[t] = mk(t)
	}
	type outcome struct {
		res   coldResult
		ok    bool
		hung  bool
		tail  string
		again bool
	}
	outs := make([]outcome, trials)
	jobs := make(chan int, trials)
	for t := range all {
		jobs <- t
	}
	close(jobs)
	var wg sync.WaitGroup
	for k := 0; k < 3; k++ {
		wg.Add(1)
		go func() {
			defer wg.Done()
			for t := range jobs {
				o := &outs[t]
				o.res, o.ok, o.hung, o.tail = runColdChild(all[t].bytes, 120*time.Second)
			}
		}()
	}
	wg.Wait()
	typeOf := func(it coldItem) string { return vg.TypeName[it.Kind] }
	hangs := 0
	for t, o := range outs {
		tr := all[t]
		g := len(tr.spec.Scripts)
		var first []string
		for _, sc := range tr.spec.Scripts {
			first = append(first, sc[0].Op+":"+tr.spec.Items[sc[0].Item].Kind)
		}
		rep.Case(fmt.Sprintf("cold g=%d %s stagger=%v", g, strings.Join(first, " "), tr.spec.Stagger), true)
		rep.Count("cold:fresh-processes")
		rep.Count(fmt.Sprintf("cold:goroutines:%d", g))
		rep.Count("cold:first-calls:" + tr.mode)
		if t == 0 {
			rep.Sample(map[string]interface{}{"stage": "cold", "goroutines": g, "first_calls": first})
		}
		situation := "on-concurrent-first-use"
		sitText := fmt.Sprintf("%d goroutines make the first library calls of a fresh process at the same moment", g)
		if g == 1 {
			situation, sitText = "on-first-use", "the first library calls of a fresh process"
		}
		base := map[string]interface{}{"stage": "cold", "seed": seed, "trial": t, "goroutines": g, "first_calls": first, "stagger_spins": tr.spec.Stagger}
		if o.hung && !o.ok && hangs < 2 {
			// bounds hangs only: confirm alone, with a much longer deadline, before calling it one
			hangs++
			o.res, o.ok, o.hung, o.tail = runColdChild(tr.bytes, 400*time.Second)
		}
		if !o.ok {
			what := "crashed"
			if o.hung {
				what = "hung"
			}
			m := map[string]interface{}{"stderr": o.tail, "scripts": tr.spec.Scripts, "items": tr.spec.Items}
			for k, v := range base {
				m[k] = v
			}
			rep.Fail("property", "WriteValue+ReadValue:process-"+what+"-"+situation,
				"a fresh process "+what+" (unrecoverable runtime fatal or deadlock) when "+sitText+"; every one of these calls succeeds in a warm process", m)
			continue
		}
		rep.Evaluations += o.res.Ops
		rep.CountN("cold:calls", o.res.Ops)
		for _, f := range o.res.Fails {
			it := tr.spec.Items[f.Item]
			fn := map[string]string{"dec": "ReadValue", "enc": "WriteValue", "rt": "WriteValue+ReadValue", "create": "CreateValue"}[f.Op]
			if f.Op == "rt" && f.What != "the bytes written differ from the encoding computed sequentially" {
				fn = "ReadValue"
			}
			m := map[string]interface{}{"call": f.Op, "goroutine": f.G, "position_in_its_script": f.Pos, "value": vh.Clip(it.LineX, 1500), "bytes": vh.Clip(it.Bytes, 1500),
				"what": f.What, "got": f.Got, "panic": f.Panic, "script_of_that_goroutine": tr.spec.Scripts[f.G]}
			for k, v := range base {
				m[k] = v
			}
			rep.Fail("property", fn+":"+typeOf(it)+":fails-"+situation,
				"when "+sitText+" ("+f.Op+" of "+vh.Clip(it.Line, 120)+", call "+strconv.Itoa(f.Pos+1)+" of goroutine "+strconv.Itoa(f.G)+"): "+f.What+" "+vh.Clip(f.Panic, 120)+
					"; the same call gives the expected result sequentially in a warm process", m)
		}
	}
	rep.Note("cold start: %d fresh processes, %d inputs in the pool, %.1fs", trials, len(items), time.Since(began).Seconds())
}
