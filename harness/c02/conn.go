package main

// The connection-backed input: io.NewDataInputNet(net.Conn).  Available() is 0 there and nothing is
// known about the bytes to come, so every decoder must work without consulting it.

import (
	"net"
	"time"

	gio "github.com/whatap/golib/io"
	"github.com/whatap/golib/lang/value"
	"verif/harness/c02/vg"
	"verif/harness/vh"
)

// decodeViaConn writes the bytes into one end of an in-memory connection and decodes from the other
func decodeViaConn(b []byte) (line string, o vh.Outcome) {
	c1, c2 := net.Pipe()
	go func() {
		c2.Write(b)
		c2.Close()
	}()
	o = vh.GuardTimeout(120*time.Second, func() {
		din := gio.NewDataInputNet(c1)
		line = vg.FromGo(value.ReadValue(din)).Line()
	})
	c1.Close() // releases the writer if trailing bytes were not consumed
	return
}
