package main

// Value objects shared between containers.  B is built from A through every copying route the API
// offers (MapValue.PutAll, Get-then-Put into another map / int map, Get-then-Add into another list,
// one container added to two parents); then B's OWN table is changed through every mutator —
// including the typed PutString / PutLong on keys whose current value is a text / a decimal — and A,
// which nobody touched, must still encode to the bytes it had, decode to its content, and Equal an
// independently built snapshot.  Then the other way round (A is changed, B must keep the content it
// had right after the copy).  Changes go to the changed container's own entries only: the children
// themselves are shared by reference on purpose and are not mutated.

import (
	"fmt"

	gio "github.com/whatap/golib/io"
	"github.com/whatap/golib/lang/value"
	"verif/harness/c02/vg"
	"verif/harness/vh"
)

// copyOf builds a second container holding the same value objects as src, by the named route
func copyOf(src value.Value, v *vg.V, route string) value.Value {
	switch x := src.(type) {
	case *value.MapValue:
		b := value.NewMapValue()
		if route == "PutAll" {
			b.PutAll(x)
			return b
		}
		en := x.Keys()
		for en.HasMoreElements() {
			k := en.NextString()
			b.Put(k, x.Get(k))
		}
		return b
	case *value.IntMapValue:
		b := value.NewIntMapValue()
		en := x.Keys()
		for en.HasMoreElements() {
			k := en.NextInt()
			b.Put(k, x.Get(k))
		}
		return b
	case *value.ListValue:
		b := value.NewListValue(nil)
		for i := 0; i < x.Size(); i++ {
			b.Add(x.Get(i))
		}
		return b
	}
	return nil
}

// changeOwnEntries changes every entry of the container through one of its mutators
func changeOwnEntries(r *vh.Rng, g value.Value, v *vg.V) string {
	what := ""
	switch x := g.(type) {
	case *value.MapValue:
		for i, k := range v.Ks {
			switch {
			case v.L[i].K == "T" || (v.L[i].K != "D" && r.Chance(30)):
				x.PutString(string(k), "overridden")
				what += "PutString "
			case v.L[i].K == "D" || r.Chance(30):
				x.PutLong(string(k), 424242)
				what += "PutLong "
			case r.Chance(50):
				x.Put(string(k), value.NewBoolValue(true))
				what += "Put "
			default:
				x.NewList(string(k))
				what += "NewList "
			}
		}
		if r.Chance(30) {
			x.Clear()
			what += "Clear"
		}
	case *value.IntMapValue:
		for i, k := range v.IKs {
			switch {
			case v.L[i].K == "T" || r.Chance(30):
				x.PutString(k, "overridden")
				what += "PutString "
			case v.L[i].K == "D" || r.Chance(40):
				x.PutLong(k, 424242)
				what += "PutLong "
			default:
				x.Put(k, value.NewBoolValue(true))
				what += "Put "
			}
		}
		if r.Chance(30) {
			x.Clear()
			what += "Clear"
		}
	case *value.ListValue:
		for i := range v.L {
			x.Set(i, value.NewTextValue("overridden"))
			what += "Set "
		}
		switch r.Intn(3) {
		case 0:
			x.AddString("more")
			what += "AddString"
		case 1:
			x.Clear()
			what += "Clear"
		}
	}
	return what
}

func sharingStage(env *vh.Env, rep *vh.Report, rng *vh.Rng) {
	n := 400
	if env.Thorough {
		n = 5000
	}
	gen := vg.New(rng.Fork(), vg.Opt{Depth: 3, Width: 4, Nil: true})
	hangs := 0
	for i := 0; i < n && hangs == 0; i++ {
		kind := []string{"m", "m", "im", "l"}[rng.Intn(4)]
		v := gen.Container(kind, 3)
		// make sure texts and decimals are among the entries (the typed Put* meet them)
		switch kind {
		case "m":
			v.Ks = append(v.Ks, []byte("text!"), []byte("number!"))
			v.L = append(v.L, &vg.V{K: "T", Bs: []byte("original")}, &vg.V{K: "D", I: 7})
		case "im":
			v.IKs = append(v.IKs, 555001, 555002)
			v.L = append(v.L, &vg.V{K: "T", Bs: []byte("original")}, &vg.V{K: "D", I: 7})
		default:
			v.L = append(v.L, &vg.V{K: "T", Bs: []byte("original")}, &vg.V{K: "D", I: 7})
		}
		routes := []string{"Get-then-Put"}
		if kind == "m" {
			routes = append(routes, "PutAll")
		}
		if kind == "l" {
			routes = []string{"Get-then-Add"}
		}
		route := routes[rng.Intn(len(routes))]
		twoParents := rng.Chance(25)
		for dir := 0; dir < 2; dir++ { // 0: change the copy, watch the source; 1: change the source, watch the copy
			var what, encBefore, encAfter, lineAfter string
			var eqSnap bool
			o := vh.GuardTimeout(implDeadline, func() {
				a := v.ToGo()
				snap := v.ToGo() // independent objects with the same content
				b := copyOf(a, v, route)
				if twoParents { // the same container object inside two parents
					p1, p2 := value.NewListValue(nil), value.NewMapValue()
					p1.Add(a)
					p2.Put("child", a)
					defer func() { _ = encode(p1); _ = encode(p2) }()
				}
				watched, changed := a, b
				if dir == 1 {
					watched, changed = b, a
				}
				encBefore = vh.Hex(encode(watched))
				what = changeOwnEntries(rng, changed, v)
				encAfter = vh.Hex(encode(watched))
				lineAfter = vg.FromGo(value.ReadValue(gio.NewDataInputX(vh.UnHex(encAfter)))).Line()
				eqSnap = watched.Equals(snap) && snap.Equals(watched)
			})
			rep.Case(fmt.Sprintf("sharing %s %d %s", route, dir, v.Line()), true)
			rep.Count("sharing:" + route)
			if o.Timeout {
				hangs++
				rep.Fail("property", "WriteValue:"+vg.TypeName[v.K]+":hangs-in-sharing-probe", "did not finish within its deadline", map[string]interface{}{"value": vh.Clip(v.LineX(), 2000), "route": route})
				break
			}
			if !o.OK() || encAfter != encBefore || lineAfter != v.Line() || (!eqSnap && !v.HasNaN()) {
				who := map[int]string{0: "changing-the-copy-changes-the-source", 1: "changing-the-source-changes-the-copy"}[dir]
				rep.Fail("property", vg.TypeName[v.K]+"."+route+":"+who,
					"a container that nobody touched encodes / decodes / compares differently after the container that shares its value objects was changed through "+what,
					map[string]interface{}{"value": vh.Clip(v.LineX(), 2000), "route": route, "direction": dir, "mutators": what,
						"bytes_before": vh.Clip(encBefore, 800), "bytes_after": vh.Clip(encAfter, 800), "decoded_after": vh.Clip(lineAfter, 800), "equals_snapshot": eqSnap, "panic": vh.Clip(o.Panic, 200)})
			}
		}
	}
}
