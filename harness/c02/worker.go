package main

// The sequential stage runs every implementation call in WORKER processes (the same binary,
// `-child worker`): a goroutine stuck in a tight loop cannot be cancelled, a process can be killed.
//
// protocol (one case per request line, tab separated):   idx  hseed  connLimit  rest-hex  value (LineX)
// the worker answers with up to three lines per case:     B idx            the value was built
//                                                           E idx {json}     it was encoded
//                                                           D idx {json}     decoded, re-encoded, decoded over a connection
// The parent gives every case a deadline; on expiry the worker is killed, the case is reported as
// `WriteValue:<Type>:hangs` (stuck while building or encoding) or `ReadValue:<Type>:hangs`, and a
// fresh worker continues with the next case.  A worker that dies is reported the same way (`:crashes`).

import (
	"bufio"
	"encoding/json"
	"fmt"
	"io"
	"os"
	"os/exec"
	"strconv"
	"strings"
	"sync"
	"time"

	gio "github.com/whatap/golib/io"
	"github.com/whatap/golib/lang/value"
	"verif/harness/c02/vg"
	"verif/harness/vh"
)

type encPart struct {
	Panic string `json:"panic"`
	Bytes string `json:"bytes"`
}

type decPart struct {
	Panic     string `json:"panic"`
	Back      string `json:"back"`
	Avail     int32  `json:"avail"`
	Reenc     string `json:"reenc"`
	RePanic   string `json:"re_panic"`
	ConnRun   bool   `json:"conn_run"`
	ConnLine  string `json:"conn_line"`
	ConnPanic string `json:"conn_panic"`
	ConnHang  bool   `json:"conn_hang"`
}

func outcomeOf(panicText string) vh.Outcome { return vh.Outcome{Panic: panicText} }

// workerMain serves requests until stdin closes
func workerMain() {
	in := bufio.NewReaderSize(os.Stdin, 1<<20)
	out := bufio.NewWriterSize(os.Stdout, 1<<20)
	say := func(tag string, idx string, x interface{}) {
		if x == nil {
			fmt.Fprintf(out, "%s %s\n", tag, idx)
		} else {
			b, _ := json.Marshal(x)
			fmt.Fprintf(out, "%s %s %s\n", tag, idx, b)
		}
		out.Flush()
	}
	for {
		line, err := in.ReadString('\n')
		if len(line) == 0 && err != nil {
			return
		}
		f := strings.SplitN(strings.TrimRight(line, "\n"), "\t", 5)
		if len(f) != 5 {
			continue
		}
		idx := f[0]
		hseed, _ := strconv.ParseUint(f[1], 10, 64)
		climit, _ := strconv.Atoi(f[2])
		rest := vh.UnHex(f[3])
		v, perr := vg.ParseLine(f[4])
		if perr != nil {
			say("E", idx, encPart{Panic: "harness: bad value line: " + perr.Error()})
			continue
		}
		var g value.Value
		var bytes []byte
		o := vh.Guard(func() { g = build(v, hseed) })
		if o.OK() {
			say("B", idx, nil)
			o = vh.Guard(func() { bytes = encode(g) })
		}
		say("E", idx, encPart{Panic: o.Panic, Bytes: vh.Hex(bytes)})
		if !o.OK() {
			continue
		}
		var d decPart
		full := append(append([]byte{}, bytes...), rest...)
		ro := vh.Guard(func() {
			din := gio.NewDataInputX(full)
			dv := value.ReadValue(din)
			d.Avail = din.Available()
			d.Back = vg.FromGo(dv).Line()
			reo := vh.Guard(func() { d.Reenc = vh.Hex(encode(dv)) })
			d.RePanic = reo.Panic
		})
		d.Panic = ro.Panic
		if climit > 0 && len(full) <= climit {
			d.ConnRun = true
			var co vh.Outcome
			d.ConnLine, co = decodeViaConn(full)
			d.ConnPanic, d.ConnHang = co.Panic, co.Timeout
		}
		say("D", idx, d)
		if err != nil {
			return
		}
	}
}

type worker struct {
	cmd   *exec.Cmd
	stdin io.WriteCloser
	lines chan string
}

func startWorker() *worker {
	exe, err := os.Executable()
	if err != nil {
		vh.Die("worker: %v", err)
	}
	cmd := exec.Command(exe, "-child", "worker")
	cmd.Env = append(os.Environ(), "GOMEMLIMIT=3GiB", "GOMAXPROCS=2")
	stdin, _ := cmd.StdinPipe()
	stdout, _ := cmd.StdoutPipe()
	cmd.Stderr = io.Discard
	if err := cmd.Start(); err != nil {
		vh.Die("worker: %v", err)
	}
	w := &worker{cmd: cmd, stdin: stdin, lines: make(chan string, 8)}
	go func() {
		r := bufio.NewReaderSize(stdout, 1<<20)
		for {
			l, err := r.ReadString('\n')
			if len(l) > 0 {
				w.lines <- strings.TrimRight(l, "\n")
			}
			if err != nil {
				close(w.lines)
				return
			}
		}
	}()
	return w
}

func (w *worker) kill() {
	w.stdin.Close()
	w.cmd.Process.Kill()
	go func() {
		for range w.lines {
		}
	}()
	w.cmd.Wait()
}

var (
	hangMu      sync.Mutex
	hangCount   int           // confirmed hangs so far
	slowest     time.Duration // the slowest case that did complete (per 20 000 characters of value text)
	slowCases   int           // cases that exceeded their first deadline but completed when re-run alone
	skippedRest int
)

// The deadlines only bound hangs.  A case first gets a generous deadline that grows with its size and
// with the slowest case seen to complete (so a loaded machine stretches it); a case that exceeds it is
// RE-RUN ALONE on a fresh worker with a much longer deadline and is reported as a hang only if that
// expires too.  After two confirmed hangs further cases are judged against 100x the slowest completed
// case (at least 20 s), and after twelve the remaining cases are skipped: the verdict is settled.
func firstDeadline(c *tcase) time.Duration {
	hangMu.Lock()
	defer hangMu.Unlock()
	units := time.Duration(1 + len(c.line)/20000)
	d := 45*time.Second + units*5*time.Second
	if hangCount >= 2 {
		d = 20*time.Second + units*2*time.Second
	}
	if rel := 100 * slowest * units; rel > d {
		d = rel
	}
	return d
}

const confirmDeadline = 120 * time.Second

func noteCompleted(c *tcase, took time.Duration) {
	per := took / time.Duration(1+len(c.line)/20000)
	hangMu.Lock()
	if per > slowest {
		slowest = per
	}
	hangMu.Unlock()
}

// runOne sends one case to the worker and collects its answers; phase names where it stopped
func runOne(w *worker, idx int, c *tcase, deadline time.Duration) (alive bool) {
	began := time.Now()
	req := fmt.Sprintf("%d\t%d\t%d\t%s\t%s\n", idx, c.hseed, connLimit, vh.Hex(c.rest), c.v.LineX())
	if _, err := io.WriteString(w.stdin, req); err != nil {
		c.died, c.phase = true, "build"
		return false
	}
	c.phase = "build"
	timer := time.NewTimer(deadline)
	defer timer.Stop()
	for {
		select {
		case l, ok := <-w.lines:
			if !ok {
				c.died = true
				return false
			}
			f := strings.SplitN(l, " ", 3)
			if len(f) < 2 || f[1] != strconv.Itoa(idx) {
				continue
			}
			switch f[0] {
			case "B":
				c.phase = "encode"
			case "E":
				var e encPart
				json.Unmarshal([]byte(f[2]), &e)
				c.wOut = outcomeOf(e.Panic)
				c.bytes = vh.UnHex(e.Bytes)
				if e.Panic != "" {
					c.phase = ""
					return true
				}
				c.phase = "decode"
			case "D":
				var d decPart
				json.Unmarshal([]byte(f[2]), &d)
				c.rOut = outcomeOf(d.Panic)
				c.back, c.avail = d.Back, d.Avail
				c.reenc, c.reOut = vh.UnHex(d.Reenc), outcomeOf(d.RePanic)
				c.connRun, c.connLine = d.ConnRun, d.ConnLine
				c.connOut = vh.Outcome{Panic: d.ConnPanic, Timeout: d.ConnHang}
				c.phase = ""
				noteCompleted(c, time.Since(began))
				return true
			}
		case <-timer.C:
			c.hung = true
			return false
		}
	}
}

// runBatch runs the cases on a small pool of workers
func runBatch(cases []*tcase) {
	const nWorkers = 6
	jobs := make(chan int, len(cases))
	for i := range cases {
		jobs <- i
	}
	close(jobs)
	var wg sync.WaitGroup
	for k := 0; k < nWorkers; k++ {
		wg.Add(1)
		go func() {
			defer wg.Done()
			var w *worker
			for i := range jobs {
				hangMu.Lock()
				settled := hangCount >= 12
				if settled {
					skippedRest++
				}
				hangMu.Unlock()
				if settled {
					cases[i].skipped = true
					continue
				}
				if w == nil {
					w = startWorker()
				}
				c := cases[i]
				if runOne(w, i, c, firstDeadline(c)) {
					continue
				}
				w.kill()
				w = nil
				if !c.hung {
					continue // the worker died: reported as a crash
				}
				// exceeded its first deadline: confirm alone, with a much longer one, before calling it a hang
				hangMu.Lock()
				confirmed := hangCount >= 2
				hangMu.Unlock()
				if confirmed {
					hangMu.Lock()
					hangCount++
					hangMu.Unlock()
					continue
				}
				again := &tcase{v: c.v, line: c.line, rest: c.rest, hseed: c.hseed}
				w2 := startWorker()
				ok := runOne(w2, i, again, confirmDeadline)
				w2.kill()
				if ok {
					again.errExp = c.errExp
					*c = *again // it was only slow
					hangMu.Lock()
					slowCases++
					hangMu.Unlock()
				} else {
					c.phase, c.died = again.phase, again.died
					hangMu.Lock()
					hangCount++
					hangMu.Unlock()
				}
			}
			if w != nil {
				w.stdin.Close()
				w.cmd.Wait()
			}
		}()
	}
	wg.Wait()
}

// hangsAlone: does building + encoding + decoding this value alone exceed the deadline (fresh worker)?
func hangsAlone(v *vg.V, hseed uint64, d time.Duration) (bool, string) {
	w := startWorker()
	defer w.kill()
	c := &tcase{v: v, line: v.Line(), hseed: hseed}
	done := make(chan bool, 1)
	go func() { done <- runOne(w, 0, c, d) }()
	select {
	case <-done:
		return c.hung || c.died, c.phase
	case <-time.After(d + 10*time.Second):
		return true, c.phase
	}
}
