package main

// Containers around the 2^15 and 2^16 boundaries: maps, int maps and lists of 32767, 32768, 32769,
// 65535, 65536, 70000 small entries, arrays at their count limit.  Bytes are compared with the model
// (`E` only: the model's map decoder and distinct-keys test are quadratic), the decoded value, what
// is left, and the re-encoding are checked on the implementation.

import (
	"fmt"

	gio "github.com/whatap/golib/io"
	"github.com/whatap/golib/lang/value"
	"verif/harness/c02/vg"
	"verif/harness/vh"
)

func largeStage(env *vh.Env, rep *vh.Report) int {
	var vs []*vg.V
	for _, n := range []int{32767, 32768, 32769, 65535, 65536, 70000} {
		for _, kind := range []string{"m", "im", "l"} {
			v := &vg.V{K: kind}
			for i := 0; i < n; i++ {
				e := &vg.V{K: "D", I: int64(i)}
				if i%3 == 0 {
					e = &vg.V{K: "N"}
				}
				switch kind {
				case "m":
					v.Ks = append(v.Ks, []byte(fmt.Sprintf("k%d", i)))
				case "im":
					v.IKs = append(v.IKs, int32(i*7-100000))
				}
				v.L = append(v.L, e)
			}
			vs = append(vs, v)
		}
	}
	for _, kind := range []string{"ai", "al", "af", "at"} {
		v := &vg.V{K: kind}
		for i := 0; i < 32767; i++ {
			switch kind {
			case "ai", "al":
				v.Is = append(v.Is, int64(i))
			case "af":
				v.Us = append(v.Us, uint64(i))
			default:
				v.Ss = append(v.Ss, []byte{byte('a' + i%26)})
			}
		}
		vs = append(vs, v)
	}
	var lines []string
	for _, v := range vs {
		lines = append(lines, "E "+v.Line())
	}
	outs, err := vh.RunDriver(env.Driver, lines)
	if err != nil {
		vh.Die("%v", err)
	}
	for i, v := range vs {
		n := len(v.L) + len(v.Is) + len(v.Us) + len(v.Ss)
		what := fmt.Sprintf("%s with %d entries", vg.TypeName[v.K], n)
		replay := map[string]interface{}{"large": map[string]interface{}{"kind": v.K, "entries": n}}
		var hexB, back, reenc string
		var avail int32
		got := 0
		o := vh.GuardTimeout(implDeadline, func() {
			b := encode(v.ToGo())
			hexB = vh.Hex(b)
			din := gio.NewDataInputX(b)
			d := value.ReadValue(din)
			avail = din.Available()
			dv := vg.FromGo(d)
			got = len(dv.L) + len(dv.Is) + len(dv.Us) + len(dv.Ss)
			back = dv.Line()
			reenc = vh.Hex(encode(d))
		})
		rep.Case("large "+what, true)
		rep.Count("large-containers")
		switch {
		case o.Timeout:
			rep.Fail("property", "WriteValue:"+vg.TypeName[v.K]+":hangs", "encoding / decoding a "+what+" did not finish within its deadline", replay)
		case !o.OK():
			rep.Fail("property", "ReadValue:"+vg.TypeName[v.K]+":panic-on-large", "encoding / decoding a "+what+" panicked: "+vh.Clip(o.Panic, 200), replay)
		case hexB != outs[i]:
			rep.Fail("property", "WriteValue:"+vg.TypeName[v.K]+":bytes-differ-from-reference-on-large", "the bytes of a "+what+" differ from the reference encoder", replay)
		case back != v.Line() || avail != 0 || reenc != hexB:
			rep.Fail("property", "ReadValue:"+vg.TypeName[v.K]+":roundtrip-differs-on-large",
				fmt.Sprintf("decode(encode v) differs from v for a %s (entries decoded: %d, Available %d, re-encoding equal: %v)", what, got, avail, reenc == hexB), replay)
		}
	}
	return len(lines)
}
