module verif/harness

go 1.23

require (
	github.com/whatap/golib v0.0.0
)

replace github.com/whatap/golib => /repo
