package main

// Generic construction of collection instances and of call arguments by reflection, so that
// *every* exported method of *every* collection type is reached without a hand-written list
// (a method added later is covered automatically).

import (
	"fmt"
	"reflect"
	"sort"
	"strconv"
	"sync/atomic"

	gio "github.com/whatap/golib/io"
	"github.com/whatap/golib/util/hmap"
	"github.com/whatap/golib/util/list"
	"github.com/whatap/golib/util/queue"
	"verif/harness/vh"
)

// lkey is the harness's implementation of hmap.LinkedKey (a value type, so it prints as a number)
type lkey int

func (k lkey) Hash() uint { return uint(k) * 7 }
func (k lkey) Equals(o hmap.LinkedKey) bool {
	x, ok := o.(lkey)
	return ok && x == k
}

// poison mode (panic-safety probe): empty-interface parameters get an uncomparable value, LinkedKey
// parameters a key whose Equals panics once armed, comparators panic
var poisonMode int32
var poisonArmed int32

type poisonKey int

func (k poisonKey) Hash() uint { return uint(k) * 7 }
func (k poisonKey) Equals(o hmap.LinkedKey) bool {
	if atomic.LoadInt32(&poisonArmed) != 0 {
		panic("Equals of a user key panics")
	}
	x, ok := o.(poisonKey)
	return ok && x == k
}

type ctor struct {
	name string
	mk   func() interface{}
}

// every type of util/hmap, util/list/LinkedList.go and util/queue that carries a lock.
// (the regenerated lock table `Gen/Locks.typeNames` is compared with this list by the harness)
var ctors = []ctor{
	{"IntFloatLinkedMap", func() interface{} { return hmap.NewIntFloatLinkedMap() }},
	{"IntIntLinkedMap", func() interface{} { return hmap.NewIntIntLinkedMap() }},
	{"IntIntMap", func() interface{} { return hmap.NewIntIntMapDefault() }},
	{"IntKeyLinkedMap", func() interface{} { return hmap.NewIntKeyLinkedMapDefault() }},
	{"IntKeyMap", func() interface{} { return hmap.NewIntKeyMapDefault() }},
	{"IntLinkedSet", func() interface{} { return hmap.NewIntLinkedSet() }},
	{"IntSet", func() interface{} { return hmap.NewIntSet() }},
	{"LinkedMap", func() interface{} { return hmap.NewLinkedMapDefault() }},
	{"LinkedSet", func() interface{} { return hmap.NewLinkedSet() }},
	{"LongFloatLinkedMap", func() interface{} { return hmap.NewLongFloatLinkedMap() }},
	{"LongKeyLinkedMap", func() interface{} { return hmap.NewLongKeyLinkedMapDefault() }},
	{"LongLongLinkedMap", func() interface{} { return hmap.NewLongLongLinkedMapDefault() }},
	{"StringIntLinkedMap", func() interface{} { return hmap.NewStringIntLinkedMap() }},
	{"StringKeyLinkedMap", func() interface{} { return hmap.NewStringKeyLinkedMap() }},
	{"StringLinkedSet", func() interface{} { return hmap.NewStringLinkedSet() }},
	{"StringLongLinkedMap", func() interface{} { return hmap.NewStringLongLinkedMap() }},
	{"StringSet", func() interface{} { return hmap.NewStringSet() }},
	{"LinkedList", func() interface{} { return list.NewLinkedList() }},
	{"RequestQueue", func() interface{} { return queue.NewRequestQueue(8) }},
	{"RequestDoubleQueue", func() interface{} { return queue.NewRequestDoubleQueue(8, 8) }},
}

func ctorOf(name string) *ctor {
	for i := range ctors {
		if ctors[i].name == name {
			return &ctors[i]
		}
	}
	return nil
}

var (
	tLinkedKey = reflect.TypeOf((*hmap.LinkedKey)(nil)).Elem()
	tEntity    = reflect.TypeOf((*list.LinkedListEntity)(nil))
	tDout      = reflect.TypeOf((*gio.DataOutputX)(nil))
	tDin       = reflect.TypeOf((*gio.DataInputX)(nil))
)

// keyVal builds the key / element number k for a parameter of type t.
func keyVal(t reflect.Type, k int) (reflect.Value, bool) {
	if atomic.LoadInt32(&poisonMode) != 0 {
		switch {
		case t == tLinkedKey:
			return reflect.ValueOf(poisonKey(k)), true
		case t.Kind() == reflect.Interface && t.NumMethod() == 0:
			return reflect.ValueOf([]int{k}), true // uncomparable: `==` on two of these panics at run time
		}
	}
	switch {
	case t == tLinkedKey:
		return reflect.ValueOf(lkey(k)).Convert(reflect.TypeOf(lkey(0))), true
	case t.Kind() == reflect.Interface && t.NumMethod() == 0:
		return reflect.ValueOf(k), true
	}
	switch t.Kind() {
	case reflect.Int32, reflect.Int64, reflect.Int:
		return reflect.ValueOf(k).Convert(t), true
	case reflect.Float32, reflect.Float64:
		return reflect.ValueOf(float64(k)).Convert(t), true
	case reflect.String:
		return reflect.ValueOf("k" + strconv.Itoa(k)), true
	}
	return reflect.Value{}, false
}

// populate puts three entries into a fresh instance using whatever insertion method it has.
func populate(obj interface{}) {
	v := reflect.ValueOf(obj)
	for _, name := range []string{"Put", "AddLast", "Put1"} {
		m := v.MethodByName(name)
		if !m.IsValid() {
			continue
		}
		for k := 1; k <= 3; k++ {
			args, ok := buildArgs(obj, m.Type(), k, nil)
			if ok {
				m.Call(args)
			}
		}
		if name == "Put1" {
			m2 := v.MethodByName("Put2")
			args, _ := buildArgs(obj, m2.Type(), 9, nil)
			m2.Call(args)
		}
		return
	}
}

// buildArgs builds arguments for a call of a method with type mt on obj; k seeds keys/values.
// mkSame builds another instance of obj's type (for PutAll(other)).
func buildArgs(obj interface{}, mt reflect.Type, k int, mkSame func() interface{}) ([]reflect.Value, bool) {
	var args []reflect.Value
	for i := 0; i < mt.NumIn(); i++ {
		pt := mt.In(i)
		if v, ok := keyVal(pt, k+i); ok {
			args = append(args, v)
			continue
		}
		switch {
		case pt.Kind() == reflect.Func:
			args = append(args, lessFunc(pt))
		case pt == tEntity:
			if l, ok := obj.(*list.LinkedList); ok && l.GetFirst() != nil {
				args = append(args, reflect.ValueOf(l.GetFirst()))
			} else {
				return nil, false
			}
		case pt == tDout:
			args = append(args, reflect.ValueOf(gio.NewDataOutputX()))
		case pt == tDin:
			// the bytes this very instance writes
			tb := reflect.ValueOf(obj).MethodByName("ToBytes")
			if !tb.IsValid() {
				return nil, false
			}
			// ToBytes itself may be broken (that is the sweep's finding for ToBytes, not for ToObject):
			// fall back to the bytes of an empty instance, then to zeroes
			var data []byte
			if o := vh.Guard(func() {
				w := gio.NewDataOutputX()
				tb.Call([]reflect.Value{reflect.ValueOf(w)})
				data = w.ToByteArray()
			}); !o.OK() {
				data = make([]byte, 16)
				if mkSame != nil {
					e := mkSame()
					vh.Guard(func() {
						w := gio.NewDataOutputX()
						reflect.ValueOf(e).MethodByName("ToBytes").Call([]reflect.Value{reflect.ValueOf(w)})
						data = w.ToByteArray()
					})
				}
			}
			args = append(args, reflect.ValueOf(gio.NewDataInputX(data)))
		case pt.Kind() == reflect.Slice:
			s := reflect.MakeSlice(pt, 0, 2)
			for j := 0; j < 2; j++ {
				if e, ok := keyVal(pt.Elem(), k+10+j); ok {
					s = reflect.Append(s, e)
				}
			}
			args = append(args, s)
		case pt.Kind() == reflect.Ptr && mkSame != nil && pt == reflect.TypeOf(obj):
			o := mkSame()
			populate(o)
			args = append(args, reflect.ValueOf(o))
		default:
			return nil, false
		}
	}
	return args, true
}

// lessFunc makes a comparator `func(a, b K) bool` = a < b for the key types in use.
func lessFunc(ft reflect.Type) reflect.Value {
	return reflect.MakeFunc(ft, func(in []reflect.Value) []reflect.Value {
		if atomic.LoadInt32(&poisonArmed) != 0 {
			panic("user comparator panics")
		}
		res := false
		if len(in) == 2 {
			a, b := in[0], in[1]
			switch a.Kind() {
			case reflect.Int32, reflect.Int64, reflect.Int:
				res = a.Int() < b.Int()
			case reflect.Float32, reflect.Float64:
				res = a.Float() < b.Float()
			case reflect.String:
				res = a.String() < b.String()
			case reflect.Interface:
				x, ok1 := a.Interface().(lkey)
				y, ok2 := b.Interface().(lkey)
				res = ok1 && ok2 && x < y
			}
		}
		out := make([]reflect.Value, ft.NumOut())
		for i := range out {
			if ft.Out(i).Kind() == reflect.Bool {
				out[i] = reflect.ValueOf(res)
			} else if ft.Out(i).Kind() == reflect.Int {
				c := 0
				if res {
					c = -1
				}
				out[i] = reflect.ValueOf(c)
			} else {
				out[i] = reflect.Zero(ft.Out(i))
			}
		}
		return out
	})
}

// methodNames lists the exported methods of obj, sorted.
func methodNames(obj interface{}) []string {
	t := reflect.TypeOf(obj)
	var out []string
	for i := 0; i < t.NumMethod(); i++ {
		out = append(out, t.Method(i).Name)
	}
	sort.Strings(out)
	return out
}

// canon renders returned values without addresses.
func canon(vs []reflect.Value) string {
	s := ""
	for i, v := range vs {
		if i > 0 {
			s += ","
		}
		s += canon1(v)
	}
	return s
}

func canon1(v reflect.Value) string {
	if !v.IsValid() {
		return "nil"
	}
	switch v.Kind() {
	case reflect.Interface:
		if v.IsNil() {
			return "nil"
		}
		return canon1(v.Elem())
	case reflect.Ptr, reflect.Func, reflect.Map, reflect.Chan, reflect.UnsafePointer:
		if v.IsNil() {
			return "nil"
		}
		return "&" + v.Type().Elem().Name()
	case reflect.Slice:
		if v.IsNil() {
			return "[]"
		}
		s := "["
		for i := 0; i < v.Len(); i++ {
			if i > 0 {
				s += " "
			}
			s += canon1(v.Index(i))
		}
		return s + "]"
	case reflect.Float32, reflect.Float64:
		return strconv.FormatFloat(v.Float(), 'g', -1, 32)
	}
	return fmt.Sprintf("%v", v.Interface())
}
