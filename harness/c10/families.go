package main

// Three families of shared objects, each with
//   * a target: the real object, driven through its public API, returns rendered as strings;
//   * a model: the Go mirror of the sequential Lean spec (Golib/Conc/SeqSpec.lean, Golib/Queue/Seq.lean),
//     which yields for every call the abstract *fact* the return value depends on;
//   * for the 17 hash maps/sets: a probe table learnt from the real type run single-threaded that
//     renders a fact the way this type renders it (absent = nil / 0 / "" / false …), so the
//     mirror needs no per-type knowledge of return conventions.
//
// map family   : put k v | get k | has k | rem k | remFirst | remLast | size | empty | clear
// deque family : addFirst x | addLast x | add x | remFirst | remLast | size | clear      (LinkedList)
// queue family : put x | putForce x | getNoWait | size | clear | setCap c | getCap       (RequestQueue)
//                put1/put2/putForce1/putForce2/…                                          (RequestDoubleQueue)

import (
	"fmt"
	"reflect"
	"strconv"
	"strings"

	"github.com/whatap/golib/util/list"
	"github.com/whatap/golib/util/queue"
	"verif/harness/vh"
)

type call struct {
	Kind string `json:"kind"`
	K    int    `json:"k"`
	V    int    `json:"v"`
}

func (c call) String() string { return fmt.Sprintf("%s(%d,%d)", c.Kind, c.K, c.V) }

// driver syntax of a call
func (c call) line() string {
	switch c.Kind {
	case "put":
		return fmt.Sprintf("p%d,%d", c.K, c.V)
	case "get":
		return fmt.Sprintf("g%d", c.K)
	case "has":
		return fmt.Sprintf("c%d", c.K)
	case "rem":
		return fmt.Sprintf("r%d", c.K)
	case "remFirst":
		return "rf"
	case "remLast":
		return "rl"
	case "size":
		return "s"
	case "empty":
		return "e"
	case "clear":
		return "x"
	case "addFirst":
		return fmt.Sprintf("af%d", c.K)
	case "addLast":
		return fmt.Sprintf("al%d", c.K)
	case "add":
		return fmt.Sprintf("al%d", c.K)
	case "qput":
		return fmt.Sprintf("p%d", c.K)
	case "qforce":
		return fmt.Sprintf("f%d", c.K)
	case "qget":
		return "n"
	case "qsize":
		return "s"
	case "qclear":
		return "x"
	case "qsetcap":
		return fmt.Sprintf("c%d", c.K)
	case "qgetcap":
		return "g"
	case "qput1", "qput2", "qforce1", "qforce2":
		return fmt.Sprintf("%s%d", map[string]string{"qput1": "p1_", "qput2": "p2_", "qforce1": "f1_", "qforce2": "f2_"}[c.Kind], c.K)
	case "qsize1":
		return "s1"
	case "qsize2":
		return "s2"
	}
	return "?"
}

// target: the real object
type target interface {
	apply(c call) string // rendered return value; "panic" when the call panicked
}

// model: the sequential mirror
type model interface {
	apply(c call) string // the abstract fact (same text as the Lean driver prints)
	clone() model
	key() string // canonical state text
}

type family struct {
	typ       string
	kinds     []string // call kinds this type supports
	newTarget func() target
	newModel  func() model
	render    func(c call, fact string) (string, bool) // expected rendering of the real return for a fact; false = not comparable
	drvPrefix string                                   // driver line prefix ("M", "D", "Q 2", "DQ 2 2")
	gen       func(r *vh.Rng, kinds []string) call
}

// ---------------------------------------------------------------- map family

type assoc struct{ k, v int }
type mapModel struct{ es []assoc }

func (m *mapModel) clone() model {
	c := &mapModel{es: make([]assoc, len(m.es))}
	copy(c.es, m.es)
	return c
}
func (m *mapModel) key() string {
	var b strings.Builder
	for i, e := range m.es {
		if i > 0 {
			b.WriteByte(',')
		}
		fmt.Fprintf(&b, "%d:%d", e.k, e.v)
	}
	if len(m.es) == 0 {
		return "-"
	}
	return b.String()
}
func (m *mapModel) find(k int) int {
	for i, e := range m.es {
		if e.k == k {
			return i
		}
	}
	return -1
}
func (m *mapModel) apply(c call) string {
	switch c.Kind {
	case "put":
		if i := m.find(c.K); i >= 0 {
			old := m.es[i].v
			m.es[i].v = c.V
			return strconv.Itoa(old)
		}
		m.es = append(m.es, assoc{c.K, c.V})
		return "0"
	case "get":
		if i := m.find(c.K); i >= 0 {
			return strconv.Itoa(m.es[i].v)
		}
		return "0"
	case "has":
		if m.find(c.K) >= 0 {
			return "1"
		}
		return "0"
	case "rem":
		if i := m.find(c.K); i >= 0 {
			old := m.es[i].v
			m.es = append(m.es[:i], m.es[i+1:]...)
			return strconv.Itoa(old)
		}
		return "0"
	case "remFirst":
		if len(m.es) == 0 {
			return "0:0"
		}
		e := m.es[0]
		m.es = m.es[1:]
		return fmt.Sprintf("%d:%d", e.k, e.v)
	case "remLast":
		if len(m.es) == 0 {
			return "0:0"
		}
		e := m.es[len(m.es)-1]
		m.es = m.es[:len(m.es)-1]
		return fmt.Sprintf("%d:%d", e.k, e.v)
	case "size":
		return strconv.Itoa(len(m.es))
	case "empty":
		if len(m.es) == 0 {
			return "1"
		}
		return "0"
	case "clear":
		m.es = nil
		return "-"
	}
	return "?"
}

const nKeys = 4 // keys 1..4
const nVals = 3 // values 1..3

// reflective target for the 17 hash maps / sets
type mapTarget struct {
	obj   interface{}
	v     reflect.Value
	isSet bool
	meth  map[string]reflect.Value
}

var containsNames = []string{"ContainsKey", "Contains", "HasKey"}

func newMapTarget(obj interface{}) *mapTarget {
	t := &mapTarget{obj: obj, v: reflect.ValueOf(obj), meth: map[string]reflect.Value{}}
	put := t.v.MethodByName("Put")
	t.isSet = put.IsValid() && put.Type().NumIn() == 1
	bind := func(kind string, names ...string) {
		for _, n := range names {
			if m := t.v.MethodByName(n); m.IsValid() {
				t.meth[kind] = m
				return
			}
		}
	}
	bind("put", "Put")
	bind("get", "Get")
	bind("has", containsNames...)
	bind("rem", "Remove")
	bind("remFirst", "RemoveFirst")
	bind("remLast", "RemoveLast")
	bind("size", "Size")
	bind("empty", "IsEmpty")
	bind("clear", "Clear")
	return t
}

func (t *mapTarget) kinds() []string {
	var ks []string
	for _, k := range []string{"put", "get", "has", "rem", "remFirst", "remLast", "size", "empty", "clear"} {
		m, ok := t.meth[k]
		if !ok {
			continue
		}
		// only the plain signatures
		n := m.Type().NumIn()
		switch k {
		case "put":
			if n != 1 && n != 2 {
				continue
			}
		case "get", "has", "rem":
			if n != 1 {
				continue
			}
		default:
			if n != 0 {
				continue
			}
		}
		ks = append(ks, k)
	}
	return ks
}

func (t *mapTarget) apply(c call) (res string) {
	m := t.meth[c.Kind]
	var args []reflect.Value
	mt := m.Type()
	if mt.NumIn() >= 1 {
		k, _ := keyVal(mt.In(0), c.K)
		args = append(args, k)
	}
	if mt.NumIn() >= 2 {
		v, _ := keyVal(mt.In(1), c.V)
		args = append(args, v)
	}
	o := vh.Guard(func() { res = canon(m.Call(args)) })
	if !o.OK() {
		return "panic"
	}
	return res
}

// probe table: (kind, fact, key, newvalue) → rendering by the real type, learnt single-threaded
type probe struct {
	tbl map[string]string
	bad map[string]bool // probing itself was inconsistent / panicked: not comparable
}

func pkey(c call, fact string) string {
	switch c.Kind {
	case "put":
		return fmt.Sprintf("put/%d/%d/%s", c.K, c.V, fact)
	case "get", "has", "rem":
		return fmt.Sprintf("%s/%d/%s", c.Kind, c.K, fact)
	}
	return c.Kind + "/" + fact
}

// learn runs, for every (call, situation), the call on a fresh real instance brought into that
// situation sequentially, and records how the type renders the answer.
func learnProbe(mk func() interface{}) *probe {
	p := &probe{tbl: map[string]string{}, bad: map[string]bool{}}
	t0 := newMapTarget(mk())
	kinds := map[string]bool{}
	for _, k := range t0.kinds() {
		kinds[k] = true
	}
	vals := nVals
	if t0.isSet {
		vals = 1
	}
	rec := func(c call, setup []call) {
		t := newMapTarget(mk())
		m := &mapModel{}
		for _, s := range setup {
			t.apply(s)
			m.apply(s)
		}
		fact := m.apply(c)
		got := t.apply(c)
		key := pkey(c, fact)
		if old, ok := p.tbl[key]; ok && old != got {
			p.bad[key] = true
		}
		p.tbl[key] = got
	}
	for k := 1; k <= nKeys; k++ {
		other := call{"put", k%nKeys + 1, 1}
		for old := 0; old <= vals; old++ {
			var setup []call
			if old > 0 {
				setup = []call{{"put", k, old}}
			}
			for _, withOther := range []bool{false, true} {
				s := setup
				if withOther {
					s = append([]call{other}, setup...)
				}
				if kinds["put"] {
					for nv := 1; nv <= vals; nv++ {
						rec(call{"put", k, nv}, s)
					}
				}
				for _, kind := range []string{"get", "has", "rem"} {
					if kinds[kind] {
						rec(call{kind, k, 0}, s)
					}
				}
			}
			// first / last
			if old > 0 {
				if kinds["remFirst"] {
					rec(call{"remFirst", 0, 0}, []call{{"put", k, old}, other})
					rec(call{"remFirst", 0, 0}, []call{{"put", k, old}})
				}
				if kinds["remLast"] {
					rec(call{"remLast", 0, 0}, []call{other, {"put", k, old}})
					rec(call{"remLast", 0, 0}, []call{{"put", k, old}})
				}
			}
		}
	}
	for _, kind := range []string{"remFirst", "remLast", "empty", "clear"} {
		if kinds[kind] {
			rec(call{kind, 0, 0}, nil)
		}
	}
	if kinds["empty"] {
		rec(call{"empty", 0, 0}, []call{{"put", 1, 1}})
	}
	if kinds["clear"] {
		rec(call{"clear", 0, 0}, []call{{"put", 1, 1}})
	}
	return p
}

func mapFamily(c ctor) *family {
	pr := learnProbe(c.mk)
	t0 := newMapTarget(c.mk())
	isSet := t0.isSet
	f := &family{typ: c.name, kinds: t0.kinds(), drvPrefix: "M"}
	f.newTarget = func() target { return newMapTarget(c.mk()) }
	f.newModel = func() model { return &mapModel{} }
	f.render = func(cl call, fact string) (string, bool) {
		if cl.Kind == "size" {
			return fact, true
		}
		k := pkey(cl, fact)
		if pr.bad[k] {
			return "", false
		}
		s, ok := pr.tbl[k]
		return s, ok
	}
	f.gen = func(r *vh.Rng, kinds []string) call {
		kind := r.PickStr(kinds)
		cl := call{Kind: kind}
		switch kind {
		case "put":
			cl.K = 1 + r.Intn(nKeys)
			cl.V = 1 + r.Intn(nVals)
			if isSet {
				cl.V = 1
			}
		case "get", "has", "rem":
			cl.K = 1 + r.Intn(nKeys)
		}
		return cl
	}
	return f
}

// ---------------------------------------------------------------- deque family (LinkedList)

type dequeModel struct{ xs []int }

func (m *dequeModel) clone() model {
	c := &dequeModel{xs: make([]int, len(m.xs))}
	copy(c.xs, m.xs)
	return c
}
func (m *dequeModel) key() string {
	if len(m.xs) == 0 {
		return "-"
	}
	s := make([]string, len(m.xs))
	for i, x := range m.xs {
		s[i] = strconv.Itoa(x)
	}
	return strings.Join(s, ",")
}
func (m *dequeModel) apply(c call) string {
	switch c.Kind {
	case "addFirst":
		m.xs = append([]int{c.K}, m.xs...)
		return "-"
	case "addLast":
		m.xs = append(m.xs, c.K)
		return "-"
	case "add":
		m.xs = append(m.xs, c.K)
		return "-"
	case "remFirst":
		if len(m.xs) == 0 {
			return "0"
		}
		x := m.xs[0]
		m.xs = m.xs[1:]
		return strconv.Itoa(x)
	case "remLast":
		if len(m.xs) == 0 {
			return "0"
		}
		x := m.xs[len(m.xs)-1]
		m.xs = m.xs[:len(m.xs)-1]
		return strconv.Itoa(x)
	case "size":
		return strconv.Itoa(len(m.xs))
	case "clear":
		m.xs = nil
		return "-"
	}
	return "?"
}

type dequeTarget struct{ l *list.LinkedList }

func elemStr(x interface{}) string {
	if x == nil {
		return "0"
	}
	return fmt.Sprint(x)
}

func (t *dequeTarget) apply(c call) (res string) {
	o := vh.Guard(func() {
		switch c.Kind {
		case "addFirst":
			t.l.AddFirst(c.K)
			res = "-"
		case "addLast":
			t.l.AddLast(c.K)
			res = "-"
		case "add":
			t.l.Add(c.K)
			res = "-"
		case "remFirst":
			res = elemStr(t.l.RemoveFirst())
		case "remLast":
			res = elemStr(t.l.RemoveLast())
		case "size":
			res = strconv.Itoa(t.l.Size())
		case "clear":
			t.l.Clear()
			res = "-"
		}
	})
	if !o.OK() {
		return "panic"
	}
	return res
}

func dequeFamily() *family {
	f := &family{typ: "LinkedList", kinds: []string{"addFirst", "addLast", "add", "remFirst", "remLast", "size", "clear"}, drvPrefix: "D"}
	f.newTarget = func() target { return &dequeTarget{list.NewLinkedList()} }
	f.newModel = func() model { return &dequeModel{} }
	f.render = func(c call, fact string) (string, bool) { return fact, true }
	next := 0
	f.gen = func(r *vh.Rng, kinds []string) call {
		kind := r.PickStr(kinds)
		cl := call{Kind: kind}
		if strings.HasPrefix(kind, "add") {
			next++
			cl.K = 1 + r.Intn(9)
		}
		return cl
	}
	return f
}

// ---------------------------------------------------------------- queue family

type qModel struct {
	items [2][]int
	cap   [2]int
	dbl   bool
}

func (m *qModel) clone() model {
	c := &qModel{cap: m.cap, dbl: m.dbl}
	for i := range m.items {
		c.items[i] = append([]int(nil), m.items[i]...)
	}
	return c
}
func (m *qModel) key() string {
	return fmt.Sprint(m.items[0], m.cap[0], m.items[1], m.cap[1])
}
func (m *qModel) room(i int) bool { return m.cap[i] <= 0 || len(m.items[i]) < m.cap[i] }
func b2s(b bool) string {
	if b {
		return "t"
	}
	return "f"
}
func (m *qModel) put(i, x int, force bool) string {
	if m.room(i) {
		m.items[i] = append(m.items[i], x)
		return "t"
	}
	if force {
		for len(m.items[i]) >= m.cap[i] {
			m.items[i] = m.items[i][1:]
		}
		m.items[i] = append(m.items[i], x)
	}
	return "f"
}
func (m *qModel) apply(c call) string {
	switch c.Kind {
	case "qput", "qput1":
		return m.put(0, c.K, false)
	case "qput2":
		return m.put(1, c.K, false)
	case "qforce", "qforce1":
		return m.put(0, c.K, true)
	case "qforce2":
		return m.put(1, c.K, true)
	case "qget":
		for i := 0; i < 2; i++ {
			if len(m.items[i]) > 0 {
				x := m.items[i][0]
				m.items[i] = m.items[i][1:]
				return strconv.Itoa(x)
			}
		}
		return "0"
	case "qsize":
		return strconv.Itoa(len(m.items[0]) + len(m.items[1]))
	case "qsize1":
		return strconv.Itoa(len(m.items[0]))
	case "qsize2":
		return strconv.Itoa(len(m.items[1]))
	case "qclear":
		m.items[0], m.items[1] = nil, nil
		return "-"
	case "qsetcap":
		m.cap[0] = c.K
		if m.dbl {
			m.cap[1] = c.V
		}
		return "-"
	case "qgetcap":
		return strconv.Itoa(m.cap[0])
	}
	return "?"
}

type qTarget struct {
	q *queue.RequestQueue
	d *queue.RequestDoubleQueue
}

func (t *qTarget) apply(c call) (res string) {
	o := vh.Guard(func() {
		if t.q != nil {
			switch c.Kind {
			case "qput":
				res = b2s(t.q.Put(c.K))
			case "qforce":
				res = b2s(t.q.PutForce(c.K))
			case "qget":
				res = elemStr(t.q.GetNoWait())
			case "qsize":
				res = strconv.Itoa(t.q.Size())
			case "qclear":
				t.q.Clear()
				res = "-"
			case "qsetcap":
				t.q.SetCapacity(c.K)
				res = "-"
			case "qgetcap":
				res = strconv.Itoa(t.q.GetCapacity())
			}
			return
		}
		switch c.Kind {
		case "qput1":
			res = b2s(t.d.Put1(c.K))
		case "qput2":
			res = b2s(t.d.Put2(c.K))
		case "qforce1":
			res = b2s(t.d.PutForce1(c.K))
		case "qforce2":
			res = b2s(t.d.PutForce2(c.K))
		case "qget":
			res = elemStr(t.d.GetNoWait())
		case "qsize":
			res = strconv.Itoa(t.d.Size())
		case "qsize1":
			res = strconv.Itoa(t.d.Size1())
		case "qsize2":
			res = strconv.Itoa(t.d.Size2())
		case "qclear":
			t.d.Clear()
			res = "-"
		case "qsetcap":
			t.d.SetCapacity(c.K, c.V)
			res = "-"
		}
	})
	if !o.OK() {
		return "panic"
	}
	return res
}

func queueFamily(dbl bool, cap int) *family {
	f := &family{}
	if dbl {
		f.typ = "RequestDoubleQueue"
		f.kinds = []string{"qput1", "qput2", "qforce1", "qforce2", "qget", "qsize", "qsize1", "qsize2", "qclear", "qsetcap"}
		f.drvPrefix = fmt.Sprintf("DQ %d %d", cap, cap)
		f.newTarget = func() target { return &qTarget{d: queue.NewRequestDoubleQueue(cap, cap)} }
	} else {
		f.typ = "RequestQueue"
		f.kinds = []string{"qput", "qforce", "qget", "qsize", "qclear", "qsetcap", "qgetcap"}
		f.drvPrefix = fmt.Sprintf("Q %d", cap)
		f.newTarget = func() target { return &qTarget{q: queue.NewRequestQueue(cap)} }
	}
	f.newModel = func() model { return &qModel{cap: [2]int{cap, cap}, dbl: dbl} }
	f.render = func(c call, fact string) (string, bool) { return fact, true }
	f.gen = func(r *vh.Rng, kinds []string) call {
		kind := r.PickStr(kinds)
		cl := call{Kind: kind}
		switch kind {
		case "qput", "qforce", "qput1", "qput2", "qforce1", "qforce2":
			cl.K = 1 + r.Intn(9)
		case "qsetcap":
			cl.K = r.PickInt([]int{-1, 0, 1, 2, 3})
			cl.V = r.PickInt([]int{-1, 0, 1, 2, 3})
			if !dbl {
				cl.V = 0
			}
		}
		return cl
	}
	return f
}

func (c call) lineFor(f *family) string {
	if c.Kind == "qsetcap" && f.typ == "RequestDoubleQueue" {
		return fmt.Sprintf("c%d_%d", c.K, c.V)
	}
	return c.line()
}

// allFamilies builds the family descriptor of every collection type.
func allFamilies() []*family {
	var fs []*family
	for _, c := range ctors {
		switch c.name {
		case "LinkedList":
			fs = append(fs, dequeFamily())
		case "RequestQueue":
			fs = append(fs, queueFamily(false, 2))
		case "RequestDoubleQueue":
			fs = append(fs, queueFamily(true, 2))
		default:
			fs = append(fs, mapFamily(c))
		}
	}
	return fs
}
