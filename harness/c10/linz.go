package main

// Linearizability of a recorded concurrent history against the sequential mirror
// (Wing–Gong search with memoisation on (set of linearized ops, model state)), and the
// stress runner that produces the histories.

import (
	"fmt"
	"runtime"
	"sync"
	"sync/atomic"
	"time"

	"verif/harness/vh"
)

type hop struct {
	Tid  int    `json:"tid"`
	C    call   `json:"call"`
	Ret  string `json:"ret"`
	T0   int64  `json:"t0"`
	T1   int64  `json:"t1"`
	Fact string `json:"fact,omitempty"` // filled for the witness
}

// linearize returns a witness order (indices into ops) or nil.
func linearize(f *family, ops []hop) []int {
	n := len(ops)
	if n > 64 {
		panic("history too long for the checker")
	}
	failed := map[string]struct{}{}
	order := make([]int, 0, n)
	var dfs func(m model, done uint64) bool
	dfs = func(m model, done uint64) bool {
		if len(order) == n {
			return true
		}
		mk := fmt.Sprintf("%x|%s", done, m.key())
		if _, bad := failed[mk]; bad {
			return false
		}
		// minimal candidates: not done, and no other not-done op returned before it was called
		var minRet int64 = 1<<63 - 1
		for j := 0; j < n; j++ {
			if done&(1<<uint(j)) == 0 && ops[j].T1 < minRet {
				minRet = ops[j].T1
			}
		}
		for i := 0; i < n; i++ {
			if done&(1<<uint(i)) != 0 || ops[i].T0 > minRet {
				continue
			}
			m2 := m.clone()
			fact := m2.apply(ops[i].C)
			exp, cmp := f.render(ops[i].C, fact)
			if cmp && exp != ops[i].Ret {
				continue
			}
			order = append(order, i)
			if dfs(m2, done|1<<uint(i)) {
				return true
			}
			order = order[:len(order)-1]
		}
		failed[mk] = struct{}{}
		return false
	}
	if dfs(f.newModel(), 0) {
		return order
	}
	return nil
}

// stressRound runs nG goroutines × nOps calls on one shared fresh instance.
// Returns the history, or deadlock=true if the goroutines did not finish.
func stressRound(f *family, r *vh.Rng, nG, nOps int, kinds []string, prefill []call) (hist []hop, deadlock bool) {
	tgt := f.newTarget()
	var pre []hop
	for _, c := range prefill {
		ret := tgt.apply(c)
		pre = append(pre, hop{Tid: -1, C: c, Ret: ret, T0: int64(len(pre)) - 1000, T1: int64(len(pre)) - 1000})
	}
	progs := make([][]call, nG)
	for g := range progs {
		for i := 0; i < nOps; i++ {
			progs[g] = append(progs[g], f.gen(r, kinds))
		}
	}
	res := make([][]hop, nG)
	start := make(chan struct{})
	var wg sync.WaitGroup
	var arrived int32
	base := time.Now()
	for g := 0; g < nG; g++ {
		wg.Add(1)
		go func(g int) {
			defer wg.Done()
			out := make([]hop, 0, nOps)
			<-start
			// spin barrier: all goroutines leave within a few nanoseconds of each other (synchronisation
			// only here, before the first operation — none between the operations)
			atomic.AddInt32(&arrived, 1)
			for w := time.Now(); atomic.LoadInt32(&arrived) < int32(nG) && time.Since(w) < 200*time.Microsecond; {
				runtime.Gosched() // bounded: on an oversubscribed machine do not burn the time slice
			}
			for _, c := range progs[g] {
				t0 := int64(time.Since(base))
				ret := tgt.apply(c)
				t1 := int64(time.Since(base))
				out = append(out, hop{Tid: g, C: c, Ret: ret, T0: t0, T1: t1})
			}
			res[g] = out
		}(g)
	}
	done := make(chan struct{})
	go func() { wg.Wait(); close(done) }()
	close(start)
	select {
	case <-done:
	case <-time.After(hangLimit):
		return nil, true
	}
	hist = append(hist, pre...)
	for g := range res {
		hist = append(hist, res[g]...)
	}
	return hist, false
}
