package main

// State-directed self-deadlock probe.
//
// Every exported method of every collection type is called under the watchdog from a set of
// *prepared states* — empty, one element, two elements, bounded and full (SetMax / SetCapacity
// ∈ {1,2,3}), one insertion before and right after the growth of the table (found by watching
// len(table)) — and with an existing as well as a new key.  A lock re-entry that sits in a branch
// (eviction on a full bounded map, rehash, update vs insert) is reached this way, not only the ones
// on a method's main path.
//
// In addition the harness reads tie A's facts (`xlate/c10 -json`): for every type in which a method
// that holds the lock reaches one that takes it again (what `no_self_deadlock_T` judges), it
// searches random states and arguments of that type for an input that actually hangs.

import (
	"encoding/json"
	"fmt"
	"os"
	"os/exec"
	"path/filepath"
	"reflect"
	"sort"
	"sync"

	"verif/harness/vh"
)

// ---------------------------------------------------------------- tie A facts for the harness

type factMethod struct {
	Name      string   `json:"name"`
	Exported  bool     `json:"exported"`
	Acquires  bool     `json:"acquires"`
	LockFirst bool     `json:"lockFirst"`
	Irregular bool     `json:"irregular"`
	CallsHeld []string `json:"callsHeld"`
	CallsFree []string `json:"callsFree"`
	AccFree   []string `json:"accFree"`
	RLock     bool     `json:"rlock"`
	Mutates   bool     `json:"mutates"`
	ValueRecv bool     `json:"valueRecv"`
}

// mutatesWithin mirrors LockFacts.mutatesWithin.
func (f lockFacts) mutatesWithin(typ, m string, fuel int) bool {
	if fuel == 0 {
		return true
	}
	M := f.method(typ, m)
	if M == nil {
		return false
	}
	if M.Mutates {
		return true
	}
	for _, c := range append(append([]string{}, M.CallsHeld...), M.CallsFree...) {
		if f.mutatesWithin(typ, c, fuel-1) {
			return true
		}
	}
	return false
}

// readLockWriters: exported methods that take only a read lock but write (tie A: no_write_under_read_lock)
func (f lockFacts) readLockWriters(typ string) []string {
	var out []string
	for _, M := range f[typ] {
		if M.Exported && M.RLock && f.mutatesWithin(typ, M.Name, len(f[typ])+1) {
			out = append(out, M.Name)
		}
	}
	return out
}

type lockFacts map[string][]factMethod

func loadFacts(env *vh.Env, rep *vh.Report) lockFacts {
	root := os.Getenv("VERIF_ROOT")
	if root == "" {
		root = "/verif"
	}
	bin := filepath.Join(root, ".build", "xlate-c10")
	wd, _ := os.Getwd()
	out := filepath.Join(wd, "locks.json")
	if _, err := os.Stat(bin); err != nil {
		rep.Note("tie A facts not available to the harness (%s missing): probes run undirected", bin)
		return nil
	}
	if b, err := exec.Command(bin, "-repo", env.Repo, "-json", out).CombinedOutput(); err != nil {
		rep.Note("xlate -json failed: %v %s", err, vh.Clip(string(b), 200))
		return nil
	}
	b, err := os.ReadFile(out)
	if err != nil {
		return nil
	}
	var f lockFacts
	if json.Unmarshal(b, &f) != nil {
		return nil
	}
	return f
}

func (f lockFacts) method(typ, m string) *factMethod {
	for i := range f[typ] {
		if f[typ][i].Name == m {
			return &f[typ][i]
		}
	}
	return nil
}

// acquiresWithin mirrors LockFacts.acquiresWithin.
func (f lockFacts) acquiresWithin(typ, m string, fuel int) bool {
	if fuel == 0 {
		return true
	}
	M := f.method(typ, m)
	if M == nil {
		return false
	}
	if M.Acquires {
		return true
	}
	for _, c := range append(append([]string{}, M.CallsHeld...), M.CallsFree...) {
		if f.acquiresWithin(typ, c, fuel-1) {
			return true
		}
	}
	return false
}

// relockPairs: (method, callee) with the callee reached while the lock is held and locking again.
func (f lockFacts) relockPairs(typ string) [][2]string {
	var out [][2]string
	for _, M := range f[typ] {
		for _, c := range M.CallsHeld {
			if f.acquiresWithin(typ, c, len(f[typ])+1) {
				out = append(out, [2]string{M.Name, c})
			}
		}
	}
	return out
}

// suspicious: exported methods that read shared fields or call own methods before / without taking
// the lock, or take it in more than one critical section (what `point_ops_atomic_T` judges).
func (f lockFacts) suspicious(typ string) map[string]string {
	out := map[string]string{}
	for _, M := range f[typ] {
		if !M.Exported {
			continue
		}
		switch {
		case M.Acquires && (!M.LockFirst || M.Irregular):
			out[M.Name] = "does not lock first thing"
		case len(M.AccFree) > 0:
			out[M.Name] = fmt.Sprintf("touches %v without the lock", M.AccFree)
		case !M.Acquires && len(M.CallsFree) > 1:
			out[M.Name] = fmt.Sprintf("composed of several critical sections %v", M.CallsFree)
		}
	}
	return out
}

// ---------------------------------------------------------------- prepared states

type prepState struct {
	name    string
	build   func(obj interface{}) bool // false: this type cannot be brought into that state
	present []int                      // seeds of keys / elements the state contains (nil: none)
}

// keys of the growth states start here: large enough that a key's bucket differs between the table
// sizes before and after a growth (small integer keys hash to the same index in 101 and 203 buckets)
const growthBase = 1000

const oldKeySeed = 1 // a key / element every non-empty prepared state contains

// newKeyFor: a key / element that no prepared state of the type contains (small for the queues,
// whose int parameters are also timeouts and capacities)
func newKeyFor(typ string) int {
	if typ == "RequestQueue" || typ == "RequestDoubleQueue" {
		return 40
	}
	return 100003
}

func callByName(obj interface{}, name string, k int) bool {
	m := reflect.ValueOf(obj).MethodByName(name)
	if !m.IsValid() {
		return false
	}
	args, ok := buildArgs(obj, m.Type(), k, nil)
	if !ok {
		return false
	}
	o := vh.GuardTimeout(hangLimit, func() { m.Call(args) })
	return o.OK()
}

func insertName(obj interface{}) string {
	for _, n := range []string{"Put", "AddLast", "Put1"} {
		if reflect.ValueOf(obj).MethodByName(n).IsValid() {
			return n
		}
	}
	return ""
}

func insertN(obj interface{}, from, n int) bool {
	name := insertName(obj)
	if name == "" {
		return false
	}
	for k := from; k < from+n; k++ {
		if !callByName(obj, name, k) {
			return false
		}
	}
	return true
}

// tableLen reads len(obj.table) (unexported) — the bucket array of the hash maps.
func tableLen(obj interface{}) int {
	f := reflect.ValueOf(obj).Elem().FieldByName("table")
	if !f.IsValid() || f.Kind() != reflect.Slice {
		return -1
	}
	return f.Len()
}

// growthPoint: the number of entries after which the next insertion of a new key grows the table.
func growthPoint(mk func() interface{}) int {
	obj := mk()
	l0 := tableLen(obj)
	if l0 < 0 {
		return -1
	}
	for n := 1; n <= 400; n++ {
		if !insertN(obj, 1000+n, 1) {
			return -1
		}
		if tableLen(obj) != l0 {
			return n - 1
		}
	}
	return -1
}

func boundName(obj interface{}) string {
	for _, n := range []string{"SetMax", "SetCapacity"} {
		if reflect.ValueOf(obj).MethodByName(n).IsValid() {
			return n
		}
	}
	return ""
}

func preparedStates(c ctor) []prepState {
	st := []prepState{
		{"empty", func(o interface{}) bool { return true }, nil},
		{"one element", func(o interface{}) bool { return insertN(o, 1, 1) }, []int{1}},
		{"three elements", func(o interface{}) bool { return insertN(o, 1, 3) }, []int{1, 3}},
	}
	if boundName(c.mk()) != "" {
		for _, m := range []int{1, 2, 3} {
			m := m
			st = append(st, prepState{fmt.Sprintf("bounded at %d and full", m), func(o interface{}) bool {
				return callByName(o, boundName(o), m) && insertN(o, 1, m)
			}, []int{1}})
		}
		st = append(st, prepState{"bounded at 2, one free slot", func(o interface{}) bool {
			return callByName(o, boundName(o), 2) && insertN(o, 1, 1)
		}, []int{1}})
	}
	if g := growthPoint(c.mk); g > 0 {
		st = append(st,
			prepState{fmt.Sprintf("%d entries: the next new key grows the table", g), func(o interface{}) bool { return insertN(o, growthBase, g) },
				[]int{growthBase, growthBase + g/2, growthBase + g - 1}},
			prepState{fmt.Sprintf("%d entries: the table has just grown", g+1), func(o interface{}) bool { return insertN(o, growthBase, g+1) },
				[]int{growthBase, growthBase + g/2}})
	}
	return st
}

// ---------------------------------------------------------------- the sweep

type sweepRes struct {
	typ, m, state string
	key           int
	empty         bool
	out           vh.Outcome
	after         vh.Outcome
	skipped       bool
}

func sweep(env *vh.Env, rep *vh.Report, only map[string]bool, facts lockFacts) {
	watchdog := hangLimit
	var mu sync.Mutex
	var res []sweepRes
	var wg sync.WaitGroup
	sem := make(chan struct{}, 48)
	hung := map[string]bool{} // (type.method) that already hung: do not pile up more leaked goroutines
	for _, c := range ctors {
		names := methodNames(c.mk())
		states := preparedStates(c)
		for _, m := range names {
			if only != nil && !only[c.name+"."+m] {
				continue
			}
			for _, st := range states {
				old := oldKeySeed
				if len(st.present) > 0 {
					old = st.present[0]
				}
				for _, key := range []int{old, newKeyFor(c.name)} {
					empty := st.name == "empty"
					if blocksByDesign(c.name, m, empty) {
						continue
					}
					wg.Add(1)
					sem <- struct{}{}
					go func(c ctor, m string, st prepState, key int, empty bool) {
						defer wg.Done()
						defer func() { <-sem }()
						mu.Lock()
						skip := hung[c.name+"."+m+"/"+st.name]
						mu.Unlock()
						if skip {
							return
						}
						obj := c.mk()
						r := sweepRes{typ: c.name, m: m, state: st.name, key: key, empty: empty}
						if !st.build(obj) {
							return // the state itself is not reachable for this type (its own finding elsewhere)
						}
						meth := reflect.ValueOf(obj).MethodByName(m)
						args, ok := buildArgs(obj, meth.Type(), key, c.mk)
						if !ok {
							r.skipped = true
						} else {
							at("sweep %s.%s in state '%s' with argument seed %d", c.name, m, st.name, key)
							r.out = vh.GuardTimeout(watchdog, func() { meth.Call(args) })
							if !r.out.Timeout {
								sz := reflect.ValueOf(obj).MethodByName("Size")
								r.after = vh.GuardTimeout(watchdog, func() { sz.Call(nil) })
							}
						}
						mu.Lock()
						if r.out.Timeout {
							hung[c.name+"."+m+"/"+st.name] = true
						}
						res = append(res, r)
						mu.Unlock()
					}(c, m, st, key, empty)
				}
			}
		}
	}
	wg.Wait()
	sort.Slice(res, func(i, j int) bool {
		a, b := res[i], res[j]
		if a.typ != b.typ {
			return a.typ < b.typ
		}
		if a.m != b.m {
			return a.m < b.m
		}
		if a.state != b.state {
			return a.state < b.state
		}
		return a.key < b.key
	})
	unreach := map[string]bool{}
	reached := map[string]bool{}
	for _, r := range res {
		tm := r.typ + "." + r.m
		if r.skipped {
			unreach[tm] = true
			continue
		}
		reached[tm] = true
		keyTxt := "existing key"
		if r.key == newKeyFor(r.typ) {
			keyTxt = "new key"
		}
		canonText := fmt.Sprintf("sweep %s %s / %s", tm, r.state, keyTxt)
		rep.Case(canonText, true)
		rep.Count("sweep:" + r.out.String())
		rep.Count("sweep-state:" + stateClass(r.state))
		replay := map[string]interface{}{"type": r.typ, "method": r.m, "state": r.state, "argument_seed": r.key,
			"how": fmt.Sprintf("construct the type, bring it into the state '%s' (keys 1..n), call %s with %s (seed %d) once under a 2 s watchdog", r.state, r.m, keyTxt, r.key)}
		switch {
		case r.out.Timeout:
			if isPointOp(r.typ, r.m) {
				markDead(r.typ)
			}
			rep.Fail("property", tm+":deadlock",
				fmt.Sprintf("%s with a %s in state '%s' did not return within %v: it blocks on the instance's own lock", tm, keyTxt, r.state, watchdog), replay)
		case r.out.Panic != "" && !r.empty:
			replay["panic"] = vh.Clip(r.out.Panic, 200)
			rep.Fail("property", tm+":panic",
				fmt.Sprintf("%s with a %s in state '%s' panics: %s", tm, keyTxt, r.state, vh.Clip(r.out.Panic, 120)), replay)
		}
		if !r.out.Timeout && !r.after.OK() {
			rep.Fail("property", tm+":lock-left-held",
				fmt.Sprintf("after %s (%s, state '%s') the instance no longer answers Size(): %s", tm, r.out, r.state, r.after), replay)
		}
	}
	for tm := range unreach {
		if reached[tm] {
			continue
		}
		rep.Count("sweep:skipped-unbuildable-args")
		if tm == "LinkedList.GetNext" || tm == "LinkedList.Remove" || tm == "LinkedList.PutBefore" {
			if reached[tm] {
				continue
			}
		}
		rep.Fail("correspondence", tm+":unreachable", "the harness cannot build arguments for this method in any prepared state; extend harness/c10/reflectutil.go", tm)
	}
	rep.Sample(map[string]interface{}{"sweep": "every exported method found by reflection × prepared states × existing/new key", "calls": len(res)})

	directedDeadlockSearch(env, rep, facts, only)
}

func stateClass(s string) string {
	switch {
	case len(s) >= 7 && s[:7] == "bounded":
		return "bounded"
	case len(s) > 0 && s[0] >= '0' && s[0] <= '9':
		return "growth-threshold"
	}
	return s
}

// ---------------------------------------------------------------- search directed by tie A

// directedDeadlockSearch: for every type in which tie A finds a (method → callee) lock re-entry,
// look for a state and arguments that reach the call site: random short set-up sequences over the
// type's own public methods (bounds included), then a random public method, under a watchdog.
func directedDeadlockSearch(env *vh.Env, rep *vh.Report, facts lockFacts, only map[string]bool) {
	if facts == nil || only != nil {
		return
	}
	rng := vh.NewRng(env.Seed ^ 0xdead10c)
	for _, c := range ctors {
		pairs := facts.relockPairs(c.name)
		if len(pairs) == 0 {
			continue
		}
		rep.Count("directed-deadlock-search:types")
		names := methodNames(c.mk())
		trials := 400
		if env.Thorough {
			trials = 4000
		}
		found := map[string]bool{}
		for t := 0; t < trials && len(found) < 3 && !(t >= 200 && phaseOver()); t++ {
			obj := c.mk()
			var setup []string
			ok := true
			for i, n := 0, rng.Intn(7); i < n && ok; i++ {
				m := rng.PickStr(names)
				if blocksByDesign(c.name, m, true) || m == "GetTimeout" || m == "Sort" {
					continue
				}
				k := rng.PickInt([]int{1, 1, 2, 3, newKeyFor(c.name)})
				setup = append(setup, fmt.Sprintf("%s(seed %d)", m, k))
				meth := reflect.ValueOf(obj).MethodByName(m)
				args, okA := buildArgs(obj, meth.Type(), k, c.mk)
				if !okA {
					continue
				}
				if o := vh.GuardTimeout(hangLimit, func() { meth.Call(args) }); o.Timeout {
					ok = false // the set-up itself hung: that call is the finding
					key := c.name + "." + m + ":deadlock"
					if !found[key] {
						found[key] = true
						rep.Fail("property", key, fmt.Sprintf("%s.%s hangs on the instance's own lock after %v (tie A: %v)", c.name, m, setup[:len(setup)-1], pairs),
							map[string]interface{}{"type": c.name, "method": m, "setup": setup, "tie_A_pairs": pairs})
					}
				}
			}
			rep.Case(fmt.Sprintf("directed %s %v", c.name, setup), true)
		}
		if len(found) == 0 {
			rep.Note("tie A reports lock re-entry in %s %v; %d random set-ups did not reach it", c.name, pairs, trials)
		}
	}
}
