package main

// Probes added after the fourth batch of seeded changes: aliasing of returned slices, callbacks that
// interact with the queue while an operation is in flight.

import (
	"fmt"
	"reflect"
	"strings"
	"sync"
	"sync/atomic"
	"time"

	"github.com/whatap/golib/util/queue"
	"verif/harness/vh"
)

// ---------------------------------------------------------------- results must not alias internal state

// resultAliasing: for every exported method of every collection that returns a slice (KeyArray,
// ValueArray, ToArray, GetArray …): keep the result r1 and a deep copy of it, mutate the container and
// call the method again (r2): r1 must be unchanged and r2 must be what a fresh instance taken through the
// same operations returns; then overwrite the elements of r1 and r2: the container (a third call, Size,
// Contains) must be unaffected.  A result backed by a per-object scratch buffer, or by the structure's
// own array, fails one of the two.
func resultAliasing(env *vh.Env, rep *vh.Report) {
	for _, c := range ctors {
		if isDead(c.name) {
			continue
		}
		probe := c.mk()
		t := reflect.TypeOf(probe)
		ins := insertName(probe)
		if ins == "" {
			continue
		}
		for i := 0; i < t.NumMethod(); i++ {
			m := t.Method(i)
			if m.Type.NumOut() != 1 || m.Type.Out(0).Kind() != reflect.Slice {
				continue
			}
			rep.Count("result-aliasing:methods")
			for _, n := range []int{1, 3, 6} {
				at("result-aliasing %s.%s with %d elements", c.name, m.Name, n)
				build := func(extra bool) (interface{}, reflect.Value, []reflect.Value, bool) {
					o := c.mk()
					insertN(o, 1, n)
					if extra {
						mutateForAliasing(o, n)
					}
					meth := reflect.ValueOf(o).MethodByName(m.Name)
					args, ok := buildArgs(o, meth.Type(), 1, c.mk)
					return o, meth, args, ok
				}
				obj, meth, args, ok := build(false)
				if !ok {
					break
				}
				var r1, r2, r3 reflect.Value
				bad := ""
				o := vh.GuardTimeout(hangLimit, func() {
					r1 = meth.Call(args)[0]
					c1 := canon1(r1)
					mutateForAliasing(obj, n)
					r2 = meth.Call(args)[0]
					if got := canon1(r1); got != c1 {
						bad = fmt.Sprintf("the slice returned by the first call changed from %s to %s when the container was mutated and %s was called again", c1, got, m.Name)
						return
					}
					// oracle: a fresh instance taken through the same operations, one call
					_, om, oargs, _ := build(true)
					want := canon1(om.Call(oargs)[0])
					c2 := canon1(r2)
					if c2 != want {
						bad = fmt.Sprintf("second result %s, a fresh instance in the same state returns %s", c2, want)
						return
					}
					// writing into the results must not reach the container
					scribble(r1)
					scribble(r2)
					r3 = meth.Call(args)[0]
					if got := canon1(r3); got != want {
						bad = fmt.Sprintf("after overwriting the elements of the returned slices, %s returns %s instead of %s: the result shares memory with the container", m.Name, got, want)
					}
				})
				rep.Case(fmt.Sprintf("result-aliasing %s.%s n=%d", c.name, m.Name, n), true)
				if !o.OK() {
					continue // panics / hangs of the method itself are the sweep's business
				}
				if bad != "" {
					rep.Fail("property", c.name+"."+m.Name+":result-aliased", fmt.Sprintf("%s.%s (%d elements): %s", c.name, m.Name, n, bad),
						map[string]interface{}{"type": c.name, "method": m.Name, "elements": n,
							"how": "insert n elements; r1 := M(); copy r1; insert one more and remove one; r2 := M(); compare r1 with its copy and r2 with a fresh instance; overwrite r1, r2; call M() again"})
					break
				}
			}
		}
	}
}

// mutateForAliasing: one insertion of a new element and one removal (whatever the type offers)
func mutateForAliasing(obj interface{}, n int) {
	insertN(obj, 50+n, 1)
	for _, name := range []string{"RemoveFirst", "GetNoWait"} {
		if m := reflect.ValueOf(obj).MethodByName(name); m.IsValid() && m.Type().NumIn() == 0 {
			vh.Guard(func() { m.Call(nil) })
			return
		}
	}
	callByName(obj, "Remove", 1)
}

// scribble overwrites every element of a slice with (a copy of) its last element / the zero value
func scribble(s reflect.Value) {
	if s.Kind() != reflect.Slice || s.Len() == 0 {
		return
	}
	vh.Guard(func() {
		z := reflect.Zero(s.Type().Elem())
		for i := 0; i < s.Len(); i++ {
			if s.Index(i).CanSet() {
				s.Index(i).Set(z)
			}
		}
	})
}

// ---------------------------------------------------------------- callbacks while an operation is in flight

// callbackReentrancy: the queue is full; PutForce evicts and calls Overflowed (Put on a full queue calls
// Failed).  The callback lets *another goroutine* operate on the same queue (Size, Put, PutForce,
// GetNoWait, Clear, SetCapacity) and waits up to 120 ms for it, or simply blocks for a while (a slow
// callback) while other goroutines operate.  (A callback that calls the queue from its own goroutine
// self-deadlocks on the code as it stands — callbacks run under the queue's lock; that is recorded in the
// notes, not probed.)  Required: the outer operation returns (watchdog); the inner operation does not
// take effect in the middle of the outer one (it completes only after the outer returned — atomicity);
// the capacity is respected at quiescence; eviction reports the oldest elements, in order, once each.
func callbackReentrancy(env *vh.Env, rep *vh.Report) {
	reps := 2
	if env.Thorough {
		reps = 10
	}
	inner := []string{"Size", "Put", "PutForce", "GetNoWait", "Clear", "SetCapacity", "SetCapacity0", "SetCapacity-1", "SetCapacity1", "none(slow callback)"}
	for _, dbl := range []bool{false, true} {
		name := "RequestQueue"
		if dbl {
			name = "RequestDoubleQueue"
		}
		if isDead(name) {
			continue
		}
		for _, outer := range []string{"PutForce", "Put"} {
			for _, in := range inner {
				for _, capacity := range []int{1, 3} {
					for r := 0; r < reps && !phaseOver(); r++ {
						at("callback %s: queue full at capacity %d, %s(1000) whose callback lets another goroutine call %s", name, capacity, outer, in)
						var q *queue.RequestQueue
						var d *queue.RequestDoubleQueue
						var evicted []int
						var once sync.Once
						var innerDoneInFlight int32
						innerDone := make(chan struct{})
						op := func() {
							switch in {
							case "Size":
								if q != nil {
									q.Size()
								} else {
									d.Size()
								}
							case "Put":
								if q != nil {
									q.Put(7001)
								} else {
									d.Put1(7001)
								}
							case "PutForce":
								if q != nil {
									q.PutForce(7002)
								} else {
									d.PutForce1(7002)
								}
							case "GetNoWait":
								if q != nil {
									q.GetNoWait()
								} else {
									d.GetNoWait()
								}
							case "Clear":
								if q != nil {
									q.Clear()
								} else {
									d.Clear()
								}
							case "SetCapacity", "SetCapacity0", "SetCapacity-1", "SetCapacity1":
								nc := map[string]int{"SetCapacity": capacity, "SetCapacity0": 0, "SetCapacity-1": -1, "SetCapacity1": 1}[in]
								if q != nil {
									q.SetCapacity(nc)
								} else {
									d.SetCapacity(nc, nc)
								}
							}
						}
						cb := func(v interface{}) {
							if x, ok := v.(int); ok && outer == "PutForce" {
								evicted = append(evicted, x)
							}
							once.Do(func() {
								if strings.HasPrefix(in, "none") {
									time.Sleep(20 * time.Millisecond)
									close(innerDone)
									return
								}
								go func() {
									op()
									close(innerDone)
								}()
								select {
								case <-innerDone:
									// exact: the callback — hence the outer operation — is still running
									atomic.StoreInt32(&innerDoneInFlight, 1)
								case <-time.After(120 * time.Millisecond):
								}
							})
						}
						var put, putForce func(interface{}) bool
						var size func() int
						if dbl {
							d = queue.NewRequestDoubleQueue(capacity, capacity)
							if !setUnexportedCallbacks(d, cb) {
								continue
							}
							put, putForce, size = d.Put1, d.PutForce1, d.Size1
						} else {
							q = queue.NewRequestQueue(capacity)
							q.Overflowed, q.Failed = cb, cb
							put, putForce, size = q.Put, q.PutForce, q.Size
						}
						for i := 1; i <= capacity; i++ {
							put(i)
						}
						out := vh.GuardTimeout(hangLimit, func() {
							if outer == "PutForce" {
								putForce(1000)
							} else {
								put(1000)
							}
						})
						rep.Case(fmt.Sprintf("callback %s %s/%s cap=%d", name, outer, in, capacity), true)
						rep.Count("callbacks:runs")
						replay := map[string]interface{}{"type": name, "outer": outer, "inner_from_another_goroutine": in, "capacity": capacity,
							"how": "fill the queue to capacity; install a callback that starts a goroutine performing the inner operation and waits ≤120 ms for it; call the outer operation under a 4 s watchdog; then wait for the inner operation and read Size()"}
						if !out.OK() {
							rep.Fail("property", name+"."+outer+":blocks-forever", fmt.Sprintf("%s.%s(1000) on a full queue, callback waiting for a concurrent %s: %s", name, outer, in, out), replay)
							markDead(name)
							return
						}
						select {
						case <-innerDone:
						case <-time.After(hangLimit):
							rep.Fail("property", name+"."+in+":blocks-forever", fmt.Sprintf("%s.%s started from a %s callback never returned after the %s had finished", name, in, outer, outer), replay)
							markDead(name)
							return
						}
						sz := -1
						vh.GuardTimeout(hangLimit, func() { sz = size() })
						replay["size_after"], replay["evicted"] = sz, evicted
						mutatingInner := in == "Put" || in == "PutForce" || in == "GetNoWait" || in == "Clear"
						switch {
						case atomic.LoadInt32(&innerDoneInFlight) == 1 && mutatingInner:
							rep.Fail("property", name+"."+outer+":not-atomic",
								fmt.Sprintf("%s capacity %d: a %s by another goroutine took effect in the middle of %s (while its callback was running): %s is not atomic", name, capacity, in, outer, outer), replay)
							return
						case sz > capacity && !strings.HasPrefix(in, "SetCapacity"):
							rep.Fail("property", name+"."+outer+":bounded", fmt.Sprintf("%s capacity %d: Size() = %d after %s with a concurrent %s from its callback", name, capacity, sz, outer, in), replay)
							return
						case outer == "PutForce" && len(evicted) > 0 && evicted[0] != 1:
							rep.Fail("property", name+".PutForce:eviction", fmt.Sprintf("%s: the first evicted element reported is %d, the oldest was 1", name, evicted[0]), replay)
							return
						}
					}
				}
			}
		}
	}
}

// setUnexportedCallbacks installs cb as all four callbacks of a double queue (unexported fields)
func setUnexportedCallbacks(d *queue.RequestDoubleQueue, cb func(interface{})) bool {
	ok := true
	for _, f := range []string{"failed1", "failed2", "overflowed1", "overflowed2"} {
		v := reflect.ValueOf(d).Elem().FieldByName(f)
		if !v.IsValid() || v.Type() != reflect.TypeOf(cb) {
			ok = false
			continue
		}
		reflect.NewAt(v.Type(), unsafePointer(v)).Elem().Set(reflect.ValueOf(cb))
	}
	return ok
}
