package main

// Traversals against mutators, made deterministic with element hooks.
//
// Elements (interface{} values, LinkedKey keys) are given a String() method that, when the container
// formats the chosen element in the middle of a traversal (ToString, ToFormatString …), lets another
// goroutine perform a mutator (RemoveFirst, RemoveLast, Remove, Clear, Sort, an insertion) on the same
// container and waits up to 60 ms for it.  A traversal that holds the lock makes the mutator wait — the
// result is the state before; one that walks outside the lock sees the mutation happen mid-walk.
// Required of every traversing method of every container type, against every mutator:
//   * it returns (watchdog) and does not panic (a runtime fatal kills only the worker and is reported);
//   * it yields at most Size()+2 elements (no endless enumeration);
//   * if tie A says the method holds the lock for its whole body, the result is the text of the state
//     before or after the mutator (a linearizable snapshot) — computed on fresh instances with inert hooks.
// Enumerations handed out (Keys / Values / Entries) are drained with a bound while the container is
// cleared / sorted / shrunk between two steps: the drain must end within Size()+3 steps.

import (
	"container/list"
	"fmt"
	"reflect"
	"regexp"
	"strconv"
	"strings"
	"sync"
	"sync/atomic"
	"time"

	"github.com/whatap/golib/util/hmap"
	"verif/harness/vh"
)

var (
	vRe = regexp.MustCompile(`v[0-9]+`)
	kRe = regexp.MustCompile(`k[0-9]+`)
)

type hooker struct {
	trigger int
	once    sync.Once
	action  func()
	fired   int32
}

func (h *hooker) fire(id int) {
	if h == nil || h.action == nil || id != h.trigger {
		return
	}
	h.once.Do(func() {
		atomic.StoreInt32(&h.fired, 1)
		done := make(chan struct{})
		go func() {
			defer close(done)
			vh.Guard(h.action)
		}()
		select {
		case <-done:
		case <-time.After(60 * time.Millisecond):
		}
	})
}

type hookVal struct {
	id int
	h  *hooker
}

func (v hookVal) String() string { v.h.fire(v.id); return "v" + strconv.Itoa(v.id) }

type hookKey struct {
	id int
	h  *hooker
}

func (k hookKey) Hash() uint { return uint(k.id) * 7 }
func (k hookKey) Equals(o hmap.LinkedKey) bool {
	x, ok := o.(hookKey)
	return ok && x.id == k.id
}
func (k hookKey) String() string { k.h.fire(k.id); return "k" + strconv.Itoa(k.id) }

// hookArgs builds (key, value) arguments in which every interface{} value is a hookVal and every
// LinkedKey a hookKey; ok=false if the method takes neither (no hook can be planted)
func hookArgs(mt reflect.Type, k int, h *hooker) (args []reflect.Value, hooked, ok bool) {
	for i := 0; i < mt.NumIn(); i++ {
		pt := mt.In(i)
		switch {
		case pt == tLinkedKey:
			args = append(args, reflect.ValueOf(hookKey{k, h}))
			hooked = true
		case pt.Kind() == reflect.Interface && pt.NumMethod() == 0:
			args = append(args, reflect.ValueOf(hookVal{k, h}))
			hooked = true
		default:
			v, okv := keyVal(pt, k)
			if !okv {
				return nil, false, false
			}
			args = append(args, v)
		}
	}
	return args, hooked, true
}

// hookInstance: a fresh instance with n hooked elements 1..n; nil if the type takes no hookable element
func hookInstance(c ctor, n int, h *hooker) interface{} {
	obj := c.mk()
	name := insertName(obj)
	if name == "" {
		return nil
	}
	m := reflect.ValueOf(obj).MethodByName(name)
	any := false
	for k := 1; k <= n; k++ {
		args, hooked, ok := hookArgs(m.Type(), k, h)
		if !ok {
			return nil
		}
		any = any || hooked
		if o := vh.GuardTimeout(hangLimit, func() { m.Call(args) }); !o.OK() {
			return nil
		}
	}
	if !any {
		return nil
	}
	return obj
}

type mutation struct {
	name string
	do   func(obj interface{})
}

func mutationsFor(c ctor) []mutation {
	probe := c.mk()
	var ms []mutation
	add := func(name string, seed int) {
		m := reflect.ValueOf(probe).MethodByName(name)
		if !m.IsValid() {
			return
		}
		ms = append(ms, mutation{fmt.Sprintf("%s(seed %d)", name, seed), func(obj interface{}) {
			mm := reflect.ValueOf(obj).MethodByName(name)
			var args []reflect.Value
			if name == insertName(obj) {
				a, _, ok := hookArgs(mm.Type(), seed, nil)
				if !ok {
					return
				}
				args = a
			} else {
				mt := mm.Type()
				for i := 0; i < mt.NumIn(); i++ {
					pt := mt.In(i)
					switch {
					case pt == tLinkedKey:
						args = append(args, reflect.ValueOf(hookKey{seed, nil}))
					case pt.Kind() == reflect.Func:
						args = append(args, lessFunc(pt))
					default:
						v, ok := keyVal(pt, seed)
						if !ok {
							return
						}
						args = append(args, v)
					}
				}
			}
			mm.Call(args)
		}})
	}
	add("RemoveFirst", 0)
	add("RemoveLast", 0)
	add("Clear", 0)
	if c.name != "LinkedList" {
		add("Remove", 3)
		add("Remove", 4)
	}
	add("Sort", 0)
	add(insertName(probe), 77)
	add("GetNoWait", 0)
	return ms
}

// resultText renders what a traversing method returned; count = number of elements it yielded (−1 unknown)
func resultText(v reflect.Value, bound int) (text string, count int, why string) {
	if !v.IsValid() {
		return "", 0, ""
	}
	if v.Kind() == reflect.Interface && !v.IsNil() {
		v = v.Elem()
	}
	switch {
	case v.Kind() == reflect.String:
		s := v.String()
		return s, max(len(vRe.FindAllString(s, -1)), len(kRe.FindAllString(s, -1))), ""
	case v.Kind() == reflect.Slice:
		return canon1(v), v.Len(), ""
	case v.Kind() == reflect.Ptr && !v.IsNil():
		if l, ok := v.Interface().(*list.List); ok {
			var xs []string
			for e := l.Front(); e != nil && len(xs) <= bound; e = e.Next() {
				xs = append(xs, fmt.Sprint(e.Value))
			}
			return strings.Join(xs, " "), len(xs), ""
		}
		if has := v.MethodByName("HasMoreElements"); has.IsValid() {
			xs, w := drain(v, bound)
			return strings.Join(xs, " "), len(xs), w
		}
		if ka := v.MethodByName("KeyArray"); ka.IsValid() && ka.Type().NumIn() == 0 {
			r := ka.Call(nil)[0]
			return canon1(r), r.Len(), ""
		}
	}
	return canon1(v), -1, ""
}

// drain walks an enumeration with a bound on the number of steps
func drain(en reflect.Value, bound int) (xs []string, why string) {
	has := en.MethodByName("HasMoreElements")
	var next reflect.Value
	for _, n := range []string{"NextInt", "NextLong", "NextString", "NextFloat", "NextElement"} {
		if next = en.MethodByName(n); next.IsValid() {
			break
		}
	}
	if !has.IsValid() || !next.IsValid() {
		return nil, ""
	}
	for has.Call(nil)[0].Bool() {
		if len(xs) >= bound {
			return xs, fmt.Sprintf("the enumeration yielded more than %d elements", bound)
		}
		xs = append(xs, canon1(next.Call(nil)[0]))
	}
	return xs, ""
}

func isMutatorName(m string) bool {
	for _, p := range []string{"Put", "Add", "Remove", "Clear", "Sort", "Set", "GetLRU", "GetNoWait", "GetTimeout", "Get", "Unipoint", "ToObject"} {
		if strings.HasPrefix(m, p) && !(p == "Get" && (m == "GetKeySet" || m == "GetArray")) {
			return true
		}
	}
	return false
}

func traversalHooks(env *vh.Env, rep *vh.Report, facts lockFacts) {
	const n = 4
	for _, c := range ctors {
		if isDead(c.name) || hookInstance(c, n, nil) == nil {
			continue
		}
		rep.Count("traversal:types-with-hookable-elements")
		muts := mutationsFor(c)
		for _, m := range methodNames(c.mk()) {
			if isMutatorName(m) || isDead(c.name) {
				continue
			}
			mt := reflect.ValueOf(c.mk()).MethodByName(m).Type()
			if mt.NumIn() != 0 || mt.NumOut() != 1 {
				continue
			}
			locked := false
			if fm := facts.method(c.name, m); facts != nil && fm != nil {
				locked = fm.Acquires && fm.LockFirst && !fm.Irregular && len(fm.AccFree) == 0 && len(fm.CallsFree) == 0
			}
			isEnum := false
			for _, mu := range muts {
				if phaseOver() || isDead(c.name) {
					break
				}
				for _, trigger := range []int{2, 4} {
					at("traversal %s.%s on %d hooked elements; while element %d is being formatted another goroutine calls %s", c.name, m, n, trigger, mu.name)
					h := &hooker{trigger: trigger}
					obj := hookInstance(c, n, h)
					h.action = func() { mu.do(obj) }
					meth := reflect.ValueOf(obj).MethodByName(m)
					var text, why string
					count := -1
					out := vh.GuardTimeout(hangLimit, func() {
						r := meth.Call(nil)[0]
						if r.Kind() == reflect.Interface && !r.IsNil() && r.Elem().MethodByName("HasMoreElements").IsValid() ||
							r.Kind() == reflect.Ptr && !r.IsNil() && r.MethodByName("HasMoreElements").IsValid() {
							isEnum = true
							return // enumerations handed out are drained below, with mutation between steps
						}
						text, count, why = resultText(r, n+2)
					})
					if isEnum {
						break
					}
					rep.Case(fmt.Sprintf("traversal %s.%s vs %s trigger=%d", c.name, m, mu.name, trigger), atomic.LoadInt32(&h.fired) == 1)
					rep.Count("traversal:runs")
					if atomic.LoadInt32(&h.fired) == 1 {
						rep.Count("traversal:hook-fired-mid-call")
					}
					replay := map[string]interface{}{"type": c.name, "method": m, "mutator": mu.name, "hook_on_element": trigger, "result": text,
						"how": fmt.Sprintf("insert %d elements whose String() — when element %d is formatted — starts a goroutine calling %s and waits ≤60 ms for it; call %s under a 3 s watchdog", n, trigger, mu.name, m)}
					switch {
					case out.Timeout:
						rep.Fail("property", c.name+"."+m+":blocks-forever", fmt.Sprintf("%s.%s never returns when %s happens while it is traversing", c.name, m, mu.name), replay)
						markDead(c.name)
					case out.Panic != "":
						replay["panic"] = vh.Clip(out.Panic, 200)
						rep.Fail("property", c.name+"."+m+":panic-under-concurrency", fmt.Sprintf("%s.%s panics when %s happens while it is traversing: %s", c.name, m, mu.name, vh.Clip(out.Panic, 100)), replay)
					case why != "" || count > n+2:
						rep.Fail("property", c.name+"."+m+":enumeration-does-not-end", fmt.Sprintf("%s.%s yielded %d elements of a container that never held more than %d (%s)", c.name, m, count, n+1, why), replay)
					case locked && atomic.LoadInt32(&h.fired) == 1:
						before, after := oracleTexts(c, n, m, mu)
						if text != before && text != after {
							replay["before"], replay["after"] = before, after
							rep.Fail("property", c.name+"."+m+":not-linearizable",
								fmt.Sprintf("%s.%s (holds the lock for its whole body per tie A) returned %q while %s ran; the states before / after give %q / %q", c.name, m, text, mu.name, before, after), replay)
						}
					case atomic.LoadInt32(&h.fired) == 1:
						before, after := oracleTexts(c, n, m, mu)
						if text != before && text != after {
							rep.Count("traversal:torn-result-of-unlocked-traversal (noted, outside the quantifier)")
						}
					}
					if out.Timeout {
						break
					}
				}
			}
			if isEnum {
				enumerationDrain(rep, c, m, n, muts)
			}
		}
	}
}

// oracleTexts: what M returns on the state before and after the mutator, on fresh instances with inert hooks
func oracleTexts(c ctor, n int, m string, mu mutation) (before, after string) {
	o1 := hookInstance(c, n, nil)
	vh.GuardTimeout(hangLimit, func() { before, _, _ = resultText(reflect.ValueOf(o1).MethodByName(m).Call(nil)[0], n+2) })
	o2 := hookInstance(c, n, nil)
	vh.GuardTimeout(hangLimit, func() {
		mu.do(o2)
		after, _, _ = resultText(reflect.ValueOf(o2).MethodByName(m).Call(nil)[0], n+2)
	})
	return
}

// enumerationDrain: obtain the enumeration, take one element, mutate the container, drain with a bound
func enumerationDrain(rep *vh.Report, c ctor, m string, n int, muts []mutation) {
	for _, mu := range muts {
		if isDead(c.name) {
			return
		}
		at("enumeration %s.%s: one step, then %s, then drain (bounded)", c.name, m, mu.name)
		obj := hookInstance(c, n, nil)
		var xs []string
		why := ""
		out := vh.GuardTimeout(hangLimit, func() {
			en := reflect.ValueOf(obj).MethodByName(m).Call(nil)[0]
			if en.Kind() == reflect.Interface {
				en = en.Elem()
			}
			first, _ := drainSteps(en, 1)
			mu.do(obj)
			rest, w := drain(en, n+3)
			xs, why = append(first, rest...), w
		})
		rep.Case(fmt.Sprintf("enumeration %s.%s vs %s", c.name, m, mu.name), true)
		rep.Count("traversal:enumeration-drains")
		replay := map[string]interface{}{"type": c.name, "method": m, "mutator": mu.name, "yielded": xs,
			"how": fmt.Sprintf("insert %d elements; en := %s(); one step; %s; drain en with a bound of %d steps", n, m, mu.name, n+3)}
		switch {
		case out.Timeout:
			rep.Fail("property", c.name+"."+m+":enumeration-does-not-end", fmt.Sprintf("an enumeration obtained from %s.%s before %s never ends", c.name, m, mu.name), replay)
			markDead(c.name)
			return
		case why != "":
			rep.Fail("property", c.name+"."+m+":enumeration-does-not-end", fmt.Sprintf("an enumeration obtained from %s.%s before %s: %s (container of %d)", c.name, m, mu.name, why, n), replay)
			return
		case out.Panic != "" && !strings.Contains(out.Panic, "no more next"):
			replay["panic"] = vh.Clip(out.Panic, 200)
			rep.Fail("property", c.name+"."+m+":panic-under-concurrency", fmt.Sprintf("draining an enumeration of %s.%s after %s panics: %s", c.name, m, mu.name, vh.Clip(out.Panic, 100)), replay)
			return
		}
	}
}

func drainSteps(en reflect.Value, k int) ([]string, string) {
	has := en.MethodByName("HasMoreElements")
	var next reflect.Value
	for _, n := range []string{"NextInt", "NextLong", "NextString", "NextFloat", "NextElement"} {
		if next = en.MethodByName(n); next.IsValid() {
			break
		}
	}
	var xs []string
	for i := 0; i < k && has.IsValid() && next.IsValid() && has.Call(nil)[0].Bool(); i++ {
		xs = append(xs, canon1(next.Call(nil)[0]))
	}
	return xs, ""
}
