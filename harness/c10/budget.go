package main

// Time budgets and child-process hygiene.
//
// Every phase of the harness has a fixed iteration count *and* a time budget: on a busy machine a phase
// that reaches its budget ends gracefully (the remaining iterations are skipped and the fact is written
// into the report's notes — reduced coverage, not a failure).  Child processes (the -race child) run in
// their own process group, get a deadline of their own (`-deadline <unix>`: the child exits by itself),
// are killed as a group on timeout and when the parent exits for any reason (Pdeathsig, deferred kill,
// signal handler).

import (
	"flag"
	"fmt"
	"os"
	"os/exec"
	"os/signal"
	"runtime"
	"sync"
	"syscall"
	"time"

	"verif/harness/vh"
)

// hangLimit: how long an operation may take before the harness calls it a hang.  It only bounds hangs —
// no verdict depends on something happening *within* a short time: on a busy machine a correct operation
// may be descheduled for seconds.  (A real hang costs this long once; the type is then marked dead.)
const hangLimit = 25 * time.Second

var childDeadline = flag.Int64("deadline", 0, "internal: unix time at which a child process must exit")

type phaseBudget struct {
	name string
	end  time.Time
	cut  bool
	done int
}

var (
	budgetMu sync.Mutex
	curPhase *phaseBudget
)

// budgets per phase (quick / thorough), chosen so that the thorough tier ends within ~12 min even when
// every phase runs into its budget
var phaseBudgets = map[string][2]time.Duration{
	"sweep":            {40 * time.Second, 60 * time.Second},
	"queues":           {30 * time.Second, 45 * time.Second},
	"panic-safety":     {30 * time.Second, 45 * time.Second},
	"callbacks":        {25 * time.Second, 40 * time.Second},
	"result-aliasing":  {15 * time.Second, 20 * time.Second},
	"reentry-samekey":  {40 * time.Second, 80 * time.Second},
	"traversal-hooks":  {40 * time.Second, 70 * time.Second},
	"whole-mutators":   {45 * time.Second, 90 * time.Second},
	"sequential":       {40 * time.Second, 70 * time.Second},
	"lock-step":        {30 * time.Second, 60 * time.Second},
	"oracle-lock-step": {40 * time.Second, 120 * time.Second},
	"growth-removers":  {30 * time.Second, 60 * time.Second},
	"stress":           {60 * time.Second, 150 * time.Second},
	"race-pairs":       {60 * time.Second, 120 * time.Second},
}

func phaseBegin(env *vh.Env, name string) *phaseBudget {
	d := phaseBudgets[name][0]
	if env.Thorough {
		d = phaseBudgets[name][1]
	}
	p := &phaseBudget{name: name, end: time.Now().Add(d)}
	budgetMu.Lock()
	curPhase = p
	budgetMu.Unlock()
	return p
}

// over reports (and remembers) that the phase has used up its time budget
func (p *phaseBudget) over() bool {
	if p == nil {
		return false
	}
	if time.Now().After(p.end) {
		budgetMu.Lock()
		p.cut = true
		budgetMu.Unlock()
		return true
	}
	return false
}

func (p *phaseBudget) finish(rep *vh.Report) {
	budgetMu.Lock()
	cut := p.cut
	budgetMu.Unlock()
	if cut {
		repMu.Lock()
		rep.Note("phase %s reached its time budget and ended early: reduced coverage in this run (busy machine), not a failure", p.name)
		rep.Count("phase-cut-short:" + p.name)
		repMu.Unlock()
	}
}

func (p *phaseBudget) remaining() time.Duration {
	d := time.Until(p.end)
	if d < 5*time.Second {
		d = 5 * time.Second
	}
	return d
}

// ---------------------------------------------------------------- children

var (
	childMu  sync.Mutex
	children = map[int]bool{} // pgids of running children
)

func killChildren() {
	childMu.Lock()
	defer childMu.Unlock()
	for pg := range children {
		syscall.Kill(-pg, syscall.SIGKILL)
	}
}

func init() {
	// a parent that is interrupted / terminated takes its children with it
	ch := make(chan os.Signal, 1)
	signal.Notify(ch, syscall.SIGINT, syscall.SIGTERM, syscall.SIGHUP)
	go func() {
		<-ch
		killChildren()
		os.Exit(130)
	}()
}

// startChild runs cmd in its own process group with Pdeathsig, waits at most `limit`, and kills the
// whole group afterwards in every case.
func runChild2(cmd *exec.Cmd, limit time.Duration) error {
	// Pdeathsig is tied to the OS *thread* that forks: keep this goroutine on its thread until the child
	// is gone, otherwise the Go runtime may retire the thread and the child is killed prematurely
	runtime.LockOSThread()
	defer runtime.UnlockOSThread()
	cmd.SysProcAttr = &syscall.SysProcAttr{Setpgid: true, Pdeathsig: syscall.SIGKILL}
	if err := cmd.Start(); err != nil {
		return err
	}
	pg := cmd.Process.Pid
	childMu.Lock()
	children[pg] = true
	childMu.Unlock()
	defer func() {
		syscall.Kill(-pg, syscall.SIGKILL) // the group, also after a normal exit (stray grandchildren)
		childMu.Lock()
		delete(children, pg)
		childMu.Unlock()
	}()
	done := make(chan error, 1)
	go func() { done <- cmd.Wait() }()
	select {
	case err := <-done:
		return err
	case <-time.After(limit):
		syscall.Kill(-pg, syscall.SIGKILL)
		<-done
		return fmt.Errorf("child exceeded its limit of %v and was killed", limit)
	}
}

// childWatchdog (child side): exit by itself at the deadline handed down by the parent, and when the
// parent is gone (re-parented to init).
func childWatchdog() {
	ppid := os.Getppid()
	go func() {
		for {
			time.Sleep(2 * time.Second)
			if *childDeadline > 0 && time.Now().Unix() > *childDeadline+90 {
				fmt.Fprintln(os.Stderr, "##CHILD-DEADLINE")
				os.Exit(0)
			}
			if os.Getppid() != ppid {
				os.Exit(0)
			}
		}
	}()
}

// childOver (child side): the soft deadline — finish the current item, write the output, exit
func childOver() bool {
	return *childDeadline > 0 && time.Now().Unix() > *childDeadline
}

// phaseOver: has the phase that is currently running used up its budget?
func phaseOver() bool {
	budgetMu.Lock()
	p := curPhase
	budgetMu.Unlock()
	return p.over()
}

// inPhase runs one phase of the parent under its budget.
func inPhase(env *vh.Env, rep *vh.Report, name string, f func()) {
	ph := phaseBegin(env, name)
	f()
	ph.finish(rep)
}
