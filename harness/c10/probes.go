package main

// Deterministic and semi-deterministic probes added after the first round of seeded changes:
//
//   fifoRelease      puts a sync.Mutex into starvation mode before releasing it, so that the parked
//                    operations — and every later Lock() of theirs — get the lock in strict FIFO order:
//                    the critical sections of two operations interleave round-robin
//                    (A.sec1, B.sec1, A.sec2, B.sec2) without any timing luck.  An operation made of two
//                    critical sections, or one that read something before its Lock(), is exposed.
//   oracleLockstep   for every exported point operation M of every type (more repetitions for the
//                    ones tie A calls suspicious): park a conflicting operation X (growth-triggering
//                    insert, remover, M itself) and M behind the instance mutex in both orders, release
//                    FIFO, and compare returns + final observation with the sequential executions of
//                    the same calls in every order on a fresh instance of the same type (the
//                    implementation run single-threaded is the oracle, so no mirror of M is needed).
//   blockingQueues   n consumers blocked in Get(), then n back-to-back puts: every consumer returns.
//   growthAndRemovers  writers that push the table over its growth thresholds while readers ask for a
//                    key that is present throughout; concurrent removers draining a collection: every
//                    element comes out exactly once and Size() ends at 0.
//   startDeadline    the harness always writes its report: a global deadline turns a stall into a
//                    reported outcome.

import (
	"fmt"
	"os"
	"reflect"
	"sort"
	"strings"
	"sync"
	"sync/atomic"
	"time"
	"unsafe"

	"github.com/whatap/golib/util/queue"
	"verif/harness/vh"
)

var repMu sync.Mutex // the report is written from several probe goroutines

// types on which a point operation never returned: every later phase skips them (each would only
// wait for its watchdogs while the abandoned goroutines keep spinning / holding locks)
var (
	deadMu    sync.Mutex
	deadTypes = map[string]bool{}
)

func markDead(typ string) {
	deadMu.Lock()
	deadTypes[typ] = true
	deadMu.Unlock()
}
func isDead(typ string) bool {
	deadMu.Lock()
	defer deadMu.Unlock()
	return deadTypes[typ]
}
func deadList() string {
	deadMu.Lock()
	defer deadMu.Unlock()
	var xs []string
	for t := range deadTypes {
		xs = append(xs, t)
	}
	sort.Strings(xs)
	return strings.Join(xs, ",")
}
func initDeadFromEnv() {
	for _, t := range strings.Split(os.Getenv("VERIF_SKIP_TYPES"), ",") {
		if t != "" {
			deadTypes[t] = true
		}
	}
}

// ---------------------------------------------------------------- deadline

func startDeadline(env *vh.Env, rep *vh.Report) {
	d := 7 * time.Minute
	if env.Thorough {
		d = 40 * time.Minute
	}
	go func() {
		time.Sleep(d)
		repMu.Lock()
		rep.Note("the harness did not finish within %v (busy machine?): partial report written; hangs of the implementation are reported by the per-call watchdogs", d)
		rep.Count("harness-deadline")
		rep.Write(env.Out)
		os.Exit(0)
	}()
}

func finish(env *vh.Env, rep *vh.Report) {
	repMu.Lock()
	rep.Write(env.Out)
	os.Exit(0) // do not wait for goroutines leaked by hung operations
}

// ---------------------------------------------------------------- FIFO release

func mutexStarving(mu *sync.Mutex) bool {
	// sync.Mutex{state int32; sema uint32}; bit 2 of state = mutexStarving
	return atomic.LoadInt32((*int32)(unsafe.Pointer(mu)))&4 != 0
}

// fifoRelease releases a mutex the caller holds such that the goroutines parked on it, and their
// later Lock() calls, are served in FIFO order (Go's starvation mode: direct hand-off, newcomers
// queue at the tail).  It is entered by barging once: the woken first waiter finds the mutex taken
// again after having waited > 1 ms and switches the mode.
func fifoRelease(l sync.Locker) {
	mu, ok := l.(*sync.Mutex)
	if !ok {
		l.Unlock()
		return
	}
	mu.Unlock()
	mu.Lock()
	for i := 0; i < 100 && !mutexStarving(mu); i++ {
		time.Sleep(50 * time.Microsecond)
	}
	mu.Unlock()
}

// ---------------------------------------------------------------- oracle lock-step

type ocall struct {
	name string
	seed int
}

func (o ocall) String() string { return fmt.Sprintf("%s(seed %d)", o.name, o.seed) }

func observe(typ string, obj interface{}) string {
	v := reflect.ValueOf(obj)
	var parts []string
	call := func(name string, k int) {
		m := v.MethodByName(name)
		if !m.IsValid() {
			return
		}
		args, ok := buildArgs(obj, m.Type(), k, nil)
		if !ok {
			return
		}
		res := "?"
		if o := vh.GuardTimeout(hangLimit, func() { res = canon(m.Call(args)) }); !o.OK() {
			res = o.String()
		}
		parts = append(parts, fmt.Sprintf("%s(%d)=%s", name, k, res))
	}
	call("Size", 0)
	for _, n := range containsNames {
		if v.MethodByName(n).IsValid() {
			for _, k := range []int{1, 2, 3, growthBase, growthBase + 37, newKeyFor(typ)} {
				call(n, k)
			}
			break
		}
	}
	call("ToArray", 0)
	if strings.HasPrefix(typ, "Request") {
		for i := 0; i < 12; i++ {
			call("GetNoWait", 0)
		}
	}
	return strings.Join(parts, " ")
}

type oracleRun struct {
	rets []string
	obs  string
	hung bool
}

func (r oracleRun) String() string { return strings.Join(r.rets, " | ") + " || " + r.obs }

func buildCall(obj interface{}, o ocall, mk func() interface{}) (reflect.Value, []reflect.Value, bool) {
	m := reflect.ValueOf(obj).MethodByName(o.name)
	if !m.IsValid() {
		return m, nil, false
	}
	args, ok := buildArgs(obj, m.Type(), o.seed, mk)
	return m, args, ok
}

func guardedCall(m reflect.Value, args []reflect.Value) string {
	res := ""
	if o := vh.Guard(func() { res = canon(m.Call(args)) }); !o.OK() {
		return "panic"
	}
	return res
}

func oracleSequential(c ctor, st prepState, ops []ocall, order []int) (oracleRun, bool) {
	obj := c.mk()
	if !st.build(obj) {
		return oracleRun{}, false
	}
	r := oracleRun{rets: make([]string, len(ops))}
	for _, i := range order {
		m, args, ok := buildCall(obj, ops[i], c.mk)
		if !ok {
			return r, false
		}
		if o := vh.GuardTimeout(hangLimit, func() { r.rets[i] = guardedCall(m, args) }); o.Timeout {
			r.hung = true
			return r, true
		}
	}
	r.obs = observe(c.name, obj)
	return r, true
}

func oracleConcurrent(c ctor, st prepState, ops []ocall) (oracleRun, bool) {
	obj := c.mk()
	if !st.build(obj) {
		return oracleRun{}, false
	}
	l := instanceLock(obj)
	if l == nil {
		return oracleRun{}, false
	}
	type bc struct {
		m    reflect.Value
		args []reflect.Value
	}
	var calls []bc
	for _, o := range ops {
		m, args, ok := buildCall(obj, o, c.mk) // before the lock is taken: building may call the object
		if !ok {
			return oracleRun{}, false
		}
		calls = append(calls, bc{m, args})
	}
	r := oracleRun{rets: make([]string, len(ops))}
	l.Lock()
	var wg sync.WaitGroup
	for i := range calls {
		wg.Add(1)
		go func(i int) {
			defer wg.Done()
			r.rets[i] = guardedCall(calls[i].m, calls[i].args)
		}(i)
		time.Sleep(1500 * time.Microsecond) // park in this order (long enough to count as starving)
	}
	time.Sleep(2 * time.Millisecond)
	fifoRelease(l)
	done := make(chan struct{})
	go func() { wg.Wait(); close(done) }()
	select {
	case <-done:
	case <-time.After(hangLimit):
		r.hung = true
		return r, true
	}
	r.obs = observe(c.name, obj)
	return r, true
}

func permutations(n int) [][]int {
	if n == 2 {
		return [][]int{{0, 1}, {1, 0}}
	}
	return [][]int{{0, 1, 2}, {0, 2, 1}, {1, 0, 2}, {1, 2, 0}, {2, 0, 1}, {2, 1, 0}}
}

func oracleLockstep(env *vh.Env, rep *vh.Report, facts lockFacts) {
	var wg sync.WaitGroup
	for _, c := range ctors {
		wg.Add(1)
		go func(c ctor) {
			defer wg.Done()
			oracleLockstepType(env, rep, facts, c)
		}(c)
	}
	wg.Wait()
}

func oracleLockstepType(env *vh.Env, rep *vh.Report, facts lockFacts, c ctor) {
	if isDead(c.name) {
		return
	}
	probe := c.mk()
	ins := insertName(probe)
	if ins == "" {
		return
	}
	sus := map[string]string{}
	if facts != nil {
		sus = facts.suspicious(c.name)
	}
	states := preparedStates(c)
	pick := func(pred func(string) bool) []prepState {
		var out []prepState
		for _, s := range states {
			if pred(s.name) {
				out = append(out, s)
			}
		}
		return out
	}
	base := pick(func(n string) bool { return n == "one element" || strings.Contains(n, "next new key grows") })
	if len(base) < 2 {
		base = append(base, pick(func(n string) bool { return n == "three elements" })...)
	}
	all := pick(func(n string) bool { return n != "empty" })

	nk := newKeyFor(c.name)
	conflicts := []ocall{{ins, nk}}
	for _, n := range []string{"RemoveFirst", "RemoveLast", "Clear"} {
		if reflect.ValueOf(probe).MethodByName(n).IsValid() {
			conflicts = append(conflicts, ocall{n, 0})
		}
	}
	if m := reflect.ValueOf(probe).MethodByName("Remove"); m.IsValid() && c.name != "LinkedList" {
		conflicts = append(conflicts, ocall{"Remove", oldKeySeed})
	}
	hungOnce := false
	for _, m := range methodNames(probe) {
		if hungOnce {
			break
		}
		if !isPointOp(c.name, m) || blocksByDesign(c.name, m, true) || (m == "Get" && strings.HasPrefix(c.name, "Request")) {
			continue
		}
		reps, sts, xs := 1, base, conflicts[:min(2, len(conflicts))]
		why, flagged := sus[m]
		if flagged || (env.Thorough && !phaseOver()) {
			reps, sts, xs = 1, all, conflicts
			if flagged {
				reps = 2
			}
			if env.Thorough && flagged {
				reps = 6
			}
		}
		for _, st := range sts {
			for pi, pk := range st.present {
				if pi > 0 && !(flagged || env.Thorough) {
					break
				}
				xs2 := append(append([]ocall{}, xs...), ocall{m, pk}) // and M against itself
				for _, x := range xs2 {
					if x.name == "Remove" {
						x.seed = pk
					}
					for _, first := range []int{0, 1} {
						ops := []ocall{x, {m, pk}}
						if first == 1 {
							ops = []ocall{{m, pk}, x}
						}
						for r := 0; r < reps; r++ {
							conc, ok := oracleConcurrent(c, st, ops)
							if !ok {
								break
							}
							var seq []string
							match := false
							for _, p := range permutations(len(ops)) {
								s, ok2 := oracleSequential(c, st, ops, p)
								if !ok2 || s.hung {
									continue
								}
								seq = append(seq, s.String())
								if s.String() == conc.String() {
									match = true
								}
							}
							repMu.Lock()
							rep.Case(fmt.Sprintf("oracle-lockstep %s %s %v", c.name, st.name, ops), true)
							rep.Count("oracle-lockstep:runs")
							if flagged {
								rep.Count("oracle-lockstep:tie-A-directed")
							}
							if conc.hung {
								rep.Fail("property", c.name+"."+m+":blocks-forever",
									fmt.Sprintf("%s: %v started behind the instance lock (state '%s') did not finish within 25 s after its release", c.name, ops, st.name),
									map[string]interface{}{"type": c.name, "state": st.name, "calls": fmt.Sprint(ops)})
								hungOnce = true
							} else if !match && len(seq) > 0 {
								key := c.name + "." + m + ":not-linearizable"
								if strings.Contains(conc.String(), "panic") {
									key = c.name + "." + m + ":panic-under-concurrency"
								}
								note := ""
								if flagged {
									note = " (tie A: " + why + ")"
								}
								rep.Fail("property", key,
									fmt.Sprintf("%s in state '%s': %v, parked behind the instance lock in this order and released FIFO, gave an outcome that no sequential order of the same calls gives%s", c.name, st.name, ops, note),
									map[string]interface{}{"type": c.name, "state": st.name, "calls": fmt.Sprint(ops), "concurrent": conc.String(), "sequential_orders": seq,
										"how": "bring a fresh instance into the state, take its mutex by reflection, start one goroutine per call 1.5 ms apart, release the mutex in starvation (FIFO) mode, compare returns and Size/Contains/ToArray with every sequential order on fresh instances"})
							}
							repMu.Unlock()
							if conc.hung {
								break
							}
						}
					}
				}
			}
		}
	}
}

// ---------------------------------------------------------------- blocked consumers

func blockingQueues(env *vh.Env, rep *vh.Report) {
	reps := 3
	if env.Thorough {
		reps = 20
	}
	for _, dbl := range []bool{false, true} {
		name := "RequestQueue"
		if dbl {
			name = "RequestDoubleQueue"
		}
		if isDead(name) {
			continue
		}
		for _, n := range []int{1, 2, 3, 5} {
			for r := 0; r < reps*4 && !(r >= 4 && phaseOver()); r++ {
				var get func() interface{}
				var put func(i int) bool
				var size func() int
				mode := r % 4 // which put the producers use: all Put, all PutForce, (double: second queue)
				if dbl {
					d := queue.NewRequestDoubleQueue(8, 8)
					get, size = d.Get, d.Size
					put = func(i int) bool {
						switch mode {
						case 0:
							return d.Put1(i + 1)
						case 1:
							return d.PutForce1(i + 1)
						case 2:
							return d.Put2(i + 1)
						}
						return d.PutForce2(i + 1)
					}
				} else {
					q := queue.NewRequestQueue(8)
					get, size = q.Get, q.Size
					put = func(i int) bool {
						if mode%2 == 0 {
							return q.Put(i + 1)
						}
						return q.PutForce(i + 1)
					}
				}
				var returned int32
				var wg sync.WaitGroup
				for c := 0; c < n; c++ {
					wg.Add(1)
					go func() {
						defer wg.Done()
						if get() != nil {
							atomic.AddInt32(&returned, 1)
						}
					}()
				}
				time.Sleep(10 * time.Millisecond) // all consumers are in Wait()
				for i := 0; i < n; i++ {
					put(i) // back to back
				}
				done := make(chan struct{})
				go func() { wg.Wait(); close(done) }()
				ok := true
				select {
				case <-done:
				case <-time.After(hangLimit):
					ok = false
				}
				rep.Case(fmt.Sprintf("blocked-consumers %s n=%d put-mode=%d", name, n, mode), n > 1)
				rep.Count("blocked-consumers:runs")
				if !ok {
					sz := -1
					vh.GuardTimeout(hangLimit, func() { sz = size() })
					rep.Fail("property", name+".Get:blocks-forever",
						fmt.Sprintf("%d consumers blocked in %s.Get(), then %d back-to-back puts: only %d consumers returned within 25 s although Size() = %d", n, name, n, atomic.LoadInt32(&returned), sz),
						map[string]interface{}{"type": name, "consumers": n, "puts": n, "put_mode": []string{"Put/Put1", "PutForce/PutForce1", "Put/Put2", "PutForce/PutForce2"}[mode], "returned": atomic.LoadInt32(&returned), "size": sz,
							"how": "start n goroutines calling Get() on an empty queue, wait 10 ms, call Put n times without pause, wait 3 s"})
					return // every further run would wait for its watchdog too
				}
			}
		}
	}
}

// ---------------------------------------------------------------- growth-heavy writers, concurrent removers

func growthAndRemovers(env *vh.Env, rep *vh.Report) {
	rounds := 6
	if env.Thorough {
		rounds = 60
	}
	var wg sync.WaitGroup
	for _, c := range ctors {
		wg.Add(1)
		go func(c ctor) {
			defer wg.Done()
			for r := 0; r < rounds && !isDead(c.name) && !(r >= 3 && phaseOver()); r++ {
				if !presentKeyRound(rep, c) || !removersRound(rep, c) {
					return
				}
			}
		}(c)
	}
	wg.Wait()
}

func firstMethod(obj interface{}, names ...string) reflect.Value {
	for _, n := range names {
		if m := reflect.ValueOf(obj).MethodByName(n); m.IsValid() {
			return m
		}
	}
	return reflect.Value{}
}

// presentKeyRound: key 1 is inserted first and never removed; two writers insert 400 new keys
// (crossing every growth threshold up to there) while readers look key 1 up.
func presentKeyRound(rep *vh.Report, c ctor) bool {
	obj := c.mk()
	if tableLen(obj) < 0 {
		return true
	}
	has := firstMethod(obj, containsNames...)
	get := firstMethod(obj, "Get")
	ins := firstMethod(obj, "Put")
	if !has.IsValid() || !ins.IsValid() || has.Type().NumIn() != 1 {
		return true
	}
	const pk = 5003 // its bucket differs in tables of 101, 203, 407 and 815 buckets
	insertN(obj, pk, 1)
	hasArgs, _ := buildArgs(obj, has.Type(), pk, nil)
	want := canon(has.Call(hasArgs))
	var getArgs []reflect.Value
	wantGet := ""
	if get.IsValid() && get.Type().NumIn() == 1 {
		getArgs, _ = buildArgs(obj, get.Type(), pk, nil)
		wantGet = canon(get.Call(getArgs))
	}
	var bad atomic.Value
	var wg sync.WaitGroup
	stop := int32(0)
	for w := 0; w < 2; w++ {
		wg.Add(1)
		go func(w int) {
			defer wg.Done()
			for k := 0; k < 400; k++ {
				args, _ := buildArgs(obj, ins.Type(), 10+2*k+w, nil)
				vh.Guard(func() { ins.Call(args) })
			}
		}(w)
	}
	var rg sync.WaitGroup
	for rdr := 0; rdr < 2; rdr++ {
		rg.Add(1)
		go func() {
			defer rg.Done()
			for atomic.LoadInt32(&stop) == 0 {
				got := ""
				if o := vh.Guard(func() { got = canon(has.Call(hasArgs)) }); !o.OK() {
					got = "panic"
				}
				if got != want {
					bad.Store(fmt.Sprintf("Contains(%d) = %s", pk, got))
				}
				if wantGet != "" {
					if o := vh.Guard(func() { got = canon(get.Call(getArgs)) }); !o.OK() {
						got = "panic"
					}
					if got != wantGet {
						bad.Store(fmt.Sprintf("Get(%d) = %s, expected %s", pk, got, wantGet))
					}
				}
			}
		}()
	}
	fin := make(chan struct{})
	go func() { wg.Wait(); atomic.StoreInt32(&stop, 1); rg.Wait(); close(fin) }()
	hung := false
	select {
	case <-fin:
	case <-time.After(hangLimit):
		hung = true
		atomic.StoreInt32(&stop, 1)
	}
	repMu.Lock()
	defer repMu.Unlock()
	rep.Case("present-key "+c.name, true)
	rep.Count("growth:present-key-rounds")
	if hung {
		markDead(c.name)
		rep.Fail("property", c.name+":stress-deadlock", "two writers inserting 400 keys each and two readers did not finish within 25 s", map[string]interface{}{"type": c.name})
		return false
	}
	if b := bad.Load(); b != nil {
		rep.Fail("property", c.name+".Get:present-key-reported-absent",
			fmt.Sprintf("%s: key 5003 was inserted first and never removed, two writers grew the table from 1 to 801 entries, a concurrent reader got %v", c.name, b),
			map[string]interface{}{"type": c.name, "observed": b, "how": "Put(5003); 2 goroutines Put 400 new keys each; 2 goroutines loop Contains(5003)/Get(5003)"})
		return false
	}
	return true
}

// removersRound: N elements, four goroutines remove from both ends until they get the empty answer;
// every element must come out exactly once and Size() must end at 0.
func removersRound(rep *vh.Report, c ctor) bool {
	obj := c.mk()
	rf := firstMethod(obj, "RemoveFirst")
	rl := firstMethod(obj, "RemoveLast")
	if !rf.IsValid() || !rl.IsValid() || insertName(obj) == "" || strings.HasPrefix(c.name, "Request") {
		return true
	}
	emptyAns := canon(rf.Call(nil))
	const n = 60
	if !insertN(obj, 1, n) {
		return true
	}
	outs := make([][]string, 4)
	var wg sync.WaitGroup
	for g := 0; g < 4; g++ {
		wg.Add(1)
		go func(g int) {
			defer wg.Done()
			m := rf
			if g%2 == 1 {
				m = rl
			}
			for i := 0; i < 4*n; i++ {
				res := ""
				if o := vh.Guard(func() { res = canon(m.Call(nil)) }); !o.OK() {
					res = "panic"
				}
				if res == emptyAns {
					return
				}
				outs[g] = append(outs[g], res)
				if res == "panic" {
					return
				}
			}
		}(g)
	}
	fin := make(chan struct{})
	go func() { wg.Wait(); close(fin) }()
	hung := false
	select {
	case <-fin:
	case <-time.After(hangLimit):
		hung = true
	}
	repMu.Lock()
	defer repMu.Unlock()
	rep.Case("removers "+c.name, true)
	rep.Count("growth:remover-rounds")
	if hung {
		markDead(c.name)
		rep.Fail("property", c.name+":stress-deadlock", "four concurrent removers on 60 elements did not finish within 25 s", map[string]interface{}{"type": c.name})
		return false
	}
	seen := map[string]int{}
	total := 0
	for _, o := range outs {
		for _, x := range o {
			seen[x]++
			total++
		}
	}
	size := "?"
	vh.GuardTimeout(hangLimit, func() { size = canon(reflect.ValueOf(obj).MethodByName("Size").Call(nil)) })
	var dups []string
	for x, k := range seen {
		if k > 1 || x == "panic" {
			dups = append(dups, fmt.Sprintf("%s×%d", x, k))
		}
	}
	sort.Strings(dups)
	// a premature "empty" answer to one remover is legal only if another emptied the collection; in the
	// end everything must have come out once
	if len(dups) > 0 || total != n || size != "0" {
		key := c.name + ".RemoveLast:not-linearizable"
		if seen["panic"] > 0 {
			key = c.name + ".RemoveLast:panic-under-concurrency"
		}
		rep.Fail("property", key,
			fmt.Sprintf("%s: 60 elements, four goroutines removing from both ends until empty: %d elements came out (duplicates/panics %v), Size() = %s afterwards", c.name, total, dups, size),
			map[string]interface{}{"type": c.name, "removed": total, "duplicates": dups, "size_after": size,
				"how": "insert 60 elements; 2 goroutines loop RemoveFirst, 2 loop RemoveLast until the empty answer; count what came out"})
		return false
	}
	return true
}

// ---------------------------------------------------------------- fewer puts than waiters

// partialWakeups: k consumers blocked in Get(), j < k puts: exactly j consumers return, each with a
// distinct element that was put (never nil: a blocking Get promises an element), the others are
// still blocked; the remaining k-j puts then release them.
func partialWakeups(env *vh.Env, rep *vh.Report) {
	reps := 2
	if env.Thorough {
		reps = 15
	}
	for _, dbl := range []bool{false, true} {
		name := "RequestQueue"
		if dbl {
			name = "RequestDoubleQueue"
		}
		if isDead(name) {
			continue
		}
		for _, kj := range [][2]int{{2, 1}, {3, 1}, {3, 2}, {5, 2}} {
			for r := 0; r < reps*2 && !(r >= 2 && phaseOver()); r++ {
				k, j := kj[0], kj[1]
				var get func() interface{}
				var put func(i int) bool
				if dbl {
					d := queue.NewRequestDoubleQueue(8, 8)
					get = d.Get
					put = func(i int) bool {
						if r%2 == 0 {
							return d.Put1(i)
						}
						return d.Put2(i)
					}
				} else {
					q := queue.NewRequestQueue(8)
					get = q.Get
					put = func(i int) bool {
						if r%2 == 0 {
							return q.Put(i)
						}
						return q.PutForce(i)
					}
				}
				results := make(chan interface{}, k)
				for c := 0; c < k; c++ {
					go func() { results <- get() }()
				}
				time.Sleep(10 * time.Millisecond) // all k consumers are in Wait()
				for i := 1; i <= j; i++ {
					put(100 + i)
				}
				var got []string
				bad := ""
				seen := map[int]bool{}
				deadline := time.After(hangLimit)
			collect:
				for len(got) < k {
					select {
					case v := <-results:
						got = append(got, elemStr(v))
						x, ok := v.(int)
						switch {
						case v == nil:
							bad = "a blocking Get() returned nil"
						case !ok || x < 101 || x > 100+j:
							bad = fmt.Sprintf("Get() returned %v, which was never put", v)
						case seen[x]:
							bad = fmt.Sprintf("element %d was delivered twice", x)
						}
						seen[x] = true
					case <-deadline:
						break collect
					}
					if len(got) == j && bad == "" {
						// give a wrongly woken consumer a moment to come back empty-handed
						select {
						case v := <-results:
							got = append(got, elemStr(v))
							if v == nil {
								bad = "a blocking Get() returned nil"
							} else {
								bad = fmt.Sprintf("more consumers returned than elements were put (%v)", v)
							}
						case <-time.After(150 * time.Millisecond):
						}
						break collect
					}
				}
				if bad == "" && len(got) != j {
					bad = fmt.Sprintf("%d consumers returned for %d puts", len(got), j)
				}
				// release whoever is still blocked
				for i := j + 1; i <= k+1; i++ {
					put(100 + i)
				}
				rep.Case(fmt.Sprintf("partial-wakeup %s k=%d j=%d mode=%d", name, k, j, r%2), true)
				rep.Count("blocked-consumers:fewer-puts-than-waiters")
				if bad != "" {
					key := name + ".Get:returned-nothing"
					if !strings.Contains(bad, "nil") {
						key = name + ".Get:not-linearizable"
					}
					rep.Fail("property", key,
						fmt.Sprintf("%d consumers blocked in %s.Get(), %d puts: %s (returns so far: %v)", k, name, j, bad, got),
						map[string]interface{}{"type": name, "consumers": k, "puts": j, "returned": got,
							"how": "start k goroutines calling Get() on an empty queue, wait 10 ms, put j < k elements, collect what the consumers return"})
					return
				}
			}
		}
	}
}

// ---------------------------------------------------------------- container-taking methods

// containerArgProbes: every exported method that takes another instance of its own type
// (PutAll(other) …) is called (1) with the receiver itself as the argument and (2) on two instances in
// opposite directions, both parked behind the two instance locks and released together — a method that
// holds the argument's lock while locking the receiver self-deadlocks in (1) and deadlocks on lock
// order in (2), deterministically.
func containerArgProbes(env *vh.Env, rep *vh.Report) {
	for _, c := range ctors {
		obj := c.mk()
		t := reflect.TypeOf(obj)
		for i := 0; i < t.NumMethod(); i++ {
			m := t.Method(i)
			argPos := -1
			for j := 1; j < m.Type.NumIn(); j++ {
				if m.Type.In(j) == t {
					argPos = j - 1
				}
			}
			if argPos < 0 {
				continue
			}
			rep.Count("container-arg:methods")
			// (1) receiver as its own argument
			for _, n := range []int{0, 1, 3} {
				a := c.mk()
				insertN(a, 1, n)
				meth := reflect.ValueOf(a).MethodByName(m.Name)
				args, ok := buildArgs(a, meth.Type(), 1, c.mk)
				if !ok {
					continue
				}
				args[argPos] = reflect.ValueOf(a)
				o := vh.GuardTimeout(hangLimit, func() { meth.Call(args) })
				rep.Case(fmt.Sprintf("container-arg self %s.%s n=%d", c.name, m.Name, n), true)
				if o.Timeout {
					rep.Fail("property", c.name+"."+m.Name+":deadlock",
						fmt.Sprintf("%s.%s called with the receiver itself as argument (%d elements) did not return within 25 s", c.name, m.Name, n),
						map[string]interface{}{"type": c.name, "method": m.Name, "how": fmt.Sprintf("m := New…(); insert %d elements; m.%s(m) under a 2 s watchdog", n, m.Name)})
					break
				}
			}
			// (2) opposite directions
			reps := 3
			if env.Thorough {
				reps = 20
			}
			for r := 0; r < reps; r++ {
				a, b := c.mk(), c.mk()
				insertN(a, 1, 3)
				insertN(b, 11, 3)
				la, lb := instanceLock(a), instanceLock(b)
				ma, mb := reflect.ValueOf(a).MethodByName(m.Name), reflect.ValueOf(b).MethodByName(m.Name)
				argsA, ok1 := buildArgs(a, ma.Type(), 1, c.mk)
				argsB, ok2 := buildArgs(b, mb.Type(), 1, c.mk)
				if !ok1 || !ok2 || la == nil || lb == nil {
					break
				}
				argsA[argPos], argsB[argPos] = reflect.ValueOf(b), reflect.ValueOf(a)
				lockstep := r%2 == 0
				if lockstep {
					la.Lock()
					lb.Lock()
				}
				var wg sync.WaitGroup
				wg.Add(2)
				go func() { defer wg.Done(); vh.Guard(func() { ma.Call(argsA) }) }()
				if lockstep {
					time.Sleep(2 * time.Millisecond)
				}
				go func() { defer wg.Done(); vh.Guard(func() { mb.Call(argsB) }) }()
				if lockstep {
					time.Sleep(3 * time.Millisecond)
					lb.Unlock()
					la.Unlock()
				}
				done := make(chan struct{})
				go func() { wg.Wait(); close(done) }()
				hung := false
				select {
				case <-done:
				case <-time.After(hangLimit):
					hung = true
				}
				rep.Case(fmt.Sprintf("container-arg opposite %s.%s lockstep=%v", c.name, m.Name, lockstep), true)
				if hung {
					rep.Fail("property", c.name+"."+m.Name+":deadlock",
						fmt.Sprintf("a.%s(b) and b.%s(a) on two %s instances running concurrently did not finish within 25 s (lock order between the two instances)", m.Name, m.Name, c.name),
						map[string]interface{}{"type": c.name, "method": m.Name, "lockstep": lockstep,
							"how": "two instances with 3 elements each; (lock-step: hold both instance locks, start a.M(b) and b.M(a), release both) ; watchdog 2 s"})
					break
				}
			}
		}
	}
}

// ---------------------------------------------------------------- writers under a read lock

// enumerateKeys walks Keys() of a map/set with a bound on the number of steps.
func enumerateKeys(obj interface{}, limit int) (keys []string, why string) {
	km := reflect.ValueOf(obj).MethodByName("Keys")
	if !km.IsValid() || km.Type().NumIn() != 0 {
		return nil, "no-keys"
	}
	o := vh.GuardTimeout(hangLimit, func() {
		en := km.Call(nil)[0]
		if en.Kind() == reflect.Interface {
			en = en.Elem()
		}
		has := en.MethodByName("HasMoreElements")
		var next reflect.Value
		for _, n := range []string{"NextInt", "NextLong", "NextString", "NextElement"} {
			if next = en.MethodByName(n); next.IsValid() {
				break
			}
		}
		if !has.IsValid() || !next.IsValid() {
			why = "no-enumerator"
			return
		}
		for i := 0; i < limit && has.Call(nil)[0].Bool(); i++ {
			keys = append(keys, canon(next.Call(nil)))
		}
		if has.Call(nil)[0].Bool() {
			why = "the key enumeration does not end"
		}
	})
	if o.Timeout {
		return keys, "the key enumeration does not return"
	}
	if o.Panic != "" {
		return keys, "the key enumeration panics: " + vh.Clip(o.Panic, 80)
	}
	return keys, why
}

// readLockWriterStress: tie A says method M writes the structure while holding only a read lock.
// Eight goroutines call exactly M on a small map with existing keys; afterwards the structure must
// still be intact: no panic, the key enumeration lists every key exactly once, Size() agrees.
func readLockWriterStress(env *vh.Env, rep *vh.Report, facts lockFacts) {
	if facts == nil {
		return
	}
	rounds := 30
	if env.Thorough {
		rounds = 300
	}
	for _, c := range ctors {
		for _, m := range facts.readLockWriters(c.name) {
			rep.Count("read-lock-writer:methods")
			failed := false
			for r := 0; r < rounds && !failed && !(r >= 10 && phaseOver()); r++ {
				obj := c.mk()
				const n = 5
				insertN(obj, 1, n)
				want, _ := enumerateKeys(obj, 50)
				meth := reflect.ValueOf(obj).MethodByName(m)
				var calls [][]reflect.Value
				for k := 1; k <= n; k++ {
					if a, ok := buildArgs(obj, meth.Type(), k, c.mk); ok {
						calls = append(calls, a)
					}
				}
				if len(calls) == 0 {
					break
				}
				var panics int32
				var wg sync.WaitGroup
				for g := 0; g < 8; g++ {
					wg.Add(1)
					go func(g int) {
						defer wg.Done()
						for i := 0; i < 400; i++ {
							if o := vh.Guard(func() { meth.Call(calls[(i*7+g)%len(calls)]) }); !o.OK() {
								atomic.AddInt32(&panics, 1)
								return
							}
						}
					}(g)
				}
				fin := make(chan struct{})
				go func() { wg.Wait(); close(fin) }()
				why := ""
				select {
				case <-fin:
				case <-time.After(hangLimit):
					why = "the eight goroutines did not finish within 25 s"
				}
				if why == "" && atomic.LoadInt32(&panics) > 0 {
					why = fmt.Sprintf("%d goroutines panicked inside %s", panics, m)
				}
				if why == "" {
					got, w := enumerateKeys(obj, 50)
					sort.Strings(got)
					ws := append([]string(nil), want...)
					sort.Strings(ws)
					size := "?"
					vh.GuardTimeout(hangLimit, func() { size = canon(reflect.ValueOf(obj).MethodByName("Size").Call(nil)) })
					switch {
					case w != "":
						why = w
					case strings.Join(got, ",") != strings.Join(ws, ","):
						why = fmt.Sprintf("the order list enumerates %v, the map holds %v", got, ws)
					case size != fmt.Sprint(n):
						why = "Size() = " + size
					}
				}
				rep.Case(fmt.Sprintf("read-lock-writer %s.%s", c.name, m), true)
				if why != "" {
					failed = true
					rep.Fail("property", c.name+"."+m+":corrupts-under-concurrency",
						fmt.Sprintf("%s.%s writes the structure under a read lock (tie A); 8 goroutines calling only %s on a map of %d keys: %s", c.name, m, m, n, why),
						map[string]interface{}{"type": c.name, "method": m,
							"how": fmt.Sprintf("insert keys 1..%d; 8 goroutines × 400 calls of %s(existing key); then enumerate Keys() and compare with the keys inserted, check Size()", n, m)})
				}
			}
		}
	}
}

// ---------------------------------------------------------------- panic safety of the lock release

// panicSafety: "no public operation can block forever on the structure's own lock" must survive a
// panic inside an operation that the caller recovers from (the code releases by `defer`, so it does).
// Instances are filled with values that make the code's own comparisons panic — uncomparable values
// (slices) where the type stores interface{} values, user keys whose Equals panics, a comparator that
// panics, queue callbacks that panic — then every exported method is called under recover, and
// afterwards Size() (and a second call of the method) must still return: a hang after a recovered
// panic is `<T>.<M>:lock-leaked-after-panic`.
func panicSafety(env *vh.Env, rep *vh.Report) {
	atomic.StoreInt32(&poisonMode, 1)
	defer atomic.StoreInt32(&poisonMode, 0)
	defer atomic.StoreInt32(&poisonArmed, 0)
	panicking := func(interface{}) { panic("user callback panics") }
	for _, c := range ctors {
		if isDead(c.name) {
			continue
		}
		for _, m := range methodNames(c.mk()) {
			if blocksByDesign(c.name, m, false) && false {
				continue
			}
			for _, seed := range []int{1, 2} {
				atomic.StoreInt32(&poisonArmed, 0)
				obj := c.mk()
				insertN(obj, 1, 3)
				switch q := obj.(type) {
				case *queue.RequestQueue:
					q.SetCapacity(3) // full: Put is refused (Failed), PutForce evicts (Overflowed)
					q.Failed, q.Overflowed = panicking, panicking
				case *queue.RequestDoubleQueue:
					// the callbacks of the double queue, through its public setters where they exist
					q.SetCapacity(3, 1)
					for _, sn := range []string{"SetCallbacks1", "SetCallbacks2"} {
						if sm := reflect.ValueOf(q).MethodByName(sn); sm.IsValid() && sm.Type().NumIn() == 2 {
							sm.Call([]reflect.Value{reflect.ValueOf(panicking), reflect.ValueOf(panicking)})
						}
					}
				}
				meth := reflect.ValueOf(obj).MethodByName(m)
				args, ok := buildArgs(obj, meth.Type(), seed, c.mk)
				if !ok {
					continue
				}
				at("panic-safety: %s with three entries (uncomparable values / panicking user keys, comparators, callbacks), then %s(seed %d)", c.name, m, seed)
				atomic.StoreInt32(&poisonArmed, 1)
				out := vh.GuardTimeout(hangLimit, func() { meth.Call(args) })
				atomic.StoreInt32(&poisonArmed, 0)
				rep.Case(fmt.Sprintf("panic-safety %s.%s seed=%d", c.name, m, seed), out.Panic != "")
				rep.Count("panic-safety:" + out.String())
				if out.Panic == "" {
					continue // no panic provoked (or a hang: the sweep's business)
				}
				after := vh.GuardTimeout(hangLimit, func() { reflect.ValueOf(obj).MethodByName("Size").Call(nil) })
				if after.Timeout {
					rep.Fail("property", c.name+"."+m+":lock-leaked-after-panic",
						fmt.Sprintf("%s.%s panicked (%s) on values of an uncomparable type / a panicking user callback; the caller recovered, but the instance lock was not released: Size() never returns", c.name, m, vh.Clip(out.Panic, 80)),
						map[string]interface{}{"type": c.name, "method": m, "panic": vh.Clip(out.Panic, 200),
							"how": "fill the instance with three entries whose interface{} values are slices (keys: user keys whose Equals panics; comparators and queue callbacks that panic), call the method under recover, then call Size() under a 1 s watchdog"})
					break
				}
			}
		}
	}
}

// ---------------------------------------------------------------- a timed-out get must not leave a consumer behind

// orphanConsumers: GetTimeout on an empty queue times out (n times); then one element is put.  It must
// still be there (Size() = 1 a moment later) and the next GetNoWait must return it — a timed get that
// left a hidden consumer behind lets the element vanish without any dequeue returning it.
func orphanConsumers(env *vh.Env, rep *vh.Report) {
	for _, dbl := range []bool{false, true} {
		for _, n := range []int{1, 3} {
			for mode := 0; mode < 4; mode++ {
				var getT func(int) interface{}
				var getNW func() interface{}
				var put func(interface{}) bool
				var size func() int
				name := "RequestQueue"
				if dbl {
					name = "RequestDoubleQueue"
					d := queue.NewRequestDoubleQueue(4, 4)
					getT, getNW, size = d.GetTimeout, d.GetNoWait, d.Size
					put = []func(interface{}) bool{d.Put1, d.PutForce1, d.Put2, d.PutForce2}[mode]
				} else {
					q := queue.NewRequestQueue(4)
					getT, getNW, size = q.GetTimeout, q.GetNoWait, q.Size
					put = []func(interface{}) bool{q.Put, q.PutForce}[mode%2]
				}
				if isDead(name) {
					continue
				}
				bad := ""
				for i := 0; i < n && bad == ""; i++ {
					var v interface{}
					if o := vh.GuardTimeout(hangLimit, func() { v = getT(3) }); !o.OK() {
						bad = "GetTimeout(3) on an empty queue: " + o.String()
					} else if v != nil {
						bad = fmt.Sprintf("GetTimeout on an empty queue returned %v", v)
					}
				}
				szv, got := -1, interface{}(nil)
				if bad == "" {
					put(4242)
					time.Sleep(15 * time.Millisecond)
					vh.GuardTimeout(hangLimit, func() { szv = size(); got = getNW() })
					if szv != 1 || got != 4242 {
						bad = fmt.Sprintf("after %d timed-out GetTimeout calls, Put(4242): Size() = %d and GetNoWait() = %v — the element vanished without any dequeue returning it", n, szv, got)
					}
				}
				rep.Case(fmt.Sprintf("orphan-consumer %s n=%d mode=%d", name, n, mode), true)
				rep.Count("orphan-consumer:runs")
				if bad != "" {
					rep.Fail("property", name+".GetTimeout:loses-later-element", name+": "+bad,
						map[string]interface{}{"type": name, "timed_out_calls": n, "put_mode": mode, "size": szv, "got": fmt.Sprint(got),
							"how": "n × GetTimeout(3) on an empty queue (each returns nil); Put(4242); wait 15 ms; Size() must be 1 and GetNoWait() must return 4242"})
					return
				}
			}
		}
	}
}
