package main

// Probes added after the sixth batch of seeded changes.

import (
	"fmt"
	"reflect"
	"strings"
	"sync"
	"sync/atomic"
	"time"

	"verif/harness/vh"
)

// ---------------------------------------------------------------- lock re-entry that needs an interleaving

// reentryUnderWriters: tie A's call graph says which exported methods call other methods of the same
// object.  A nested acquisition that is harmless alone (a read lock taken twice) deadlocks as soon as a
// writer's Lock() lands between the two (sync.RWMutex prefers writers).  Every such method is called in a
// loop while two goroutines hammer the same object with mutators; everybody must finish.  Only a hang —
// bounded by hangLimit — is a verdict.
func reentryUnderWriters(env *vh.Env, rep *vh.Report, facts lockFacts) {
	if facts == nil {
		return
	}
	iters := 1500
	if env.Thorough {
		iters = 15000
	}
	for _, c := range ctors {
		if isDead(c.name) {
			continue
		}
		own := map[string]bool{}
		for _, M := range facts[c.name] {
			own[M.Name] = true
		}
		for _, M := range facts[c.name] {
			if !M.Exported || isDead(c.name) || phaseOver() {
				continue
			}
			calls := append(append([]string{}, M.CallsHeld...), M.CallsFree...)
			nested := false
			for _, cl := range calls {
				if own[cl] && facts.acquiresWithin(c.name, cl, len(facts[c.name])+1) {
					nested = true
				}
			}
			if !nested || blocksByDesign(c.name, M.Name, true) || (M.Name == "Get" && strings.HasPrefix(c.name, "Request")) || M.Name == "GetTimeout" {
				continue
			}
			obj := c.mk()
			insertN(obj, 1, 3)
			meth := reflect.ValueOf(obj).MethodByName(M.Name)
			if !meth.IsValid() {
				continue
			}
			args, ok := buildArgs(obj, meth.Type(), 1, c.mk)
			if !ok {
				continue
			}
			muts := mutatorCalls(obj)
			if len(muts) == 0 {
				continue
			}
			at("re-entry under writers: %s.%s (calls %v) in a loop while two goroutines call mutators on the same object", c.name, M.Name, calls)
			var stop int32
			var wg, ww sync.WaitGroup
			for w := 0; w < 2; w++ {
				ww.Add(1)
				go func(w int) {
					defer ww.Done()
					for i := 0; atomic.LoadInt32(&stop) == 0; i++ {
						muts[(i+w)%len(muts)]()
					}
				}(w)
			}
			wg.Add(1)
			go func() {
				defer wg.Done()
				for i := 0; i < iters; i++ {
					vh.Guard(func() { meth.Call(args) })
				}
			}()
			fin := make(chan struct{})
			go func() { wg.Wait(); atomic.StoreInt32(&stop, 1); ww.Wait(); close(fin) }()
			hung := false
			select {
			case <-fin:
			case <-time.After(hangLimit):
				hung = true
			}
			rep.Case(fmt.Sprintf("reentry-under-writers %s.%s", c.name, M.Name), true)
			rep.Count("reentry-under-writers:methods")
			if hung {
				atomic.StoreInt32(&stop, 1)
				markDead(c.name)
				rep.Fail("property", c.name+"."+M.Name+":blocks-forever",
					fmt.Sprintf("%s.%s calls %v of the same object; looping it while two goroutines call mutators on that object, nobody finishes within 25 s: a nested (read) lock acquisition with a writer's Lock() in between", c.name, M.Name, calls),
					map[string]interface{}{"type": c.name, "method": M.Name, "nested_calls": calls,
						"how": fmt.Sprintf("3 elements; one goroutine calls %s %d times, two goroutines loop Put/Remove/…; wait for all under a 25 s watchdog", M.Name, iters)})
			}
		}
	}
}

// ---------------------------------------------------------------- put-if-absent style operations on one fresh key

// sameKeyRaces: for every insertion-like method (Put*, Add*, Unipoint, …IfAbsent, …IfExist, GetOrCreate …)
// of every map / set: 8 goroutines leave a barrier and call it with the SAME fresh key, round after round
// with a new key each.  Afterwards the container must be what the same calls made one after the other
// produce on a fresh instance: same Size(), the keys contained; then every key is removed once:
// Contains(k) must be false and Size() 0 (a key inserted twice survives its removal).
func sameKeyRaces(env *vh.Env, rep *vh.Report) {
	rounds, G := 150, 8
	if env.Thorough {
		rounds = 1500
	}
	for _, c := range ctors {
		if isDead(c.name) || tableLen(c.mk()) < 0 {
			continue
		}
		probe := c.mk()
		has := firstMethod(probe, containsNames...)
		rem := firstMethod(probe, "Remove")
		if !has.IsValid() || !rem.IsValid() || has.Type().NumIn() != 1 || rem.Type().NumIn() != 1 {
			continue
		}
		for _, m := range methodNames(probe) {
			if !(strings.HasPrefix(m, "Put") || strings.HasPrefix(m, "Add") || strings.HasPrefix(m, "Unipoint") ||
				strings.Contains(m, "IfAbsent") || strings.Contains(m, "IfExist") || strings.HasPrefix(m, "GetOrCreate") || strings.HasPrefix(m, "Intern")) || m == "PutAll" {
				continue
			}
			mt := reflect.ValueOf(probe).MethodByName(m).Type()
			if mt.NumIn() < 1 || mt.NumIn() > 2 || phaseOver() || isDead(c.name) {
				continue
			}
			if _, ok := buildArgs(probe, mt, 1, nil); !ok {
				continue
			}
			at("same-key race: %d goroutines call %s.%s with the same fresh key, %d rounds (keys 1000…)", G, c.name, m, rounds)
			obj, ora := c.mk(), c.mk()
			// half of the keys exist beforehand in both (so that …IfExist variants do something)
			for r := 0; r < rounds; r += 2 {
				insertN(obj, 1000+r, 1)
				insertN(ora, 1000+r, 1)
			}
			meth, ometh := reflect.ValueOf(obj).MethodByName(m), reflect.ValueOf(ora).MethodByName(m)
			hung := false
			for r := 0; r < rounds && !hung; r++ {
				args, _ := buildArgs(obj, meth.Type(), 1000+r, nil)
				var arrived int32
				var wg sync.WaitGroup
				for g := 0; g < G; g++ {
					wg.Add(1)
					go func() {
						defer wg.Done()
						atomic.AddInt32(&arrived, 1)
						for w := time.Now(); atomic.LoadInt32(&arrived) < int32(G) && time.Since(w) < 200*time.Microsecond; {
						}
						vh.Guard(func() { meth.Call(args) })
					}()
				}
				fin := make(chan struct{})
				go func() { wg.Wait(); close(fin) }()
				select {
				case <-fin:
				case <-time.After(hangLimit):
					hung = true
				}
				for g := 0; g < G; g++ { // the oracle: the same calls one after the other
					vh.Guard(func() { ometh.Call(args) })
				}
			}
			rep.Case(fmt.Sprintf("same-key-race %s.%s", c.name, m), true)
			rep.Count("same-key-race:methods")
			replay := map[string]interface{}{"type": c.name, "method": m, "goroutines": G, "rounds": rounds,
				"how": fmt.Sprintf("keys 1000,1002,… inserted beforehand; per round %d goroutines leave a barrier and call %s with key 1000+r; compare Size()/Contains with a fresh instance on which the same calls were made sequentially; then Remove every key once", G, m)}
			if hung {
				markDead(c.name)
				rep.Fail("property", c.name+"."+m+":blocks-forever", fmt.Sprintf("%d goroutines calling %s.%s with the same key did not finish within 25 s", G, c.name, m), replay)
				continue
			}
			size := func(o interface{}) string {
				s := "?"
				vh.GuardTimeout(hangLimit, func() { s = canon(reflect.ValueOf(o).MethodByName("Size").Call(nil)) })
				return s
			}
			contains := func(o interface{}, k int) string {
				s := "?"
				hm := firstMethod(o, containsNames...)
				a, _ := buildArgs(o, hm.Type(), k, nil)
				vh.GuardTimeout(hangLimit, func() { s = canon(hm.Call(a)) })
				return s
			}
			bad := ""
			if s1, s2 := size(obj), size(ora); s1 != s2 {
				bad = fmt.Sprintf("Size() = %s, the same calls made sequentially give %s", s1, s2)
			}
			for r := 0; r < rounds && bad == ""; r++ {
				if a, b := contains(obj, 1000+r), contains(ora, 1000+r); a != b {
					bad = fmt.Sprintf("Contains(key %d) = %s, sequentially %s", 1000+r, a, b)
				}
			}
			if bad == "" {
				rm := reflect.ValueOf(obj).MethodByName("Remove")
				for r := 0; r < rounds; r++ {
					a, _ := buildArgs(obj, rm.Type(), 1000+r, nil)
					vh.GuardTimeout(hangLimit, func() { rm.Call(a) })
				}
				for r := 0; r < rounds && bad == ""; r++ {
					if a := contains(obj, 1000+r); a != "false" {
						bad = fmt.Sprintf("after Remove(key %d), Contains still answers %s: the key had been inserted more than once", 1000+r, a)
					}
				}
				if s := size(obj); bad == "" && s != "0" {
					bad = fmt.Sprintf("after removing every key once Size() = %s", s)
				}
			}
			if bad != "" {
				rep.Fail("property", c.name+"."+m+":not-linearizable",
					fmt.Sprintf("%s.%s raced on one fresh key by %d goroutines: %s", c.name, m, G, bad), replay)
			}
		}
	}
}
