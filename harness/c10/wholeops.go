package main

// Whole-structure mutators (Sort, PutAll, ToObject, GetTimeout … — every exported method outside the
// point operations that writes the structure, and every exported method that takes caller code as an
// argument) against point operations.
//
// The property quantifies over point operations; a whole-structure operation need not be atomic (PutAll and
// ToObject are sequences of locked puts, KeyArray walks a live structure — noted, not judged).  But the
// point operations must stay linearizable *in its presence*.  What is judged here needs no knowledge of W
// beyond what the implementation shows single-threaded: if W alone leaves the content (size, membership,
// value under every key — order aside) of the prepared state unchanged — Sort, every read-only traversal —
// then W's sequential specification is the identity on the content, and whatever W does inside, a
// put / remove / clear that completed before, after or during W must have exactly the effect and the
// return value it has without W.  An implementation that takes a snapshot in one critical section and
// writes it back in a second one undoes every point operation that completed in between (the put key
// disappears, the removed key is back): no linearization of the point operations explains the final
// content.  Outcomes of content-changing bulk operations that match neither sequential order are counted
// (`whole-mutators:composite-outcome`), hangs are failures for every W.
//
// Two deterministic ways to put a point operation into the middle of the whole-structure operation:
//
//   (a) FIFO lock-step: the instance's own mutex is taken, W and the point operation X are parked behind
//       it (both orders) and the mutex is released in starvation mode (ownership handed over in arrival
//       order, later Lock() calls queue at the tail): if W consists of two critical sections, X runs
//       between them — no caller code, no timing luck needed;
//   (b) caller-code hook: if W takes a function (a comparator), that function — on its k-th call, i.e. in
//       the middle of W — lets another goroutine perform X on the same instance and waits ≤ 50 ms for it.
//       If W runs caller code under the lock X simply waits until W is done; if W runs it between two
//       critical sections X completes inside the window.  Any outcome of the wait is a legal schedule.
//
// Oracle: the implementation itself, run single-threaded on fresh instances in both orders (with an
// inert comparator).  Nothing depends on timing: a hang is decided by hangLimit only.

import (
	"fmt"
	"os"
	"reflect"
	"sort"
	"strings"
	"sync"
	"sync/atomic"
	"time"

	"verif/harness/vh"
)

var wholeInsertOrder = []int{4, 2, 5, 1, 3}

func wholeStates(c ctor) []prepState {
	return []prepState{
		{"five elements inserted in the order 4 2 5 1 3", func(o interface{}) bool {
			for _, k := range wholeInsertOrder {
				if !insertN(o, k, 1) {
					return false
				}
			}
			return true
		}, []int{1, 4}},
		{"two elements inserted in the order 2 1", func(o interface{}) bool {
			return insertN(o, 2, 1) && insertN(o, 1, 1)
		}, []int{1}},
	}
}

// observeContent: size, membership, the value under every key and the key set (sorted) — no order
func observeContent(typ string, obj interface{}) string {
	var parts []string
	v := reflect.ValueOf(obj)
	call := func(name string, k int) {
		m := v.MethodByName(name)
		if !m.IsValid() {
			return
		}
		args, ok := buildArgs(obj, m.Type(), k, nil)
		if !ok {
			return
		}
		res := "?"
		if o := vh.GuardTimeout(hangLimit, func() { res = canon(m.Call(args)) }); !o.OK() {
			res = o.String()
		}
		parts = append(parts, fmt.Sprintf("%s(%d)=%s", name, k, res))
	}
	call("Size", 0)
	probeKeys := []int{1, 2, 3, 4, 5, newKeyFor(typ)}
	if !strings.HasPrefix(typ, "Request") {
		for _, n := range containsNames {
			if v.MethodByName(n).IsValid() {
				for _, k := range probeKeys {
					call(n, k)
				}
				break
			}
		}
		if g := v.MethodByName("Get"); g.IsValid() && g.Type().NumIn() == 1 && g.Type().NumOut() == 1 {
			for _, k := range probeKeys {
				call("Get", k)
			}
		}
		if keys, why := enumerateKeys(obj, 64); why != "no-keys" && why != "no-enumerator" {
			sort.Strings(keys)
			parts = append(parts, fmt.Sprintf("KeySet=%v%s", keys, why))
		}
	}
	if m := v.MethodByName("ToArray"); m.IsValid() && m.Type().NumIn() == 0 {
		var xs []string
		vh.GuardTimeout(hangLimit, func() {
			r := m.Call(nil)[0]
			for i := 0; r.Kind() == reflect.Slice && i < r.Len(); i++ {
				xs = append(xs, canon1(r.Index(i)))
			}
		})
		sort.Strings(xs)
		parts = append(parts, fmt.Sprintf("Elements=%v", xs))
	}
	return strings.Join(parts, " ")
}

// observeFull: Size / Contains / ToArray as in `observe`, plus the values under the keys and the
// enumeration order of the keys
func observeFull(typ string, obj interface{}) string {
	var parts []string
	v := reflect.ValueOf(obj)
	if !strings.HasPrefix(typ, "Request") {
		if g := v.MethodByName("Get"); g.IsValid() && g.Type().NumIn() == 1 && g.Type().NumOut() == 1 {
			for _, k := range []int{1, 2, 3, 4, 5, newKeyFor(typ)} {
				args, ok := buildArgs(obj, g.Type(), k, nil)
				if !ok {
					break
				}
				res := "?"
				if o := vh.GuardTimeout(hangLimit, func() { res = canon(g.Call(args)) }); !o.OK() {
					res = o.String()
				}
				parts = append(parts, fmt.Sprintf("Get(%d)=%s", k, res))
			}
		}
		if keys, why := enumerateKeys(obj, 64); why != "no-keys" && why != "no-enumerator" {
			parts = append(parts, fmt.Sprintf("Keys=%v%s", keys, why))
		}
	}
	return strings.Join(parts, " ") + " " + observe(typ, obj)
}

type wholeCall struct {
	m    reflect.Value
	args []reflect.Value
}

// outcome of one run of W and X: the two returns, the content and the full observation afterwards
type wholeOut struct {
	rw, rx, content, full string
}

func (o wholeOut) String() string {
	return fmt.Sprintf("W=%s | X=%s || %s", o.rw, o.rx, o.full)
}

func wholeObserve(c ctor, obj interface{}, o *wholeOut) {
	o.content = observeContent(c.name, obj)
	o.full = observeFull(c.name, obj) // last: drains the queues
}

// wholeBuild builds the two calls on obj; `hook` (may be nil) replaces every function-typed argument of W
func wholeBuild(c ctor, obj interface{}, w, x ocall, hook func(ft reflect.Type) reflect.Value) (cw, cx wholeCall, ok bool) {
	mw, aw, ok1 := buildCall(obj, w, c.mk)
	mx, ax, ok2 := buildCall(obj, x, c.mk)
	if !ok1 || !ok2 {
		return cw, cx, false
	}
	if hook != nil {
		for i := 0; i < mw.Type().NumIn(); i++ {
			if mw.Type().In(i).Kind() == reflect.Func {
				aw[i] = hook(mw.Type().In(i))
			}
		}
	}
	return wholeCall{mw, aw}, wholeCall{mx, ax}, true
}

// wholeSequential runs on a fresh instance in the state: order "WX", "XW", "W" (W alone), "X" (X alone)
// or "" (nothing: the content of the state itself)
func wholeSequential(c ctor, st prepState, w, x ocall, order string) (wholeOut, bool) {
	var out wholeOut
	obj := c.mk()
	if !st.build(obj) {
		return out, false
	}
	cw, cx, ok := wholeBuild(c, obj, w, x, nil)
	if !ok {
		return out, false
	}
	o := vh.GuardTimeout(hangLimit, func() {
		for _, ch := range order {
			if ch == 'W' {
				out.rw = guardedCall(cw.m, cw.args)
			} else {
				out.rx = guardedCall(cx.m, cx.args)
			}
		}
	})
	if o.Timeout {
		return out, false
	}
	wholeObserve(c, obj, &out)
	return out, true
}

// wholeLockstep: W and X parked behind the instance lock (wFirst: W parked first), FIFO release
func wholeLockstep(c ctor, st prepState, w, x ocall, wFirst bool) (out wholeOut, hung, ok bool) {
	obj := c.mk()
	if !st.build(obj) {
		return out, false, false
	}
	l := instanceLock(obj)
	if l == nil {
		return out, false, false
	}
	cw, cx, ok := wholeBuild(c, obj, w, x, nil)
	if !ok {
		return out, false, false
	}
	calls := []func(){func() { out.rw = guardedCall(cw.m, cw.args) }, func() { out.rx = guardedCall(cx.m, cx.args) }}
	if !wFirst {
		calls[0], calls[1] = calls[1], calls[0]
	}
	l.Lock()
	var wg sync.WaitGroup
	for _, f := range calls {
		wg.Add(1)
		go func(f func()) { defer wg.Done(); f() }(f)
		time.Sleep(1500 * time.Microsecond) // park in this order (long enough to count as starving)
	}
	time.Sleep(2 * time.Millisecond)
	fifoRelease(l)
	done := make(chan struct{})
	go func() { wg.Wait(); close(done) }()
	select {
	case <-done:
	case <-time.After(hangLimit):
		return out, true, true
	}
	wholeObserve(c, obj, &out)
	return out, false, true
}

// wholeHooked: W runs; on the trigger-th call of its function argument another goroutine performs X
func wholeHooked(c ctor, st prepState, w, x ocall, trigger int) (out wholeOut, fired, inside, hung, ok bool) {
	obj := c.mk()
	if !st.build(obj) {
		return out, false, false, false, false
	}
	var calls, firedF, insideF int32
	xdone := make(chan struct{})
	var cx wholeCall
	runX := func() {
		defer close(xdone)
		out.rx = guardedCall(cx.m, cx.args)
	}
	hook := func(ft reflect.Type) reflect.Value {
		inner := lessFunc(ft)
		return reflect.MakeFunc(ft, func(in []reflect.Value) []reflect.Value {
			if atomic.AddInt32(&calls, 1) == int32(trigger) {
				atomic.StoreInt32(&firedF, 1)
				go runX()
				select {
				case <-xdone:
					atomic.StoreInt32(&insideF, 1) // X completed while W was still running its caller code
				case <-time.After(50 * time.Millisecond):
				}
			}
			return inner.Call(in)
		})
	}
	cw, cx2, ok := wholeBuild(c, obj, w, x, hook)
	if !ok {
		return out, false, false, false, false
	}
	cx = cx2
	o := vh.GuardTimeout(hangLimit, func() { out.rw = guardedCall(cw.m, cw.args) })
	if o.Timeout {
		return out, atomic.LoadInt32(&firedF) == 1, false, true, true
	}
	if atomic.LoadInt32(&firedF) == 0 {
		go runX() // the function was called fewer than `trigger` times: X after W (a plain sequential run)
	}
	select {
	case <-xdone:
	case <-time.After(hangLimit):
		return out, atomic.LoadInt32(&firedF) == 1, false, true, true
	}
	wholeObserve(c, obj, &out)
	return out, atomic.LoadInt32(&firedF) == 1, atomic.LoadInt32(&insideF) == 1, false, true
}

func hasFuncParam(mt reflect.Type) bool {
	for i := 0; i < mt.NumIn(); i++ {
		if mt.In(i).Kind() == reflect.Func {
			return true
		}
	}
	return false
}

func wholeMutators(env *vh.Env, rep *vh.Report, facts lockFacts) {
	reps := 2
	if env.Thorough {
		reps = 8
	}
	for _, c := range ctors {
		if isDead(c.name) || phaseOver() {
			continue
		}
		probe := c.mk()
		ins := insertName(probe)
		if ins == "" {
			continue
		}
		pv := reflect.ValueOf(probe)
		// point operations whose effect and return do not depend on the order of the elements …
		conflicts := []ocall{{ins, newKeyFor(c.name)}}
		if m := pv.MethodByName("Remove"); m.IsValid() && c.name != "LinkedList" {
			conflicts = append(conflicts, ocall{"Remove", oldKeySeed})
		}
		if pv.MethodByName("Clear").IsValid() {
			conflicts = append(conflicts, ocall{"Clear", 0})
		}
		orderFree := len(conflicts)
		if strings.HasPrefix(c.name, "Request") || c.name == "LinkedList" {
			orderFree = 0 // a queue's / list's content is its order
		}
		// … and those that do (judged for hangs only)
		for _, n := range []string{"RemoveFirst", "RemoveLast", "GetNoWait"} {
			if pv.MethodByName(n).IsValid() {
				conflicts = append(conflicts, ocall{n, 0})
			}
		}
		for _, w := range methodNames(probe) {
			if isDead(c.name) || phaseOver() {
				break
			}
			mt := pv.MethodByName(w).Type()
			takesFunc := hasFuncParam(mt)
			if c.name == "LinkedList" && entityAPI[w] {
				continue // the caller must own the entity: not callable concurrently with removers
			}
			if !takesFunc {
				if isPointOp(c.name, w) {
					continue // point operations: oracle lock-step
				}
				if facts != nil && !facts.mutatesWithin(c.name, w, len(facts[c.name])+1) {
					continue // read-only whole-structure operations: traversal hooks
				}
			}
			rep.Count("whole-mutators:methods")
			failed := false
			for si, st := range wholeStates(c) {
				for xi, x := range conflicts {
					if failed || isDead(c.name) {
						break
					}
					wc := ocall{w, st.present[0]}
					if w == "GetTimeout" {
						wc.seed = 1 // the argument is a timeout
					}
					s0, ok0 := wholeSequential(c, st, wc, x, "")
					sW, okW := wholeSequential(c, st, wc, x, "W")
					sX, okX := wholeSequential(c, st, wc, x, "X")
					sWX, ok1 := wholeSequential(c, st, wc, x, "WX")
					sXW, ok2 := wholeSequential(c, st, wc, x, "XW")
					if !(ok0 && okW && okX && ok1 && ok2) {
						continue
					}
					// W's sequential specification is the identity on the content: learnt from W alone,
					// before and after X
					neutral := sW.rw != "panic" && sW.content == s0.content && sWX.content == sX.content && sXW.content == sX.content &&
						sWX.rx == sX.rx && sXW.rx == sX.rx
					judged := neutral && xi < orderFree
					if neutral {
						rep.Count("whole-mutators:content-neutral (W, state, X) triples")
					}
					check := func(how string, conc wholeOut, hung bool) {
						replay := map[string]interface{}{"type": c.name, "state": st.name, "whole_structure_operation": wc.String(), "point_operation": x.String(),
							"concurrent": conc.String(), "sequential_orders": []string{sWX.String(), sXW.String()},
							"content_after_point_operation_alone": sX.content, "point_operation_alone_returns": sX.rx,
							"content_concurrent": conc.content, "how": how}
						switch {
						case hung:
							rep.Fail("property", c.name+"."+w+":blocks-forever",
								fmt.Sprintf("%s.%s together with %v (state '%s') did not finish within 25 s", c.name, w, x, st.name), replay)
							markDead(c.name)
							failed = true
						case judged && (conc.content != sX.content || conc.rx != sX.rx):
							rep.Fail("property", c.name+"."+w+":not-linearizable",
								fmt.Sprintf("%s in state '%s': %v (alone it leaves size, membership and values unchanged) overlapped with %v; after both returned the point operation's effect is not there: it returned %q (alone: %q), content %q, expected %q — a completed point operation was undone",
									c.name, st.name, wc, x, conc.rx, sX.rx, vh.Clip(conc.content, 160), vh.Clip(sX.content, 160)), replay)
							failed = true
						case conc.String() != sWX.String() && conc.String() != sXW.String():
							rep.Count("whole-mutators:composite-outcome (matches neither sequential order; bulk operation made of several critical sections or walking a live structure — noted, outside the quantifier)")
						}
					}
					// (a) FIFO lock-step, both parking orders
					for _, wf := range []bool{true, false} {
						for r := 0; r < reps && !failed && os.Getenv("C10_WHOLE_ONLY") != "hook"; r++ {
							at("whole-structure lock-step %s state '%s': %v and %v parked behind the instance lock (W first: %v), FIFO release", c.name, st.name, wc, x, wf)
							conc, hung, ok := wholeLockstep(c, st, wc, x, wf)
							if !ok {
								break
							}
							rep.Case(fmt.Sprintf("whole-lockstep %s %s %v %v wfirst=%v", c.name, st.name, wc, x, wf), true)
							rep.Count("whole-mutators:lock-step-runs")
							check("bring a fresh instance into the state, take its mutex by reflection, start the two calls 1.5 ms apart in the given order, release the mutex in starvation (FIFO) mode, wait for both; compare the point operation's return and Size/Contains/Get/key set with the point operation alone on a fresh instance", conc, hung)
						}
					}
					// (b) caller-code hook
					if takesFunc && os.Getenv("C10_WHOLE_ONLY") != "lockstep" {
						for ti, trigger := range []int{1, 3} {
							if failed || (ti > 0 && (si > 0 || xi >= orderFree) && !env.Thorough) {
								break
							}
							at("whole-structure hook %s state '%s': %v; on call %d of its function argument another goroutine calls %v", c.name, st.name, wc, trigger, x)
							conc, fired, inside, hung, ok := wholeHooked(c, st, wc, x, trigger)
							if !ok {
								break
							}
							rep.Case(fmt.Sprintf("whole-hook %s %s %v %v trigger=%d", c.name, st.name, wc, x, trigger), fired)
							rep.Count("whole-mutators:hook-runs")
							if fired {
								rep.Count("whole-mutators:hook-fired-mid-call")
							}
							if inside {
								rep.Count("whole-mutators:point-op-completed-while-caller-code-ran")
							}
							check(fmt.Sprintf("call %s with a comparator that, on its call number %d, starts a goroutine calling %v on the same instance and waits ≤ 50 ms for it; wait for both; compare the point operation's return and Size/Contains/Get/key set with the point operation alone on a fresh instance", w, trigger, x), conc, hung)
						}
					}
				}
			}
		}
	}
}
