package main

// Supervisor / worker split.
//
// A Go program cannot recover from the runtime's fatal errors ("sync: unlock of unlocked mutex",
// "concurrent map writes", "all goroutines are asleep - deadlock!").  A change of the implementation that
// provokes one inside a probe must be a *finding*, not the death of the harness.  Therefore the process
// started by `check` is only a supervisor: every phase runs in a worker process (this same binary with
// `-child phase:<name>`), which writes a report of its own.  The supervisor merges the workers' reports;
// if a worker dies, it reads the crash from the worker's stderr — the fatal message, the first frame of
// the crashing goroutine that lies in the repository (`<Type>.<Method>`), and the last `##AT` marker the
// worker printed (the probe and the operation history it was running) —, records
// `<Type>.<Method>:fatal` (kind property), marks the type as dead and runs the phase again without it.

import (
	"bytes"
	"encoding/json"
	"fmt"
	"os"
	"os/exec"
	"path/filepath"
	"regexp"
	"strings"
	"time"

	"verif/harness/vh"
)

var workerMode bool

// at: the worker announces what it is about to do (read by the supervisor after a crash)
func at(format string, a ...interface{}) {
	if workerMode {
		fmt.Fprintf(os.Stderr, "##AT "+format+"\n", a...)
	}
}

type phaseDef struct {
	name string
	run  func(env *vh.Env, rep *vh.Report, ctx *phaseCtx)
}

type phaseCtx struct {
	only  map[string]bool
	facts lockFacts
	fams  func() []*family
	rng   *vh.Rng
}

var phases = []phaseDef{
	{"sweep", func(env *vh.Env, rep *vh.Report, c *phaseCtx) { sweep(env, rep, c.only, c.facts) }},
	{"queues", func(env *vh.Env, rep *vh.Report, c *phaseCtx) {
		blockingQueues(env, rep)
		partialWakeups(env, rep)
		orphanConsumers(env, rep)
		timedGetAmongWaiters(env, rep)
		containerArgProbes(env, rep)
		readLockWriterStress(env, rep, c.facts)
	}},
	{"reentry-samekey", func(env *vh.Env, rep *vh.Report, c *phaseCtx) {
		reentryUnderWriters(env, rep, c.facts)
		sameKeyRaces(env, rep)
		bulkAmongPointOps(env, rep, c.facts)
	}},
	{"panic-safety", func(env *vh.Env, rep *vh.Report, c *phaseCtx) { panicSafety(env, rep) }},
	{"callbacks", func(env *vh.Env, rep *vh.Report, c *phaseCtx) { callbackReentrancy(env, rep) }},
	{"result-aliasing", func(env *vh.Env, rep *vh.Report, c *phaseCtx) { resultAliasing(env, rep) }},
	{"traversal-hooks", func(env *vh.Env, rep *vh.Report, c *phaseCtx) { traversalHooks(env, rep, c.facts) }},
	{"whole-mutators", func(env *vh.Env, rep *vh.Report, c *phaseCtx) { wholeMutators(env, rep, c.facts) }},
	{"sequential", func(env *vh.Env, rep *vh.Report, c *phaseCtx) { sequential(env, rep, c.rng.Fork(), c.fams()) }},
	{"lock-step", func(env *vh.Env, rep *vh.Report, c *phaseCtx) { lockstep(env, rep, c.fams()) }},
	{"oracle-lock-step", func(env *vh.Env, rep *vh.Report, c *phaseCtx) { oracleLockstep(env, rep, c.facts) }},
	{"growth-removers", func(env *vh.Env, rep *vh.Report, c *phaseCtx) { growthAndRemovers(env, rep) }},
	{"stress", func(env *vh.Env, rep *vh.Report, c *phaseCtx) { stress(env, rep, c.rng.Fork(), c.fams()) }},
	{"race-pairs", func(env *vh.Env, rep *vh.Report, c *phaseCtx) { race(env, rep) }},
}

// ---------------------------------------------------------------- worker

func runPhaseWorker(name string, env *vh.Env, rep *vh.Report) {
	workerMode = true
	initDeadFromEnv()
	childWatchdog()
	var def *phaseDef
	for i := range phases {
		if phases[i].name == name {
			def = &phases[i]
		}
	}
	if def == nil {
		vh.Die("unknown phase %s", name)
	}
	ctx := &phaseCtx{only: replayFilter(env), rng: vh.NewRng(env.Seed ^ uint64(len(name))*0x9e37)}
	var fams []*family
	ctx.fams = func() []*family {
		if fams == nil {
			fams = allFamilies()
		}
		return fams
	}
	switch name {
	case "sweep", "queues", "oracle-lock-step", "traversal-hooks", "reentry-samekey", "whole-mutators":
		ctx.facts = loadFacts(env, rep)
	}
	// a worker that stalls is ended by its own deadline, with what it has
	go func() {
		limit := 2*phaseBudgets[name][0] + 60*time.Second
		if env.Thorough {
			limit = 2*phaseBudgets[name][1] + 60*time.Second
		}
		time.Sleep(limit)
		repMu.Lock()
		// hangs of the implementation are reported by the per-call watchdogs (hangLimit); a phase that merely
		// runs long on a busy machine is reduced coverage, not a finding
		rep.Note("phase %s did not finish within its limit (busy machine?): partial report written, reduced coverage", name)
		rep.Count("phase-cut-short:" + name)
		rep.Extra["dead"] = deadList()
		rep.Write(env.Out)
		os.Exit(0)
	}()
	if name == "stress" || name == "race-pairs" {
		def.run(env, rep, ctx) // these two manage their budget themselves
	} else {
		inPhase(env, rep, name, func() { def.run(env, rep, ctx) })
	}
	repMu.Lock()
	rep.Extra["dead"] = deadList()
	rep.Write(env.Out)
	os.Exit(0)
}

// ---------------------------------------------------------------- supervisor

var repoFrameRe = regexp.MustCompile(`github\.com/whatap/golib/util/\w+\.\(\*?(\w+)\)\.(\w+)\(`)

// crashOf extracts (fatal message, Type.Method of the first repository frame of the crashing goroutine,
// last ##AT marker, stack excerpt) from a dead worker's stderr.
func crashOf(stderr []byte) (msg, tm, marker, stack string) {
	s := string(stderr)
	i := strings.LastIndex(s, "fatal error:")
	if j := strings.LastIndex(s, "\npanic: "); j > i {
		i = j + 1
	}
	if i < 0 {
		return "", "", lastMarker(s), vh.Clip(s[max(0, len(s)-600):], 600)
	}
	marker = lastMarker(s[:i])
	rest := s[i:]
	if nl := strings.Index(rest, "\n"); nl > 0 {
		msg = strings.TrimSpace(rest[:nl])
	}
	// the first goroutine printed after the message is the crashing one
	g := rest
	if k := strings.Index(rest, "\ngoroutine "); k >= 0 {
		g = rest[k+1:]
		if e := strings.Index(g, "\n\n"); e > 0 {
			g = g[:e]
		}
	}
	if m := repoFrameRe.FindStringSubmatch(g); m != nil {
		tm = m[1] + "." + m[2]
	} else if m := repoFrameRe.FindStringSubmatch(rest); m != nil {
		tm = m[1] + "." + m[2]
	}
	return msg, tm, marker, vh.Clip(g, 1200)
}

func lastMarker(s string) string {
	i := strings.LastIndex(s, "##AT ")
	if i < 0 {
		return ""
	}
	e := strings.Index(s[i:], "\n")
	if e < 0 {
		return s[i+5:]
	}
	return s[i+5 : i+e]
}

type subReport struct {
	Evaluations  int                    `json:"evaluations"`
	Distinct     int                    `json:"distinct_nontrivial"`
	Samples      []interface{}          `json:"samples"`
	Distribution map[string]int         `json:"distribution"`
	Failures     []vh.Failure           `json:"failures"`
	Notes        []string               `json:"notes"`
	Extra        map[string]interface{} `json:"extra"`
}

func merge(rep *vh.Report, phase string, sub *subReport) {
	for i := 0; i < sub.Distinct; i++ {
		rep.Case(fmt.Sprintf("%s#%d", phase, i), true)
	}
	if sub.Evaluations > sub.Distinct {
		rep.Evaluations += sub.Evaluations - sub.Distinct
	}
	for k, n := range sub.Distribution {
		rep.CountN(k, n)
	}
	for _, f := range sub.Failures {
		rep.Fail(f.Kind, f.Key, f.Summary, f.Replay)
	}
	for _, n := range sub.Notes {
		rep.Note("%s", n)
	}
	for _, s := range sub.Samples {
		rep.Sample(s)
	}
	if d, ok := sub.Extra["dead"].(string); ok {
		for _, t := range strings.Split(d, ",") {
			if t != "" {
				markDead(t)
			}
		}
	}
}

func supervise(env *vh.Env, rep *vh.Report) {
	startDeadline(env, rep)
	wd, _ := os.Getwd()
	replayOnly := env.Replay != "" && replayFilter(env) != nil
	for _, ph := range phases {
		if replayOnly && ph.name != "sweep" {
			continue
		}
		for attempt := 0; attempt < 4; attempt++ {
			out := filepath.Join(wd, "phase-"+ph.name+".json")
			os.Remove(out)
			args := []string{"-child", "phase:" + ph.name, "-driver", env.Driver, "-tier", env.Tier, "-seed", fmt.Sprint(env.Seed), "-repo", env.Repo, "-out", out}
			if env.Replay != "" {
				args = append(args, "-replay", env.Replay)
			}
			limit := 2*phaseBudgets[ph.name][0] + 90*time.Second
			if env.Thorough {
				limit = 2*phaseBudgets[ph.name][1] + 90*time.Second
			}
			args = append(args, "-deadline", fmt.Sprint(time.Now().Add(limit).Unix()))
			cmd := exec.Command(os.Args[0], args...)
			cmd.Env = append(os.Environ(), "VERIF_SKIP_TYPES="+deadList())
			var eb bytes.Buffer
			cmd.Stderr = &eb
			err := runChild2(cmd, limit+30*time.Second)
			var sub subReport
			b, rerr := os.ReadFile(out)
			haveReport := rerr == nil && json.Unmarshal(b, &sub) == nil
			if haveReport {
				merge(rep, ph.name, &sub)
				break
			}
			// the worker died without a report
			msg, tm, marker, stack := crashOf(eb.Bytes())
			rep.Count("worker-crashed:" + ph.name)
			replay := map[string]interface{}{"phase": ph.name, "fatal": msg, "probe": marker, "crashing_goroutine": stack,
				"how": "the harness phase '" + ph.name + "' ran in a worker process which died with this runtime fatal; the probe line says which operation (and history) it was executing"}
			if tm != "" && msg != "" {
				rep.Fail("property", tm+":fatal",
					fmt.Sprintf("%s brought the process down with an unrecoverable runtime error (%s) while the harness ran: %s", tm, msg, vh.Clip(marker, 160)), replay)
				markDead(strings.Split(tm, ".")[0])
				continue // run the phase again without that type
			}
			if msg == "" {
				// no crash message: the worker was ended at its hard limit (busy machine) — reduced coverage
				rep.Note("the worker of phase %s ended without a report and without a crash (%v): reduced coverage in this run", ph.name, err)
				rep.Count("phase-cut-short:" + ph.name)
				break
			}
			rep.Fail("correspondence", "harness:"+ph.name+"-worker-died",
				fmt.Sprintf("the worker of phase %s ended without a report (%v; %s)", ph.name, err, vh.Clip(msg+" "+marker, 200)), replay)
			break
		}
	}
	repMu.Lock()
	rep.Write(env.Out)
	killChildren()
	os.Exit(0)
}
