package main

// Lock-step probe: a deterministic schedule for "reads shared state before taking the lock, then
// acts on it under the lock" (check-then-act).  The harness takes the instance's own mutex (found
// by type through reflection), starts k goroutines that each call one point operation, waits until
// all of them are parked — a method that follows the discipline parks at its first statement
// (`Lock()`), one that does not has already read what it wanted —, releases the mutex and checks the
// resulting k-operation history for linearizability like any other.  It needs no timing luck, so it
// also works on a loaded machine where random stress rarely hits a narrow window.

import (
	"fmt"
	"reflect"
	"strings"
	"sync"
	"time"
	"unsafe"

	"verif/harness/vh"
)

var (
	tMutex   = reflect.TypeOf(sync.Mutex{})
	tRWMutex = reflect.TypeOf(sync.RWMutex{})
	tCondP   = reflect.TypeOf((*sync.Cond)(nil))
)

// instanceLock finds the instance lock of a collection object.
func instanceLock(obj interface{}) sync.Locker {
	v := reflect.ValueOf(obj)
	if v.Kind() != reflect.Ptr || v.Elem().Kind() != reflect.Struct {
		return nil
	}
	e := v.Elem()
	for i := 0; i < e.NumField(); i++ {
		f := e.Field(i)
		switch f.Type() {
		case tMutex:
			return (*sync.Mutex)(unsafe.Pointer(f.UnsafeAddr()))
		case tRWMutex:
			return (*sync.RWMutex)(unsafe.Pointer(f.UnsafeAddr()))
		case tCondP:
			c := *(**sync.Cond)(unsafe.Pointer(f.UnsafeAddr()))
			if c != nil {
				return c.L
			}
		}
	}
	return nil
}

// the object behind a family target
func objectOf(t target) interface{} {
	switch x := t.(type) {
	case *mapTarget:
		return x.obj
	case *dequeTarget:
		return x.l
	case *qTarget:
		if x.q != nil {
			return x.q
		}
		return x.d
	}
	return nil
}

type lockstepCase struct {
	prefill []call
	calls   []call
}

func lockstepCases(f *family) []lockstepCase {
	var cs []lockstepCase
	one := []call{{"put", 1, 1}}
	switch {
	case has(f.kinds, "remFirst") && has(f.kinds, "put"):
		cs = append(cs,
			lockstepCase{one, []call{{"remFirst", 0, 0}, {"remFirst", 0, 0}}},
			lockstepCase{one, []call{{"remLast", 0, 0}, {"remLast", 0, 0}}},
			lockstepCase{one, []call{{"remFirst", 0, 0}, {"remLast", 0, 0}, {"remFirst", 0, 0}}},
			lockstepCase{one, []call{{"rem", 1, 0}, {"remFirst", 0, 0}}},
			lockstepCase{one, []call{{"clear", 0, 0}, {"remLast", 0, 0}}},
			lockstepCase{nil, []call{{"put", 1, 1}, {"put", 1, 2}, {"remFirst", 0, 0}}})
	case has(f.kinds, "put"):
		cs = append(cs,
			lockstepCase{one, []call{{"rem", 1, 0}, {"rem", 1, 0}}},
			lockstepCase{nil, []call{{"put", 1, 1}, {"put", 1, 2}, {"rem", 1, 0}}})
	case has(f.kinds, "addLast"):
		cs = append(cs,
			lockstepCase{[]call{{"addLast", 1, 0}}, []call{{"remFirst", 0, 0}, {"remFirst", 0, 0}}},
			lockstepCase{[]call{{"addLast", 1, 0}}, []call{{"remFirst", 0, 0}, {"remLast", 0, 0}, {"addFirst", 2, 0}}})
	case has(f.kinds, "qforce"):
		cs = append(cs,
			lockstepCase{[]call{{"qput", 1, 0}, {"qput", 2, 0}}, []call{{"qforce", 3, 0}, {"qget", 0, 0}, {"qput", 4, 0}}},
			lockstepCase{[]call{{"qput", 1, 0}}, []call{{"qget", 0, 0}, {"qget", 0, 0}}})
	case has(f.kinds, "qforce1"):
		cs = append(cs,
			lockstepCase{[]call{{"qput1", 1, 0}, {"qput2", 2, 0}}, []call{{"qforce1", 3, 0}, {"qget", 0, 0}, {"qget", 0, 0}}})
	}
	return cs
}

type lockstepOut struct {
	Runs  int          `json:"runs"`
	Fails []stressFail `json:"fails"`
}

func lockstep(env *vh.Env, rep *vh.Report, fams []*family) {
	reps := 3
	if env.Thorough {
		reps = 40
	}
	var mu sync.Mutex
	var wg sync.WaitGroup
	for _, f := range fams {
		wg.Add(1)
		go func(f *family) {
			defer wg.Done()
			dead := isDead(f.typ)
			for _, lc := range lockstepCases(f) {
				for r := 0; r < reps && !dead && !(r >= 2 && phaseOver()); r++ {
					at("lock-step %s prefill %v calls %v", f.typ, lc.prefill, lc.calls)
					hist, why := lockstepRun(f, lc)
					if strings.Contains(why, "did not finish") {
						dead = true // do not pile up watchdog waits on a type that hangs
						markDead(f.typ)
					}
					mu.Lock()
					rep.Case(fmt.Sprintf("lockstep %s %v %v", f.typ, lc.prefill, lc.calls), true)
					rep.Count("lockstep:runs")
					if why == "no-lock" {
						rep.Fail("correspondence", f.typ+":instance-lock-not-found", "the harness found no sync.Mutex / *sync.Cond field to hold", nil)
					} else if why != "" {
						key := f.typ + ":not-linearizable"
						for _, h := range hist {
							if h.Ret == "panic" {
								key = f.typ + "." + kindMethod(h.C.Kind) + ":panic-under-concurrency"
							}
						}
						rep.Fail("property", key, fmt.Sprintf("%s: %d operations started while the instance lock was held and released together: %s", f.typ, len(lc.calls), why),
							map[string]interface{}{"type": f.typ, "prefill": lc.prefill, "history": hist,
								"how": "hold the instance lock, start one goroutine per call, wait 15 ms, release the lock, collect the returns"})
					}
					mu.Unlock()
				}
			}
		}(f)
	}
	wg.Wait()
}

func kindMethod(k string) string {
	return map[string]string{"remFirst": "RemoveFirst", "remLast": "RemoveLast", "rem": "Remove", "put": "Put", "get": "Get",
		"has": "Contains", "size": "Size", "empty": "IsEmpty", "clear": "Clear",
		"addFirst": "AddFirst", "addLast": "AddLast", "add": "Add", "qput": "Put", "qforce": "PutForce", "qget": "GetNoWait",
		"qsize": "Size", "qclear": "Clear", "qsetcap": "SetCapacity", "qgetcap": "GetCapacity", "qput1": "Put1", "qput2": "Put2",
		"qforce1": "PutForce1", "qforce2": "PutForce2", "qsize1": "Size1", "qsize2": "Size2"}[k]
}

func lockstepRun(f *family, lc lockstepCase) ([]hop, string) {
	tgt := f.newTarget()
	l := instanceLock(objectOf(tgt))
	if l == nil {
		return nil, "no-lock"
	}
	var hist []hop
	for i, c := range lc.prefill {
		hist = append(hist, hop{Tid: -1, C: c, Ret: tgt.apply(c), T0: int64(i) - 1000, T1: int64(i) - 1000})
	}
	res := make([]hop, len(lc.calls))
	base := time.Now()
	l.Lock()
	var wg sync.WaitGroup
	for g, c := range lc.calls {
		wg.Add(1)
		go func(g int, c call) {
			defer wg.Done()
			t0 := int64(time.Since(base))
			ret := tgt.apply(c)
			res[g] = hop{Tid: g, C: c, Ret: ret, T0: t0, T1: int64(time.Since(base))}
		}(g, c)
		time.Sleep(2 * time.Millisecond) // park them in a known order
	}
	time.Sleep(3 * time.Millisecond)
	fifoRelease(l) // parked operations and their later Lock() calls are served in FIFO order
	done := make(chan struct{})
	go func() { wg.Wait(); close(done) }()
	select {
	case <-done:
	case <-time.After(hangLimit):
		return hist, "the operations did not finish within 25 s after the lock was released"
	}
	hist = append(hist, res...)
	if linearize(f, hist) == nil {
		return hist, "the returned values have no sequential explanation"
	}
	return hist, ""
}

func unsafePointer(v reflect.Value) unsafe.Pointer { return unsafe.Pointer(v.UnsafeAddr()) }
