// Harness for C10: shared collections are linearizable, race-free and never self-deadlock.
//
//	1 sweep      every exported method of every collection type (found by reflection) is called
//	             once on a small populated instance and once on an empty one under a watchdog:
//	             timeout ⇒ `<Type>.<Method>:deadlock`, panic ⇒ `<Type>.<Method>:panic`, and after
//	             every call the instance must still answer Size() (no lock left behind).
//	2 sequential random single-threaded histories of the point operations: implementation vs Go mirror
//	             vs Lean driver (drv_c10 runs Golib/Conc/SeqSpec.lean) — validates the mirror and the
//	             probe tables used by 3.
//	3 stress     2–16 goroutines run seeded programs on one shared instance; the recorded history
//	             (call/return stamps) must be linearizable w.r.t. the mirror; every witness
//	             linearization is re-executed by the Lean driver, and the same history is replayed as
//	             a schedule of the proved mutex-object machine (Golib/Conc/Mutex.lean) by the driver.
//	3b lock-step the harness holds the instance's own mutex, starts k point operations, releases it and
//	             checks the k-operation history: deterministic schedule for check-then-act (lockstep.go)
//	4 race       a child process built with -race runs, for every type and every exported method,
//	             that method against a loop of locked mutators on a shared instance; a race report
//	             inside a point operation ⇒ `<Type>.<Method>:data-race`.
//
// None of this stands in for the theorems (Props/C10.lean) or the regenerated lock tables
// (Props/C10Gen.lean); it ties the model to the code and produces replays.
package main

import (
	"encoding/json"
	"flag"
	"fmt"
	"os"
	"sort"
	"strings"
	"sync/atomic"
	"time"

	"verif/harness/vh"
)

var childMode = flag.String("child", "", "internal: run as the race child (pairs|stress)")

// whole-structure operations, enumerator constructors and diagnostics: outside the property's
// quantifier over *point* operations for linearizability and race freedom (they still must not
// self-deadlock).  Must agree with `wholeStructure` in lean/Golib/Props/C10Gen.lean.
var wholeStructure = map[string]bool{
	"Keys": true, "Values": true, "Entries": true, "ValueIterator": true, "KeyArray": true, "ValueArray": true,
	"GetKeySet": true, "ToKeySet": true, "ToString": true, "ToFormatString": true, "ToBytes": true,
	"ToObject": true, "Sort": true, "PutAll": true, "ToArray": true, "GetArray": true,
	"GetFirst": true, "GetLast": true, "GetNext": true, "PutBefore": true,
	"ToString1": true, "ToString2": true, "GetTimeout": true,
}

// entity-pointer API of LinkedList: the caller must own the entity; not callable concurrently
var entityAPI = map[string]bool{"Remove": true, "PutBefore": true, "GetNext": true}

// blocking by design (waits for a producer), not a self-deadlock
func blocksByDesign(typ, m string, empty bool) bool {
	return empty && m == "Get" && (typ == "RequestQueue" || typ == "RequestDoubleQueue")
}

func isPointOp(typ, m string) bool {
	if wholeStructure[m] {
		// GetFirst/GetLast of the sets/maps are point reads; of LinkedList they return entity pointers
		if (m == "GetFirst" || m == "GetLast") && typ != "LinkedList" {
			return true
		}
		return false
	}
	if typ == "LinkedList" && entityAPI[m] {
		return false
	}
	return true
}

func main() {
	env, rep := vh.Parse("C10")
	rep.Rule = "sweep: one case per (type, exported method, prepared state, existing|new key); " +
		"sequential: random histories of point operations, non-trivial when ≥1 operation changes the abstract state; " +
		"lock-step / oracle: one case per parked k-operation history; stress: one case per concurrent round, non-trivial when ≥2 operations overlap in time; " +
		"race: one case per (type, method) pair run under the race detector; every phase runs in a worker process (a runtime fatal is a finding)"
	switch {
	case strings.HasPrefix(*childMode, "phase:"):
		runPhaseWorker(strings.TrimPrefix(*childMode, "phase:"), env, rep)
	case *childMode != "":
		initDeadFromEnv()
		runChild(*childMode, env)
	default:
		supervise(env, rep)
	}
}

// replayFilter: `-replay FILE` re-runs the sweep for the (type, method) named by the replay's key.
func replayFilter(env *vh.Env) map[string]bool {
	if env.Replay == "" {
		return nil
	}
	b, err := os.ReadFile(env.Replay)
	if err != nil {
		vh.Die("cannot read replay: %v", err)
	}
	var r struct {
		Key string `json:"key"`
	}
	json.Unmarshal(b, &r)
	i := strings.Index(r.Key, ":")
	if i < 0 || !strings.Contains(r.Key[:i], ".") {
		return nil // not a (type, method) key: run everything
	}
	return map[string]bool{r.Key[:i]: true}
}

// ---------------------------------------------------------------- 1 sweep

// ---------------------------------------------------------------- 2 sequential correspondence

func sequential(env *vh.Env, rep *vh.Report, rng *vh.Rng, fams []*family) {
	nHist, nOps := 40, 40
	if env.Thorough {
		nHist, nOps = 1500, 150
	}
	type item struct {
		f     *family
		calls []call
		rets  []string
		facts []string
		final string
	}
	var items []item
	var lines []string
	for _, f := range fams {
		for h := 0; h < nHist && !isDead(f.typ) && !(h >= 20 && phaseOver()); h++ {
			n := 1 + rng.Intn(nOps)
			it := item{f: f}
			tgt := f.newTarget()
			mod := f.newModel()
			changed := false
			var ls []string
			// the calls are drawn first; the implementation then runs them under one watchdog, so that an
			// operation that never returns is an outcome of this history, not a stall of the harness
			for i := 0; i < n; i++ {
				c := f.gen(rng, f.kinds)
				before := mod.key()
				it.calls = append(it.calls, c)
				it.facts = append(it.facts, mod.apply(c))
				if mod.key() != before {
					changed = true
				}
				ls = append(ls, c.lineFor(f))
				rep.Count("seq-op:" + c.Kind)
			}
			rets := make([]string, 0, n)
			var progress int32
			at("sequential %s: %v", f.typ, ls)
			o := vh.GuardTimeout(hangLimit, func() {
				for _, c := range it.calls {
					rets = append(rets, tgt.apply(c))
					atomic.AddInt32(&progress, 1)
				}
			})
			if o.Timeout {
				k := int(atomic.LoadInt32(&progress))
				rep.Fail("property", f.typ+"."+kindMethod(it.calls[k].Kind)+":blocks-forever",
					fmt.Sprintf("single-threaded %s: call %d %v did not return within 25 s", f.typ, k, it.calls[k]),
					map[string]interface{}{"type": f.typ, "calls": it.calls[:k+1]})
				markDead(f.typ)
				break // this type hangs: its remaining histories would only wait for the watchdog
			}
			it.rets = rets
			it.final = mod.key()
			items = append(items, it)
			line := f.drvPrefix + " " + strings.Join(ls, ";")
			lines = append(lines, line)
			rep.Case(f.typ+" "+line, changed)
		}
	}
	outs, err := vh.RunDriver(env.Driver, lines)
	if err != nil {
		vh.Die("driver: %v", err)
	}
	for i, it := range items {
		// (a) mirror vs Lean spec
		want := strings.Join(it.facts, ";")
		got := outs[i]
		if j := strings.Index(got, " | "); j >= 0 {
			got = got[:j]
		}
		if got != want {
			rep.Fail("correspondence", it.f.typ+":mirror-vs-spec",
				"the Go mirror of the sequential spec disagrees with the Lean driver (harness defect or spec change)",
				map[string]interface{}{"line": lines[i], "mirror": want, "driver": outs[i]})
			continue
		}
		// (b) implementation vs mirror (through the probe table)
		for k, c := range it.calls {
			exp, cmp := it.f.render(c, it.facts[k])
			if !cmp {
				rep.Count("seq:not-comparable")
				continue
			}
			if exp != it.rets[k] {
				kind := "correspondence"
				key := it.f.typ + "." + kindMethod(c.Kind) + ":sequential-return"
				if it.rets[k] == "panic" {
					kind, key = "property", it.f.typ+"."+kindMethod(c.Kind)+":panic"
				}
				rep.Fail(kind, key,
					fmt.Sprintf("single-threaded %s: call %d %v returned %q, the sequential model predicts %q", it.f.typ, k, c, it.rets[k], exp),
					map[string]interface{}{"type": it.f.typ, "calls": it.calls[:k+1], "returned": it.rets[k], "expected": exp})
				break
			}
		}
	}
	if len(items) > 0 {
		rep.Sample(map[string]interface{}{"sequential": lines[0], "driver": outs[0]})
	}
}

// ---------------------------------------------------------------- 3 stress + linearizability

type stressFail struct {
	Typ     string `json:"type"`
	Key     string `json:"key"`
	Summary string `json:"summary"`
	Hist    []hop  `json:"history"`
}

// end of the stress phase (parent: from the phase budget; child: from -deadline)
var stressEnd time.Time
var stressStart time.Time

func stressTypeEnd(i, n int) time.Time {
	end := stressEnd
	if *childDeadline > 0 {
		end = time.Unix(*childDeadline, 0)
	}
	if end.IsZero() {
		return end
	}
	if stressStart.IsZero() {
		stressStart = time.Now()
	}
	total := end.Sub(stressStart)
	return stressStart.Add(total * time.Duration(i+1) / time.Duration(n))
}

type stressOut struct {
	Cut     int            `json:"types_cut_short"`
	Rounds  int            `json:"rounds"`
	Overlap int            `json:"overlapping"`
	Ops     map[string]int `json:"ops"`
	Fails   []stressFail   `json:"fails"`
	Witness []string       `json:"witness_lines"` // sequential driver lines of witness linearizations
	WFacts  []string       `json:"witness_facts"` // facts the mirror computed along them
	Machine []string       `json:"machine_lines"` // schedules for the mutex-object machine
	MFacts  []string       `json:"machine_facts"` // per schedule: the returns in order of the ret actions
	Samples []interface{}  `json:"samples"`
	Goro    map[string]int `json:"goroutines"`
}

func overlapping(h []hop) bool {
	for i := range h {
		for j := range h {
			if i != j && h[i].Tid != h[j].Tid && h[i].T0 < h[j].T1 && h[j].T0 < h[i].T1 {
				return true
			}
		}
	}
	return false
}

// runStress is executed in-process (quick tier) or in the race child (thorough tier).
func runStress(thorough bool, seed uint64, fams []*family, mark func(string)) *stressOut {
	rng := vh.NewRng(seed ^ 0x5151)
	out := &stressOut{Ops: map[string]int{}, Goro: map[string]int{}}
	rounds := 30
	if thorough {
		rounds = 500
	}
	for fi, f := range fams {
		if isDead(f.typ) {
			continue
		}
		// the stress phase's budget is divided evenly over the types, so that a busy machine thins out
		// every type's rounds instead of dropping the last types
		typeEnd := stressTypeEnd(fi, len(fams))
		mark("##STRESS " + f.typ)
		directed := directedRounds(f)
		nDirected := 120
		if thorough {
			nDirected = 600
		}
		for rd := 0; rd < rounds+nDirected*len(directed); rd++ {
			if !typeEnd.IsZero() && time.Now().After(typeEnd) {
				out.Cut++
				break
			}
			nG := 2 + rng.Intn(3)
			nOps := 2 + rng.Intn(4)
			if thorough {
				nG = rng.PickInt([]int{2, 3, 4, 6, 8, 12, 16})
				nOps = 1 + rng.Intn(4)
				for nG*nOps > 56 {
					nOps--
				}
			}
			// focus: a random subset of the kinds (≥ 2), small key space ⇒ contention
			kinds := append([]string(nil), f.kinds...)
			for len(kinds) > 2 && rng.Chance(45) {
				i := rng.Intn(len(kinds))
				kinds = append(kinds[:i], kinds[i+1:]...)
			}
			var prefill []call
			if rd >= rounds {
				// directed rounds: few operations that all start at once on a nearly empty / full instance —
				// the shapes in which check-then-act and mid-operation reads show
				d := directed[(rd-rounds)%len(directed)]
				kinds, prefill = d.kinds, d.prefill
				nG, nOps = 3+rng.Intn(4), 1
			} else if rng.Chance(60) {
				for i := 0; i < 1+rng.Intn(2); i++ {
					c := f.gen(rng, f.kinds)
					if c.Kind == "put" || c.Kind == "addLast" || c.Kind == "qput" || c.Kind == "qforce" || c.Kind == "qput1" || c.Kind == "qput2" {
						prefill = append(prefill, c)
					}
				}
			}
			at("stress %s: %d goroutines × %d operations of %v after %v", f.typ, nG, nOps, kinds, prefill)
			hist, dead := stressRound(f, rng, nG, nOps, kinds, prefill)
			out.Rounds++
			out.Goro[fmt.Sprint(nG)]++
			if dead {
				out.Fails = append(out.Fails, stressFail{f.typ, f.typ + ":stress-deadlock",
					fmt.Sprintf("%d goroutines × %d point operations on one %s did not finish within 25 s", nG, nOps, f.typ), nil})
				markDead(f.typ)
				break // the remaining rounds of this type would only wait for the watchdog
			}
			if overlapping(hist) {
				out.Overlap++
			}
			for _, h := range hist {
				out.Ops[h.C.Kind]++
			}
			w := linearize(f, hist)
			if w == nil {
				key := f.typ + ":not-linearizable"
				for _, h := range hist {
					if h.Ret == "panic" {
						key = f.typ + "." + kindMethod(h.C.Kind) + ":panic-under-concurrency"
					}
				}
				out.Fails = append(out.Fails, stressFail{f.typ, key,
					fmt.Sprintf("a history of %d goroutines on one shared %s has no linearization w.r.t. the sequential model", nG, f.typ), hist})
				continue
			}
			// the witness, as a sequential history for the Lean driver + as a schedule of the proved machine
			if len(out.Witness) < 4000 {
				m := f.newModel()
				var ls, fs []string
				for _, i := range w {
					ls = append(ls, hist[i].C.lineFor(f))
					fs = append(fs, m.apply(hist[i].C))
				}
				out.Witness = append(out.Witness, f.drvPrefix+" "+strings.Join(ls, ";"))
				out.WFacts = append(out.WFacts, strings.Join(fs, ";"))
				sched, rets := machineSchedule(f, hist, w, fs)
				out.Machine = append(out.Machine, sched)
				out.MFacts = append(out.MFacts, rets)
			}
			if len(out.Samples) < 2 && overlapping(hist) {
				out.Samples = append(out.Samples, map[string]interface{}{"type": f.typ, "goroutines": nG, "history": hist, "witness": w})
			}
		}
	}
	return out
}

type directedSet struct {
	kinds   []string
	prefill []call
}

func has(xs []string, x string) bool {
	for _, y := range xs {
		if y == x {
			return true
		}
	}
	return false
}

// directedRounds: operation mixes aimed at the two classic lock-discipline mistakes.
func directedRounds(f *family) []directedSet {
	var ds []directedSet
	switch {
	case has(f.kinds, "remFirst") && has(f.kinds, "put"):
		ds = append(ds,
			directedSet{[]string{"remFirst", "remLast"}, []call{{"put", 1, 1}}},
			directedSet{[]string{"remFirst", "put", "size"}, []call{{"put", 2, 1}}},
			directedSet{[]string{"remLast", "rem", "empty"}, []call{{"put", 1, 1}}})
	case has(f.kinds, "put"):
		ds = append(ds, directedSet{[]string{"put", "rem", "size"}, []call{{"put", 1, 1}}})
	case has(f.kinds, "addLast"):
		ds = append(ds, directedSet{[]string{"remFirst", "remLast", "size"}, []call{{"addLast", 1, 0}}})
	case has(f.kinds, "qforce"):
		ds = append(ds, directedSet{[]string{"qforce", "qsize"}, []call{{"qput", 1, 0}, {"qput", 2, 0}}})
	case has(f.kinds, "qforce1"):
		ds = append(ds, directedSet{[]string{"qforce1", "qsize", "qsize1"}, []call{{"qput1", 1, 0}, {"qput1", 2, 0}}})
	}
	return ds
}

// machineSchedule turns a recorded history plus its witness linearization into a schedule of the
// mutex-object machine: inv at the call stamp, ret at the return stamp, and the critical section
// (acq, load, store, rel) of each operation in witness order, each placed before the earliest
// return that needs it.  The Lean driver runs `Conc.runActs` on it and must accept it and produce
// exactly these returns: every observed history is a behaviour of the machine the theorems are about.
func machineSchedule(f *family, hist []hop, w []int, facts []string) (string, string) {
	type ev struct {
		t   int64
		ret bool
		op  int
	}
	var evs []ev
	for i, h := range hist {
		evs = append(evs, ev{h.T0, false, i}, ev{h.T1, true, i})
	}
	sort.SliceStable(evs, func(a, b int) bool {
		if evs[a].t != evs[b].t {
			return evs[a].t < evs[b].t
		}
		return !evs[a].ret && evs[b].ret // calls before returns on equal stamps
	})
	pos := map[int]int{} // op → position in witness
	for p, i := range w {
		pos[i] = p
	}
	tid := func(i int) int {
		if hist[i].Tid < 0 {
			return 0 // prefill runs as thread 0 before the others exist
		}
		return hist[i].Tid + 1
	}
	var acts, rets []string
	next := 0
	invoked := map[int]bool{}
	flush := func(upto int) bool {
		for next <= upto {
			i := w[next]
			if !invoked[i] {
				return false
			}
			t := tid(i)
			acts = append(acts, fmt.Sprintf("a%d", t), fmt.Sprintf("l%d", t), fmt.Sprintf("s%d", t), fmt.Sprintf("u%d", t))
			next++
		}
		return true
	}
	for _, e := range evs {
		if !e.ret {
			invoked[e.op] = true
			acts = append(acts, fmt.Sprintf("i%d:%s", tid(e.op), hist[e.op].C.lineFor(f)))
		} else {
			if !flush(pos[e.op]) {
				return "", "" // cannot happen for a valid witness
			}
			acts = append(acts, fmt.Sprintf("t%d", tid(e.op)))
			rets = append(rets, facts[pos[e.op]])
		}
	}
	return "X" + f.drvPrefix + " " + strings.Join(acts, ";"), strings.Join(rets, ";")
}

func stressBudget(env *vh.Env) time.Duration {
	if env.Thorough {
		return phaseBudgets["stress"][1]
	}
	return phaseBudgets["stress"][0]
}

func stress(env *vh.Env, rep *vh.Report, rng *vh.Rng, fams []*family) {
	ph := phaseBegin(env, "stress")
	defer ph.finish(rep)
	if *childDeadline == 0 {
		stressEnd = ph.end
	}
	var out *stressOut
	if env.Thorough && raceEnabled {
		out = childStress(env, rep) // under the race detector, in a child
	}
	if out == nil {
		out = runStress(env.Thorough, env.Seed, fams, func(string) {})
	}
	if out.Cut > 0 {
		ph.cut = true
		rep.CountN("stress:types-cut-short", out.Cut)
	}
	rep.CountN("stress:rounds", out.Rounds)
	rep.CountN("stress:rounds-with-overlap", out.Overlap)
	for k, n := range out.Ops {
		rep.CountN("stress-op:"+k, n)
	}
	for k, n := range out.Goro {
		rep.CountN("stress-goroutines:"+k, n)
	}
	for _, f := range out.Fails {
		rep.Fail("property", f.Key, f.Summary, map[string]interface{}{"type": f.Typ, "history": f.Hist})
	}
	for _, s := range out.Samples {
		rep.Sample(s)
	}
	// witnesses and machine schedules through the Lean driver
	lines := append(append([]string(nil), out.Witness...), out.Machine...)
	if len(lines) > 0 {
		outs, err := vh.RunDriver(env.Driver, lines)
		if err != nil {
			vh.Die("driver: %v", err)
		}
		nw := len(out.Witness)
		for i := range out.Witness {
			got := outs[i]
			if j := strings.Index(got, " | "); j >= 0 {
				got = got[:j]
			}
			rep.Case("witness "+out.Witness[i], true)
			if got != out.WFacts[i] {
				rep.Fail("correspondence", "witness:mirror-vs-spec", "a witness linearization accepted by the Go mirror is not what the Lean spec computes",
					map[string]interface{}{"line": out.Witness[i], "mirror": out.WFacts[i], "driver": outs[i]})
			}
		}
		for i := range out.Machine {
			if out.Machine[i] == "" {
				continue
			}
			rep.Count("machine-schedules")
			if outs[nw+i] != "ok "+out.MFacts[i] {
				rep.Fail("correspondence", "machine:schedule-rejected", "an observed history, scheduled on the mutex-object machine along its witness, is rejected or returns differently",
					map[string]interface{}{"schedule": out.Machine[i], "expected": "ok " + out.MFacts[i], "driver": outs[nw+i]})
			}
		}
		if len(out.Machine) > 0 {
			rep.Sample(map[string]interface{}{"machine_schedule": out.Machine[0], "driver": outs[nw]})
		}
		// the same schedules over the CodeModels of C09 (bucket array, order list, growing table) and C13
		// (pointer heap) — what `C10.linked_maps_linearizable_wrt_dictionary` /
		// `linked_list_linearizable_wrt_deque` are about
		var cl, cexp []string
		for i, m := range out.Machine {
			switch {
			case strings.HasPrefix(m, "XM "):
				cl = append(cl, "XL "+m[3:])
				cexp = append(cexp, "ok "+entryFactsToValues(out.MFacts[i]))
			case strings.HasPrefix(m, "XD "):
				cl = append(cl, "XLL "+m[3:])
				cexp = append(cexp, "ok "+out.MFacts[i])
			}
		}
		if len(cl) > 0 {
			couts, err := vh.RunDriver(env.Driver, cl)
			if err != nil {
				vh.Die("driver: %v", err)
			}
			for i := range cl {
				rep.Count("machine-schedules-on-code-models")
				if couts[i] != cexp[i] {
					rep.Fail("correspondence", "machine:code-model-schedule", "an observed history, scheduled on the mutex-object machine over the C09/C13 code model, is rejected or returns differently",
						map[string]interface{}{"schedule": cl[i], "expected": cexp[i], "driver": couts[i]})
				}
			}
			rep.Sample(map[string]interface{}{"code_model_schedule": cl[0], "driver": couts[0]})
		}
	}
}

// entryFactsToValues: the C09 code model returns only the value of a removed first/last entry:
// `k:v` → `*:v` (`0:0` = nothing stays)
func entryFactsToValues(facts string) string {
	fs := strings.Split(facts, ";")
	for i, f := range fs {
		if j := strings.Index(f, ":"); j > 0 && f != "0:0" {
			fs[i] = "*" + f[j:]
		}
	}
	return strings.Join(fs, ";")
}
