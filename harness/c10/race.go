package main

// The race-detector part.  The parent obtains a binary of this harness built with -race (itself in
// the thorough tier, otherwise `go build -race` into the work directory) and runs it as a child:
//
//   -child pairs   for every type and exported method m: one goroutine loops over locked mutators,
//                  another calls m in a loop, on one shared instance.  Marker lines on stderr
//                  delimit the pairs so that every race report is attributed to (type, m).
//   -child stress  the linearizability stress of main.go under the race detector.
//
// No synchronisation is added between the two goroutines (no atomics, no channels inside the
// loops), so the detector sees exactly the happens-before edges the collections create themselves.

import (
	"bufio"
	"bytes"
	"encoding/json"
	"fmt"
	"os"
	"os/exec"
	"path/filepath"
	"reflect"
	"regexp"
	"strings"
	"sync"
	"time"

	"verif/harness/vh"
)

func raceBinary(env *vh.Env, rep *vh.Report) string {
	if raceEnabled {
		return os.Args[0]
	}
	root := os.Getenv("VERIF_ROOT")
	wd, _ := os.Getwd()
	mod := filepath.Join(wd, "go.mod")
	if root == "" {
		root = "/verif"
	}
	if _, err := os.Stat(mod); err != nil {
		rep.Note("race child not built: no go.mod in the work directory (run through ./check)")
		return ""
	}
	bin := filepath.Join(wd, "harness-race")
	cmd := exec.Command("go", "build", "-race", "-tags", "verif", "-modfile="+mod, "-o", bin, "./c10")
	cmd.Dir = filepath.Join(root, "harness")
	cmd.Env = append(os.Environ(), "GOFLAGS=-mod=mod", "GOPROXY=off", "GOSUMDB=off", "GOTOOLCHAIN=local", "GOWORK=off", "CGO_ENABLED=1")
	t0 := time.Now()
	if out, err := cmd.CombinedOutput(); err != nil {
		rep.Note("race child could not be built (%v): %s", err, vh.Clip(string(out), 400))
		return ""
	}
	rep.Note("race child built in %.1fs", time.Since(t0).Seconds())
	return bin
}

func runChildProc(bin string, mode string, env *vh.Env, limit time.Duration) (stdout, stderr []byte, err error) {
	cmd := exec.Command(bin, "-child", mode, "-tier", env.Tier, "-seed", fmt.Sprint(env.Seed), "-repo", env.Repo,
		"-deadline", fmt.Sprint(time.Now().Add(limit*3/4).Unix())) // the child aims at 3/4 of the budget: finishing its current item, the race runtime's exit work and writing the output take time on a busy machine
	cmd.Env = append(os.Environ(), "GORACE=halt_on_error=0 exitcode=0 history_size=3", "VERIF_SKIP_TYPES="+deadList())
	var o, e bytes.Buffer
	cmd.Stdout, cmd.Stderr = &o, &e
	// soft deadline inside the child (it finishes its current item and writes its output), hard limit
	// 40 s later: the whole process group is killed
	err = runChild2(cmd, limit+60*time.Second)
	return o.Bytes(), e.Bytes(), err
}

type raceReport struct {
	marker string   // "##PAIR T.m" or "##STRESS T"
	kinds  []string // "Read", "Write", "Previous write", …
	tops   []string // first golib frame of each stack
	text   string
}

var frameRe = regexp.MustCompile(`^\s+github\.com/whatap/golib/util/\w+\.\(\*?(\w+)\)\.(\w+)\(`)
var accessRe = regexp.MustCompile(`^(Read|Write|Previous read|Previous write|Atomic read|Atomic write|Previous atomic \w+) at `)

func parseRaces(stderr []byte) []raceReport {
	var out []raceReport
	marker := ""
	sc := bufio.NewScanner(bytes.NewReader(stderr))
	sc.Buffer(make([]byte, 1<<20), 1<<26)
	var cur *raceReport
	inStack := false
	for sc.Scan() {
		l := sc.Text()
		switch {
		case strings.HasPrefix(l, "##"):
			marker = l
		case strings.HasPrefix(l, "WARNING: DATA RACE"):
			out = append(out, raceReport{marker: marker})
			cur = &out[len(out)-1]
			inStack = false
		case cur != nil && strings.HasPrefix(l, "=================="):
			if cur.text != "" {
				cur = nil
			}
		case cur != nil:
			if len(cur.text) < 3000 {
				cur.text += l + "\n"
			}
			if m := accessRe.FindStringSubmatch(l); m != nil {
				cur.kinds = append(cur.kinds, m[1])
				cur.tops = append(cur.tops, "")
				inStack = true
			} else if strings.TrimSpace(l) == "" || strings.HasPrefix(l, "Goroutine ") {
				inStack = false
			} else if inStack {
				if m := frameRe.FindStringSubmatch(l); m != nil && cur.tops[len(cur.tops)-1] == "" {
					cur.tops[len(cur.tops)-1] = m[1] + "." + m[2]
				}
			}
		}
	}
	return out
}

// race: part 4 of the harness (parent side)
func race(env *vh.Env, rep *vh.Report) {
	bin := raceBinary(env, rep)
	if bin == "" {
		rep.Count("race:not-run")
		return
	}
	ph := phaseBegin(env, "race-pairs")
	defer ph.finish(rep)
	stdout, stderr, err := runChildProc(bin, "pairs", env, ph.remaining())
	if err != nil {
		rep.Note("race child (pairs) failed: %v: %s", err, vh.Clip(string(stderr), 400))
		rep.Fail("correspondence", "race-child:failed", "the race child did not complete", string(stderr[:min(len(stderr), 2000)]))
		return
	}
	var pairs []string
	json.Unmarshal(stdout, &pairs)
	if bytes.Contains(stderr, []byte("##CUT-SHORT")) {
		ph.cut = true
	}
	for _, p := range pairs {
		rep.Case("race-pair "+p, true)
	}
	rep.CountN("race:pairs", len(pairs))
	seen := map[string]bool{}
	reports := parseRaces(stderr)
	// pass 1: types whose locked mutators race with each other
	noisy := map[string]bool{}
	for _, r := range reports {
		if !strings.HasPrefix(r.marker, "##PAIR ") || !strings.HasSuffix(r.marker, ".<mutators>") {
			continue
		}
		typ := strings.TrimSuffix(strings.TrimPrefix(r.marker, "##PAIR "), ".<mutators>")
		noisy[typ] = true
		for i := range r.kinds {
			m := exportedMethodOf(r.text, i, typ)
			if m == "" {
				continue
			}
			cls := "unlocked-read"
			if strings.Contains(strings.ToLower(r.kinds[i]), "write") {
				cls = "unlocked-write"
			}
			_ = cls
			key := typ + "." + m + ":data-race"
			if seen[typ+"."+m] {
				continue
			}
			seen[typ+"."+m] = true
			rep.Count("race:mutator")
			rep.Fail("property", key, fmt.Sprintf("data race between two goroutines calling the mutators of one %s: %s (%s)", typ, strings.Join(r.tops, " / "), strings.Join(r.kinds, "/")),
				map[string]interface{}{"type": typ, "method": m, "how": "two goroutines loop over Put/Remove/… on the same instance, built with -race", "report": vh.Clip(r.text, 1500)})
		}
	}
	for _, r := range reports {
		if !strings.HasPrefix(r.marker, "##PAIR ") || strings.HasSuffix(r.marker, ".<mutators>") {
			continue
		}
		tm := strings.TrimPrefix(r.marker, "##PAIR ")
		dot := strings.Index(tm, ".")
		typ, m := tm[:dot], tm[dot+1:]
		if noisy[typ] {
			rep.Count("race:skipped (the type's mutators race among themselves)")
			continue
		}
		// is the access made (directly or through callees) by the method under test a write?
		write := false
		for i := range r.tops {
			if strings.Contains(stackOf(r.text, i), "."+m+"(") && strings.Contains(strings.ToLower(r.kinds[i]), "write") {
				write = true
			}
		}
		cls := "unlocked-read"
		if write {
			cls = "unlocked-write"
		}
		_ = cls
		key := tm + ":data-race"
		if seen[tm] {
			continue
		}
		seen[tm] = true
		sum := fmt.Sprintf("data race: %s.%s touches a field without the instance lock while a locked mutator runs (%s vs %s)",
			typ, m, strings.Join(r.kinds, "/"), strings.Join(r.tops, " / "))
		if isPointOp(typ, m) {
			rep.Count("race:point-op")
			rep.Fail("property", key, sum, map[string]interface{}{"type": typ, "method": m,
				"how": "goroutine A loops Put/Remove (locked), goroutine B loops " + m + " on the same instance, built with -race", "report": vh.Clip(r.text, 1500)})
		} else {
			rep.Count("race:whole-structure-op (outside the quantifier, noted only)")
			rep.Note("race in whole-structure/enumeration operation %s (not a point operation): %s", tm, strings.Join(r.tops, " / "))
		}
	}
}

// stackOf returns the text of the i-th access stack of a report.
func stackOf(text string, i int) string {
	var parts []string
	cur := -1
	for _, l := range strings.Split(text, "\n") {
		if accessRe.MatchString(l) {
			cur++
			parts = append(parts, "")
			continue
		}
		if strings.TrimSpace(l) == "" || strings.HasPrefix(l, "Goroutine ") {
			if cur >= 0 && strings.TrimSpace(l) == "" {
				// stack ended
			}
			if strings.HasPrefix(l, "Goroutine ") {
				cur = -2
			}
			continue
		}
		if cur >= 0 && cur < len(parts) {
			parts[cur] += l + "\n"
		}
	}
	if i < len(parts) {
		return parts[i]
	}
	return ""
}

func childStress(env *vh.Env, rep *vh.Report) *stressOut {
	stdout, stderr, err := runChildProc(os.Args[0], "stress", env, stressBudget(env))
	if err != nil {
		rep.Note("race child (stress) failed: %v", err)
		return nil
	}
	var out stressOut
	if jerr := json.Unmarshal(stdout, &out); jerr != nil {
		rep.Note("race child (stress): unreadable output (%v; %d bytes: %s … stderr tail: %s)", jerr, len(stdout), vh.Clip(string(stdout), 120), vh.Clip(string(stderr[max(0, len(stderr)-300):]), 300))
		return nil
	}
	seen := map[string]bool{}
	for _, r := range parseRaces(stderr) {
		typ := strings.TrimPrefix(r.marker, "##STRESS ")
		key := typ + ":race-in-stress"
		culprit := ""
		for _, t := range r.tops {
			if t != "" {
				culprit = t
				break
			}
		}
		if culprit != "" {
			key = culprit + ":race-in-stress"
		}
		if seen[key] {
			continue
		}
		seen[key] = true
		rep.Fail("property", key, "data race between point operations during the concurrent stress: "+strings.Join(r.kinds, "/")+" "+strings.Join(r.tops, " / "),
			map[string]interface{}{"type": typ, "report": vh.Clip(r.text, 1500)})
	}
	rep.Note("stress ran under the race detector in a child process")
	return &out
}

// ---------------------------------------------------------------- child side

func runChild(mode string, env *vh.Env) {
	childWatchdog()
	mark := func(s string) { fmt.Fprintln(os.Stderr, s) }
	switch mode {
	case "stress":
		out := runStress(env.Thorough, env.Seed, allFamilies(), mark)
		b, _ := json.Marshal(out)
		os.Stdout.Write(b)
	case "pairs":
		var done []string
		iters := 150
		if env.Thorough {
			iters = 3000
		}
		for _, c := range ctors {
			if isDead(c.name) {
				continue
			}
			if childOver() {
				mark("##CUT-SHORT pairs at " + c.name)
				break
			}
			// the mutators against themselves first: if they race with each other, every other pair of
			// this type would only repeat that
			runMutatorPair(c, iters, mark)
			for _, m := range methodNames(c.mk()) {
				if m == "Get" && strings.HasPrefix(c.name, "Request") {
					continue // blocks when a concurrent consumer emptied the queue
				}
				if c.name == "LinkedList" && entityAPI[m] {
					continue
				}
				if isDead(c.name) {
					break
				}
				if runPair(c, m, iters, mark) {
					done = append(done, c.name+"."+m)
				}
			}
		}
		mark("##END")
		b, _ := json.Marshal(done)
		os.Stdout.Write(b)
	}
}

// mutators of each type, all of which take the instance lock in the code as it stands
func mutatorCalls(obj interface{}) []func() {
	v := reflect.ValueOf(obj)
	var fs []func()
	add := func(name string, k int) {
		m := v.MethodByName(name)
		if !m.IsValid() {
			return
		}
		args, ok := buildArgs(obj, m.Type(), k, nil)
		if !ok {
			return
		}
		fs = append(fs, func() { vh.Guard(func() { m.Call(args) }) })
	}
	for _, n := range []string{"Put", "AddLast", "Put1", "Put2", "PutForce", "PutForce1"} {
		add(n, 1)
		add(n, 2)
	}
	for _, n := range []string{"Remove"} {
		if _, isList := obj.(interface{ AddLast(interface{}) }); !isList {
			add(n, 1)
		}
	}
	add("GetNoWait", 0)
	return fs
}

func runPair(c ctor, m string, iters int, mark func(string)) bool {
	obj := c.mk()
	populate(obj)
	meth := reflect.ValueOf(obj).MethodByName(m)
	args, ok := buildArgs(obj, meth.Type(), 1, c.mk)
	if !ok {
		return false
	}
	if m == "GetTimeout" {
		iters = 5
	}
	muts := mutatorCalls(obj)
	if len(muts) == 0 {
		return false
	}
	// a method that self-deadlocks is the sweep's business: do not start a pair that can never finish
	{
		probe := c.mk()
		populate(probe)
		pm := reflect.ValueOf(probe).MethodByName(m)
		pargs, _ := buildArgs(probe, pm.Type(), 1, c.mk)
		if o := vh.GuardTimeout(hangLimit, func() { pm.Call(pargs) }); o.Timeout {
			return false
		}
	}
	mark("##PAIR " + c.name + "." + m)
	var wg sync.WaitGroup
	start := make(chan struct{})
	wg.Add(2)
	go func() {
		defer wg.Done()
		<-start
		for i := 0; i < iters; i++ {
			muts[i%len(muts)]()
		}
	}()
	go func() {
		defer wg.Done()
		<-start
		for i := 0; i < iters; i++ {
			vh.Guard(func() { meth.Call(args) })
		}
	}()
	close(start)
	fin := make(chan struct{})
	go func() { wg.Wait(); close(fin) }()
	select {
	case <-fin:
	case <-time.After(hangLimit):
		markDead(c.name) // an operation never returned: skip the rest of this type
		mark("##PAIR-HUNG " + c.name + "." + m)
		return false
	}
	mark("##PAIR-END")
	return true
}

func runMutatorPair(c ctor, iters int, mark func(string)) {
	obj := c.mk()
	populate(obj)
	muts := mutatorCalls(obj)
	if len(muts) == 0 {
		return
	}
	mark("##PAIR " + c.name + ".<mutators>")
	var wg sync.WaitGroup
	start := make(chan struct{})
	for g := 0; g < 2; g++ {
		wg.Add(1)
		go func(g int) {
			defer wg.Done()
			<-start
			for i := 0; i < iters; i++ {
				muts[(i+g)%len(muts)]()
			}
		}(g)
	}
	close(start)
	fin := make(chan struct{})
	go func() { wg.Wait(); close(fin) }()
	select {
	case <-fin:
	case <-time.After(hangLimit):
		markDead(c.name)
		mark("##PAIR-HUNG " + c.name + ".<mutators>")
		return
	}
	mark("##PAIR-END")
}

var exportedFrameRe = regexp.MustCompile(`github\.com/whatap/golib/util/\w+\.\(\*?(\w+)\)\.([A-Z]\w*)\(`)

// exportedMethodOf returns the exported method of typ found in the i-th access stack of a report.
func exportedMethodOf(text string, i int, typ string) string {
	for _, m := range exportedFrameRe.FindAllStringSubmatch(stackOf(text, i), -1) {
		if m[1] == typ {
			return m[2]
		}
	}
	return ""
}
