package main

// Probes added after the round-8 seeded changes (classes, not the patches' own inputs).

import (
	"fmt"
	"os"
	"reflect"
	"sync"
	"sync/atomic"
	"time"

	gio "github.com/whatap/golib/io"
	"github.com/whatap/golib/util/queue"
	"verif/harness/vh"
)

// ---------------------------------------------------------------- a timed get among other waiters

// timedGetAmongWaiters: several consumers wait on the same empty queue at the same time — blocking Get()s
// and timed GetTimeout(t)s parked in a chosen order — and nothing is put.  Every timed get must come back
// (with nil: nothing was put) by itself, whoever else is waiting and whoever has waited longest: an
// operation with a deadline that relies on a wake-up addressed to "some waiter" of a shared condition
// (Signal from a timer) ends only if the wake-up happens to reach it.  Afterwards one element per blocked
// Get() is put and every Get() must return a distinct one of them.  Only a hang (hangLimit) or a wrong
// value is a verdict; the sleeps merely arrange the parking order, every order is a legal schedule.
func timedGetAmongWaiters(env *vh.Env, rep *vh.Report) {
	shapes := [][]string{{"Get", "T"}, {"Get", "Get", "T"}, {"Get", "T", "Get"}, {"T", "Get"}, {"Get", "T", "T"}}
	timeouts := []int{25, 90}
	if env.Thorough {
		shapes = append(shapes, []string{"Get", "Get", "Get", "T", "Get"}, []string{"T", "Get", "T"})
		timeouts = append(timeouts, 300)
	}
	for _, dbl := range []bool{false, true} {
		name := "RequestQueue"
		if dbl {
			name = "RequestDoubleQueue"
		}
		for _, shape := range shapes {
			for _, tmo := range timeouts {
				if isDead(name) || phaseOver() {
					break
				}
				var get func() interface{}
				var getT func(int) interface{}
				var put func(interface{}) bool
				if dbl {
					d := queue.NewRequestDoubleQueue(8, 8)
					get, getT, put = d.Get, d.GetTimeout, d.Put1
				} else {
					q := queue.NewRequestQueue(8)
					get, getT, put = q.Get, q.GetTimeout, q.Put
				}
				at("timed get among waiters: %s, consumers parked in the order %v (T = GetTimeout(%d)), nothing is put", name, shape, tmo)
				type res struct {
					i int
					v interface{}
					p string
				}
				timed := make(chan res, len(shape))
				blocked := make(chan res, len(shape))
				nT, nG := 0, 0
				for i, kind := range shape {
					i, kind := i, kind
					if kind == "T" {
						nT++
						go func() {
							var v interface{}
							o := vh.Guard(func() { v = getT(tmo) })
							timed <- res{i, v, o.Panic}
						}()
					} else {
						nG++
						go func() {
							var v interface{}
							o := vh.Guard(func() { v = get() })
							blocked <- res{i, v, o.Panic}
						}()
					}
					time.Sleep(8 * time.Millisecond) // park in this order (any other order is legal too)
				}
				rep.Case(fmt.Sprintf("timed-get-among-waiters %s %v t=%d", name, shape, tmo), true)
				rep.Count("timed-get-among-waiters:runs")
				replay := map[string]interface{}{"type": name, "consumers_in_parking_order": shape, "timeout_ms": tmo,
					"how": "fresh empty queue; start the consumers 8 ms apart in the given order (Get = blocking Get(), T = GetTimeout(timeout_ms)); put nothing; every T must return nil by itself (25 s watchdog); then Put one element per blocked Get and wait for them"}
				bad, key := "", ""
				deadline := time.After(hangLimit)
				for k := 0; k < nT && bad == ""; k++ {
					select {
					case r := <-timed:
						if r.p != "" {
							bad, key = fmt.Sprintf("GetTimeout(%d) of consumer %d panicked: %s", tmo, r.i, vh.Clip(r.p, 120)), name+".GetTimeout:panic-under-concurrency"
						} else if r.v != nil {
							bad, key = fmt.Sprintf("GetTimeout(%d) of consumer %d returned %v although nothing was ever put", tmo, r.i, r.v), name+".GetTimeout:not-linearizable"
						}
					case <-deadline:
						bad, key = fmt.Sprintf("consumers %v wait on the empty queue; %d of the %d GetTimeout(%d) calls had not returned 25 s later although nothing keeps them: a timed get blocks beyond its deadline when it is not the only (or not the oldest) waiter",
							shape, nT-k, nT, tmo), name+".GetTimeout:blocks-forever"
					}
				}
				// release the blocking consumers (also after a failure: no goroutine is left behind on purpose)
				for k := 0; k < nG; k++ {
					put(9000 + k)
				}
				seen := map[interface{}]bool{}
				dl2 := time.After(hangLimit)
				for k := 0; k < nG && bad == ""; k++ {
					select {
					case r := <-blocked:
						if r.p != "" || r.v == nil || seen[r.v] {
							bad, key = fmt.Sprintf("blocked Get() of consumer %d returned %v (panic %q) after %d elements were put for %d blocked consumers", r.i, r.v, r.p, nG, nG), name+".Get:not-linearizable"
						}
						seen[r.v] = true
					case <-dl2:
						bad, key = fmt.Sprintf("%d elements were put for %d consumers blocked in Get(); %d of them had not returned 25 s later", nG, nG, nG-k), name+".Get:blocks-forever"
					}
				}
				if bad != "" {
					rep.Fail("property", key, name+": "+bad, replay)
					markDead(name)
				}
			}
		}
	}
}

// ---------------------------------------------------------------- bulk operations among point operations

// bulkArgs builds the arguments of a whole-structure operation with a *bulk* input of n keys from..from+n-1:
// a slice parameter gets that many elements, a parameter of the receiver's own type an instance holding
// them, a DataInputX the bytes such an instance writes.  bulk reports whether there was such a parameter.
func bulkArgs(c ctor, obj interface{}, mt reflect.Type, from, n int) (args []reflect.Value, bulk, ok bool) {
	donor := func() interface{} {
		d := c.mk()
		fastInsert(d, from, n)
		return d
	}
	for i := 0; i < mt.NumIn(); i++ {
		pt := mt.In(i)
		switch {
		case pt.Kind() == reflect.Slice:
			s := reflect.MakeSlice(pt, 0, n)
			for j := 0; j < n; j++ {
				e, ok := keyVal(pt.Elem(), from+j)
				if !ok {
					return nil, false, false
				}
				s = reflect.Append(s, e)
			}
			args, bulk = append(args, s), true
		case pt.Kind() == reflect.Ptr && pt == reflect.TypeOf(obj):
			args, bulk = append(args, reflect.ValueOf(donor())), true
		case pt == tDin:
			d := donor()
			tb := reflect.ValueOf(d).MethodByName("ToBytes")
			if !tb.IsValid() || tb.Type().NumIn() != 1 || tb.Type().In(0) != tDout {
				return nil, false, false
			}
			var data []byte
			if o := vh.GuardTimeout(hangLimit, func() {
				w := gio.NewDataOutputX()
				tb.Call([]reflect.Value{reflect.ValueOf(w)})
				data = w.ToByteArray()
			}); !o.OK() {
				return nil, false, false
			}
			args, bulk = append(args, reflect.ValueOf(gio.NewDataInputX(data))), true
		default:
			a, ok := buildArgs(obj, reflect.FuncOf([]reflect.Type{pt}, nil, false), from, nil)
			if !ok {
				return nil, false, false
			}
			args = append(args, a[0])
		}
	}
	return args, bulk, true
}

// fastInsert: n insertions of the keys from.. by the type's insertion method, without a watchdog per call
func fastInsert(obj interface{}, from, n int) bool {
	name := insertName(obj)
	if name == "" {
		return false
	}
	m := reflect.ValueOf(obj).MethodByName(name)
	ok := true
	o := vh.GuardTimeout(hangLimit, func() {
		for k := from; k < from+n && ok; k++ {
			var a []reflect.Value
			if a, ok = buildArgs(obj, m.Type(), k, nil); ok {
				m.Call(a)
			}
		}
	})
	return ok && o.OK()
}

// bulkAmongPointOps: a whole-structure operation with a bulk input (PutAll(slice), PutAll(other), ToObject(bytes))
// or one that tie A says writes the structure (the Sorts) runs while other goroutines perform ordinary point
// operations — insertions of fresh keys, removals of present keys — on the same instance, from a table
// that is well filled, so that the bulk operation has to grow it (several times) on the way.
//
// What is judged are the *point operations* (the whole-structure operation need not be atomic): every
// insertion that completed and was never followed by a removal of that key — the keys put before the run
// and the keys put during it — must be contained afterwards, every removed key must be absent, and Size()
// must be the number of keys that are contained (the universe of keys is known).  Whether the
// whole-structure operation is compatible with that reading is learnt from the implementation run
// single-threaded in both orders (W before / after all point operations): only if both leave every such
// key present, every removed key absent and Size() = number of contained keys is the run judged.  A
// whole-structure operation that touches the table outside the lock (pre-sizing, a rehash, a snapshot
// written back) loses or resurrects keys of point operations that completed meanwhile.
func bulkAmongPointOps(env *vh.Env, rep *vh.Report, facts lockFacts) {
	P, B, N, R := 6000, 24000, 6000, 6
	if env.Thorough {
		R = 30
	}
	if s := os.Getenv("C10_BULK"); s != "" {
		fmt.Sscanf(s, "%d,%d,%d,%d", &P, &B, &N, &R)
	}
	const pointBase = 5000000
	for _, c := range ctors {
		probe := c.mk()
		if isDead(c.name) || tableLen(probe) < 0 {
			continue
		}
		ins := insertName(probe)
		hasM := firstMethod(probe, containsNames...)
		if ins == "" || !hasM.IsValid() || hasM.Type().NumIn() != 1 {
			continue
		}
		hasName := ""
		for _, n := range containsNames {
			if reflect.ValueOf(probe).MethodByName(n).IsValid() {
				hasName = n
				break
			}
		}
		for _, w := range methodNames(probe) {
			if isDead(c.name) || phaseOver() {
				break
			}
			if isPointOp(c.name, w) || blocksByDesign(c.name, w, true) {
				continue
			}
			mt := reflect.ValueOf(probe).MethodByName(w).Type()
			_, bulk, ok := bulkArgs(c, probe, mt, 1, 1)
			if !ok {
				continue
			}
			p, b, n, rounds := P, B, N, R
			if !bulk {
				if facts == nil || !facts.mutatesWithin(c.name, w, len(facts[c.name])+1) {
					continue // read-only traversals: traversal hooks
				}
				p, b, n, rounds = 400, 0, 1500, 3 // e.g. Sort: holds the lock for its whole body
			}
			rep.Count("bulk-among-point-ops:methods")
			nRem := p / 4
			// universe: prefill 0..p-1 (the first nRem of them get removed), batch p..p+b-1, point keys pointBase..
			universe := make([]int, 0, p+b+n)
			for k := 0; k < p+b; k++ {
				universe = append(universe, k)
			}
			for k := 0; k < n; k++ {
				universe = append(universe, pointBase+k)
			}
			type outcome struct {
				size      int
				contained int
				missing   []int // keys put by completed point operations, never removed, not contained
				undead    []int // removed keys that are contained
				panics    string
			}
			observe := func(obj interface{}) (o outcome) {
				o.size = -1
				v := reflect.ValueOf(obj)
				vh.GuardTimeout(hangLimit, func() {
					o.size = int(v.MethodByName("Size").Call(nil)[0].Int())
					hm := v.MethodByName(hasName)
					for _, k := range universe {
						a, _ := buildArgs(obj, hm.Type(), k, nil)
						in := hm.Call(a)[0].Bool()
						if in {
							o.contained++
						}
						batch := k >= p && k < p+b
						switch {
						case k < nRem && in:
							o.undead = append(o.undead, k)
						case k >= nRem && !batch && !in:
							o.missing = append(o.missing, k)
						}
					}
				})
				return o
			}
			good := func(o outcome) bool {
				return o.panics == "" && len(o.missing) == 0 && len(o.undead) == 0 && o.size == o.contained
			}
			prep := func() (obj interface{}, callW func(), pointOps [][]func(), ok bool) {
				obj = c.mk()
				if !fastInsert(obj, 0, p) {
					return nil, nil, nil, false
				}
				v := reflect.ValueOf(obj)
				wm := v.MethodByName(w)
				wargs, _, ok := bulkArgs(c, obj, wm.Type(), p, b)
				if !ok {
					return nil, nil, nil, false
				}
				callW = func() { wm.Call(wargs) }
				im, rm := v.MethodByName(ins), v.MethodByName("Remove")
				// two inserting goroutines (even / odd point keys), one removing
				pointOps = make([][]func(), 3)
				for k := 0; k < n; k++ {
					a, _ := buildArgs(obj, im.Type(), pointBase+k, nil)
					pointOps[k%2] = append(pointOps[k%2], func() { im.Call(a) })
				}
				if rm.IsValid() && rm.Type().NumIn() == 1 {
					for k := 0; k < nRem; k++ {
						a, _ := buildArgs(obj, rm.Type(), k, nil)
						pointOps[2] = append(pointOps[2], func() { rm.Call(a) })
					}
				} else {
					return nil, nil, nil, false
				}
				return obj, callW, pointOps, true
			}
			// the oracle: single-threaded, W first / W last
			judged := true
			for _, wFirst := range []bool{true, false} {
				obj, callW, pointOps, ok := prep()
				if !ok {
					judged = false
					break
				}
				var o outcome
				g := vh.GuardTimeout(hangLimit, func() {
					if wFirst {
						callW()
					}
					for _, ops := range pointOps {
						for _, f := range ops {
							f()
						}
					}
					if !wFirst {
						callW()
					}
				})
				if !g.OK() {
					judged = false
					break
				}
				if o = observe(obj); !good(o) {
					judged = false
					break
				}
			}
			if !judged {
				rep.Count("bulk-among-point-ops:not-judged (single-threaded, the operation itself removes / evicts keys, panics, or Size() is not the number of contained keys)")
				continue
			}
			for r := 0; r < rounds && !isDead(c.name) && !(r >= 1 && phaseOver()); r++ {
				obj, callW, pointOps, ok := prep()
				if !ok {
					break
				}
				at("bulk among point operations: %s.%s (bulk input of %d keys) on an instance holding %d keys while two goroutines insert %d fresh keys and one removes %d present keys", c.name, w, b, p, n, nRem)
				var arrived, pointsDone int32
				var wg sync.WaitGroup
				var pmu sync.Mutex
				panics, wPanicked := "", false
				run := func(point bool, f func()) {
					wg.Add(1)
					go func() {
						defer wg.Done()
						atomic.AddInt32(&arrived, 1)
						for t0 := time.Now(); atomic.LoadInt32(&arrived) < 4 && time.Since(t0) < 2*time.Millisecond; {
						}
						if o := vh.Guard(f); o.Panic != "" {
							pmu.Lock()
							if point {
								panics = vh.Clip(o.Panic, 160)
							} else {
								// the whole-structure operation itself gave up (KeyArray walking a live structure
								// runs out of elements): noted, outside the quantifier — the point operations
								// are still judged
								wPanicked = true
							}
							pmu.Unlock()
						}
						if point {
							atomic.AddInt32(&pointsDone, 1)
						}
					}()
				}
				run(false, func() {
					callW()
					// an operation without a bulk input is short: repeat it while the point operations run
					for i := 0; !bulk && i < 40 && atomic.LoadInt32(&pointsDone) < 3; i++ {
						callW()
					}
				})
				for _, ops := range pointOps {
					ops := ops
					run(true, func() {
						for _, f := range ops {
							f()
						}
					})
				}
				fin := make(chan struct{})
				go func() { wg.Wait(); close(fin) }()
				replay := map[string]interface{}{"type": c.name, "whole_structure_operation": w, "bulk_input_keys": b, "keys_present_before": p, "point_insertions": n, "point_removals": nRem,
					"how": fmt.Sprintf("fresh instance, %s the keys 0..%d; then at the same time: one goroutine calls %s (bulk input: the keys %d..%d), two goroutines %s the keys %d..%d (even / odd), one goroutine Removes the keys 0..%d; wait for all; then Size() and %s of every key. Single-threaded (W first, W last) the same calls leave every inserted key present, every removed key absent and Size() = number of contained keys",
						ins, p-1, w, p, p+b-1, ins, pointBase, pointBase+n-1, nRem-1, hasName)}
				select {
				case <-fin:
				case <-time.After(hangLimit):
					rep.Fail("property", c.name+"."+w+":blocks-forever", fmt.Sprintf("%s.%s next to point insertions and removals on the same instance did not finish within 25 s", c.name, w), replay)
					markDead(c.name)
					continue
				}
				rep.Case(fmt.Sprintf("bulk-among-point-ops %s.%s round %d", c.name, w, r), true)
				rep.Count("bulk-among-point-ops:runs")
				o := observe(obj)
				o.panics = panics
				if wPanicked {
					rep.Count("bulk-among-point-ops:whole-structure operation itself panicked next to point operations (walks a live structure — noted, outside the quantifier)")
				}
				if good(o) {
					continue
				}
				clip := func(xs []int) []int {
					if len(xs) > 8 {
						return xs[:8]
					}
					return xs
				}
				replay["size"], replay["contained"], replay["missing"], replay["removed_but_contained"], replay["panic"] = o.size, o.contained, clip(o.missing), clip(o.undead), o.panics
				key, what := c.name+"."+w+":not-linearizable", ""
				switch {
				case o.panics != "":
					key, what = c.name+"."+w+":panic-under-concurrency", "a point operation panicked: "+o.panics
				case len(o.missing) > 0:
					what = fmt.Sprintf("%d keys whose insertion completed and which nobody removed are not contained (e.g. %v)", len(o.missing), clip(o.missing))
				case len(o.undead) > 0:
					what = fmt.Sprintf("%d keys whose removal completed are contained again (e.g. %v)", len(o.undead), clip(o.undead))
				default:
					key, what = c.name+"."+w+":corrupts-under-concurrency", fmt.Sprintf("Size() = %d but %d of the keys ever used are contained: a key is counted and cannot be found", o.size, o.contained)
				}
				rep.Fail("property", key, fmt.Sprintf("%s: %s ran while other goroutines performed point insertions / removals on the same instance (%d keys present, bulk input %d keys); afterwards %s; Size() = %d, contained %d",
					c.name, w, p, b, what, o.size, o.contained), replay)
				break
			}
		}
	}
}
