package main

// Independent oracles written from the published algorithms (not from the code
// under test, not from the Lean model).

import "strconv"

// refMurmurHash2 is Austin Appleby's MurmurHash2 (32 bit), MurmurHash2.cpp:
//
//	h = seed ^ len
//	while (len >= 4) { k = *(uint32*)data; k *= m; k ^= k >> r; k *= m; h *= m; h ^= k; data += 4; len -= 4; }
//	switch (len) { case 3: h ^= data[2] << 16; case 2: h ^= data[1] << 8; case 1: h ^= data[0]; h *= m; }
//	h ^= h >> 13; h *= m; h ^= h >> 15;
func refMurmurHash2(data []byte, seed uint32) uint32 {
	const m = 0x5bd1e995
	const r = 24
	h := seed ^ uint32(len(data))
	for len(data) >= 4 {
		k := uint32(data[0]) | uint32(data[1])<<8 | uint32(data[2])<<16 | uint32(data[3])<<24
		k *= m
		k ^= k >> r
		k *= m
		h *= m
		h ^= k
		data = data[4:]
	}
	switch len(data) {
	case 3:
		h ^= uint32(data[2]) << 16
		fallthrough
	case 2:
		h ^= uint32(data[1]) << 8
		fallthrough
	case 1:
		h ^= uint32(data[0])
		h *= m
	}
	h ^= h >> 13
	h *= m
	h ^= h >> 15
	return h
}

// refMurmurHash64A is MurmurHash64A of MurmurHash2.cpp with a 32-bit seed.
func refMurmurHash64A(data []byte, seed uint32) uint64 {
	const m = uint64(0xc6a4a7935bd1e995)
	const r = 47
	h := uint64(seed) ^ (uint64(len(data)) * m)
	for len(data) >= 8 {
		var k uint64
		for i := 7; i >= 0; i-- {
			k = k<<8 | uint64(data[i])
		}
		k *= m
		k ^= k >> r
		k *= m
		h ^= k
		h *= m
		data = data[8:]
	}
	if len(data) > 0 {
		for i := len(data) - 1; i >= 0; i-- {
			h ^= uint64(data[i]) << (8 * uint(i))
		}
		h *= m
	}
	h ^= h >> r
	h *= m
	h ^= h >> r
	return h
}

// swapTail reverses the last len%4 bytes.
func swapTail(d []byte) []byte {
	n := len(d) / 4 * 4
	out := append([]byte(nil), d...)
	for i, j := n, len(d)-1; i < j; i, j = i+1, j-1 {
		out[i], out[j] = out[j], out[i]
	}
	return out
}

// mirrorDotted is the canonical dotted quad of an address.
func mirrorDotted(a uint32) string {
	var buf [15]byte
	b := buf[:0]
	b = strconv.AppendUint(b, uint64(a>>24), 10)
	b = append(b, '.')
	b = strconv.AppendUint(b, uint64(a>>16&0xff), 10)
	b = append(b, '.')
	b = strconv.AppendUint(b, uint64(a>>8&0xff), 10)
	b = append(b, '.')
	b = strconv.AppendUint(b, uint64(a&0xff), 10)
	return string(b)
}
