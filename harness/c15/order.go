package main

// Order dependence ("hidden state in pure functions"): every function of the property must return the
// same value for the same argument whatever was called before.
//   (a) boundary inputs are evaluated as the very FIRST call of a fresh child process (this binary
//       re-executed with -firstcall), and compared with an independent reference where one exists
//       and with the value the warmed-up parent computes;
//   (b) a sample of inputs, incl. families congruent mod 256 / 1024 / 4096, is evaluated sequentially
//       at the very start of the run and again at the very end (reverse order); both must agree.

import (
	"fmt"
	"hash/crc32"
	"math"
	"os"
	"os/exec"
	"strconv"
	"strings"

	"github.com/whatap/golib/util/bitutil"
	"github.com/whatap/golib/util/hash"
	"github.com/whatap/golib/util/hexa32"
	"github.com/whatap/golib/util/hll"
	"github.com/whatap/golib/util/iputil"
	"github.com/whatap/golib/util/stringutil"
	"verif/harness/vh"
)

// callOp performs exactly one call of the implementation: "<Func> <arg>" (bytes as hex, "-" = empty, "nil" = nil slice).
func callOp(op string) (res string) {
	defer func() {
		if r := recover(); r != nil {
			res = "panic"
		}
	}()
	f := strings.SplitN(op, " ", 2)
	arg := ""
	if len(f) > 1 {
		arg = f[1]
	}
	bytesArg := func() []byte {
		if arg == "nil" {
			return nil
		}
		return vh.UnHex(arg)
	}
	i64 := func() int64 { v, _ := strconv.ParseInt(arg, 10, 64); return v }
	switch f[0] {
	case "Hash":
		return fmt.Sprint(hash.Hash(bytesArg()))
	case "HashStr":
		return fmt.Sprint(hash.HashStr(string(bytesArg())))
	case "Hash64":
		return fmt.Sprint(hash.Hash64(bytesArg()))
	case "Hash64v2":
		return fmt.Sprint(hash.Hash64v2(bytesArg()))
	case "Hash64V2":
		return fmt.Sprint(hash.Hash64V2(bytesArg()))
	case "GetLongHash":
		return fmt.Sprint(hash.GetLongHash(string(bytesArg())))
	case "HashAddr":
		return fmt.Sprint(hash.HashAddr(bytesArg()))
	case "HashCode":
		return fmt.Sprint(stringutil.HashCode(string(bytesArg())))
	case "MurmurHashByte":
		return fmt.Sprint(hll.MurmurHashByte(bytesArg()))
	case "MurmurHashLongByte":
		b := bytesArg()
		return fmt.Sprint(hll.MurmurHashLongByte(b, int32(len(b))))
	case "MurmurHashLong":
		v, _ := strconv.ParseUint(arg, 10, 64)
		return fmt.Sprint(hll.MurmurHashLong(v))
	case "MurmurHash":
		v, _ := strconv.ParseUint(arg, 10, 32)
		return fmt.Sprint(hll.MurmurHash(uint32(v)))
	case "ToString32":
		return hexa32.ToString32(i64())
	case "ToLong32":
		return fmt.Sprint(hexa32.ToLong32(string(bytesArg())))
	case "ip.ToString":
		return iputil.ToString(bytesArg())
	case "ip.ToStringInt":
		return iputil.ToStringInt(int32(i64()))
	case "ip.ToStringFrInt":
		return iputil.ToStringFrInt(int32(i64()))
	case "ip.ToBytes":
		return vh.Hex(iputil.ToBytes(string(bytesArg())))
	case "ip.ToBytesFrInt":
		return vh.Hex(iputil.ToBytesFrInt(int32(i64())))
	case "ip.ToInt":
		return fmt.Sprint(iputil.ToInt(bytesArg()))
	case "Composite64":
		v := i64()
		return fmt.Sprint(bitutil.Composite64(int32(v>>32), int32(v)))
	case "GetHigh64":
		return fmt.Sprint(bitutil.GetHigh64(i64()))
	case "GetLow64":
		return fmt.Sprint(bitutil.GetLow64(i64()))
	}
	return "bad-op"
}

// refOp is the independent reference for an op, "" where the harness has none.
func refOp(op string) string {
	f := strings.SplitN(op, " ", 2)
	arg := ""
	if len(f) > 1 {
		arg = f[1]
	}
	bytesArg := func() []byte {
		if arg == "nil" {
			return nil
		}
		return vh.UnHex(arg)
	}
	i64 := func() int64 { v, _ := strconv.ParseInt(arg, 10, 64); return v }
	switch f[0] {
	case "Hash", "HashStr":
		return fmt.Sprint(int32(crc32.ChecksumIEEE(bytesArg())))
	case "MurmurHashLongByte":
		return fmt.Sprint(refMurmurHash64A(bytesArg(), defaultSeed))
	case "MurmurHashLong":
		v, _ := strconv.ParseUint(arg, 10, 64)
		var le [8]byte
		for k := 0; k < 8; k++ {
			le[k] = byte(v >> (8 * uint(k)))
		}
		return fmt.Sprint(refMurmurHash2(le[:], 8))
	case "ToString32":
		return refToString32(i64())
	case "ip.ToString":
		if b := bytesArg(); len(b) == 4 {
			return mirrorDotted(uint32(b[0])<<24 | uint32(b[1])<<16 | uint32(b[2])<<8 | uint32(b[3]))
		} else if len(b) == 0 {
			return "0.0.0.0"
		}
	case "ip.ToStringInt", "ip.ToStringFrInt":
		return mirrorDotted(uint32(int32(i64())))
	case "ip.ToBytesFrInt":
		a := uint32(int32(i64()))
		return vh.Hex([]byte{byte(a >> 24), byte(a >> 16), byte(a >> 8), byte(a)})
	case "ip.ToInt":
		if b := bytesArg(); len(b) >= 4 {
			return fmt.Sprint(int32(uint32(b[0])<<24 | uint32(b[1])<<16 | uint32(b[2])<<8 | uint32(b[3])))
		}
	}
	return ""
}

// boundary inputs, one per function, evaluated first in a fresh process
func boundaryOps() []string {
	var ops []string
	for _, b := range []string{"nil", "-", "00", "ff", "00000000", "ffffffff", "0000000000000000", "68656c6c6f"} {
		for _, fn := range []string{"Hash", "HashStr", "Hash64", "Hash64v2", "Hash64V2", "GetLongHash", "HashAddr", "HashCode", "MurmurHashByte", "MurmurHashLongByte"} {
			if b == "nil" && (fn == "HashStr" || fn == "GetLongHash" || fn == "HashCode") {
				continue
			}
			ops = append(ops, fn+" "+b)
		}
	}
	for _, v := range []int64{0, 1, -1, 9, 10, 31, 32, -32, 1024, math.MinInt64, math.MaxInt64, math.MinInt64 + 1} {
		ops = append(ops, "ToString32 "+strconv.FormatInt(v, 10), "ToLong32 "+vh.Hex([]byte(refToString32(v))))
	}
	ops = append(ops, "ToLong32 -")
	for _, v := range []uint64{0, 1, 0xffffffff, 0xffffffffffffffff} {
		ops = append(ops, "MurmurHashLong "+strconv.FormatUint(v, 10))
		if v <= 0xffffffff {
			ops = append(ops, "MurmurHash "+strconv.FormatUint(v, 10))
		}
	}
	for _, a := range []int64{0, 1, -1, 255, 256, 1024, 2048, 4096, math.MinInt32, math.MaxInt32, 0x7f000001, -1062731775} {
		s := strconv.FormatInt(a, 10)
		u := uint32(int32(a))
		b := vh.Hex([]byte{byte(u >> 24), byte(u >> 16), byte(u >> 8), byte(u)})
		ops = append(ops, "ip.ToStringInt "+s, "ip.ToStringFrInt "+s, "ip.ToBytesFrInt "+s, "ip.ToString "+b, "ip.ToInt "+b,
			"ip.ToBytes "+vh.Hex([]byte(mirrorDotted(u))))
	}
	ops = append(ops, "ip.ToString nil", "ip.ToString -", "ip.ToBytes -")
	for _, v := range []int64{0, 1, -1, math.MinInt64, math.MaxInt64} {
		s := strconv.FormatInt(v, 10)
		ops = append(ops, "Composite64 "+s, "GetHigh64 "+s, "GetLow64 "+s)
	}
	return ops
}

// firstCallChild: the child side of (a)
func firstCallChild(op string) {
	fmt.Println(callOp(op))
	os.Exit(0)
}

// (a) every boundary op as the first call of a fresh process
func freshProcessSection(ops []string) {
	self, err := os.Executable()
	if err != nil {
		rep.Note("fresh-process stage skipped: %v", err)
		return
	}
	outs := make([]string, len(ops))
	errs := make([]error, len(ops))
	parallel8(len(ops), func(i int) {
		o, err := exec.Command(self, "-firstcall", ops[i]).Output()
		outs[i], errs[i] = strings.TrimRight(string(o), "\n"), err
	})
	for i, op := range ops {
		regCase("first-call "+op, true)
		rep.Count("order:first-call-in-fresh-process")
		if errs[i] != nil {
			rep.Note("fresh-process call %q could not run: %v", op, errs[i])
			continue
		}
		fn := strings.SplitN(op, " ", 2)[0]
		warm := callOp(op) // the parent has made millions of calls by now
		if outs[i] != warm {
			failProp(fn+":result-depends-on-call-order", fmt.Sprintf("%s as the first call of a fresh process returns %q, after other calls %q", op, outs[i], warm),
				replay{Op: "first-call " + op, Impl: outs[i], Model: warm})
		}
		if want := refOp(op); want != "" && outs[i] != want {
			failProp(fn+":first-call-differs-from-reference", fmt.Sprintf("%s as the first call of a fresh process returns %q, the reference value is %q", op, outs[i], want),
				replay{Op: "first-call " + op, Impl: outs[i], Model: want})
		}
	}
}

func parallel8(n int, f func(i int)) {
	ch := make(chan int)
	done := make(chan struct{})
	for w := 0; w < 8; w++ {
		go func() {
			for i := range ch {
				f(i)
			}
			done <- struct{}{}
		}()
	}
	for i := 0; i < n; i++ {
		ch <- i
	}
	close(ch)
	for w := 0; w < 8; w++ {
		<-done
	}
}

// (b) the twice-evaluated sample
var twiceOps []string
var twiceFirst []string

func twiceSampleOps(rng *vh.Rng) []string {
	ops := boundaryOps()
	// congruent families: x, x+256k, x+1024k, x+4096k
	bases := []int64{0, 1, 5, 255, 1023, 4095}
	for i := 0; i < 40; i++ {
		bases = append(bases, int64(int32(rng.U64())))
	}
	for _, b := range bases {
		for _, m := range []int64{256, 1024, 4096, 65536} {
			for k := int64(0); k <= 3; k++ {
				v := int64(int32(b + k*m))
				s := strconv.FormatInt(v, 10)
				ops = append(ops, "ip.ToStringInt "+s, "ip.ToStringFrInt "+s, "ip.ToBytesFrInt "+s, "ToString32 "+s,
					"ToLong32 "+vh.Hex([]byte(refToString32(v))), "MurmurHashLong "+strconv.FormatUint(uint64(v), 10), "GetHigh64 "+s)
				u := uint32(int32(v))
				bb := []byte{byte(u >> 24), byte(u >> 16), byte(u >> 8), byte(u)}
				ops = append(ops, "ip.ToString "+vh.Hex(bb), "ip.ToBytes "+vh.Hex([]byte(mirrorDotted(u))), "Hash "+vh.Hex(bb), "Hash64v2 "+vh.Hex(bb),
					"HashCode "+vh.Hex(bb), "MurmurHashByte "+vh.Hex(bb))
			}
		}
	}
	return ops
}

// at the very start: sequential, boundary values before anything else
func twiceBegin(rng *vh.Rng) {
	twiceOps = twiceSampleOps(rng)
	twiceFirst = make([]string, len(twiceOps))
	for i, op := range twiceOps {
		twiceFirst[i] = callOp(op)
		if want := refOp(op); want != "" && twiceFirst[i] != want {
			fn := strings.SplitN(op, " ", 2)[0]
			failProp(fn+":first-call-differs-from-reference", fmt.Sprintf("%s evaluated before any other input returns %q, the reference value is %q", op, twiceFirst[i], want),
				replay{Op: "first-call " + op, Impl: twiceFirst[i], Model: want})
		}
	}
}

// at the very end: the same inputs again, in reverse order
func twiceEnd() {
	for i := len(twiceOps) - 1; i >= 0; i-- {
		op := twiceOps[i]
		regCase("twice "+op, true)
		rep.Count("order:evaluated-before-and-after")
		if again := callOp(op); again != twiceFirst[i] {
			fn := strings.SplitN(op, " ", 2)[0]
			failProp(fn+":result-depends-on-call-order", fmt.Sprintf("%s returned %q before the run and %q after it", op, twiceFirst[i], again),
				replay{Op: "first-call " + op, Impl: twiceFirst[i], Model: again})
		}
	}
}
