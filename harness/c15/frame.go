package main

// Caller's memory ("pure function" also means: no effect on, and no dependence on, anything but the
// bytes it is asked to hash).  A []byte argument is a window into memory the caller owns:
//
//	backing array = | pre guard bytes | the n bytes of the input | post guard bytes |
//
// and the function gets the window in one of three shapes:
//	spare  back[pre : pre+n]            len n, capacity reaches to the end of the backing array
//	tight  back[pre : pre+n : pre+n]    len n, cap n, but the neighbours are live memory of the caller
//	long   back[pre : pre+n+post] with an explicit length n   (only functions that take a length)
// Directly evaluated clauses, for every function of the property that takes a byte slice:
//	(W) after the call every byte of the backing array (guards AND input) is what it was before;
//	(R) the value equals the value on a freshly allocated, exactly sized copy of the n bytes, whatever
//	    the guards contain (three guard fills) — the result depends on the input only;
// and for the functions that RETURN a byte slice:
//	(A) the result is the caller's: scribbling over it, or calling the function again with another
//	    argument, does not change what an earlier / later call returned.
// Replay lines: "frame <Func> <pre> <n> <post> <shape> <fill> <hex of the n bytes>", "alias <Func> <arg> <arg2>".

import (
	"encoding/binary"
	"fmt"
	"strconv"
	"strings"

	"github.com/whatap/golib/util/hash"
	"github.com/whatap/golib/util/hll"
	"github.com/whatap/golib/util/iputil"
	"verif/harness/vh"
)

type frameFn struct {
	name     string
	minLen   int  // shortest input the function accepts without an index panic
	takesLen bool // has an explicit length parameter
	call     func(b []byte, length int) string
}

var frameFns = []frameFn{
	{"Hash", 0, false, func(b []byte, _ int) string { return fmt.Sprint(hash.Hash(b)) }},
	{"Hash64", 0, false, func(b []byte, _ int) string { return fmt.Sprint(hash.Hash64(b)) }},
	{"Hash64v2", 0, false, func(b []byte, _ int) string { return fmt.Sprint(hash.Hash64v2(b)) }},
	{"Hash64V2", 0, false, func(b []byte, _ int) string { return fmt.Sprint(hash.Hash64V2(b)) }},
	{"HashAddr", 0, false, func(b []byte, _ int) string { return fmt.Sprint(hash.HashAddr(b)) }},
	{"hash.ToInt", 4, false, func(b []byte, _ int) string { return fmt.Sprint(hash.ToInt(b)) }},
	{"hash.ToLong", 8, false, func(b []byte, _ int) string { return fmt.Sprint(hash.ToLong(b)) }},
	{"MurmurHashByte", 0, false, func(b []byte, _ int) string { return fmt.Sprint(hll.MurmurHashByte(b)) }},
	{"MurmurHashByteSeed", 0, false, func(b []byte, _ int) string { return fmt.Sprint(hll.MurmurHashByteSeed(b, 0x9747b28c)) }},
	{"MurmurHashLongByte", 0, true, func(b []byte, n int) string { return fmt.Sprint(hll.MurmurHashLongByte(b, int32(n))) }},
	{"ip.ToString", 4, false, func(b []byte, _ int) string { return iputil.ToString(b) }},
	{"ip.ToInt", 4, false, func(b []byte, _ int) string { return fmt.Sprint(iputil.ToInt(b)) }},
	{"ip.IsOK", 0, false, func(b []byte, _ int) string { return fmt.Sprint(iputil.IsOK(b)) }},
	{"ip.IsNotLocal", 0, false, func(b []byte, _ int) string { return fmt.Sprint(iputil.IsNotLocal(b)) }},
}

func frameFnByName(name string) *frameFn {
	for i := range frameFns {
		if frameFns[i].name == name {
			return &frameFns[i]
		}
	}
	return nil
}

func guardByte(fill, i int) byte {
	switch fill {
	case 0:
		return 0x00
	case 1:
		return 0xff
	default:
		return byte(0xa5 ^ (i * 29))
	}
}

type frameCase struct {
	fn        *frameFn
	pre, post int
	shape     string // spare | tight | long
	fill      int
	data      []byte
}

func (c frameCase) line() string {
	return fmt.Sprintf("frame %s %d %d %d %s %d %s", c.fn.name, c.pre, len(c.data), c.post, c.shape, c.fill, vh.Hex(c.data))
}

// where, relative to the hashed region, a changed byte lies
func frameWhere(i, pre, n int) string {
	switch {
	case i < pre:
		return fmt.Sprintf("%d byte(s) before the input", pre-i)
	case i < pre+n:
		return fmt.Sprintf("byte %d of the input", i-pre)
	default:
		return fmt.Sprintf("byte %d after the end of the input", i-pre-n)
	}
}

// runFrame evaluates (W) and (R) on one case; ref is the value on an exactly sized fresh copy ("" = compute it).
func runFrame(c frameCase, ref string) {
	n := len(c.data)
	if n < c.fn.minLen {
		return
	}
	back := make([]byte, c.pre+n+c.post)
	for i := range back {
		back[i] = guardByte(c.fill, i)
	}
	copy(back[c.pre:], c.data)
	snap := append([]byte(nil), back...)
	var arg []byte
	switch c.shape {
	case "tight":
		arg = back[c.pre : c.pre+n : c.pre+n]
	case "long":
		arg = back[c.pre : c.pre+n+c.post]
	default:
		arg = back[c.pre : c.pre+n]
	}
	line := c.line()
	var got string
	o := vh.Guard(func() { got = c.fn.call(arg, n) })
	mu.Lock()
	regCase(line, n > 0)
	rep.Count("frame:" + c.shape)
	mu.Unlock()
	if !o.OK() {
		failProp(c.fn.name+":panic-on-window-into-larger-buffer", fmt.Sprintf("%s panicked on a %d-byte window (%s, %d bytes before, %d after)", c.fn.name, n, c.shape, c.pre, c.post),
			replay{Op: line, Detail: o.Panic})
		return
	}
	// (W) the caller's memory is untouched
	for i := range back {
		if back[i] != snap[i] {
			cnt := 0
			for k := range back {
				if back[k] != snap[k] {
					cnt++
				}
			}
			failProp(c.fn.name+":writes-caller-memory",
				fmt.Sprintf("%s on a %d-byte input that is a window (%s) into a %d-byte buffer changed %d byte(s) of the caller's buffer, first: %s (%#02x → %#02x); buffer before %s after %s",
					c.fn.name, n, c.shape, len(back), cnt, frameWhere(i, c.pre, n), snap[i], back[i], vh.Clip(vh.Hex(snap), 120), vh.Clip(vh.Hex(back), 120)),
				replay{Op: line, Impl: vh.Hex(back), Model: vh.Hex(snap)})
			break
		}
	}
	// (R) the value is a function of the n input bytes only
	if ref == "" {
		exact := make([]byte, n)
		copy(exact, c.data)
		ref = c.fn.call(exact, n)
	}
	if got != ref {
		failProp(c.fn.name+":value-depends-on-memory-outside-input",
			fmt.Sprintf("%s(%s) = %s when the %d bytes are a window (%s, guard fill %d, %d before / %d after) into a larger buffer, %s on an exactly sized copy of the same bytes",
				c.fn.name, vh.Clip(vh.Hex(c.data), 40), got, n, c.shape, c.fill, c.pre, c.post, ref),
			replay{Op: line, Impl: got, Model: ref})
	}
}

func frameLens() []int {
	var ns []int
	for n := 0; n <= 40; n++ {
		ns = append(ns, n)
	}
	return append(ns, 63, 64, 65, 127, 128, 129, 255, 256, 257, 1000)
}

func frameSection(rng *vh.Rng) {
	var cases []frameCase
	var refs []string
	add := func(c frameCase, ref string) {
		cases = append(cases, c)
		refs = append(refs, ref)
	}
	for _, n := range frameLens() {
		datas := [][]byte{rng.Bytes(n)}
		if n > 0 && n <= 40 {
			ff := make([]byte, n)
			for i := range ff {
				ff[i] = 0xff
			}
			datas = append(datas, ff)
		}
		for fi := range frameFns {
			fn := &frameFns[fi]
			if n < fn.minLen {
				continue
			}
			for _, d := range datas {
				exact := append(make([]byte, 0, n), d...)
				var ref string
				if o := vh.Guard(func() { ref = fn.call(exact, n) }); !o.OK() {
					continue // panics on exactly sized input belong to the other sections
				}
				for _, pre := range []int{0, 5} {
					for _, post := range []int{0, 1, 7, 8, 24} {
						for fill := 0; fill < 3; fill++ {
							add(frameCase{fn, pre, post, "spare", fill, d}, ref)
							if post > 0 {
								add(frameCase{fn, pre, post, "tight", fill, d}, ref)
								if fn.takesLen {
									add(frameCase{fn, pre, post, "long", fill, d}, ref)
								}
							}
						}
					}
				}
			}
		}
	}
	// every (total, length) pair of a small record for the functions with an explicit length:
	// hashing a prefix of a record must leave the record (and hence its own hash) alone
	for fi := range frameFns {
		fn := &frameFns[fi]
		if !fn.takesLen {
			continue
		}
		for total := 1; total <= 40; total++ {
			rec := rng.Bytes(total)
			for length := 0; length <= total; length++ {
				add(frameCase{fn, 0, total - length, "long", 2, rec[:length]}, "")
			}
		}
	}
	for i := range cases { // sequential: deterministic order of the report
		runFrame(cases[i], refs[i])
	}
	aliasSection(rng)
}

// ---- (A) returned slices

type aliasFn struct {
	name string
	call func(arg string) []byte
}

var aliasFns = []aliasFn{
	{"ip.ToBytes", func(a string) []byte { return iputil.ToBytes(a) }},
	{"ip.ToBytesFrInt", func(a string) []byte { v, _ := strconv.ParseInt(a, 10, 64); return iputil.ToBytesFrInt(int32(v)) }},
	{"ip.ParseHexString", func(a string) []byte { b, _ := iputil.ParseHexString(a); return b }},
}

func aliasFnByName(name string) *aliasFn {
	for i := range aliasFns {
		if aliasFns[i].name == name {
			return &aliasFns[i]
		}
	}
	return nil
}

func runAlias(fn *aliasFn, a1, a2 string) {
	line := fmt.Sprintf("alias %s %s %s", fn.name, vh.Hex([]byte(a1)), vh.Hex([]byte(a2)))
	regCase(line, true)
	rep.Count("frame:returned-slice")
	if fn.name == "ip.ParseHexString" && a1 == a2 { // implementation only: "<hex address, bytes reversed>:<hex port>"
		rep.Count("iputil:ParseHexString-vs-mirror")
		var got []byte
		o := vh.Guard(func() { got = fn.call(a1) })
		if want := parseHexRef(a1); !o.OK() || string(got) != string(want) {
			failProp("ip.ParseHexString:differs-from-mirror", fmt.Sprintf("ParseHexString(%q) = %s (%s), an independent reading of the text gives %s", a1, vh.Hex(got), o.String(), vh.Hex(want)),
				replay{Op: line, Impl: vh.Hex(got), Model: vh.Hex(want)})
		}
	}
	o := vh.Guard(func() {
		r1 := fn.call(a1)
		want1 := append([]byte(nil), r1...)
		r2 := fn.call(a2) // a later call with another argument must not reach into the earlier result
		want2 := append([]byte(nil), r2...)
		if string(r1) != string(want1) {
			failProp(fn.name+":result-shares-memory-between-calls",
				fmt.Sprintf("%s(%q) returned %s; after %s(%q) the same slice reads %s", fn.name, a1, vh.Hex(want1), fn.name, a2, vh.Hex(r1)),
				replay{Op: line, Impl: vh.Hex(r1), Model: vh.Hex(want1)})
			return
		}
		full := r1[:cap(r1)]
		for i := range full { // the caller owns the result and may overwrite it (and its spare capacity)
			full[i] ^= 0xff
		}
		if string(r2) != string(want2) {
			failProp(fn.name+":result-shares-memory-between-calls",
				fmt.Sprintf("overwriting the slice returned by %s(%q) changed the slice returned by %s(%q) from %s to %s", fn.name, a1, fn.name, a2, vh.Hex(want2), vh.Hex(r2)),
				replay{Op: line, Impl: vh.Hex(r2), Model: vh.Hex(want2)})
			return
		}
		if r3 := fn.call(a1); string(r3) != string(want1) {
			failProp(fn.name+":result-shares-memory-between-calls",
				fmt.Sprintf("%s(%q) returned %s; after the caller overwrote that slice, the same call returns %s", fn.name, a1, vh.Hex(want1), vh.Hex(r3)),
				replay{Op: line, Impl: vh.Hex(r3), Model: vh.Hex(want1)})
		}
	})
	if !o.OK() {
		failProp(fn.name+":panic", fn.name+" panicked in the returned-slice stage", replay{Op: line, Detail: o.Panic})
	}
}

// parseHexRef reads "<hex address>:<hex port>" (the form of /proc/net/tcp) independently of the code under
// test: the last four address bytes in reverse order, then the two port bytes.
func parseHexRef(s string) []byte {
	i := strings.IndexByte(s, ':')
	if i < 8 || len(s) < i+5 {
		return nil
	}
	byteAt := func(t string, k int) byte { v, _ := strconv.ParseUint(t[k:k+2], 16, 8); return byte(v) }
	addr, port := s[:i], s[i+1:]
	n := len(addr)
	return []byte{byteAt(addr, n-2), byteAt(addr, n-4), byteAt(addr, n-6), byteAt(addr, n-8), byteAt(port, 0), byteAt(port, 2)}
}

func aliasSection(rng *vh.Rng) {
	texts := []string{"", "0.0.0.0", "1.2.3.4", "255.255.255.255", "127.0.0.1", "1.2.3", "a.b.c.d", "10.0.0.256"}
	for i := 0; i < 40; i++ {
		texts = append(texts, mirrorDotted(uint32(rng.U64())))
	}
	ints := []string{"0", "1", "-1", "2130706433", "-2147483648", "2147483647", "16909060"}
	for i := 0; i < 40; i++ {
		ints = append(ints, strconv.FormatInt(int64(int32(rng.U64())), 10))
	}
	hexs := []string{"0100007F:0050", "00000000:0000", "FFFFFFFF:FFFF", "0100007F:1F90", "00000000000000000000000001000000:0050"}
	for i := 0; i < 20; i++ {
		hexs = append(hexs, fmt.Sprintf("%08X:%04X", uint32(rng.U64()), uint16(rng.U64())))
	}
	for fi := range aliasFns {
		fn := &aliasFns[fi]
		args := texts
		switch fn.name {
		case "ip.ToBytesFrInt":
			args = ints
		case "ip.ParseHexString":
			args = hexs
		}
		for i, a := range args {
			runAlias(fn, a, a)                     // the same argument twice
			runAlias(fn, a, args[(i+1)%len(args)]) // and followed by another one
		}
	}
}

// replay of "frame …" / "alias …" lines
func replayFrame(op string) {
	f := strings.Fields(op)
	switch {
	case len(f) == 8 && f[0] == "frame":
		fn := frameFnByName(f[1])
		if fn == nil {
			return
		}
		pre, _ := strconv.Atoi(f[2])
		post, _ := strconv.Atoi(f[4])
		fill, _ := strconv.Atoi(f[6])
		runFrame(frameCase{fn, pre, post, f[5], fill, vh.UnHex(f[7])}, "")
	case len(f) == 4 && f[0] == "alias":
		if fn := aliasFnByName(f[1]); fn != nil {
			runAlias(fn, string(vh.UnHex(f[2])), string(vh.UnHex(f[3])))
		}
	}
}

// ---- iputil.IsOK / IsNotLocal on slices of every length (the 4-byte case is also swept with the addresses)

func ipOKCases(bs [][]byte) {
	lines := make([]string, len(bs))
	impls := make([]string, len(bs))
	for i, b := range bs {
		lines[i] = "IO " + vh.Hex(b)
		var ok, nl bool
		o := vh.Guard(func() { ok, nl = iputil.IsOK(b), iputil.IsNotLocal(b) })
		if !o.OK() {
			failProp("iputil:panic", fmt.Sprintf("IsOK/IsNotLocal panicked on a %d-byte slice", len(b)), replay{Op: lines[i], Detail: o.Panic})
			impls[i] = "panic"
			continue
		}
		impls[i] = fmt.Sprintf("%v %v", ok, nl)
		// stated directly: a usable address is exactly four bytes; local = first octet 127
		if ok != (len(b) == 4) {
			failProp("iputil:IsOK-wrong", fmt.Sprintf("IsOK on a %d-byte slice = %v", len(b), ok), replay{Op: lines[i]})
		}
		if nl != (len(b) == 4 && b[0] != 127) {
			failProp("iputil:IsNotLocal-wrong", fmt.Sprintf("IsNotLocal(%s) = %v", vh.Hex(b), nl), replay{Op: lines[i]})
		}
	}
	outs := runDriver(lines)
	for i := range lines {
		regCase(lines[i], true)
		rep.Count("ip:IO-any-length")
		if impls[i] != outs[i] && impls[i] != "panic" {
			failCorr("iputil:IO-differs-from-model", fmt.Sprintf("%s: implementation %s, model %s", lines[i], impls[i], outs[i]), replay{Op: lines[i], Impl: impls[i], Model: outs[i]})
		}
	}
}

func ipOKSection(rng *vh.Rng) {
	var bs [][]byte
	if ok, nl := iputil.IsOK(nil), iputil.IsNotLocal(nil); ok || nl {
		failProp("iputil:IsOK-wrong", "IsOK(nil) / IsNotLocal(nil) is true", replay{Op: "IO -"})
	}
	for n := 0; n <= 9; n++ {
		for _, first := range []int{0, 1, 126, 127, 128, 255, -1} {
			b := rng.Bytes(n)
			if n > 0 && first >= 0 {
				b[0] = byte(first)
			}
			bs = append(bs, b)
		}
	}
	ipOKCases(bs)
}

// ---- hash.ToInt / hash.ToLong called directly (HashAddr reaches them only with exactly 4 / 8 bytes):
// big-endian int32 / int64 of the first 4 / 8 bytes, whatever follows; shorter slices panic (index out of range)

func hashToIntCases(bs [][]byte) {
	lines := make([]string, len(bs))
	impls := make([]string, len(bs))
	for i, b := range bs {
		lines[i] = "HT " + vh.Hex(b)
		one := func(f func() string, need int, want func() string, name string) string {
			var got string
			o := vh.Guard(func() { got = f() })
			if len(b) < need {
				if o.OK() {
					return got // the model says panic: reported as a disagreement below
				}
				return "panic"
			}
			if !o.OK() {
				failProp(name+":panic", fmt.Sprintf("%s panicked on a %d-byte slice", name, len(b)), replay{Op: lines[i], Detail: o.Panic})
				return "panic"
			}
			if w := want(); got != w {
				failProp(name+":not-big-endian", fmt.Sprintf("%s(%s) = %s, the big-endian value of its first %d bytes is %s", name, vh.Hex(b), got, need, w), replay{Op: lines[i], Impl: got, Model: w})
			}
			return got
		}
		a := one(func() string { return fmt.Sprint(hash.ToInt(b)) }, 4, func() string { return fmt.Sprint(int32(binary.BigEndian.Uint32(b))) }, "hash.ToInt")
		c := one(func() string { return fmt.Sprint(hash.ToLong(b)) }, 8, func() string { return fmt.Sprint(int64(binary.BigEndian.Uint64(b))) }, "hash.ToLong")
		impls[i] = a + " " + c
	}
	outs := runDriver(lines)
	for i := range lines {
		regCase(lines[i], true)
		rep.Count("hash:ToInt/ToLong-direct")
		if impls[i] != outs[i] {
			failProp("HashAddr:value-differs-from-pinned-definition", fmt.Sprintf("hash.ToInt/ToLong(%s) = %s, the pinned definition gives %s", vh.Hex(bs[i]), impls[i], outs[i]),
				replay{Op: lines[i], Impl: impls[i], Model: outs[i]})
		}
	}
}

func hashToIntSection(rng *vh.Rng) {
	var bs [][]byte
	for n := 0; n <= 12; n++ {
		for _, v := range []int{0x00, 0x7f, 0x80, 0xff} {
			b := make([]byte, n)
			for i := range b {
				b[i] = byte(v)
			}
			bs = append(bs, b)
		}
		for k := 0; k < 40; k++ {
			bs = append(bs, rng.Bytes(n))
		}
	}
	hashToIntCases(bs)
}
