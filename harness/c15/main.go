// Correspondence harness for C15: hashes and identifier encodings
// (util/hash, util/hexa32, util/hll MurmurHash, util/bitutil, util/iputil,
// stringutil.HashCode) against the Lean CodeModels Golib.Hash.* (driver drv_c15).
//
// For every input the property is evaluated directly on the implementation
// (Hash == CRC-32 by Go's hash/crc32, HashStr == Hash of the bytes,
// Hash64v2 == Hash64V2, murmur == the published algorithms (independent mirrors
// in oracle.go), ToLong32(ToString32 n) == n with the documented prefix forms,
// compose/split laws, IPv4 conversions mutually inverse), and the return values
// are compared with the driver's: the Lean definitions are the pinned
// identities of the hash values ("values for given inputs never change").
package main

import (
	"encoding/json"
	"fmt"
	"hash/crc32"
	"math"
	"os"
	"strconv"
	"strings"
	"sync"
	"time"

	"github.com/whatap/golib/util/bitutil"
	"github.com/whatap/golib/util/hash"
	"github.com/whatap/golib/util/hexa32"
	"github.com/whatap/golib/util/hll"
	"github.com/whatap/golib/util/iputil"
	"github.com/whatap/golib/util/stringutil"
	"verif/harness/vh"
)

var (
	env *vh.Env
	rep *vh.Report
	mu  sync.Mutex // guards rep in parallel sweeps
)

const maxRegistered = 400000 // cases registered one by one in the report (the rest are counted in bulk)

var registered int

// regCase registers a case; beyond maxRegistered only the counter moves (the
// thorough sweeps have up to 2^32 cases, all distinct by construction).
func regCase(canon string, nontrivial bool) {
	if registered < maxRegistered {
		registered++
		rep.Case(canon, nontrivial)
		return
	}
	rep.Evaluations++
	bulkDistinct++
}

var bulkDistinct int

// ---------------------------------------------------------------- driver in parallel

func runDriver(lines []string) []string {
	if len(lines) == 0 {
		return nil
	}
	par := 4
	if env.Thorough {
		par = 8
	}
	if len(lines) < 20000 {
		par = 1
	}
	outs := make([]string, len(lines))
	chunk := (len(lines) + par - 1) / par
	var wg sync.WaitGroup
	var firstErr error
	var emu sync.Mutex
	for lo := 0; lo < len(lines); lo += chunk {
		hi := lo + chunk
		if hi > len(lines) {
			hi = len(lines)
		}
		wg.Add(1)
		go func(lo, hi int) {
			defer wg.Done()
			o, err := vh.RunDriver(env.Driver, lines[lo:hi])
			if err != nil {
				emu.Lock()
				if firstErr == nil {
					firstErr = err
				}
				emu.Unlock()
				return
			}
			copy(outs[lo:hi], o)
		}(lo, hi)
	}
	wg.Wait()
	if firstErr != nil {
		vh.Die("%v", firstErr)
	}
	return outs
}

type replay struct {
	Op     string `json:"op"`
	Impl   string `json:"impl,omitempty"`
	Model  string `json:"model,omitempty"`
	Detail string `json:"detail,omitempty"`
}

// family of a failure key: the text before ':' ("Hexa32", "bitutil32", "iputil", ...)
func family(key string) string {
	if i := strings.IndexByte(key, ':'); i >= 0 {
		return key[:i]
	}
	return key
}

var (
	propByFamily = map[string]int{} // property failures per family
	deferredCorr []vh.Failure       // model/implementation disagreements, classified at the end
)

func failProp(key, summary string, r replay) {
	mu.Lock()
	propByFamily[family(key)]++
	rep.Fail("property", key, summary, r)
	mu.Unlock()
}

// failCorr records a disagreement between model and implementation.  It is
// reported as a correspondence failure ("no failing input found") only if the
// property evaluated directly on the implementation held on every input of the
// same family; otherwise the property failures of that family (with their
// concrete inputs) are the finding and the disagreement is its consequence.
func failCorr(key, summary string, r replay) {
	mu.Lock()
	deferredCorr = append(deferredCorr, vh.Failure{Kind: "correspondence", Key: key, Summary: summary, Replay: r})
	mu.Unlock()
}

func flushCorr() {
	explained := map[string]int{}
	for _, f := range deferredCorr {
		if propByFamily[family(f.Key)] > 0 {
			explained[f.Key]++
			continue
		}
		rep.Fail(f.Kind, f.Key, f.Summary, f.Replay)
	}
	for k, n := range explained {
		rep.Note("%d model/implementation disagreement(s) %q are accounted for by the property failure(s) of family %q reported with concrete inputs", n, k, family(k))
	}
}

// ---------------------------------------------------------------- section 1: CRC hashes

type hashOut struct {
	h       int32
	h64     int64
	v2, V2  int64
	addr    int64
	code    int
	propBad bool
}

func evalHash(bs []byte, line string) (string, bool) {
	cp := append([]byte(nil), bs...)
	var o hashOut
	var hs int32
	var h64s, V2s, glh int64
	out := vh.Guard(func() {
		o.h = hash.Hash(bs)
		hs = hash.HashStr(string(bs))
		o.h64 = hash.Hash64(bs)
		h64s = hash.Hash64Str(string(bs))
		o.v2 = hash.Hash64v2(bs)
		o.V2 = hash.Hash64V2(bs)
		V2s = hash.Hash64StrV2(string(bs))
		glh = hash.GetLongHash(string(bs))
		o.addr = hash.HashAddr(bs)
		o.code = stringutil.HashCode(string(bs))
	})
	if !out.OK() {
		failProp("hash:panic", "a hash function panicked on "+vh.Hex(bs), replay{Op: line, Detail: out.Panic})
		return "panic", true
	}
	bad := false
	if want := int32(crc32.ChecksumIEEE(bs)); o.h != want {
		bad = true
		failProp("Hash:differs-from-CRC32", fmt.Sprintf("Hash(%s)=%d, CRC-32 (hash/crc32) gives %d", vh.Clip(vh.Hex(bs), 40), o.h, want),
			replay{Op: line, Impl: fmt.Sprint(o.h), Model: fmt.Sprint(want)})
	}
	if hs != o.h {
		bad = true
		failProp("HashStr:differs-from-Hash-of-bytes", fmt.Sprintf("HashStr=%d Hash=%d on %s", hs, o.h, vh.Clip(vh.Hex(bs), 40)), replay{Op: line})
	}
	if h64s != o.h64 {
		bad = true
		failProp("Hash64Str:differs-from-Hash64-of-bytes", fmt.Sprintf("Hash64Str=%d Hash64=%d on %s", h64s, o.h64, vh.Clip(vh.Hex(bs), 40)), replay{Op: line})
	}
	if o.v2 != o.V2 {
		bad = true
		failProp("Hash64v2:differs-from-Hash64V2", fmt.Sprintf("Hash64v2=%d Hash64V2=%d on %s", o.v2, o.V2, vh.Clip(vh.Hex(bs), 40)),
			replay{Op: line, Impl: fmt.Sprintf("%d vs %d", o.v2, o.V2)})
	}
	if V2s != o.V2 {
		bad = true
		failProp("Hash64StrV2:differs-from-Hash64V2-of-bytes", fmt.Sprintf("Hash64StrV2=%d Hash64V2=%d on %s", V2s, o.V2, vh.Clip(vh.Hex(bs), 40)), replay{Op: line})
	}
	wantG := o.v2
	if len(bs) == 0 {
		wantG = 0
	}
	if glh != wantG {
		bad = true
		failProp("GetLongHash:differs-from-Hash64v2-of-bytes", fmt.Sprintf("GetLongHash=%d Hash64v2=%d on %s", glh, wantG, vh.Clip(vh.Hex(bs), 40)), replay{Op: line})
	}
	if string(cp) != string(bs) {
		bad = true
		failProp("hash:mutates-input", "a hash function changed its argument "+vh.Hex(cp), replay{Op: line})
	}
	// purity: the same call again gives the same values
	if len(bs)%7 == 3 {
		if hash.Hash(bs) != o.h || hash.Hash64(bs) != o.h64 || hash.Hash64v2(bs) != o.v2 || hash.Hash64V2(bs) != o.V2 {
			bad = true
			failProp("hash:not-deterministic", "second call differs on "+vh.Hex(bs), replay{Op: line})
		}
	}
	return fmt.Sprintf("%d %d %d %d %d %d", o.h, o.h64, o.v2, o.V2, o.addr, o.code), bad
}

var hashFields = []string{"Hash", "Hash64", "Hash64v2", "Hash64V2", "HashAddr", "HashCode"}

func lenBucket(n int) string {
	switch {
	case n == 0:
		return "len=0"
	case n <= 2:
		return "len=1..2"
	case n <= 8:
		return "len=3..8"
	case n <= 64:
		return "len=9..64"
	case n <= 1024:
		return "len=65..1024"
	default:
		return "len>1024"
	}
}

func genBytes(r *vh.Rng) []byte {
	switch {
	case r.Chance(6):
		return r.Bytes(r.PickInt([]int{3, 4, 7, 8, 9, 15, 16, 17, 255, 256, 257}))
	case r.Chance(2):
		return r.Bytes(1024 + r.Intn(3072))
	case r.Chance(8): // text-like
		n := r.Intn(40)
		b := make([]byte, n)
		for i := range b {
			b[i] = byte(32 + r.Intn(95))
		}
		return b
	case r.Chance(5): // constant runs (0x00 / 0xff) exercise table[0] and table[255]
		n := 1 + r.Intn(20)
		b := make([]byte, n)
		v := byte(0)
		if r.Bool() {
			v = 0xff
		}
		for i := range b {
			b[i] = v
		}
		return b
	default:
		return r.Bytes(r.Intn(65))
	}
}

func hashSection(inputs [][]byte) {
	lines := make([]string, len(inputs))
	impls := make([]string, len(inputs))
	bads := make([]bool, len(inputs))
	for i, bs := range inputs {
		lines[i] = "H " + vh.Hex(bs)
	}
	parallel(len(inputs), func(i int) { impls[i], bads[i] = evalHash(inputs[i], lines[i]) })
	outs := runDriver(lines)
	for i := range inputs {
		regCase(lines[i], len(inputs[i]) > 0)
		rep.Count("hash:" + lenBucket(len(inputs[i])))
		if i%20011 == 7 {
			rep.Sample(map[string]string{"op": lines[i], "impl": impls[i], "model": outs[i]})
		}
		if impls[i] != outs[i] && impls[i] != "panic" {
			a, b := strings.Fields(impls[i]), strings.Fields(outs[i])
			for k := range hashFields {
				if k < len(a) && k < len(b) && a[k] == b[k] {
					continue
				}
				av, bv := "?", "?"
				if k < len(a) {
					av = a[k]
				}
				if k < len(b) {
					bv = b[k]
				}
				// the Lean definition is the pinned identity of the stored identifier
				failProp(hashFields[k]+":value-differs-from-pinned-definition",
					fmt.Sprintf("%s(%s) = %s, the pinned definition gives %s", hashFields[k], vh.Clip(vh.Hex(inputs[i]), 40), av, bv),
					replay{Op: lines[i], Impl: impls[i], Model: outs[i]})
			}
		}
	}
	// the Spec itself (bit-by-bit CRC-32 run by the driver) against hash/crc32 on a subset
	var cl []string
	var ci []int
	for i := range inputs {
		if i%16 == 0 || len(inputs[i]) <= 1 {
			cl = append(cl, "C "+vh.Hex(inputs[i]))
			ci = append(ci, i)
		}
	}
	co := runDriver(cl)
	for k, i := range ci {
		rep.Count("crc32-spec-vs-hash/crc32")
		if want := strconv.FormatUint(uint64(crc32.ChecksumIEEE(inputs[i])), 10); co[k] != want {
			failCorr("Spec.crc32:differs-from-hash/crc32", "the Lean bit-by-bit CRC-32 disagrees with Go's hash/crc32 on "+vh.Hex(inputs[i]),
				replay{Op: cl[k], Impl: want, Model: co[k]})
		}
	}
}

// nil slices and the empty string
func hashNilSection() {
	var nilb []byte
	o := vh.Guard(func() {
		a, b := hash.Hash64v2(nilb), hash.Hash64V2(nilb)
		outs := runDriver([]string{"HN", "HS -"})
		regCase("HN", true)
		rep.Count("hash:nil")
		if got := fmt.Sprintf("%d %d", a, b); got != outs[0] {
			failProp("Hash64v2:value-differs-from-pinned-definition", "Hash64v2(nil)/Hash64V2(nil) = "+got+", pinned "+outs[0], replay{Op: "HN", Impl: got, Model: outs[0]})
		}
		if a != b {
			failProp("Hash64v2:differs-from-Hash64V2", fmt.Sprintf("on nil: %d vs %d", a, b), replay{Op: "HN"})
		}
		if got := fmt.Sprintf("%d %d", hash.HashStr(""), hash.GetLongHash("")); got != outs[1] {
			failProp("HashStr:value-differs-from-pinned-definition", "HashStr(\"\")/GetLongHash(\"\") = "+got+", pinned "+outs[1], replay{Op: "HS -", Impl: got, Model: outs[1]})
		}
		if hash.Hash(nilb) != int32(crc32.ChecksumIEEE(nil)) {
			failProp("Hash:differs-from-CRC32", "Hash(nil)", replay{Op: "H -"})
		}
	})
	if !o.OK() {
		failProp("hash:panic", "a hash function panicked on nil", replay{Op: "HN", Detail: o.Panic})
	}
}

// bulk stream (thorough): Hash vs hash/crc32 and vs the driver, v2 vs V2
func hashBulk(rng *vh.Rng, n int) {
	const batch = 1000000
	for done := 0; done < n; done += batch {
		m := batch
		if n-done < m {
			m = n - done
		}
		inputs := make([][]byte, m)
		lines := make([]string, m)
		for i := range inputs {
			inputs[i] = genBytes(rng)
			lines[i] = "h " + vh.Hex(inputs[i])
		}
		impls := make([]string, m)
		parallel(m, func(i int) {
			bs := inputs[i]
			h := hash.Hash(bs)
			impls[i] = strconv.FormatInt(int64(h), 10)
			if want := int32(crc32.ChecksumIEEE(bs)); h != want {
				failProp("Hash:differs-from-CRC32", fmt.Sprintf("Hash(%s)=%d, CRC-32 (hash/crc32) gives %d", vh.Clip(vh.Hex(bs), 40), h, want),
					replay{Op: "H " + vh.Hex(bs), Impl: fmt.Sprint(h), Model: fmt.Sprint(want)})
			}
			if a, b := hash.Hash64v2(bs), hash.Hash64V2(bs); a != b {
				failProp("Hash64v2:differs-from-Hash64V2", fmt.Sprintf("Hash64v2=%d Hash64V2=%d on %s", a, b, vh.Clip(vh.Hex(bs), 40)), replay{Op: "H " + vh.Hex(bs)})
			}
		})
		outs := runDriver(lines)
		for i := range lines {
			regCase(lines[i], len(inputs[i]) > 0)
			if impls[i] != outs[i] {
				failProp("Hash:value-differs-from-pinned-definition", fmt.Sprintf("Hash(%s) = %s, the pinned definition gives %s", vh.Clip(vh.Hex(inputs[i]), 40), impls[i], outs[i]),
					replay{Op: "H " + vh.Hex(inputs[i]), Impl: impls[i], Model: outs[i]})
			}
		}
		rep.CountN("hash:bulk-stream", m)
	}
}

// ---------------------------------------------------------------- section 2: murmur

const kfMurmurTail = "MurmurHashByte:tail-bytes-reversed-vs-MurmurHash2"

type murIn struct {
	seed uint32
	data []byte
}

func evalMurmur(in murIn, line string) string {
	var a uint32
	var b uint64
	cp := append([]byte(nil), in.data...)
	o := vh.Guard(func() {
		a = hll.MurmurHashByteSeed(in.data, in.seed)
		if in.seed == defaultSeed {
			b = hll.MurmurHashLongByte(in.data, int32(len(in.data)))
		}
	})
	if !o.OK() {
		failProp("murmur:panic", "a murmur function panicked on "+vh.Hex(in.data), replay{Op: line, Detail: o.Panic})
		return "panic"
	}
	if string(cp) != string(in.data) {
		failProp("murmur:mutates-input", "argument changed", replay{Op: line})
	}
	if in.seed == defaultSeed {
		if d := hll.MurmurHashByte(in.data); d != a {
			failProp("MurmurHashByte:differs-from-seeded-form", fmt.Sprintf("%d vs %d", d, a), replay{Op: line})
		}
		if want := refMurmurHash64A(in.data, defaultSeed); b != want {
			failProp("MurmurHashLongByte:differs-from-MurmurHash64A", fmt.Sprintf("MurmurHashLongByte(%s) = %d, MurmurHash64A gives %d", vh.Clip(vh.Hex(in.data), 40), b, want),
				replay{Op: line, Impl: fmt.Sprint(b), Model: fmt.Sprint(want)})
		}
	}
	ref32 := refMurmurHash2(in.data, in.seed)
	if a != ref32 {
		key := "MurmurHashByte:differs-from-MurmurHash2"
		if len(in.data)%4 >= 2 && a == refMurmurHash2(swapTail(in.data), in.seed) {
			key = kfMurmurTail // the known quirk, and only that
		}
		failProp(key, fmt.Sprintf("MurmurHashByteSeed(%s, %d) = %d, MurmurHash2 gives %d", vh.Clip(vh.Hex(in.data), 40), in.seed, a, ref32),
			replay{Op: line, Impl: fmt.Sprint(a), Model: fmt.Sprint(ref32)})
	}
	return fmt.Sprintf("%d %d", a, b)
}

func murmurSection(inputs []murIn) {
	lines := make([]string, len(inputs))
	impls := make([]string, len(inputs))
	for i, in := range inputs {
		lines[i] = fmt.Sprintf("M %d %s", in.seed, vh.Hex(in.data))
	}
	parallel(len(inputs), func(i int) { impls[i] = evalMurmur(inputs[i], lines[i]) })
	outs := runDriver(lines)
	for i, in := range inputs {
		regCase(lines[i], len(in.data) > 0)
		rep.Count(fmt.Sprintf("murmur:len%%4=%d", len(in.data)%4))
		if i%5003 == 11 {
			rep.Sample(map[string]string{"op": lines[i], "impl": impls[i], "model": outs[i]})
		}
		f := strings.Fields(outs[i])
		if len(f) != 4 || impls[i] == "panic" {
			continue
		}
		g := strings.Fields(impls[i])
		if g[0] != f[0] {
			failProp("MurmurHashByte:value-differs-from-pinned-definition", fmt.Sprintf("MurmurHashByteSeed(%s,%d) = %s, pinned %s", vh.Clip(vh.Hex(in.data), 40), in.seed, g[0], f[0]),
				replay{Op: lines[i], Impl: impls[i], Model: outs[i]})
		}
		if in.seed == defaultSeed && g[1] != f[1] {
			failProp("MurmurHashLongByte:value-differs-from-pinned-definition", fmt.Sprintf("murmurHashLong(%s,%d) = %s, pinned %s", vh.Clip(vh.Hex(in.data), 40), in.seed, g[1], f[1]),
				replay{Op: lines[i], Impl: impls[i], Model: outs[i]})
		}
		// the Lean reference definitions against the independent Go mirrors
		if want := fmt.Sprint(refMurmurHash2(in.data, in.seed)); f[2] != want {
			failCorr("Spec.murmurHash2:differs-from-mirror", "Lean MurmurHash2 vs Go mirror on "+vh.Hex(in.data), replay{Op: lines[i], Impl: want, Model: f[2]})
		}
		if want := fmt.Sprint(refMurmurHash64A(in.data, in.seed)); f[3] != want {
			failCorr("Spec.murmurHash64A:differs-from-mirror", "Lean MurmurHash64A vs Go mirror on "+vh.Hex(in.data), replay{Op: lines[i], Impl: want, Model: f[3]})
		}
	}
}

const defaultSeed = uint32(0xe17a1465)

func murmur64Section(inputs [][]byte, rng *vh.Rng) {
	var lines, impls []string
	var datas [][]byte
	for _, d := range inputs {
		n := len(d)
		if n > 0 && rng.Chance(30) {
			n = rng.Intn(len(d) + 1) // a length shorter than the slice: only data[:length] is read
		}
		line := fmt.Sprintf("MP %d %s", n, vh.Hex(d))
		var got uint64
		before := string(d)
		o := vh.Guard(func() { got = hll.MurmurHashLongByte(d, int32(n)) })
		if !o.OK() {
			failProp("murmur:panic", "MurmurHashLongByte panicked", replay{Op: line, Detail: o.Panic})
			continue
		}
		if string(d) != before {
			failProp("MurmurHashLongByte:writes-caller-memory", fmt.Sprintf("MurmurHashLongByte(data, %d) changed the %d-byte buffer it was given from %s to %s", n, len(d), vh.Clip(vh.Hex([]byte(before)), 80), vh.Clip(vh.Hex(d), 80)),
				replay{Op: fmt.Sprintf("frame MurmurHashLongByte 0 %d %d long 2 %s", n, len(d)-n, vh.Hex([]byte(before)[:n]))})
			copy(d, before)
		}
		if want := refMurmurHash64A(d[:n], defaultSeed); got != want {
			failProp("MurmurHashLongByte:differs-from-MurmurHash64A", fmt.Sprintf("MurmurHashLongByte(%s,%d) = %d, MurmurHash64A gives %d", vh.Clip(vh.Hex(d), 40), n, got, want),
				replay{Op: line, Impl: fmt.Sprint(got), Model: fmt.Sprint(want)})
		}
		lines = append(lines, line)
		impls = append(impls, fmt.Sprint(got))
		datas = append(datas, d)
	}
	outs := runDriver(lines)
	for i := range lines {
		regCase(lines[i], len(datas[i]) > 0)
		rep.Count(fmt.Sprintf("murmur64:len%%8=%d", len(datas[i])%8))
		if impls[i] != outs[i] {
			failProp("MurmurHashLongByte:value-differs-from-pinned-definition", "MurmurHashLongByte = "+impls[i]+", pinned "+outs[i], replay{Op: lines[i], Impl: impls[i], Model: outs[i]})
		}
	}
}

func murmurLongSection(vals []uint64) {
	lines := make([]string, len(vals))
	impls := make([]string, len(vals))
	for i, v := range vals {
		lines[i] = fmt.Sprintf("ML %d", v)
		a, b := hll.MurmurHashLong(v), hll.MurmurHash(uint32(v))
		impls[i] = fmt.Sprintf("%d %d", a, b)
		// MurmurHashLong(d) is MurmurHash2 of the eight little-endian bytes of d with seed 8
		var le [8]byte
		for k := 0; k < 8; k++ {
			le[k] = byte(v >> (8 * uint(k)))
		}
		if want := refMurmurHash2(le[:], 8); a != want {
			failProp("MurmurHashLong:differs-from-MurmurHash2", fmt.Sprintf("MurmurHashLong(%d) = %d, MurmurHash2(le8, seed 8) gives %d", v, a, want), replay{Op: lines[i], Impl: fmt.Sprint(a), Model: fmt.Sprint(want)})
		}
	}
	outs := runDriver(lines)
	for i := range lines {
		regCase(lines[i], vals[i] != 0)
		rep.Count("murmurLong")
		if impls[i] != outs[i] {
			failProp("MurmurHashLong:value-differs-from-pinned-definition", "MurmurHashLong/MurmurHash = "+impls[i]+", pinned "+outs[i], replay{Op: lines[i], Impl: impls[i], Model: outs[i]})
		}
	}
}

// ---------------------------------------------------------------- section 3: Hexa32

// refToString32 is an independent reference encoder of the identifier text, written from the
// documented form (not from the code under test, not from the Lean model): 0..9 ↦ the decimal digit;
// ≥ 10 ↦ "x" + radix-32 digits of n; < 0 ↦ "z" + radix-32 digits of |n| (so MinInt64 ↦ "z8000000000000");
// radix-32 digits are 0-9a-v, most significant first, no leading zero (strconv.FormatUint base 32).
func refToString32(n int64) string {
	switch {
	case n < 0:
		return "z" + strconv.FormatUint(uint64(-(n+1))+1, 32)
	case n < 10:
		return strconv.FormatInt(n, 10)
	default:
		return "x" + strconv.FormatUint(uint64(n), 32)
	}
}

// canonicalText32 evaluates the canonical-form clauses on a text produced for n and names the first
// clause that fails ("" if none): prefix, alphabet, no leading zero, minimal length, equality with the
// reference encoder.
func canonicalText32(n int64, s string) string {
	want := refToString32(n)
	if s == want {
		return ""
	}
	digits := s
	switch {
	case n < 0:
		if len(s) < 2 || s[0] != 'z' {
			return "prefix: a negative number is written z…"
		}
		digits = s[1:]
	case n < 10:
		return "0..9 are written as the decimal digit"
	default:
		if len(s) < 2 || s[0] != 'x' {
			return "prefix: a number ≥ 10 is written x…"
		}
		digits = s[1:]
	}
	for i := 0; i < len(digits); i++ {
		c := digits[i]
		if !(c >= '0' && c <= '9' || c >= 'a' && c <= 'v') {
			return fmt.Sprintf("alphabet: digit %q at position %d is not in 0-9a-v", c, i)
		}
	}
	if digits[0] == '0' {
		return "leading zero digit"
	}
	if len(digits) != len(want)-1 {
		return fmt.Sprintf("length: %d digits, the magnitude has %d base-32 digits", len(digits), len(want)-1)
	}
	return "digits differ from the radix-32 expansion of the magnitude"
}

func evalHexa(n int64, line string) string {
	var s string
	var back, backRef int64
	ref := refToString32(n)
	o := vh.Guard(func() { s = hexa32.ToString32(n); back = hexa32.ToLong32(s); backRef = hexa32.ToLong32(ref) })
	if !o.OK() {
		failProp("Hexa32:panic", fmt.Sprintf("ToString32/ToLong32 panicked on %d", n), replay{Op: line, Detail: o.Panic})
		return "panic"
	}
	if back != n {
		failProp("Hexa32:roundtrip", fmt.Sprintf("ToLong32(ToString32(%d)) = ToLong32(%q) = %d", n, s, back), replay{Op: line, Impl: fmt.Sprintf("%s %d", s, back)})
	}
	// the encoding is the stated function, not just an invertible one: canonical form, evaluated directly
	if why := canonicalText32(n, s); why != "" {
		failProp("ToString32:non-canonical-text", fmt.Sprintf("ToString32(%d) = %q, the stated encoding is %q (%s)", n, s, ref, why),
			replay{Op: line, Impl: s, Model: ref, Detail: why})
	}
	// the decoder on the canonical text, independently of the encoder under test
	if backRef != n {
		failProp("ToLong32:canonical-text-decodes-wrong", fmt.Sprintf("ToLong32(%q) = %d, the text is the stated encoding of %d", ref, backRef, n),
			replay{Op: line, Impl: fmt.Sprint(backRef), Model: fmt.Sprint(n)})
	}
	return fmt.Sprintf("%s %d", vh.Hex([]byte(s)), back)
}

func hexaSection(vals []int64, withDriver bool) {
	lines := make([]string, len(vals))
	impls := make([]string, len(vals))
	for i, v := range vals {
		lines[i] = "X " + strconv.FormatInt(v, 10)
	}
	parallel(len(vals), func(i int) { impls[i] = evalHexa(vals[i], lines[i]) })
	var outs []string
	if withDriver {
		outs = runDriver(lines)
	}
	for i, v := range vals {
		regCase(lines[i], true)
		switch {
		case v == math.MinInt64:
			rep.Count("hexa:min")
		case v < 0:
			rep.Count("hexa:negative")
		case v < 10:
			rep.Count("hexa:digit")
		default:
			rep.Count("hexa:positive")
		}
		if i%30011 == 5 {
			m := ""
			if withDriver {
				m = outs[i]
			}
			rep.Sample(map[string]string{"op": lines[i], "impl": impls[i], "model": m})
		}
		if withDriver && impls[i] != outs[i] && impls[i] != "panic" {
			failCorr("ToString32:text-differs-from-model", fmt.Sprintf("ToString32(%d): implementation %s, model %s (hex text, decoded value)", v, impls[i], outs[i]),
				replay{Op: lines[i], Impl: impls[i], Model: outs[i]})
		}
	}
}

// hexaDirect evaluates the round trip and the documented forms on n random
// integers (uniform over the number of significant bits) without the driver.
func hexaDirect(rng *vh.Rng, n int) {
	const workers = 8
	var wg sync.WaitGroup
	for w := 0; w < workers; w++ {
		r := rng.Fork()
		cnt := n / workers
		wg.Add(1)
		go func() {
			defer wg.Done()
			for i := 0; i < cnt; i++ {
				v := int64(r.U64() >> uint(r.Intn(64)))
				if r.Bool() {
					v = -v
				}
				evalHexa(v, "X "+strconv.FormatInt(v, 10))
			}
		}()
	}
	wg.Wait()
	m := n / workers * workers
	rep.Evaluations += m
	bulkDistinct += m
	rep.CountN("hexa:direct-property-only", m)
}

func hexaBoundaries() []int64 {
	var out []int64
	add := func(v int64) { out = append(out, v) }
	p := int64(1)
	for k := 0; k <= 12; k++ {
		for d := int64(-2); d <= 2; d++ {
			add(p + d)
			add(-p + d)
			add(10*p + d) // 'a' digit boundary
			add(-10*p + d)
			add(p*31 + d) // 'v' digit boundary
			add(-p*31 + d)
			if k < 12 { // 33·32^k: one past the largest leading "10" pattern; overflows for k = 12
				add(p*33 + d)
				add(-p*33 + d)
				add(p*32 + d)
				add(-p*32 + d)
			}
		}
		if k < 12 {
			p *= 32
		}
	}
	add(math.MinInt64)
	for d := int64(0); d < 3000; d++ {
		add(math.MinInt64 + d)
		add(math.MaxInt64 - d)
		add(d - 1500)
	}
	// -limit/32 neighbourhood (the overflow guard of to_long)
	for d := int64(-40); d <= 40; d++ {
		add(math.MaxInt64/32 + d)
		add(-(math.MaxInt64 / 32) + d)
		add(math.MaxInt64/32*32 + d)
	}
	return out
}

// ---------------------------------------------------------------- section 4: bitutil

func evalBit(w int, h, l, src int64) (string, string) {
	line := fmt.Sprintf("B%d %d %d %d", w, h, l, src)
	var got string
	lawFail := func(law string, detail string) {
		failProp(fmt.Sprintf("bitutil%d:%s", w, law), detail, replay{Op: line})
	}
	o := vh.Guard(func() {
		switch w {
		case 64:
			hh, ll := int32(h), int32(l)
			c := bitutil.Composite64(hh, ll)
			gh, gl := bitutil.GetHigh64(src), bitutil.GetLow64(src)
			sh, sl := bitutil.SetHigh64(src, hh), bitutil.SetLow64(src, ll)
			got = fmt.Sprintf("%d %d %d %d %d", c, gh, gl, sh, sl)
			if bitutil.GetHigh64(c) != hh || bitutil.GetLow64(c) != ll {
				lawFail("split-of-compose", fmt.Sprintf("Composite64(%d,%d)=%d splits to (%d,%d)", hh, ll, c, bitutil.GetHigh64(c), bitutil.GetLow64(c)))
			}
			if bitutil.Composite64(gh, gl) != src {
				lawFail("compose-of-split", fmt.Sprintf("Composite64(GetHigh64(%d),GetLow64(%d)) = %d", src, src, bitutil.Composite64(gh, gl)))
			}
			if bitutil.GetHigh64(sh) != hh || bitutil.GetLow64(sh) != gl {
				lawFail("set-high", fmt.Sprintf("SetHigh64(%d,%d)=%d has halves (%d,%d)", src, hh, sh, bitutil.GetHigh64(sh), bitutil.GetLow64(sh)))
			}
			if bitutil.GetLow64(sl) != ll || bitutil.GetHigh64(sl) != gh {
				lawFail("set-low", fmt.Sprintf("SetLow64(%d,%d)=%d has halves (%d,%d)", src, ll, sl, bitutil.GetHigh64(sl), bitutil.GetLow64(sl)))
			}
		case 32:
			hh, ll, s := int16(h), int16(l), int32(src)
			c := bitutil.Composite32(hh, ll)
			gh, gl := bitutil.GetHigh32(s), bitutil.GetLow32(s)
			got = fmt.Sprintf("%d %d %d", c, gh, gl)
			if bitutil.GetHigh32(c) != hh || bitutil.GetLow32(c) != ll {
				lawFail("split-of-compose", fmt.Sprintf("Composite32(%d,%d)=%d splits to (%d,%d)", hh, ll, c, bitutil.GetHigh32(c), bitutil.GetLow32(c)))
			}
			if bitutil.Composite32(gh, gl) != s {
				lawFail("compose-of-split", fmt.Sprintf("Composite32(GetHigh32(%d),GetLow32(%d)) = %d", s, s, bitutil.Composite32(gh, gl)))
			}
		case 16:
			hh, ll, s := byte(h), byte(l), int16(src)
			c := bitutil.Composite16(hh, ll)
			gh, gl := bitutil.GetHigh16(s), bitutil.GetLow16(s)
			got = fmt.Sprintf("%d %d %d", c, gh, gl)
			if bitutil.GetHigh16(c) != hh || bitutil.GetLow16(c) != ll {
				lawFail("split-of-compose", fmt.Sprintf("Composite16(%d,%d)=%d splits to (%d,%d)", hh, ll, c, bitutil.GetHigh16(c), bitutil.GetLow16(c)))
			}
			if bitutil.Composite16(gh, gl) != s {
				lawFail("compose-of-split", fmt.Sprintf("Composite16(GetHigh16(%d),GetLow16(%d)) = %d", s, s, bitutil.Composite16(gh, gl)))
			}
		}
	})
	if !o.OK() {
		failProp("bitutil:panic", "bitutil panicked", replay{Op: line, Detail: o.Panic})
		return line, "panic"
	}
	return line, got
}

type bitIn struct {
	w         int
	h, l, src int64
}

func bitSection(ins []bitIn) {
	lines := make([]string, len(ins))
	impls := make([]string, len(ins))
	parallel(len(ins), func(i int) { lines[i], impls[i] = evalBit(ins[i].w, ins[i].h, ins[i].l, ins[i].src) })
	outs := runDriver(lines)
	for i := range ins {
		regCase(lines[i], true)
		rep.Count(fmt.Sprintf("bitutil%d", ins[i].w))
		if i%40009 == 3 {
			rep.Sample(map[string]string{"op": lines[i], "impl": impls[i], "model": outs[i]})
		}
		if impls[i] != outs[i] && impls[i] != "panic" {
			failCorr(fmt.Sprintf("bitutil%d:differs-from-model", ins[i].w), fmt.Sprintf("%s: implementation %s, model %s", lines[i], impls[i], outs[i]),
				replay{Op: lines[i], Impl: impls[i], Model: outs[i]})
		}
	}
}

func widthBounds(bits uint) []int64 {
	hi := int64(1)<<(bits-1) - 1
	lo := -hi - 1
	out := []int64{0, 1, -1, 2, -2, hi, hi - 1, lo, lo + 1, 127, 128, 255, 256, -128, -129, -256}
	if bits > 16 {
		out = append(out, 32767, 32768, 65535, 65536, -32768, -32769, -65536)
	}
	var r []int64
	for _, v := range out {
		if v >= lo && v <= hi {
			r = append(r, v)
		}
	}
	return r
}

func bitInputs(rng *vh.Rng, nRandom int) []bitIn {
	var ins []bitIn
	b32, b16 := widthBounds(32), widthBounds(16)
	b64 := append(widthBounds(64), 1<<32, 1<<32-1, -(1 << 32), 1<<31, -(1 << 31), 0x7fffffff00000000, -0x100000000+1, 0x00000000ffffffff, -0x0000000100000000)
	for _, h := range b32 {
		for _, l := range b32 {
			ins = append(ins, bitIn{64, h, l, rng.Pick64(b64)})
		}
	}
	for _, s := range b64 {
		ins = append(ins, bitIn{64, rng.Pick64(b32), rng.Pick64(b32), s})
	}
	for _, h := range b16 {
		for _, l := range b16 {
			ins = append(ins, bitIn{32, h, l, rng.Pick64(b32)})
		}
	}
	for _, s := range b32 {
		ins = append(ins, bitIn{32, rng.Pick64(b16), rng.Pick64(b16), s})
	}
	for h := int64(0); h < 256; h++ { // all pairs of bytes, and all 2^16 int16 values as src
		for l := int64(0); l < 256; l++ {
			ins = append(ins, bitIn{16, h, l, int64(int16(h<<8 | l))})
		}
	}
	for i := 0; i < nRandom; i++ {
		ins = append(ins, bitIn{64, int64(int32(rng.U64())), int64(int32(rng.U64())), rng.I64()})
		ins = append(ins, bitIn{32, int64(int16(rng.U64())), int64(int16(rng.U64())), int64(int32(rng.U64()))})
	}
	return ins
}

// ---------------------------------------------------------------- section 5: IPv4

func ipBytes(a uint32) []byte { return []byte{byte(a >> 24), byte(a >> 16), byte(a >> 8), byte(a)} }

// ipProps evaluates the mutual-inverse laws on one address, directly on the implementation.
// It returns the dotted text.
func ipProps(a uint32) string {
	b := ipBytes(a)
	i := int32(a)
	s := iputil.ToString(b)
	back := iputil.ToBytes(s)
	if len(back) != 4 || back[0] != b[0] || back[1] != b[1] || back[2] != b[2] || back[3] != b[3] {
		failProp("iputil:ToBytes-of-ToString", fmt.Sprintf("ToBytes(ToString(%v)) = ToBytes(%q) = %v", b, s, back), replay{Op: "IS " + vh.Hex(b)})
	} else if s2 := iputil.ToString(back); s2 != s {
		failProp("iputil:ToString-of-ToBytes", fmt.Sprintf("ToString(ToBytes(%q)) = %q", s, s2), replay{Op: "IB " + vh.Hex([]byte(s))})
	}
	// canonical text clauses, against the independent dotted-quad writer
	m := mirrorDotted(a)
	if bm := iputil.ToBytes(m); len(bm) != 4 || bm[0] != b[0] || bm[1] != b[1] || bm[2] != b[2] || bm[3] != b[3] {
		failProp("iputil:ToBytes-canonical-text-decodes-wrong", fmt.Sprintf("ToBytes(%q) = %v, the text is the dotted quad of %v", m, bm, b), replay{Op: "IB " + vh.Hex([]byte(m))})
	}
	for _, t := range []string{iputil.ToStringFrInt(i), iputil.ToStringInt(i)} {
		if t != m {
			failProp("iputil:ToString-non-canonical-text", fmt.Sprintf("ToStringFrInt/ToStringInt(%d) = %q, the dotted quad of the address is %q", i, t, m), replay{Op: fmt.Sprintf("II %d", i), Impl: t, Model: m})
		}
	}
	bi := iputil.ToBytesFrInt(i)
	if len(bi) != 4 || bi[0] != b[0] || bi[1] != b[1] || bi[2] != b[2] || bi[3] != b[3] {
		failProp("iputil:ToBytesFrInt-big-endian", fmt.Sprintf("ToBytesFrInt(%d) = %v", i, bi), replay{Op: fmt.Sprintf("II %d", i)})
	}
	if j := iputil.ToInt(bi); j != i {
		failProp("iputil:ToInt-of-ToBytesFrInt", fmt.Sprintf("ToInt(ToBytesFrInt(%d)) = %d", i, j), replay{Op: fmt.Sprintf("II %d", i)})
	}
	if s3 := iputil.ToStringFrInt(i); s3 != s {
		failProp("iputil:ToStringFrInt", fmt.Sprintf("ToStringFrInt(%d) = %q, ToString(bytes) = %q", i, s3, s), replay{Op: fmt.Sprintf("II %d", i)})
	}
	if s3 := iputil.ToStringInt(i); s3 != s {
		failProp("iputil:ToStringFrInt", fmt.Sprintf("ToStringInt(%d) = %q, ToString(bytes) = %q", i, s3, s), replay{Op: fmt.Sprintf("II %d", i)})
	}
	return s
}

// ipPropsCore: the laws that need one call each (used for the sweep over all 2^32 addresses;
// ToString∘ToBytes on the canonical text follows from ToBytes(s) == b by determinism, and the
// FrInt/Int text forms are ToString∘ToBytesFrInt, swept in the strided section).
func ipPropsCore(a uint32) string {
	b := [4]byte{byte(a >> 24), byte(a >> 16), byte(a >> 8), byte(a)}
	i := int32(a)
	s := iputil.ToString(b[:])
	back := iputil.ToBytes(s)
	if len(back) != 4 || back[0] != b[0] || back[1] != b[1] || back[2] != b[2] || back[3] != b[3] {
		failProp("iputil:ToBytes-of-ToString", fmt.Sprintf("ToBytes(ToString(%v)) = ToBytes(%q) = %v", b, s, back), replay{Op: "IS " + vh.Hex(b[:])})
	}
	bi := iputil.ToBytesFrInt(i)
	if len(bi) != 4 || bi[0] != b[0] || bi[1] != b[1] || bi[2] != b[2] || bi[3] != b[3] {
		failProp("iputil:ToBytesFrInt-big-endian", fmt.Sprintf("ToBytesFrInt(%d) = %v", i, bi), replay{Op: fmt.Sprintf("II %d", i)})
	}
	if j := iputil.ToInt(bi); j != i {
		failProp("iputil:ToInt-of-ToBytesFrInt", fmt.Sprintf("ToInt(ToBytesFrInt(%d)) = %d", i, j), replay{Op: fmt.Sprintf("II %d", i)})
	}
	return s
}

func ipSection(addrs []uint32) {
	var lines, impls []string
	texts := make([]string, len(addrs))
	o := vh.Guard(func() {
		parallel(len(addrs), func(i int) { texts[i] = ipProps(addrs[i]) })
	})
	if !o.OK() {
		failProp("iputil:panic", "an IPv4 conversion panicked", replay{Op: "IS", Detail: o.Panic})
		return
	}
	for k, a := range addrs {
		b := ipBytes(a)
		s := texts[k]
		if m := mirrorDotted(a); m != s {
			failProp("iputil:ToString-non-canonical-text", fmt.Sprintf("ToString(%v) = %q, the dotted quad of the address is %q", b, s, m), replay{Op: "IS " + vh.Hex(b), Impl: s, Model: m})
		}
		lines = append(lines, "IS "+vh.Hex(b), "IB "+vh.Hex([]byte(s)), fmt.Sprintf("II %d", int32(a)), "IT "+vh.Hex(b), "IO "+vh.Hex(b))
		impls = append(impls, vh.Hex([]byte(s)), vh.Hex(iputil.ToBytes(s)),
			vh.Hex(iputil.ToBytesFrInt(int32(a)))+" "+vh.Hex([]byte(iputil.ToStringFrInt(int32(a)))), fmt.Sprint(iputil.ToInt(b)),
			fmt.Sprintf("%v %v", iputil.IsOK(b), iputil.IsNotLocal(b)))
		// IsOK is the domain of the conversions: whatever ToBytes / ToBytesFrInt return satisfies it; IsNotLocal = first octet is not 127
		if !iputil.IsOK(iputil.ToBytes(s)) || !iputil.IsOK(iputil.ToBytesFrInt(int32(a))) || !iputil.IsOK(b) {
			failProp("iputil:IsOK-rejects-a-converted-address", fmt.Sprintf("IsOK is false on %v, ToBytes(%q) or ToBytesFrInt(%d)", b, s, int32(a)), replay{Op: "IO " + vh.Hex(b)})
		}
		if iputil.IsNotLocal(b) != (b[0] != 127) {
			failProp("iputil:IsNotLocal-wrong", fmt.Sprintf("IsNotLocal(%v) = %v", b, iputil.IsNotLocal(b)), replay{Op: "IO " + vh.Hex(b)})
		}
	}
	outs := runDriver(lines)
	for i := range lines {
		regCase(lines[i], true)
		rep.Count("ip:" + lines[i][:2])
		if i%50021 == 9 {
			rep.Sample(map[string]string{"op": lines[i], "impl": impls[i], "model": outs[i]})
		}
		if impls[i] != outs[i] {
			failCorr("iputil:"+lines[i][:2]+"-differs-from-model", fmt.Sprintf("%s: implementation %s, model %s", lines[i], impls[i], outs[i]),
				replay{Op: lines[i], Impl: impls[i], Model: outs[i]})
		}
	}
}

// texts that are not canonical dotted quads: what ToBytes makes of them is modelled and proved
// (IpUtil.toBytes_parts / toBytes_other), so it is compared too
func genIPText(r *vh.Rng) string {
	part := func() string {
		switch r.Intn(12) {
		case 0:
			return "+" + strconv.Itoa(r.Intn(300))
		case 1:
			return "-" + strconv.Itoa(r.Intn(600))
		case 2:
			return "0" + strconv.Itoa(r.Intn(300))
		case 3:
			return strconv.Itoa(256 + r.Intn(100000))
		case 4:
			return r.PickStr([]string{"", " ", "a", "1a", "0x10", "1_0", "１", "+", "-", "--1", "1 ", " 1", "1e2", "9223372036854775807", "9223372036854775808", "-9223372036854775808", "-9223372036854775809", "18446744073709551616", "000", "00000000000000000000255"})
		case 5:
			return strconv.FormatInt(r.I64(), 10)
		default:
			return strconv.Itoa(r.Intn(256))
		}
	}
	n := 4
	if r.Chance(15) {
		n = r.PickInt([]int{0, 1, 2, 3, 5, 6})
	}
	ps := make([]string, n)
	for i := range ps {
		ps[i] = part()
	}
	sep := "."
	if r.Chance(3) {
		sep = r.PickStr([]string{"..", ",", ":", ". "})
	}
	return strings.Join(ps, sep)
}

func ipTextSection(texts []string) {
	lines := make([]string, len(texts))
	impls := make([]string, len(texts))
	for i, t := range texts {
		lines[i] = "IB " + vh.Hex([]byte(t))
		var b []byte
		o := vh.Guard(func() { b = iputil.ToBytes(t) })
		if !o.OK() {
			failProp("iputil:panic", "ToBytes panicked on "+strconv.Quote(t), replay{Op: lines[i], Detail: o.Panic})
			impls[i] = "panic"
			continue
		}
		impls[i] = vh.Hex(b)
	}
	outs := runDriver(lines)
	for i := range lines {
		regCase(lines[i], true)
		rep.Count("ip:text-noncanonical")
		if i%4001 == 1 {
			rep.Sample(map[string]string{"op": lines[i], "text": texts[i], "impl": impls[i], "model": outs[i]})
		}
		if impls[i] != outs[i] && impls[i] != "panic" {
			failCorr("iputil:ToBytes-text-differs-from-model", fmt.Sprintf("ToBytes(%q): implementation %s, model %s", texts[i], impls[i], outs[i]),
				replay{Op: lines[i], Impl: impls[i], Model: outs[i]})
		}
	}
}

func ipSpecial() {
	o := vh.Guard(func() {
		if s := iputil.ToString(nil); s != "0.0.0.0" {
			failProp("iputil:ToString-empty", "ToString(nil) = "+s, replay{Op: "IS -"})
		}
		if s := iputil.ToString([]byte{}); s != "0.0.0.0" {
			failProp("iputil:ToString-empty", "ToString([]) = "+s, replay{Op: "IS -"})
		}
		if b := iputil.ToBytes(""); vh.Hex(b) != "00000000" {
			failProp("iputil:ToBytes-empty", "ToBytes(\"\") = "+vh.Hex(b), replay{Op: "IB -"})
		}
		outs := runDriver([]string{"IS -", "IB -"})
		regCase("IS -", true)
		regCase("IB -", true)
		if outs[0] != vh.Hex([]byte("0.0.0.0")) || outs[1] != "00000000" {
			failCorr("iputil:empty-differs-from-model", "model on empty input: "+outs[0]+" "+outs[1], replay{Op: "IS -"})
		}
	})
	if !o.OK() {
		failProp("iputil:panic", "an IPv4 conversion panicked on empty input", replay{Op: "IS -", Detail: o.Panic})
	}
}

// all 2^32 addresses (thorough): laws on the implementation + text against the mirror
func ipFull() {
	const shards = 256
	var wg sync.WaitGroup
	sem := make(chan struct{}, 14)
	for sh := 0; sh < shards; sh++ {
		wg.Add(1)
		sem <- struct{}{}
		go func(sh uint32) {
			defer wg.Done()
			defer func() { <-sem }()
			o := vh.Guard(func() {
				for lo := uint32(0); ; lo++ {
					a := sh<<24 | lo
					if s := ipPropsCore(a); s != mirrorDotted(a) {
						failProp("iputil:ToString-non-canonical-text", fmt.Sprintf("ToString(%v) = %q, the dotted quad of the address is %q", ipBytes(a), s, mirrorDotted(a)), replay{Op: "IS " + vh.Hex(ipBytes(a)), Impl: s, Model: mirrorDotted(a)})
					}
					if lo == 1<<24-1 {
						break
					}
				}
			})
			if !o.OK() {
				failProp("iputil:panic", "an IPv4 conversion panicked", replay{Op: fmt.Sprintf("IS %02x……", sh), Detail: o.Panic})
			}
		}(uint32(sh))
	}
	wg.Wait()
	rep.Evaluations += 1 << 32
	bulkDistinct += 1 << 32
	rep.CountN("ip:full-sweep-2^32", 1<<32)
}

// ---------------------------------------------------------------- helpers

func parallel(n int, f func(i int)) {
	const workers = 8
	if n < 2000 {
		for i := 0; i < n; i++ {
			f(i)
		}
		return
	}
	var wg sync.WaitGroup
	for w := 0; w < workers; w++ {
		wg.Add(1)
		go func(w int) {
			defer wg.Done()
			for i := w; i < n; i += workers {
				f(i)
			}
		}(w)
	}
	wg.Wait()
}

func allShort() [][]byte {
	out := [][]byte{{}}
	for a := 0; a < 256; a++ {
		out = append(out, []byte{byte(a)})
	}
	for a := 0; a < 256; a++ {
		for b := 0; b < 256; b++ {
			out = append(out, []byte{byte(a), byte(b)})
		}
	}
	return out
}

// ---------------------------------------------------------------- known findings

func knownReplays() {
	// MurmurHashByte takes the 2–3 tail bytes in reverse order compared with MurmurHash2
	d := []byte{1, 2}
	got := hll.MurmurHashByte(d)
	want := refMurmurHash2(d, defaultSeed)
	rep.KnownReplay(kfMurmurTail, got != want && got == refMurmurHash2([]byte{2, 1}, defaultSeed),
		fmt.Sprintf("MurmurHashByte(0102) = %d; MurmurHash2(0102, seed 0xe17a1465) = %d; the Go value is MurmurHash2 of 0201", got, want))
}

// ---------------------------------------------------------------- replay mode

func runReplay(path string) {
	raw, err := os.ReadFile(path)
	if err != nil {
		vh.Die("replay: %v", err)
	}
	var rf struct {
		Cases []replay `json:"cases"`
	}
	if err := json.Unmarshal(raw, &rf); err != nil {
		vh.Die("replay: %v", err)
	}
	var hs [][]byte
	var ms []murIn
	var xs []int64
	var bs []bitIn
	var ips []uint32
	var mls []uint64
	var ipTexts []string
	var firstOps []string
	for _, c := range rf.Cases {
		f := strings.Fields(c.Op)
		if len(f) == 0 {
			continue
		}
		if f[0] == "first-call" {
			firstOps = append(firstOps, strings.TrimPrefix(c.Op, "first-call "))
			continue
		}
		if f[0] == "frame" || f[0] == "alias" {
			replayFrame(c.Op)
			continue
		}
		switch f[0] {
		case "H", "h", "HS", "C":
			if len(f) > 1 {
				hs = append(hs, vh.UnHex(f[1]))
			}
		case "HN":
			hashNilSection()
		case "M":
			sd, _ := strconv.ParseUint(f[1], 10, 32)
			ms = append(ms, murIn{uint32(sd), vh.UnHex(f[2])})
		case "MP":
			ms = append(ms, murIn{defaultSeed, vh.UnHex(f[2])})
		case "ML":
			v, _ := strconv.ParseUint(f[1], 10, 64)
			mls = append(mls, v)
		case "X":
			v, _ := strconv.ParseInt(f[1], 10, 64)
			xs = append(xs, v)
		case "B64", "B32", "B16":
			w, _ := strconv.Atoi(f[0][1:])
			h, _ := strconv.ParseInt(f[1], 10, 64)
			l, _ := strconv.ParseInt(f[2], 10, 64)
			s, _ := strconv.ParseInt(f[3], 10, 64)
			bs = append(bs, bitIn{w, h, l, s})
		case "IO":
			ipOKCases([][]byte{vh.UnHex(f[1])})
		case "HT":
			hashToIntCases([][]byte{vh.UnHex(f[1])})
		case "IS", "IT":
			if b := vh.UnHex(f[1]); len(b) == 4 {
				ips = append(ips, uint32(b[0])<<24|uint32(b[1])<<16|uint32(b[2])<<8|uint32(b[3]))
			}
		case "IB":
			if b := iputil.ToBytes(string(vh.UnHex(f[1]))); len(b) == 4 {
				ips = append(ips, uint32(b[0])<<24|uint32(b[1])<<16|uint32(b[2])<<8|uint32(b[3]))
			}
			ipTexts = append(ipTexts, string(vh.UnHex(f[1])))
		case "II":
			v, _ := strconv.ParseInt(f[1], 10, 64)
			ips = append(ips, uint32(int32(v)))
		}
	}
	hashSection(hs)
	murmurSection(ms)
	murmurLongSection(mls)
	hexaSection(xs, true)
	bitSection(bs)
	ipSection(ips)
	ipTextSection(ipTexts)
	freshProcessSection(firstOps)
}

// ---------------------------------------------------------------- main

func main() {
	// child mode of the fresh-process stage: one call, first thing the process does
	for i, a := range os.Args {
		if (a == "-firstcall" || a == "--firstcall") && i+1 < len(os.Args) {
			firstCallChild(os.Args[i+1])
		}
	}
	env, rep = vh.Parse("C15")
	rng := vh.NewRng(env.Seed)
	rep.Rule = "hash inputs: every byte string of length ≤ 2 plus random strings (lengths 0..64 mostly, block-size boundaries, some 1–4 KiB, text-like, constant runs); " +
		"a case is the canonical op line (function family + input); non-trivial = non-empty input (hashes), every integer (Hexa32: ±32^k±2, k=0..12, 3000 values at each extreme and around 0, the overflow-guard neighbourhood, random), " +
		"Hexa32 boundaries: 32^k±2, 10·32^k±2, 31·32^k±2, 32·32^k±2, 33·32^k±2 for all k, both signs, MinInt64; the text of every explored number is compared with an independent reference encoder (prefix, alphabet 0-9a-v, no leading zero, minimal length) and the reference text is decoded; every (high, low, src) triple (bitutil: boundary×boundary, all byte pairs, random), every address (IPv4: boundaries + strided in quick, all 2^32 in thorough). " +
		"Caller's memory: every function taking a byte slice is given its n input bytes (n = 0..40, block boundaries, 1000) as a window into a larger buffer (0/5 guard bytes before, 0/1/7/8/24 after; spare capacity, cap==len, or explicit length < len; three guard fills) and every (record length ≤ 40, prefix length) pair for the functions with a length parameter: the whole buffer must be unchanged and the value equal to that on an exactly sized copy; functions returning a slice: the result must not share memory with another call's result. " +
		"Distinct = distinct canonical op lines (bulk sweeps beyond the first 400000 registered cases are distinct by construction and counted in extra.bulk_distinct)."
	if env.Replay != "" {
		runReplay(env.Replay)
		knownReplays()
		flushCorr()
		rep.Write(env.Out)
		return
	}

	t0 := time.Now()
	lap := func(name string) {
		rep.Note("section %s: %.1fs", name, time.Since(t0).Seconds())
		t0 = time.Now()
	}
	// 0. order dependence, first pass: boundary values and congruent families before anything else
	twiceBegin(rng.Fork())
	lap("order-first-pass")
	// 0b. the caller's memory: windows into larger buffers, spare capacity, explicit lengths, returned slices
	frameSection(rng.Fork())
	lap("caller-memory")
	// 1. CRC family
	nHash, nBulk := 100000, 0
	if env.Thorough {
		nHash, nBulk = 1000000, 10000000
	}
	inputs := allShort()
	for i := 0; i < nHash; i++ {
		inputs = append(inputs, genBytes(rng))
	}
	hashNilSection()
	hashToIntSection(rng.Fork())
	hashSection(inputs)
	if nBulk > 0 {
		hashBulk(rng.Fork(), nBulk)
	}

	lap("crc")
	// 2. murmur
	nMur := 60000
	if env.Thorough {
		nMur = 1000000
	}
	var ms []murIn
	for a := 0; a < 256; a++ { // every 1-byte input, default seed
		ms = append(ms, murIn{defaultSeed, []byte{byte(a)}})
	}
	ms = append(ms, murIn{defaultSeed, []byte{}}, murIn{0, []byte{}}, murIn{0xffffffff, []byte{0xff, 0xff, 0xff, 0xff, 0xff, 0xff, 0xff}})
	var m64 [][]byte
	for i := 0; i < nMur; i++ {
		n := rng.Intn(41)
		if rng.Chance(3) {
			n = 200 + rng.Intn(2000)
		}
		seed := uint32(defaultSeed)
		if rng.Chance(40) {
			seed = uint32(rng.U64())
		}
		d := rng.Bytes(n)
		if rng.Chance(20) { // high-bit bytes in the tail (sign extension in other ports)
			for k := range d {
				d[k] |= 0x80
			}
		}
		ms = append(ms, murIn{seed, d})
		if i%3 == 0 {
			m64 = append(m64, d)
		}
	}
	murmurSection(ms)
	murmur64Section(m64, rng.Fork())
	var mls []uint64
	for _, v := range []uint64{0, 1, 0xffffffff, 0x100000000, 0xffffffffffffffff, 0x8000000000000000, 0x7fffffff, 0x80000000} {
		mls = append(mls, v)
	}
	for i := 0; i < nMur/2; i++ {
		if rng.Chance(30) {
			mls = append(mls, rng.U64()&0xffffffff)
		} else {
			mls = append(mls, rng.U64())
		}
	}
	murmurLongSection(mls)

	lap("murmur")
	// 3. Hexa32
	hv := hexaBoundaries()
	nHexDrv, nHexDirect := 150000, 1000000
	if env.Thorough {
		nHexDrv, nHexDirect = 1000000, 10000000
	}
	for i := 0; i < nHexDrv; i++ {
		switch {
		case rng.Chance(50):
			hv = append(hv, rng.I64())
		default: // random magnitude class: uniformly many base-32 digits
			k := uint(rng.Intn(64))
			v := int64(rng.U64() >> k)
			if rng.Bool() {
				v = -v
			}
			hv = append(hv, v)
		}
	}
	hexaSection(hv, true)
	hexaDirect(rng.Fork(), nHexDirect) // property only (round trip + forms) on the implementation

	lap("hexa32")
	// 4. bitutil
	nBit := 40000
	if env.Thorough {
		nBit = 500000
	}
	bitSection(bitInputs(rng, nBit))

	lap("bitutil")
	// 5. IPv4
	ipSpecial()
	ipOKSection(rng.Fork())
	var addrs []uint32
	for _, a := range []uint32{0, 1, 255, 256, 0x7f000001, 0x7fffffff, 0x80000000, 0xffffffff, 0xfffffffe, 0x0a000001, 0xc0a80101, 0x01020304, 0x64646464, 0x09090909, 0x0a0a0a0a, 0x63636363} {
		addrs = append(addrs, a)
	}
	for o := uint32(0); o < 256; o++ { // every octet value in every position
		addrs = append(addrs, o<<24, o<<16, o<<8, o, o<<24|o<<16|o<<8|o)
	}
	stride := uint32(65521 * 2)
	if env.Thorough {
		stride = 8191
	}
	for a := uint64(rng.Intn(int(stride))); a < 1<<32; a += uint64(stride) {
		addrs = append(addrs, uint32(a))
	}
	ipSection(addrs)
	{
		nText := 30000
		if env.Thorough {
			nText = 1000000
		}
		texts := []string{"+1.01.256.-1", "1.2.3", "a.b.c.d", " 1.2.3.4", "1.2.3.4.5", "99999999999999999999.1.1.1", "...", "1..2.3", "1.2.3.4 ", "-0.+0.00.000"}
		for i := 0; i < nText; i++ {
			texts = append(texts, genIPText(rng))
		}
		ipTextSection(texts)
	}
	lap("ipv4-strided")
	if env.Thorough {
		ipFull()
		lap("ipv4-all-2^32")
	}

	// 6. order dependence, second pass + boundary values as the first call of fresh processes
	twiceEnd()
	freshProcessSection(boundaryOps())
	lap("order-second-pass+fresh-processes")
	knownReplays()
	flushCorr()
	rep.Extra["bulk_distinct"] = bulkDistinct
	rep.Note("pinned identities: the Lean definitions Hash.hash/hash64/hash64v2/hash64V2/hashAddr, StrHash.hashCode, Murmur.murmur32/murmur64/murmurLong; a differing return value is reported as a property failure (stored identifiers would change)")
	rep.Write(env.Out)
}
