package main

// Round 8: the PUBLIC API of lang/pack.  The other phases fill objects by reflection; here packs are
// built the way callers build them — constructors, setters, Put/Add methods — sent through a
// type-tagged trip and observed through the public getters.  Every object built here also goes
// through checkRoundtrip (so it is compared with the Lean model: E/D lines), and a few functions get
// driver lines of their own:
//   HW  the header setters + the TRANSCRIBED statements of AbstractPack.Write  = Go's header bytes
//   HR  the TRANSCRIBED statements of AbstractPack.Read run on a USED object   = Go's a.Read(in)
//   ECB Layout.ecbPad                                                          = ToBytesPackECB
//   E/D LogSinkContent                                                        = Get/SetContentBytes
// Keys: "<Type>.<Method>:<class>".

import (
	"bytes"
	"fmt"
	"math"
	"reflect"
	"strings"

	"github.com/whatap/golib/io"
	"github.com/whatap/golib/lang/pack"
	"github.com/whatap/golib/lang/step"
	"github.com/whatap/golib/lang/value"
	"github.com/whatap/golib/util/compressutil"
	"github.com/whatap/golib/util/hash"
	"github.com/whatap/golib/util/hmap"
	ulist "github.com/whatap/golib/util/list"
	"verif/harness/vh"
)

type apiDrvReq struct {
	line, want, key, what string
	replay                map[string]interface{}
}

var apiDrv []apiDrvReq

// apiFinish: the plain round trip on the API-built object, then the getters of a fresh decode.
func apiFinish(sp *spec, obj interface{}, bucket string, after func(c *Case, q interface{})) *Case {
	c := checkRoundtrip(sp, obj)
	c.buckets = append(c.buckets, "api:"+bucket)
	if len(c.fails) == 0 && after != nil && c.Bytes != nil {
		var q interface{}
		if oc := guard(func() { q, _ = sp.decode(c.Bytes) }); oc.OK() {
			if oc := guard(func() { after(c, q) }); !oc.OK() {
				c.fail(bucket+":panic", "a public accessor panicked on the decoded pack: "+vh.Clip(oc.Panic, 200), oc.Panic)
			}
		}
	}
	return c
}

func headerBytes(h pack.AbstractPack) []byte {
	out := io.NewDataOutputX()
	h.Write(out)
	return out.ToByteArray()
}

func hdrArgs(h pack.AbstractPack) string {
	return fmt.Sprintf("%d %d %d %d %d", h.Pcode, h.Oid, h.Okind, h.Onode, h.Time)
}

func hdrShow(h pack.AbstractPack) string {
	return fmt.Sprintf("Pcode=i:%d;Oid=i:%d;Okind=i:%d;Onode=i:%d;Time=i:%d", h.Pcode, h.Oid, h.Okind, h.Onode, h.Time)
}

var headerPaths = map[string]bool{"Pcode": true, "Oid": true, "Okind": true, "Onode": true, "Time": true}

// apiHeader: SetPCODE/SetOID/SetOKIND/SetONODE/SetTime on a populated pack of any type, GetPCODE/GetTime.
func apiHeader(sp *spec, g *G) *Case {
	obj := sp.gen(g)
	p := obj.(pack.Pack)
	before := Dump(obj)
	h := header(g)
	p.SetPCODE(h.Pcode)
	p.SetOID(h.Oid)
	p.SetOKIND(h.Okind)
	p.SetONODE(h.Onode)
	p.SetTime(h.Time)
	after := Dump(obj)
	// ServerInfoPack.Write does not call AbstractPack.Write: its header is not on the wire (notCarried)
	headerCarried := notCarried[strings.TrimSuffix(sp.name, "/1")+".Pcode"] == ""
	c := apiFinish(sp, obj, "AbstractPack.setters", func(c *Case, q interface{}) {
		qp := q.(pack.Pack)
		if !headerCarried {
			return
		}
		if qp.GetPCODE() != h.Pcode {
			c.fail("AbstractPack.GetPCODE:differs", fmt.Sprintf("%s: SetPCODE(%d), after the trip GetPCODE() = %d", sp.name, h.Pcode, qp.GetPCODE()), fmt.Sprint(qp.GetPCODE()))
		}
		if qp.GetTime() != h.Time {
			c.fail("AbstractPack.GetTime:differs", fmt.Sprintf("%s: SetTime(%d), after the trip GetTime() = %d", sp.name, h.Time, qp.GetTime()), fmt.Sprint(qp.GetTime()))
		}
	})
	if p.GetPCODE() != h.Pcode || p.GetTime() != h.Time {
		c.fail("AbstractPack.setters:getter-differs", fmt.Sprintf("%s: GetPCODE/GetTime = %d/%d after SetPCODE(%d)/SetTime(%d)", sp.name, p.GetPCODE(), p.GetTime(), h.Pcode, h.Time), "")
	}
	// frame: the setters change the five header fields of THIS pack and nothing else
	want := headerKVs(h)
	if len(before) != len(after) {
		c.fail("AbstractPack.setters:frame", fmt.Sprintf("%s: the field dump has %d entries before and %d after the header setters", sp.name, len(before), len(after)), "")
	} else {
		for i := range after {
			if headerPaths[after[i].Path] {
				for _, w := range want {
					if w.Path == after[i].Path && w.Val != after[i].Val {
						c.fail("AbstractPack.setters:not-set", fmt.Sprintf("%s.%s = %s after the setter was given %s", sp.name, w.Path, after[i].Val, w.Val), after[i].Val)
					}
				}
			} else if before[i] != after[i] {
				c.fail("AbstractPack.setters:frame", fmt.Sprintf("%s: a header setter changed %s: %s -> %s", sp.name, after[i].Path, vh.Clip(before[i].Val, 80), vh.Clip(after[i].Val, 80)), after[i].Path)
				break
			}
		}
	}
	// the encoding starts (after the type tag) with exactly what AbstractPack.Write emits for these five values
	hb := headerBytes(h)
	// (SMBasePack and SMPingPack send their whole body, header included, inside a blob: the header follows
	// the blob's 1-, 3- or 5-byte length)
	at := -1
	if c.Bytes != nil {
		at = bytes.Index(c.Bytes[2:], hb)
	}
	wrapped := sp.name == "SMBasePack" || sp.name == "SMPingPack"
	if len(c.fails) == 0 && c.Bytes != nil && headerCarried && !(at == 0 && !wrapped) && !(wrapped && (at == 1 || at == 3 || at == 5)) {
		c.fail("AbstractPack.Write:not-first", sp.name+": the body does not start with the header of the values set", vh.Hex(hb))
	}
	rp := map[string]interface{}{"type": sp.name, "header": hdrShow(h)}
	apiDrv = append(apiDrv, apiDrvReq{"HW " + hdrArgs(h), vh.Hex(hb), "AbstractPack.Write:model-bytes-differ",
		"the transcribed statements of AbstractPack.Write (interpreted) do not write what the Go code writes", rp})
	return c
}

// apiHeaderInto: a header decoded into an object that already holds values (Golib.Layout.decHeaderInto).
func apiHeaderInto(g *G) *Case {
	h0, h := header(g), header(g)
	if g.r.Chance(30) {
		h0.Okind, h0.Onode = 0, 0
	}
	c := &Case{Type: "api.AbstractPack.Read"}
	c.Pre = append(containerPre(h, "into", nil), KV{Path: "held", Val: "b:" + hexOf([]byte(hdrShow(h0)))})
	c.canon = c.Type + ":" + hdrShow(h0) + "<-" + hdrShow(h)
	c.buckets = append(c.buckets, "api:AbstractPack.Read-into-used")
	wire := append(headerBytes(h), 0x5a)
	c.Bytes = wire
	c.nontrivial = true
	a := h0
	in := io.NewDataInputX(wire)
	if oc := guard(func() { a.Read(in) }); !oc.OK() {
		c.fail("AbstractPack.Read:panic", "reading its own header panicked: "+vh.Clip(oc.Panic, 200), oc.Panic)
		return c
	}
	want := h
	if h.Okind|h.Onode == 0 {
		// the short form carries neither field: the object keeps what it held (header_into_used)
		want.Okind, want.Onode = h0.Okind, h0.Onode
		c.buckets = append(c.buckets, "api:into-used:short-form")
	} else {
		c.buckets = append(c.buckets, "api:into-used:long-form")
	}
	// the PROPERTY (decoded header = header written, exact consumption) is demanded where the theorem
	// header_into_used_eq says it holds: long form, or an object holding no kind/node.  What a short header
	// leaves in the Okind/Onode of an object that held some is the model's statement (decHeaderInto), compared
	// through the driver below — a correspondence, not a clause of the property.
	if want == h && (a != h || in.Available() != 1) {
		c.fail("AbstractPack.Read:differs", fmt.Sprintf("object holding {%s} read the header {%s}: now {%s}, %d byte(s) left (want 1)",
			hdrShow(h0), hdrShow(h), hdrShow(a), in.Available()), hdrShow(a))
		return c
	}
	if a.Pcode != h.Pcode || a.Oid != h.Oid || a.Time != h.Time || in.Available() != 1 {
		c.fail("AbstractPack.Read:differs", fmt.Sprintf("object holding {%s} read the short header {%s}: now {%s}, %d byte(s) left (want 1)",
			hdrShow(h0), hdrShow(h), hdrShow(a), in.Available()), hdrShow(a))
		return c
	}
	apiDrv = append(apiDrv, apiDrvReq{"HR " + hdrArgs(h0) + " " + vh.Hex(wire), "ok " + hdrShow(a) + " 1", "AbstractPack.Read:model-differs",
		"the transcribed statements of AbstractPack.Read (interpreted, on a used object) do not deliver what the Go code delivers",
		map[string]interface{}{"held": hdrShow(h0), "bytes": vh.Hex(wire)}})
	// a strict prefix of the header is refused by the model and by the code alike
	cut := wire[:g.r.Intn(len(wire)-1)]
	b := h0
	oc := guard(func() { b.Read(io.NewDataInputX(cut)) })
	wantCut := "fail"
	if oc.OK() {
		wantCut = "ok " + hdrShow(b) + " 0"
		c.fail("AbstractPack.Read:prefix-accepted", fmt.Sprintf("a strict prefix (%d of %d bytes) of a header was read without an error", len(cut), len(wire)-1), vh.Hex(cut))
	}
	apiDrv = append(apiDrv, apiDrvReq{"HR " + hdrArgs(h0) + " " + safeHex(vh.Hex(cut)), wantCut, "AbstractPack.Read:model-differs",
		"truncated header: model and code disagree", map[string]interface{}{"held": hdrShow(h0), "bytes": vh.Hex(cut)}})
	return c
}

// ---------------------------------------------------------------- constructors

type ctorSpec struct {
	name, spec string
	mk         func() interface{}
}

// every exported constructor whose result Write accepts as it is (not listed: NewSMBasePack — Cpu/Memory
// must be given, NewProfilePack — Transaction must be given, NewSMExtensionPack — header/values/meta must
// be given (apiSMExtension sets them); all documented in describe()).
var ctors = []ctorSpec{
	{"NewActiveStackPack", "ActiveStackPack", func() interface{} { return pack.NewActiveStackPack() }},
	{"NewCompositePack", "CompositePack", func() interface{} { return pack.NewCompositePack() }},
	{"NewCounterPack1", "CounterPack1", func() interface{} { return pack.NewCounterPack1() }},
	{"NewErrorSnapPack1", "ErrorSnapPack1", func() interface{} { return pack.NewErrorSnapPack1() }},
	{"NewEventPack", "EventPack", func() interface{} { return pack.NewEventPack() }},
	{"NewExtensionPack", "ExtensionPack", func() interface{} { return pack.NewExtensionPack() }},
	{"NewHitMapPack1", "HitMapPack1", func() interface{} { return pack.NewHitMapPack1() }},
	{"NewLogSinkPack", "LogSinkPack", func() interface{} { return pack.NewLogSinkPack() }},
	{"NewLogSinkZipPack", "LogSinkZipPack", func() interface{} { return pack.NewLogSinkZipPack() }},
	{"NewParamPack", "ParamPack", func() interface{} { return pack.NewParamPack() }},
	{"NewProfileStepSplitPack", "ProfileStepSplitPack", func() interface{} { return pack.NewProfileStepSplitPack() }},
	{"NewRealtimeUserPack", "RealtimeUserPack", func() interface{} { return pack.NewRealtimeUserPack() }},
	{"NewSMDiskPerfPack", "SMDiskPerfPack", func() interface{} { return pack.NewSMDiskPerfPack() }},
	{"NewSMDownCheckPack", "SMDownCheckPack", func() interface{} { return pack.NewSMDownCheckPack() }},
	{"NewSMLogEventPack", "SMLogEventPack", func() interface{} { return pack.NewSMLogEventPack() }},
	{"NewSMNetPerfPack", "SMNetPerfPack", func() interface{} { return pack.NewSMNetPerfPack() }},
	{"NewSMPingPack", "SMPingPack", func() interface{} { return pack.NewSMPingPack() }},
	{"NewSMProcPerfPack", "SMProcPerfPack", func() interface{} { return pack.NewSMProcPerfPack() }},
	{"NewSMTCPPerfPack", "SMTCPPerfPack", func() interface{} { return pack.NewSMTCPPerfPack() }},
	{"NewServerInfoPack", "ServerInfoPack", func() interface{} { return pack.NewServerInfoPack() }},
	{"NewStatErrorPack", "StatErrorPack", func() interface{} { return pack.NewStatErrorPack() }},
	{"NewStatGeneralPack", "StatGeneralPack", func() interface{} { return pack.NewStatGeneralPack() }},
	{"NewStatGeneralPackType", "StatGeneralPack/1", func() interface{} { return pack.NewStatGeneralPackType(pack.PACK_STAT_GENERAL_1) }},
	{"NewStatHttpcPack", "StatHttpcPack", func() interface{} { return pack.NewStatHttpcPack() }},
	{"NewStatRemoteIpPack", "StatRemoteIpPack", func() interface{} { return pack.NewStatRemoteIpPack() }},
	{"NewStatServicePack", "StatServicePack", func() interface{} { return pack.NewStatServicePack() }},
	{"NewStatSqlPack", "StatSqlPack", func() interface{} { return pack.NewStatSqlPack() }},
	{"NewStatTransactionPack", "StatTransactionPack", func() interface{} { return pack.NewStatTransactionPack() }},
	{"NewStatTransactionPack1", "StatTransactionPack1", func() interface{} { return pack.NewStatTransactionPack1() }},
	{"NewStatUserAgentPack", "StatUserAgentPack", func() interface{} { return pack.NewStatUserAgentPack() }},
	{"NewTagCountPack", "TagCountPack", func() interface{} { return pack.NewTagCountPack() }},
	{"NewTagLogPack", "TagLogPack", func() interface{} { return pack.NewTagLogPack() }},
	{"NewTextPack", "TextPack", func() interface{} { return pack.NewTextPack() }},
	{"NewZipPack", "ZipPack", func() interface{} { return pack.NewZipPack() }},
	{"NewSqlRec", "SqlRec", func() interface{} { return pack.NewSqlRec() }},
	{"NewHttpcRec", "HttpcRec", func() interface{} { return pack.NewHttpcRec() }},
	{"NewErrorRec", "ErrorRec", func() interface{} { return pack.NewErrorRec() }},
	{"NewServiceRec", "ServiceRec", func() interface{} { return pack.NewServiceRec() }},
	{"NewTransactionRec", "TransactionRec/v4", func() interface{} { return pack.NewTransactionRec() }},
	{"NewTimeCountDefault", "TimeCount", func() interface{} { return pack.NewTimeCountDefault() }},
}

// apiCtor: what the constructor returns — untouched, or with the header set through the setters — survives the trip.
func apiCtor(cs ctorSpec, g *G, touch bool) *Case {
	sp := specByName[cs.spec]
	obj := cs.mk()
	if p, ok := obj.(pack.Pack); ok && touch {
		h := header(g)
		p.SetPCODE(h.Pcode)
		p.SetOID(h.Oid)
		p.SetOKIND(h.Okind)
		p.SetONODE(h.Onode)
		p.SetTime(h.Time)
	}
	return apiFinish(sp, obj, cs.name, nil)
}

// ---------------------------------------------------------------- type-specific population API

func sameValue(a, b value.Value) bool {
	if a == nil || b == nil {
		return a == nil && b == nil
	}
	return ValString(a) == ValString(b)
}

// goValue: a Go value of one of the types Put(name, interface{}) accepts, and the Value it must become.
// (TagLogPack.Put knows int, int32, int64, float32, float64, string, Value; any other type becomes the
// text of fmt's %v — TagCountPack.Put also knows int16 and the unsigned types.)
func (g *G) goValue(logPack bool) (interface{}, value.Value) {
	other := func(v interface{}, d int64) (interface{}, value.Value) {
		if logPack {
			return v, value.NewTextValue(fmt.Sprintf("%v", v))
		}
		return v, value.NewDecimalValue(d)
	}
	switch g.r.Intn(11) {
	case 0:
		v := int(g.i64())
		return v, value.NewDecimalValue(int64(v))
	case 1:
		v := g.i16()
		return other(v, int64(v))
	case 2:
		v := g.i32()
		return v, value.NewDecimalValue(int64(v))
	case 3:
		v := g.i64()
		return v, value.NewDecimalValue(v)
	case 4:
		v := uint32(g.i32())
		return other(v, int64(v))
	case 5:
		v := uint64(g.i64())
		return other(v, int64(v))
	case 6:
		v := g.f32()
		return v, value.NewFloatValue(v)
	case 7:
		v := g.f64()
		return v, value.NewDoubleValue(v)
	case 8:
		v := g.str()
		return v, value.NewTextValue(v)
	case 9:
		v := uint(uint64(g.i64()))
		return other(v, int64(v))
	default:
		v := g.value(1)
		return v, v
	}
}

type tagPack interface {
	pack.Pack
	PutTag(name, val string)
	GetTag(name string) string
	Put(name string, v interface{})
	Get(name string) value.Value
	GetLong(name string) int64
	GetFloat(name string) float64
	IsEmpty() bool
	Size() int
	Clear()
}

func f64same(a, b float64) bool { return math.Float64bits(a) == math.Float64bits(b) || (a != a && b != b) }

// apiTagPack: TagCountPack / TagLogPack through PutTag / Put / (PutTagLong) and back through the getters.
func apiTagPack(name string, g *G) *Case {
	sp := specByName[name]
	var p tagPack
	if name == "TagCountPack" {
		p = pack.NewTagCountPack()
	} else {
		p = pack.NewTagLogPack()
	}
	g.small++
	defer func() { g.small-- }()
	nt, nd := g.r.Intn(5), g.r.Intn(8)
	tags := map[string]string{}
	var tagLong map[string]int64
	for _, k := range g.keys(nt, nil) {
		if tl, ok := p.(*pack.TagLogPack); ok && g.r.Chance(30) {
			v := g.i64()
			tl.PutTagLong(k, v)
			if tagLong == nil {
				tagLong = map[string]int64{}
			}
			tagLong[k] = v
			continue
		}
		v := g.str()
		p.PutTag(k, v)
		tags[k] = v
	}
	data := map[string]value.Value{}
	var order []string
	for _, k := range g.keys(nd, nil) {
		gv, want := g.goValue(name == "TagLogPack")
		p.Put(k, gv)
		data[k] = want
		order = append(order, k)
	}
	cleared := g.r.Chance(8)
	if cleared {
		p.Clear()
		data, order = map[string]value.Value{}, nil
	}
	setField(p, "Category", g.str())
	type obs struct {
		l int64
		f float64
	}
	pre := map[string]obs{}
	for _, k := range order {
		pre[k] = obs{p.GetLong(k), p.GetFloat(k)}
	}
	size, empty := p.Size(), p.IsEmpty()
	c := apiFinish(sp, p, name+".Put/PutTag", func(c *Case, qi interface{}) {
		q := qi.(tagPack)
		for k, v := range tags {
			if q.GetTag(k) != v {
				c.fail(name+".GetTag:differs", fmt.Sprintf("PutTag(%q, …): GetTag after the trip differs", vh.Clip(k, 40)), q.GetTag(k))
				return
			}
		}
		for k, v := range tagLong {
			tl := q.(*pack.TagLogPack)
			if tv := tl.Tags.Get(k); tv == nil || !sameValue(tv, value.NewDecimalValue(v)) {
				c.fail("TagLogPack.PutTagLong:differs", fmt.Sprintf("PutTagLong(%q, %d) is not a decimal tag of that value after the trip", vh.Clip(k, 40), v), "")
				return
			}
		}
		for _, k := range order {
			if !sameValue(q.Get(k), data[k]) {
				c.fail(name+".Get:differs", fmt.Sprintf("Put(%q, …): Get after the trip is %s, want %s", vh.Clip(k, 40), vh.Clip(ValString(q.Get(k)), 80), vh.Clip(ValString(data[k]), 80)), "")
				return
			}
			if q.GetLong(k) != pre[k].l || !f64same(q.GetFloat(k), pre[k].f) {
				c.fail(name+".GetLong/GetFloat:differs", fmt.Sprintf("GetLong/GetFloat(%q) = %d/%v before and %d/%v after the trip", vh.Clip(k, 40), pre[k].l, pre[k].f, q.GetLong(k), q.GetFloat(k)), "")
				return
			}
		}
		if q.Size() != size || q.IsEmpty() != empty || size != len(order) || empty != (len(order) == 0) {
			c.fail(name+".Size/IsEmpty:differs", fmt.Sprintf("%d Put (cleared: %v): Size/IsEmpty %d/%v before, %d/%v after the trip", len(order), cleared, size, empty, q.Size(), q.IsEmpty()), "")
		}
		if tc, ok := q.(*pack.TagCountPack); ok {
			orig := p.(*pack.TagCountPack)
			if tc.GetTagHash() != orig.GetTagHash() {
				c.fail("TagCountPack.GetTagHash:differs", fmt.Sprintf("GetTagHash %d after Write, %d after the trip", orig.GetTagHash(), tc.GetTagHash()), "")
			}
			if orig.Tags.Size() > 0 {
				o := io.NewDataOutputX()
				value.WriteValue(o, orig.Tags)
				if orig.GetTagHash() != hash.Hash64(o.ToByteArray()) {
					c.fail("TagCountPack.GetTagHash:not-the-hash-of-the-tags", "after Write the tag hash is not Hash64 of the encoded tags", fmt.Sprint(orig.GetTagHash()))
				}
			}
		}
	})
	return c
}

// apiParamPack: Put / PutLong / PutString / SetMapValue / ToResponse, Get / GetLong / GetString / GetMap / Keys.
// (ParamPack.Clear is not called: it calls itself without end.)
func apiParamPack(g *G) *Case {
	sp := specByName["ParamPack"]
	p := pack.NewParamPack()
	g.small++
	defer func() { g.small-- }()
	var order []string
	want := map[string]value.Value{}
	put := func(k string, v value.Value) {
		if _, ok := want[k]; !ok {
			order = append(order, k)
		}
		want[k] = v
	}
	longs, strs := map[string]int64{}, map[string]string{}
	var mapKey string
	for i, k := range g.keys(g.r.Intn(9), nil) {
		switch g.r.Intn(4) {
		case 0:
			v := g.i64()
			p.PutLong(k, v)
			put(k, value.NewDecimalValue(v))
			longs[k] = v
		case 1:
			v := g.str()
			p.PutString(k, v)
			put(k, value.NewTextValue(v))
			strs[k] = v
		case 2:
			if mapKey == "" {
				m := g.mapValue(2)
				p.Put(k, m)
				put(k, m)
				mapKey = k
				break
			}
			fallthrough
		default:
			v := g.value(1)
			p.Put(k, v)
			put(k, v)
		}
		_ = i
	}
	if g.r.Chance(40) {
		mv := g.mapValue(2)
		p.SetMapValue(mv)
		en := mv.Keys()
		for en.HasMoreElements() {
			k := en.NextString()
			put(k, mv.Get(k))
			delete(longs, k)
			delete(strs, k)
			if k == mapKey {
				mapKey = ""
			}
		}
	}
	p.SetMapValue(nil)
	p.Id, p.Request, p.Response = g.i32(), g.i64(), g.i64()
	req, resp := p.Request, p.Response
	if g.r.Chance(50) {
		p.ToResponse()
		if req != 0 {
			req, resp = 0, req
		}
	}
	p.Size()
	return apiFinish(sp, p, "ParamPack.Put/Get", func(c *Case, qi interface{}) {
		q := qi.(*pack.ParamPack)
		if q.Request != req || q.Response != resp {
			c.fail("ParamPack.ToResponse:differs", fmt.Sprintf("Request/Response %d/%d after the trip, want %d/%d", q.Request, q.Response, req, resp), "")
		}
		var got []string
		en := q.Keys()
		for en.HasMoreElements() {
			got = append(got, en.NextString())
		}
		if !reflect.DeepEqual(got, order) && !(len(got) == 0 && len(order) == 0) {
			c.fail("ParamPack.Keys:differs", fmt.Sprintf("keys after the trip: %d, put: %d (or another order)", len(got), len(order)), "")
			return
		}
		for _, k := range order {
			if !sameValue(q.Get(k), want[k]) {
				c.fail("ParamPack.Get:differs", fmt.Sprintf("Get(%q) after the trip is %s, want %s", vh.Clip(k, 40), vh.Clip(ValString(q.Get(k)), 80), vh.Clip(ValString(want[k]), 80)), "")
				return
			}
		}
		for k, v := range longs {
			if q.GetLong(k) != v {
				c.fail("ParamPack.GetLong:differs", fmt.Sprintf("PutLong(%q, %d): GetLong after the trip = %d", vh.Clip(k, 40), v, q.GetLong(k)), "")
			}
		}
		for k, v := range strs {
			if q.GetString(k) != v {
				c.fail("ParamPack.GetString:differs", fmt.Sprintf("PutString(%q, …): GetString after the trip differs", vh.Clip(k, 40)), q.GetString(k))
			}
		}
		if mapKey != "" {
			if m := q.GetMap(mapKey); m == nil || !sameValue(m, want[mapKey]) {
				c.fail("ParamPack.GetMap:differs", fmt.Sprintf("GetMap(%q) after the trip is not the map put", vh.Clip(mapKey, 40)), "")
			}
		}
		if q.GetMap("\x00never-put") != nil || q.Get("\x00never-put").GetValueType() != value.VALUE_NULL {
			c.fail("ParamPack.Get:missing-key", "a key never put is not null / nil after the trip", "")
		}
	})
}

// apiTextPack: AddText / AddTexts.
func apiTextPack(g *G) *Case {
	sp := specByName["TextPack"]
	p, twin := pack.NewTextPack(), pack.NewTextPack()
	g.small++
	defer func() { g.small-- }()
	var all []pack.TextRec
	for i, n := 0, g.r.Intn(4); i < n; i++ {
		if g.r.Bool() {
			r := pack.TextRec{Div: g.u8(), Hash: g.i32(), Text: g.str()}
			p.AddText(r)
			all = append(all, r)
		} else {
			rs := make([]pack.TextRec, g.r.Intn(4))
			for j := range rs {
				rs[j] = pack.TextRec{Div: g.u8(), Hash: g.i32(), Text: g.str()}
			}
			all = append(all, rs...)
			p.AddTexts(append([]pack.TextRec{}, rs...))
		}
	}
	if all == nil {
		all = []pack.TextRec{}
	}
	setField(twin, "records", all)
	c := apiFinish(sp, p, "TextPack.AddText/AddTexts", nil)
	if d := firstDiff(carried(Dump(twin), carryOpt{orig: true}), carried(Dump(p), carryOpt{orig: true})); d != nil {
		c.fail("TextPack.AddText:differs", "the records added one by one / in groups are not the pack's records, in order: "+d.String(), d.String())
	}
	return c
}

func someSteps(g *G) []step.Step {
	n := g.r.Intn(4)
	out := make([]step.Step, 0, n)
	for i := 0; i < n; i++ {
		m := step.NewMessageStep()
		m.Hash = g.i32()
		m.Desc = g.str()
		m.SetStartTime(g.i32())
		out = append(out, m)
	}
	return out
}

// apiProfileSetters: ErrorSnapPack1.SetProfile / SetStack, ProfilePack.SetProfile, ProfileStepSplitPack.SetProfile.
func apiProfileSetters(g *G) []*Case {
	g.small++
	defer func() { g.small-- }()
	var out []*Case
	steps := someSteps(g)
	sb := step.ToBytesStep(steps)
	{
		p := g.genRegistered(pack.PACK_ERROR_SNAP_1, 0).(*pack.ErrorSnapPack1)
		stack := make([]int32, g.r.Intn(6))
		for i := range stack {
			stack[i] = g.i32()
		}
		p.SetProfile(steps)
		p.SetStack(stack)
		out = append(out, apiFinish(specByName["ErrorSnapPack1"], p, "ErrorSnapPack1.SetProfile/SetStack", func(c *Case, qi interface{}) {
			q := qi.(*pack.ErrorSnapPack1)
			if !bytes.Equal(q.Profile, sb) {
				c.fail("ErrorSnapPack1.SetProfile:differs", "Profile after the trip is not the encoding of the steps set", vh.Hex(q.Profile))
			}
			got := io.NewDataInputX(q.Stack).ReadIntArray()
			if len(got) != len(stack) || (len(stack) > 0 && !reflect.DeepEqual(got, stack)) {
				c.fail("ErrorSnapPack1.SetStack:differs", fmt.Sprintf("the call stack set (%d frames) reads back as %d frames or other values", len(stack), len(got)), fmt.Sprint(got))
			}
		}))
	}
	{
		p := g.genRegistered(pack.PACK_PROFILE, 0).(*pack.ProfilePack)
		p.SetProfile(steps)
		out = append(out, apiFinish(specByName["ProfilePack"], p, "ProfilePack.SetProfile", func(c *Case, qi interface{}) {
			if q := qi.(*pack.ProfilePack); !bytes.Equal(q.Steps, sb) {
				c.fail("ProfilePack.SetProfile:differs", "Steps after the trip is not the encoding of the steps set", vh.Hex(q.Steps))
			}
		}))
	}
	{
		p := specByName["ProfileStepSplitPack"].gen(g).(*pack.ProfileStepSplitPack)
		if p.SetProfile(steps) != p {
			panic("ProfileStepSplitPack.SetProfile does not return its receiver")
		}
		out = append(out, apiFinish(specByName["ProfileStepSplitPack"], p, "ProfileStepSplitPack.SetProfile", func(c *Case, qi interface{}) {
			if q := qi.(*pack.ProfileStepSplitPack); !bytes.Equal(q.Steps, sb) {
				c.fail("ProfileStepSplitPack.SetProfile:differs", "Steps after the trip is not the encoding of the steps set", vh.Hex(q.Steps))
			}
		}))
	}
	return out
}

// apiEventPack: SetUuid (generated once, kept), Size (same before Write, after Write, after the trip).
func apiEventPack(g *G) *Case {
	p := g.genRegistered(pack.PACK_EVENT, 0).(*pack.EventPack)
	given := p.Uuid
	p.SetUuid()
	first := p.Uuid
	p.SetUuid()
	size := p.Size()
	c := apiFinish(specByName["EventPack"], p, "EventPack.SetUuid/Size", func(c *Case, qi interface{}) {
		q := qi.(*pack.EventPack)
		if q.Uuid != first {
			c.fail("EventPack.SetUuid:differs", "the uuid set is not the uuid after the trip", q.Uuid)
		}
		if q.Size() != size {
			c.fail("EventPack.Size:differs", fmt.Sprintf("Size() %d before, %d after the trip", size, q.Size()), "")
		}
	})
	if first == "" || (given != "" && first != given) || p.Uuid != first {
		c.fail("EventPack.SetUuid:not-kept", fmt.Sprintf("SetUuid: given %q, first %q, second %q", given, first, p.Uuid), p.Uuid)
	}
	if p.Size() != size {
		c.fail("EventPack.Size:changed-by-Write", fmt.Sprintf("Size() %d before Write, %d after (the reserved attribute keys stayed in the table)", size, p.Size()), "")
	}
	return c
}

// apiHitMap: Add fills the slot HitMapIndex names; slots survive the trip.
func apiHitMap(g *G) *Case {
	p := pack.NewHitMapPack1()
	hit, errs := make([]int32, pack.HITMAP_LENGTH), make([]int32, pack.HITMAP_LENGTH)
	bad := ""
	for i, n := 0, g.r.Intn(300); i < n; i++ {
		t := int(g.r.Pick64([]int64{0, 1, 124, 125, 126, 4999, 5000, 5001, 9999, 10000, 10001, 19999, 20000, 39999, 40000, 79999, 80000, 80001, 1 << 30, int64(g.r.Intn(90000))}))
		e := g.r.Chance(30)
		idx := p.HitMapIndex(t)
		if idx < 0 || idx >= pack.HITMAP_LENGTH {
			bad = fmt.Sprintf("HitMapIndex(%d) = %d", t, idx)
			break
		}
		if back := p.HitMapTime(idx); back > t && t >= 0 {
			bad = fmt.Sprintf("HitMapTime(HitMapIndex(%d)) = %d is later than the time itself", t, back)
		}
		p.Add(t, e)
		hit[idx]++
		if e {
			errs[idx]++
		}
	}
	h := header(g)
	p.AbstractPack = h
	c := apiFinish(specByName["HitMapPack1"], p, "HitMapPack1.Add", func(c *Case, qi interface{}) {
		q := qi.(*pack.HitMapPack1)
		if !reflect.DeepEqual(q.Hit, hit) || !reflect.DeepEqual(q.Error, errs) {
			c.fail("HitMapPack1.Add:differs", "the slots counted by Add are not the slots after the trip", fmt.Sprint(q.Hit))
		}
	})
	if bad != "" {
		c.fail("HitMapPack1.HitMapIndex:out-of-range", bad, bad)
	}
	return c
}

// apiStatGeneral: Put / Get / IsEmpty / Iterate (and Sort before sending).
func apiStatGeneral(g *G, t int16) *Case {
	name := "StatGeneralPack"
	if t != pack.PACK_STAT_GENERAL {
		name = "StatGeneralPack/1"
	}
	p := pack.NewStatGeneralPackType(t)
	g.small++
	defer func() { g.small-- }()
	p.AbstractPack = header(g)
	p.Id = g.str()
	p.DataStartTime = g.i64()
	if t == pack.PACK_STAT_GENERAL {
		p.DataStartTime = 0
	}
	rows := g.r.Intn(6)
	var titles []string
	lists := map[string]string{}
	for _, k := range g.keys(g.r.Intn(5), nil) {
		l := ulist.NewLongListDefault()
		for i := 0; i < rows; i++ {
			l.AddLong(g.i64())
		}
		p.Put(k, l)
		titles = append(titles, k)
	}
	sorted := false
	if len(titles) > 0 && g.r.Chance(40) {
		p.Sort(titles[g.r.Intn(len(titles))], g.r.Bool())
		sorted = true
	}
	for _, k := range titles {
		lists[k] = anyListString(p.Get(k))
	}
	empty := p.IsEmpty()
	c := apiFinish(specByName[name], p, "StatGeneralPack.Put/Get/Iterate", func(c *Case, qi interface{}) {
		q := qi.(*pack.StatGeneralPack)
		if q.IsEmpty() != empty || empty != (len(titles) == 0) {
			c.fail("StatGeneralPack.IsEmpty:differs", fmt.Sprintf("%d columns: IsEmpty %v before, %v after the trip", len(titles), empty, q.IsEmpty()), "")
		}
		for _, k := range titles {
			if got := anyListString(q.Get(k)); got != lists[k] {
				c.fail("StatGeneralPack.Get:differs", fmt.Sprintf("column %q after the trip: %s, put: %s", vh.Clip(k, 40), vh.Clip(got, 100), vh.Clip(lists[k], 100)), got)
				return
			}
		}
		visits := 0
		okTitles := true
		q.Iterate(func(a []string, b []ulist.AnyList, i int) {
			if i != visits || !reflect.DeepEqual(a, titles) || len(b) != len(titles) {
				okTitles = false
			}
			visits++
		})
		wantVisits := rows
		if len(titles) == 0 {
			wantVisits = 0
		}
		if visits != wantVisits || !okTitles {
			c.fail("StatGeneralPack.Iterate:differs", fmt.Sprintf("Iterate visited %d rows (want %d), titles in order: %v", visits, wantVisits, okTitles), "")
		}
	})
	if sorted {
		c.buckets = append(c.buckets, "api:StatGeneralPack.Sort")
	}
	return c
}

// apiLogSink: SetContent / GetContent, TransferOidToTag, ResetTagHash / GetTabAsBytes, and the content codec
// GetContentBytes / SetContentBytes (a write/read pair of its own, Packs.Hand.LogSinkContent in the model).
func apiLogSink(g *G) *Case {
	sp := specByName["LogSinkPack"]
	p := g.logSinkPack()
	g.small++
	defer func() { g.small-- }()
	content := g.str()
	p.SetContent(content)
	hadOid := p.Tags.ContainsKey("oid")
	transfer := g.r.Chance(50)
	if transfer {
		p.TransferOidToTag()
	}
	if g.r.Chance(30) {
		tb := p.ResetTagHash()
		if !bytes.Equal(tb, p.GetTabAsBytes()) || p.TagHash != hash.Hash64(tb) {
			c := &Case{Type: "LogSinkPack", Pre: Dump(p)}
			c.fail("LogSinkPack.ResetTagHash:differs", "ResetTagHash does not return the encoded tags / does not store their Hash64", vh.Hex(tb))
			return c
		}
	}
	cb := p.GetContentBytes()
	c := apiFinish(sp, p, "LogSinkPack.SetContent/TransferOidToTag", func(c *Case, qi interface{}) {
		q := qi.(*pack.LogSinkPack)
		if q.GetContent() != content {
			c.fail("LogSinkPack.GetContent:differs", "SetContent(…): GetContent after the trip differs", q.GetContent())
		}
		if transfer && p.Oid != 0 && !hadOid {
			if v := q.Tags.Get("oid"); v == nil || !sameValue(v, value.NewDecimalValue(int64(p.Oid))) {
				c.fail("LogSinkPack.TransferOidToTag:differs", fmt.Sprintf("oid %d moved into the tags is not a tag of that value after the trip", p.Oid), "")
			}
		}
	})
	// the content codec: a fresh pack given the bytes holds Content and Line, nothing else changed
	q := pack.NewLogSinkPack()
	held := g.str()
	q.Category = held
	if oc := guard(func() { q.SetContentBytes(cb) }); !oc.OK() {
		c.fail("LogSinkPack.SetContentBytes:panic", vh.Clip(oc.Panic, 200), oc.Panic)
	} else if q.Content != p.Content || q.Line != p.Line || q.Category != held {
		c.fail("LogSinkPack.SetContentBytes:differs", fmt.Sprintf("SetContentBytes(GetContentBytes()): Line %d -> %d, content equal: %v", p.Line, q.Line, q.Content == p.Content), vh.Hex(cb))
	}
	// not version 1 / empty / nil: nothing is assigned; truncated: no panic escapes
	r := pack.NewLogSinkPack()
	r.Content, r.Line = "kept", 7
	guard(func() { r.SetContentBytes(nil); r.SetContentBytes([]byte{}); r.SetContentBytes(append([]byte{2}, cb[1:]...)) })
	if r.Content != "kept" || r.Line != 7 {
		c.fail("LogSinkPack.SetContentBytes:version-ignored", "nil / empty / version-2 content bytes changed Content or Line", r.Content)
	}
	if oc := guard(func() { pack.NewLogSinkPack().SetContentBytes(cb[:len(cb)-1]) }); !oc.OK() {
		c.fail("LogSinkPack.SetContentBytes:panic", "truncated content bytes: "+vh.Clip(oc.Panic, 200), oc.Panic)
	}
	if len(cb) < 100000 {
		rec := "Content=" + bv([]byte(p.Content)) + ";Line=" + iv(p.Line)
		rp := map[string]interface{}{"type": "LogSinkPack", "content": vh.Clip(vh.Hex([]byte(p.Content)), 2000), "line": p.Line}
		apiDrv = append(apiDrv, apiDrvReq{"E LogSinkContent " + rec, vh.Hex(cb), "LogSinkPack.GetContentBytes:model-bytes-differ",
			"the model's content layout does not write what GetContentBytes writes", rp})
		apiDrv = append(apiDrv, apiDrvReq{"D LogSinkContent " + vh.Hex(append(append([]byte{}, cb...), 0x5a)), "ok " + rec + " 1", "LogSinkPack.SetContentBytes:model-differs",
			"the model's content reader does not deliver what SetContentBytes assigns", rp})
	}
	return c
}

// apiSMExtension: SetHeader / SetValues / SetMetaValues / SetIsProjectwide.
func apiSMExtension(g *G) *Case {
	p := pack.NewSMExtensionPack()
	g.small++
	defer func() { g.small-- }()
	p.AbstractPack = header(g)
	p.SetHeader(g.intMapValue(2))
	p.SetValues(g.intMapValue(2))
	p.SetMetaValues(g.intMapValue(2))
	p.SetIsProjectwide(g.r.Bool())
	return apiFinish(specByName["SMExtension"], p, "SMExtension.setters", nil)
}

// apiRecords: the records' setters and keys (keys are functions of carried fields: equal after the trip).
func apiRecords(g *G) []*Case {
	var out []*Case
	{
		r := g.sqlRec()
		d, s := g.i32(), g.i32()
		if r.SetDbcSql(d, s) != r {
			panic("SetDbcSql does not return its receiver")
		}
		key := r.Key()
		out = append(out, apiFinish(specByName["SqlRec"], r, "SqlRec.SetDbcSql/Key", func(c *Case, qi interface{}) {
			if q := qi.(*pack.SqlRec); q.Dbc != d || q.Sql != s || q.Key() != key {
				c.fail("SqlRec.Key:differs", fmt.Sprintf("SetDbcSql(%d, %d): after the trip %d, %d, key %d (was %d)", d, s, q.Dbc, q.Sql, q.Key(), key), "")
			}
		}))
	}
	{
		r := g.httpcRec()
		u, h, p := g.i32(), g.i32(), g.i32()
		r.SetUrlHostPort(u, h, p)
		out = append(out, apiFinish(specByName["HttpcRec"], r, "HttpcRec.SetUrlHostPort/Key", func(c *Case, qi interface{}) {
			q := qi.(*pack.HttpcRec)
			k2, k3 := q.KeyHostPort(), q.KeyFull()
			if q.Url != u || q.Host != h || q.Port != p || *k2 != *r.KeyHostPort() || *k3 != *r.KeyFull() {
				c.fail("HttpcRec.KeyFull:differs", fmt.Sprintf("SetUrlHostPort(%d, %d, %d): after the trip %d, %d, %d or another key", u, h, p, q.Url, q.Host, q.Port), "")
			}
		}))
	}
	{
		r := g.errorRec()
		cl, tx := g.i32(), g.i32()
		r.SetClassAndTxUrl(cl, tx)
		key := r.GetKey()
		out = append(out, apiFinish(specByName["ErrorRec"], r, "ErrorRec.SetClassAndTxUrl/GetKey", func(c *Case, qi interface{}) {
			if q := qi.(*pack.ErrorRec); q.ClassHash != cl || q.Service != tx || q.GetKey() != key {
				c.fail("ErrorRec.GetKey:differs", fmt.Sprintf("SetClassAndTxUrl(%d, %d): after the trip %d, %d, key %d (was %d)", cl, tx, q.ClassHash, q.Service, q.GetKey(), key), "")
			}
		}))
	}
	{
		r := g.serviceRec()
		hsh := g.i32()
		r.SetUrlHash(hsh)
		out = append(out, apiFinish(specByName["ServiceRec"], r, "ServiceRec.SetUrlHash", func(c *Case, qi interface{}) {
			if q := qi.(*pack.ServiceRec); q.Hash != hsh {
				c.fail("ServiceRec.SetUrlHash:differs", fmt.Sprintf("SetUrlHash(%d): %d after the trip", hsh, q.Hash), "")
			}
		}))
	}
	{
		r := g.transactionRec()
		hsh := g.i32()
		r.SetUrlHash(hsh)
		out = append(out, apiFinish(specByName["TransactionRec/v4"], r, "TransactionRec.SetUrlHash", func(c *Case, qi interface{}) {
			if q := qi.(*pack.TransactionRec); q.Hash != hsh {
				c.fail("TransactionRec.SetUrlHash:differs", fmt.Sprintf("SetUrlHash(%d): %d after the trip", hsh, q.Hash), "")
			}
		}))
	}
	{
		tc := pack.NewTimeCount(g.i32(), g.i32(), g.i64())
		cp := tc.Copy()
		c := apiFinish(specByName["TimeCount"], cp, "NewTimeCount/Copy", nil)
		if *cp != *tc || cp == tc {
			c.fail("TimeCount.Copy:differs", "Copy is not an equal, distinct TimeCount", "")
		}
		out = append(out, c)
	}
	return out
}

// apiCounterSections: NewNETSTAT / NewWEBSOCKET as the optional sections of CounterPack1; ReadDropMap consumes
// exactly one encoded int-int map.
func apiCounterSections(g *G) *Case {
	p := g.genCounterPack1().(*pack.CounterPack1)
	p.Netstat = pack.NewNETSTAT()
	p.Netstat.Est, p.Netstat.FinW, p.Netstat.CloW, p.Netstat.TimW = g.i32(), g.i32(), g.i32(), g.i32()
	p.Websocket = pack.NewWEBSOCKET()
	p.Websocket.Count, p.Websocket.In, p.Websocket.Out = g.i32(), g.i64(), g.i64()
	c := apiFinish(specByName["CounterPack1"], p, "NewNETSTAT/NewWEBSOCKET", nil)
	m := hmap.NewIntIntMap(7, 1)
	for i, n := 0, g.r.Intn(6); i < n; i++ {
		m.Put(g.i32(), g.i32())
	}
	o := io.NewDataOutputX()
	m.ToBytes(o)
	o.WriteByte(0x5a)
	in := io.NewDataInputX(o.ToByteArray())
	if oc := guard(func() { pack.NewCounterPack1().ReadDropMap(in) }); !oc.OK() || in.Available() != 1 {
		c.fail("CounterPack1.ReadDropMap:consumption", fmt.Sprintf("ReadDropMap on an encoded map of %d rows left %d bytes (want 1) %s", m.Size(), in.Available(), oc.Panic), vh.Hex(o.ToByteArray()))
	}
	return c
}

// apiECB: ToBytesPackECB = ToBytesPack + zero bytes up to a multiple of the block length; ToPack of it = the pack.
func apiECB(g *G) *Case {
	p := g.anyRegistered(1)
	sp := specOf(p)
	n := g.r.PickInt([]int{1, 2, 3, 7, 8, 16, 64, 4096})
	c := apiFinish(sp, p, "ToBytesPackECB", nil)
	if len(c.fails) > 0 || c.Bytes == nil {
		return c
	}
	var e []byte
	if oc := guard(func() { e = pack.ToBytesPackECB(p, n) }); !oc.OK() {
		c.fail("ToBytesPackECB:panic", vh.Clip(oc.Panic, 200), oc.Panic)
		return c
	}
	// (encoded again here: checkRoundtrip may have normalised a TxRecord's ErrorLevel to its carried value)
	plain := pack.ToBytesPack(p)
	okPad := len(e)%n == 0 && len(e) >= len(plain) && len(e)-len(plain) < n && bytes.HasPrefix(e, plain)
	for _, b := range e[min(len(plain), len(e)):] {
		if b != 0 {
			okPad = false
		}
	}
	if !okPad {
		c.fail("ToBytesPackECB:padding", fmt.Sprintf("%s, block %d: %d bytes for an encoding of %d (want the encoding, then zero bytes to the next multiple): %s", sp.name, n, len(e), len(plain), diffBytes(plain, e)), vh.Clip(vh.Hex(e), 2000))
		return c
	}
	// the padded bytes still decode to the pack, leaving exactly the padding
	in := io.NewDataInputX(e)
	var q pack.Pack
	if oc := guard(func() { q = pack.ReadPack(in) }); !oc.OK() {
		c.fail("ToBytesPackECB:decode-panic", vh.Clip(oc.Panic, 200), oc.Panic)
		return c
	}
	if int(in.Available()) != len(e)-len(plain) {
		c.fail("ToBytesPackECB:consumption", fmt.Sprintf("decoding the padded bytes left %d bytes, the padding is %d", in.Available(), len(e)-len(plain)), "")
	}
	var b2 []byte
	if oc := guard(func() { b2 = pack.ToBytesPack(q) }); !oc.OK() || (!bytes.Equal(b2, plain) && !sp.unordered) {
		c.fail("ToBytesPackECB:decoded-differs", "the pack decoded from the padded bytes does not re-encode to the plain encoding", vh.Clip(vh.Hex(b2), 2000))
	}
	if len(plain) < 50000 {
		apiDrv = append(apiDrv, apiDrvReq{fmt.Sprintf("ECB %d %s", n, vh.Hex(plain)), vh.Hex(e), "ToBytesPackECB:model-differs",
			"Layout.ecbPad does not pad as ToBytesPackECB does", map[string]interface{}{"block": n, "bytes": vh.Clip(vh.Hex(plain), 4000)}})
	}
	return c
}

// apiGzip: the model's assumption about gzip, evaluated directly: UnZip(DoZip(b)) = b.
func apiGzip(g *G) *Case {
	c := &Case{Type: "api.compressutil"}
	var b []byte
	switch g.r.Intn(6) {
	case 0:
		b = []byte{}
	case 1:
		b = g.r.Bytes(1 + g.r.Intn(4))
	case 2:
		b = []byte(compressible(1+g.r.Intn(200000), byte(g.r.Intn(250))))
	case 3:
		b = g.r.Bytes(g.r.Intn(70000))
	case 4:
		b = bytes.Repeat([]byte{byte(g.r.Intn(256))}, g.r.Intn(100000))
	default:
		// gzip of gzip, and data that looks like a gzip header
		z, _ := compressutil.DoZip(g.r.Bytes(g.r.Intn(300)))
		b = append([]byte{0x1f, 0x8b, 8, 0}, z...)
	}
	c.Pre = []KV{{Path: "len", Val: iv(int64(len(b)))}, {Path: "head", Val: bv(b[:min(len(b), 16)])}}
	c.canon = c.Type + ":" + DumpString(c.Pre) + fmt.Sprint(hash.Hash64(b))
	c.nontrivial = len(b) > 0
	c.buckets = append(c.buckets, "api:DoZip/UnZip")
	var z, back []byte
	var e1, e2 error
	if oc := guard(func() { z, e1 = compressutil.DoZip(b); back, e2 = compressutil.UnZip(z) }); !oc.OK() {
		c.fail("compressutil.DoZip/UnZip:panic", vh.Clip(oc.Panic, 200), oc.Panic)
		return c
	}
	c.Bytes = z
	if e1 != nil || e2 != nil || !bytes.Equal(back, b) {
		c.fail("compressutil.UnZip:differs", fmt.Sprintf("UnZip(DoZip(b)) != b for %d bytes (errors: %v, %v; got %d bytes)", len(b), e1, e2, len(back)), vh.Clip(vh.Hex(b), 4000))
	}
	if _, err := compressutil.DoZip(nil); err == nil {
		c.fail("compressutil.DoZip:nil-accepted", "DoZip(nil) returns no error", "")
	}
	if len(z) > 4 {
		if out, err := compressutil.UnZip(z[:len(z)/2]); err == nil && len(b) > 0 {
			c.fail("compressutil.UnZip:truncated-accepted", fmt.Sprintf("UnZip of half the compressed bytes returns %d bytes and no error", len(out)), "")
		}
	}
	return c
}

// ---------------------------------------------------------------- the phase

func apiPhase(x *runCtx) {
	rounds := 40
	if x.env.Thorough {
		rounds = 400
	}
	var cs []*Case
	add := func(c ...*Case) { cs = append(cs, c...) }
	flush := func() {
		x.report(cs)
		cs = nil
	}
	for _, sp := range specs {
		if sp.class == clsElement {
			continue
		}
		for i := 0; i < rounds/4; i++ {
			add(apiHeader(sp, x.g))
		}
		flush()
	}
	for _, cspec := range ctors {
		if specByName[cspec.spec] == nil {
			x.rep.Count("api:constructor-without-spec:" + cspec.name)
			continue
		}
		add(apiCtor(cspec, x.g, false))
		for i := 0; i < 3; i++ {
			add(apiCtor(cspec, x.g, true))
		}
	}
	flush()
	for i := 0; i < rounds; i++ {
		add(apiHeaderInto(x.g), apiHeaderInto(x.g), apiHeaderInto(x.g))
		add(apiTagPack("TagCountPack", x.g), apiTagPack("TagLogPack", x.g), apiParamPack(x.g), apiTextPack(x.g))
		add(apiProfileSetters(x.g)...)
		add(apiEventPack(x.g), apiHitMap(x.g), apiStatGeneral(x.g, pack.PACK_STAT_GENERAL), apiStatGeneral(x.g, pack.PACK_STAT_GENERAL_1))
		add(apiLogSink(x.g), apiSMExtension(x.g), apiCounterSections(x.g), apiECB(x.g), apiGzip(x.g))
		add(apiRecords(x.g)...)
		if len(cs) > 400 {
			flush()
		}
	}
	flush()
	// GetPackTypeString: a display name, observed only (it is not part of the wire format)
	for _, code := range registeredCodes {
		name := ""
		guard(func() { name = pack.GetPackTypeString(code) })
		if strings.EqualFold(name, reflect.TypeOf(pack.CreatePack(code)).Elem().Name()) {
			x.rep.Count("api:GetPackTypeString:names-the-type")
		} else {
			x.rep.Count("api:GetPackTypeString:other-name")
		}
	}
	// the driver lines collected on the way
	if x.env.Driver == "" || len(apiDrv) == 0 {
		return
	}
	lines := make([]string, len(apiDrv))
	for i, r := range apiDrv {
		lines[i] = r.line
	}
	outs, err := vh.RunDriver(x.env.Driver, lines)
	if err != nil {
		x.rep.Fail("correspondence", "driver:unusable", "the Lean driver could not be run: "+vh.Clip(err.Error(), 300), nil)
		return
	}
	for i, r := range apiDrv {
		x.rep.Count("model:api:" + strings.SplitN(r.line, " ", 2)[0])
		x.rep.Evaluations++
		if outs[i] != r.want {
			if x.filterKey != "" && x.filterKey != r.key {
				continue
			}
			r.replay["model"] = vh.Clip(outs[i], 4000)
			r.replay["go"] = vh.Clip(r.want, 4000)
			// the property itself was evaluated on this very input by the direct checks above and held
			x.rep.Fail("correspondence", r.key, r.what+": model "+vh.Clip(outs[i], 200)+", Go "+vh.Clip(r.want, 200), r.replay)
		}
	}
	apiDrv = nil
}
