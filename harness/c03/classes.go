// Additional input classes (round 2):
//
//   - big payloads through the compressing container (LogSinkZipPack): uncompressed payloads of
//     about 1 MiB, just below / just above 8 MiB and about 20 MiB (highly compressible content):
//     every inner pack must come back, complete and in order;
//   - record lists at the boundaries of the 16-bit count field {0,1,255,256,32767,32768,65535} for
//     every record-list pack;
//   - re-use of a pack object: populate -> encode -> change scalar fields (also back to zero
//     values) -> encode again: the second encoding must be the encoding of a FRESH pack holding the
//     same final values and must decode to them; encoding twice without a change gives identical
//     bytes; bytes handed out earlier stay intact while other packs are encoded (buffer aliasing).
package main

import (
	"bytes"
	"fmt"
	"reflect"
	"strings"

	gio "github.com/whatap/golib/io"
	"github.com/whatap/golib/lang/pack"
	"verif/harness/vh"
)

// ---------------------------------------------------------------- big compressed payloads

const mib = 1 << 20

// target sizes of the uncompressed payload (bytes)
var bigPayloadTargets = []int{1 * mib, 8*mib - 1000, 8*mib + 1000, 20 * mib}

func compressible(n int, salt byte) string {
	if n <= 0 {
		return ""
	}
	unit := []byte("whatap log line 0123456789 abcdefghijklmnopqrstuvwxyz\n")
	unit[0] = 'a' + salt%26
	return string(bytes.Repeat(unit, n/len(unit)+1)[:n])
}

func bigLogSinkZipJob(g *G, target int) job {
	h := header(g)
	const chunkLen = 512 << 10
	var recs []*pack.LogSinkPack
	g.small++
	for total := 0; total < target; {
		p := g.logSinkPack()
		p.Content = ""
		recs = append(recs, p)
		total += chunkLen
	}
	g.small--
	return job{func() *Case {
		c := &Case{Type: "LogSinkZipPack.records"}
		c.Pre = containerPre(h, "bigPayload", nil, KV{Path: "target", Val: iv(int64(target))}, KV{Path: "items", Val: iv(int64(len(recs)))})
		c.canon = fmt.Sprintf("%s:big:%d:%s", c.Type, target, DumpString(headerKVs(h)))
		c.nontrivial = true
		// size the contents so that the payload is exactly `target` bytes
		overhead := 0
		for _, r := range recs {
			overhead += len(pack.ToBytesPack(r))
		}
		remain := target - overhead
		for i, r := range recs {
			n := remain / (len(recs) - i)
			if n < 0 {
				n = 0
			}
			n -= 5 // blob length prefix of a long text
			if n < 0 {
				n = 0
			}
			r.Content = compressible(n, byte(i))
			remain -= n + 5
		}
		out := gio.NewDataOutputX()
		for _, r := range recs {
			pack.WritePack(out, r)
		}
		raw := out.ToByteArray()
		c.buckets = append(c.buckets, fmt.Sprintf("logsinkzip:payload~%dMiB", (len(raw)+mib/2)/mib))
		for _, zms := range []int{0, 1 << 30} { // compressed and uncompressed
			c.extra++
			lz := pack.NewLogSinkZipPack()
			lz.AbstractPack = h
			lz.RecordCount = len(recs)
			var got []*pack.LogSinkPack
			var b []byte
			if oc := guard(func() {
				lz.SetRecords(raw, zms)
				b = pack.ToBytesPack(lz)
				got = pack.ToPack(b).(*pack.LogSinkZipPack).GetRecords()
			}); !oc.OK() {
				c.fail("LogSinkZipPack.GetRecords:panic", fmt.Sprintf("payload of %d bytes (status %d): %s", len(raw), lz.Status, vh.Clip(oc.Panic, 200)), oc.Panic)
				return c
			}
			if len(got) != len(recs) {
				c.fail("LogSinkZipPack.GetRecords:count", fmt.Sprintf("payload of %d bytes (status %d, %d bytes on the wire): %d items in, %d items out", len(raw), lz.Status, len(b), len(recs), len(got)),
					fmt.Sprintf("%d/%d", len(recs), len(got)))
				return c
			}
			for i := range recs {
				if got[i].Content != recs[i].Content {
					c.fail("LogSinkZipPack.GetRecords:differs", fmt.Sprintf("payload of %d bytes (status %d): Content of item %d has %d bytes, want %d", len(raw), lz.Status, i, len(got[i].Content), len(recs[i].Content)),
						fmt.Sprintf("items[%d].Content", i))
					return c
				}
				a, bb := *recs[i], *got[i]
				a.Content, bb.Content = "", ""
				want := stamp(carried(Dump(&a), carryOpt{orig: true}), h)
				if d := firstDiff(want, carried(Dump(&bb), carryOpt{})); d != nil {
					c.fail("LogSinkZipPack.GetRecords:"+d.class(), fmt.Sprintf("payload of %d bytes: items[%d].%s", len(raw), i, d.String()), d.String())
					return c
				}
			}
		}
		return c
	}}
}

// ---------------------------------------------------------------- record lists at the count boundaries

var recCountBoundaries = []int{0, 1, 255, 256, 32767, 32768, 65535}

func boundaryRecordsJob(g *G, k recKind, n int) job {
	recs := make([]interface{}, n)
	g.small++
	proto := 16 // distinct records generated; the list cycles through them (cheap, still order-sensitive)
	if n < proto {
		proto = n
	}
	protos := make([]interface{}, proto)
	for i := range protos {
		protos[i] = k.gen(g)
	}
	for i := range recs {
		recs[i] = protos[(i*7+i/proto)%max1(proto)]
	}
	g.small--
	h := header(g)
	setter := k.setters[g.r.Intn(len(k.setters))]
	version := byte(2 + g.r.Intn(3))
	return job{func() *Case {
		c := &Case{Type: k.packName + ".records"}
		esp := specByName[k.elem]
		var drop []string
		if k.elem == "" {
			esp = specByName[fmt.Sprintf("TransactionRec/v%d", version)]
			drop = esp.drop
		}
		c.Pre = containerPre(h, "boundary", nil, KV{Path: "count", Val: iv(int64(n))}, KV{Path: "setter", Val: "b:" + hexOf([]byte(setter))}, KV{Path: "Version", Val: iv(int64(version))})
		c.canon = fmt.Sprintf("%s:boundary:%d:%s:%d", c.Type, n, setter, version)
		c.nontrivial = n > 0
		c.buckets = append(c.buckets, fmt.Sprintf("records:count=%d", n))
		aspect := k.packName + "." + setter
		var p pack.Pack
		var count int64 = -1
		if oc := guard(func() { p, count = buildRecordPack(k.packName, setter, version, h, recs) }); !oc.OK() {
			c.fail(aspect+":panic", fmt.Sprintf("%d records: %s", n, vh.Clip(oc.Panic, 200)), oc.Panic)
			return c
		}
		if count != int64(n) {
			c.fail(k.packName+".RecordCount:differs", fmt.Sprintf("%s(%d records) set RecordCount %d", setter, n, count), fmt.Sprint(count))
		}
		psp := specByName[k.packName]
		var q interface{}
		if oc := guard(func() {
			c.Bytes = psp.encode(p)
			q, _ = psp.decode(c.Bytes)
		}); !oc.OK() {
			c.fail(k.packName+":decode-panic", fmt.Sprintf("%d records: %s", n, vh.Clip(oc.Panic, 200)), oc.Panic)
			return c
		}
		if len(c.Bytes) > 4096 {
			c.Bytes = c.Bytes[:4096] // the replay names the count; the records are cheap and cyclic
		}
		var got []interface{}
		if oc := guard(func() { got = getRecords(k.packName, q) }); !oc.OK() {
			c.fail(k.packName+".GetRecords:panic", fmt.Sprintf("a table of %d records (16-bit count field): %s", n, vh.Clip(oc.Panic, 200)), oc.Panic)
			return c
		}
		if len(got) != n {
			c.fail(k.packName+".GetRecords:count", fmt.Sprintf("%d items in, %d items out", n, len(got)), fmt.Sprintf("%d/%d", n, len(got)))
			return c
		}
		// every record, in order: by its own encoding; on a difference the field dump says which field
		encOf := func(o interface{}) []byte {
			out := gio.NewDataOutputX()
			esp.encEl(o, out)
			return out.ToByteArray()
		}
		wantEnc := make([][]byte, len(protos))
		for i, pr := range protos {
			wantEnc[i] = encOf(pr)
		}
		for i := range recs {
			pi := (i*7 + i/proto) % max1(proto)
			var ge []byte
			oc := guard(func() { ge = encOf(got[i]) })
			if oc.OK() && bytes.Equal(ge, wantEnc[pi]) {
				continue
			}
			want := carried(Dump(recs[i]), carryOpt{orig: true, drop: drop})
			if d := firstDiff(want, carried(Dump(got[i]), carryOpt{drop: drop})); d != nil {
				d.path = fmt.Sprintf("items[%d].%s", i, d.path)
				c.fail(k.packName+".GetRecords:"+d.class(), "item returned by the container differs: "+d.String(), d.String())
				return c
			}
		}
		if rc := getField(q, "RecordCount").Int(); rc != int64(n) {
			c.fail(k.packName+".RecordCount:differs", fmt.Sprintf("decoded RecordCount %d for %d records", rc, n), fmt.Sprint(rc))
		}
		return c
	}}
}

func max1(n int) int {
	if n < 1 {
		return 1
	}
	return n
}

// ---------------------------------------------------------------- re-use of a pack object

// fields tied to other fields by an invariant of the type (changing them alone makes the object
// ill-formed for its own writer/reader; see the generator notes)
var reuseKeep = map[string]bool{
	"SMBasePack.OS": true, // selects the layout of Cpu/CpuCore/Memory, which stay
}

type scalarRef struct {
	name string
	v    reflect.Value
}

// scalarFields lists the exported scalar fields (numbers, bools, strings, byte slices) of a struct,
// embedded structs included, in declaration order.
func scalarFields(typeName string, rv reflect.Value, out *[]scalarRef) {
	t := rv.Type()
	for i := 0; i < rv.NumField(); i++ {
		f := t.Field(i)
		fv := rv.Field(i)
		if f.Anonymous && fv.Kind() == reflect.Struct {
			scalarFields(typeName, fv, out)
			continue
		}
		if f.PkgPath != "" || reuseKeep[typeName+"."+f.Name] {
			continue
		}
		switch fv.Kind() {
		case reflect.Bool, reflect.Int, reflect.Int8, reflect.Int16, reflect.Int32, reflect.Int64,
			reflect.Uint8, reflect.Uint16, reflect.Uint32, reflect.Uint64, reflect.Float32, reflect.Float64, reflect.String:
			*out = append(*out, scalarRef{f.Name, fv})
		case reflect.Slice:
			if fv.Type().Elem().Kind() == reflect.Uint8 {
				*out = append(*out, scalarRef{f.Name, fv})
			}
		}
	}
}

// mutate applies the same pseudo-random choice per field to dst: keep / zero value / value of src.
func mutateScalars(typeName string, dst, src interface{}, seed uint64) []string {
	r := vh.NewRng(seed)
	var ds, ss []scalarRef
	scalarFields(typeName, reflect.ValueOf(dst).Elem(), &ds)
	scalarFields(typeName, reflect.ValueOf(src).Elem(), &ss)
	var changed []string
	for i := range ds {
		switch r.Intn(10) {
		case 0, 1, 2, 3:
			// keep
		case 4, 5, 6:
			ds[i].v.Set(reflect.Zero(ds[i].v.Type()))
			changed = append(changed, ds[i].name+"=0")
		default:
			ds[i].v.Set(ss[i].v)
			changed = append(changed, ds[i].name)
		}
	}
	return changed
}

func reuseJob(sp *spec, g *G) job {
	seedA, seedC, seedM := g.r.U64(), g.r.U64(), g.r.U64()
	mk := func(seed uint64) interface{} { return sp.gen(&G{r: vh.NewRng(seed), thorough: g.thorough}) }
	a, fresh, src, other := mk(seedA), mk(seedA), mk(seedC), mk(seedC^0x5bd1e995)
	return job{func() *Case {
		name := strings.TrimSuffix(sp.name, "/1")
		c := &Case{Type: sp.name + ".reuse"}
		preA := Dump(a)
		c.Pre = preA
		c.canon = c.Type + ":" + DumpString(preA)
		if DumpString(preA) != DumpString(Dump(fresh)) {
			c.buckets = append(c.buckets, "reuse:generator-not-repeatable")
			return c
		}
		var b1, b1again []byte
		if oc := guard(func() { b1 = sp.encode(a); b1again = sp.encode(a) }); !oc.OK() {
			return c // the plain round trip reports encode panics
		}
		b1copy := append([]byte{}, b1...)
		c.Bytes = b1copy
		c.nontrivial = true
		if !bytes.Equal(b1, b1again) {
			c.fail(name+".reuse:repeat-encoding-differs", "encoding the same pack twice, without any change in between, gives different bytes: "+diffBytes(b1, b1again), diffBytes(b1, b1again))
			return c
		}
		changed := mutateScalars(name, a, src, seedM)
		mutateScalars(name, fresh, src, seedM)
		wantDump := Dump(fresh) // the fresh pack holding the final values, before it is ever written
		var b2, bf, bo []byte
		if oc := guard(func() { b2 = sp.encode(a); bo = sp.encode(other); bf = sp.encode(fresh) }); !oc.OK() {
			c.fail(name+".reuse:encode-panic", "encoding a re-used pack panicked: "+vh.Clip(oc.Panic, 200), oc.Panic)
			return c
		}
		_ = bo
		replay := func(extra string) string {
			return fmt.Sprintf("fields changed after the first encoding: %s; %s", strings.Join(changed, ","), extra)
		}
		// bytes handed out earlier must not have been touched by the later encodings
		if !bytes.Equal(b1, b1copy) {
			c.fail(name+".reuse:buffer-aliased", "the bytes returned by the first encoding changed while other packs were encoded: "+diffBytes(b1copy, b1), replay(""))
			return c
		}
		var q interface{}
		left := 0
		if oc := guard(func() { q, left = sp.decode(b2) }); !oc.OK() {
			c.fail(name+".reuse:decode-panic", "the second encoding of a re-used pack does not decode: "+vh.Clip(oc.Panic, 200), replay(oc.Panic))
			return c
		}
		var qd []KV
		guard(func() {
			if hasStatGeneral(q) {
				qu, _ := sp.decode(b2)
				unpackAll(qu)
				qd = Dump(qu)
			} else {
				qd = Dump(q)
			}
		})
		if d := firstDiff(carried(wantDump, carryOpt{orig: true, drop: sp.drop}), carried(qd, carryOpt{drop: sp.drop})); d != nil {
			c.fail(name+"."+topField(d.path)+":stale-after-reuse",
				"a pack encoded, then changed, then encoded again decodes with other values than it holds: "+d.String(), replay(d.String()))
			return c
		}
		if left != 0 {
			c.fail(name+".reuse:leftover-bytes", fmt.Sprintf("%d bytes left", left), replay(""))
		}
		if !bytes.Equal(b2, bf) && !(sp.unordered && len(b2) == len(bf)) {
			c.fail(name+".reuse:second-encoding-differs", "the second encoding of a re-used pack differs from the encoding of a fresh pack with the same field values: "+diffBytes(bf, b2), replay(diffBytes(bf, b2)))
		}
		return c
	}}
}
