// "Special content" for byte strings and texts: values whose CONTENT looks structured (addresses in
// binary and text form, numbers, UTF-8 edge cases, blanks, NULs).  A codec must carry them byte for
// byte; code that normalises such content (net.IP.To4 on a 16-byte IPv4-mapped address, trimming,
// number parsing, UTF-8 repair) breaks the round trip only for these values.
//
// The pool is used two ways: (1) every string / []byte / blob drawn by the generators is taken from it
// with probability ~18 % (g.str, g.blob: struct fields of every pack and nested record, *string
// fields, attribute values, text/blob values inside maps, string lists); (2) a deterministic sweep
// per type: every string / []byte / *string leaf of a generated object (nested records, slices of
// structs and pointed-to structs included) × every pool value (specialSweepJobs).
// (Pool copied from harness/c08/gen.go — copied, not imported.)
package main

import (
	"fmt"
	"reflect"
	"strings"

	"verif/harness/vh"
)

type special struct {
	label string
	b     []byte
}

func catB(parts ...[]byte) []byte {
	var o []byte
	for _, p := range parts {
		o = append(o, p...)
	}
	return o
}
func repB(b byte, n int) []byte {
	o := make([]byte, n)
	for i := range o {
		o[i] = b
	}
	return o
}

var specialPool = func() []special {
	names := []string{"1.2.3.4", "127.0.0.1", "0.0.0.0", "255.255.255.255", "10.0.0.255", "192.168.1.1"}
	v4s := map[string][]byte{"1.2.3.4": {1, 2, 3, 4}, "127.0.0.1": {127, 0, 0, 1}, "0.0.0.0": {0, 0, 0, 0},
		"255.255.255.255": {255, 255, 255, 255}, "10.0.0.255": {10, 0, 0, 255}, "192.168.1.1": {192, 168, 1, 1}}
	var p []special
	for _, name := range names {
		a := v4s[name]
		p = append(p, special{"ipv4:" + name, a})
		p = append(p, special{"ipv4-mapped-ipv6:" + name, catB(repB(0, 10), []byte{0xff, 0xff}, a)})
		p = append(p, special{"ipv4-compatible-ipv6:" + name, catB(repB(0, 12), a)})
		p = append(p, special{"text-address:" + name, []byte(name)})
		p = append(p, special{"text-address:::ffff:" + name, []byte("::ffff:" + name)})
	}
	p = append(p,
		special{"ipv6:::1", catB(repB(0, 15), []byte{1})},
		special{"ipv6:::", repB(0, 16)},
		special{"ipv6:all-ff", repB(0xff, 16)},
		special{"ipv6:2001:db8::1", catB([]byte{0x20, 0x01, 0x0d, 0xb8}, repB(0, 11), []byte{1})},
		special{"ipv6:fe80::1", catB([]byte{0xfe, 0x80}, repB(0, 13), []byte{1})},
		special{"ipv6:64:ff9b::1.2.3.4", catB([]byte{0, 0x64, 0xff, 0x9b}, repB(0, 8), []byte{1, 2, 3, 4})},
		special{"almost-mapped:10x00+fffe", catB(repB(0, 10), []byte{0xff, 0xfe, 1, 2, 3, 4})},
		special{"almost-mapped:9x00", catB(repB(0, 9), []byte{1, 0xff, 0xff, 1, 2, 3, 4})},
		special{"text-address:::1", []byte("::1")},
		special{"text-address:[::1]:80", []byte("[::1]:80")},
	)
	for _, n := range []int{0, 1, 3, 4, 5, 8, 15, 16, 17, 32} { // address lengths and their neighbours
		p = append(p, special{fmt.Sprintf("len%d:zero", n), repB(0, n)})
		if n > 0 {
			p = append(p, special{fmt.Sprintf("len%d:ff", n), repB(0xff, n)})
			c := make([]byte, n)
			for i := range c {
				c[i] = byte(i + 1)
			}
			p = append(p, special{fmt.Sprintf("len%d:counting", n), c})
		}
	}
	for _, t := range []struct{ l, s string }{
		{"utf8:2-byte", "h\u00e9llo"}, {"utf8:3-byte", "\u65e5\u672c\u8a9e"}, {"utf8:4-byte", "\U0001F600"}, {"utf8:bom", "\ufeffx"},
		{"utf8:combining", "é"}, {"utf8:replacement-char", "�"},
		{"invalid-utf8:ff-fe", "\xff\xfe"}, {"invalid-utf8:lone-continuation", "a\x80b"}, {"invalid-utf8:truncated", "\xe2\x82"},
		{"invalid-utf8:overlong", "\xc0\xaf"}, {"invalid-utf8:surrogate", "\xed\xa0\x80"}, {"invalid-utf8:latin1", "caf\xe9"},
		{"numeric:0", "0"}, {"numeric:00", "00"}, {"numeric:007", "007"}, {"numeric:-1", "-1"}, {"numeric:+1", "+1"}, {"numeric:-0", "-0"},
		{"numeric:1e3", "1e3"}, {"numeric:0x10", "0x10"}, {"numeric:1.0", "1.0"}, {"numeric:.5", ".5"}, {"numeric:spaces", " 12 "},
		{"numeric:int64-max+1", "9223372036854775808"}, {"numeric:int32-min", "-2147483648"}, {"numeric:NaN", "NaN"}, {"numeric:Inf", "-Inf"},
		{"keyword:null", "null"}, {"keyword:nil", "nil"}, {"keyword:true", "true"}, {"keyword:false", "false"}, {"keyword:empty-json", "{}"},
		{"space:single", " "}, {"space:newline", "\n"}, {"space:crlf", "a\r\nb"}, {"space:tab", "\t"}, {"space:leading-trailing", "  x  "},
		{"space:leading", " x"}, {"space:trailing", "x "},
		{"nul:single", "\x00"}, {"nul:trailing", "a\x00"}, {"nul:leading", "\x00a"}, {"case:mixed", "AbC"}, {"percent:encoded", "%41%00"},
		{"url:query", "/a/b?x=1&y=2#f"}, {"sql:quote", "it's \"q\""},
	} {
		p = append(p, special{t.l, []byte(t.s)})
	}
	return p
}()

const specialPct = 18

func (g *G) specialBytes() []byte {
	return append([]byte{}, specialPool[g.r.Intn(len(specialPool))].b...)
}

// ---------------------------------------------------------------- deterministic sweep: leaf × pool value

// leaves that are not free byte strings: a cache the type itself parses later
var sweepSkip = map[string]bool{
	"StatGeneralPack.dataBytes": true, // cached table bytes: GetDataTable() parses them
}

type leaf struct {
	path string
	v    reflect.Value // settable: string, []byte or *string
}

func collectLeaves(typeName, path string, rv reflect.Value, out *[]leaf, depth int) {
	if depth > 6 {
		return
	}
	switch rv.Kind() {
	case reflect.Ptr:
		if rv.Type().Elem().Kind() == reflect.String {
			*out = append(*out, leaf{path, rv})
			return
		}
		if rv.IsNil() || rv.Type().Elem().Kind() != reflect.Struct {
			return
		}
		if pk := rv.Type().Elem().PkgPath(); !strings.HasSuffix(pk, "lang/pack") && !strings.HasSuffix(pk, "lang/service") {
			return // tables and values have their own generators (random pool use)
		}
		collectLeaves(rv.Type().Elem().Name(), path, rv.Elem(), out, depth+1)
	case reflect.Interface:
		if !rv.IsNil() {
			collectLeaves(typeName, path, rv.Elem(), out, depth+1)
		}
	case reflect.Struct:
		t := rv.Type()
		for i := 0; i < t.NumField(); i++ {
			sf := t.Field(i)
			if sf.Type == mutexType || sweepSkip[t.Name()+"."+sf.Name] {
				continue
			}
			fv := access(rv.Field(i))
			if !fv.CanSet() {
				continue
			}
			collectLeaves(t.Name(), join(path, sf.Name), fv, out, depth+1)
		}
	case reflect.String:
		*out = append(*out, leaf{path, rv})
	case reflect.Slice:
		if rv.Type().Elem().Kind() == reflect.Uint8 {
			*out = append(*out, leaf{path, rv})
			return
		}
		ek := rv.Type().Elem().Kind()
		if ek == reflect.Struct || ek == reflect.Ptr || ek == reflect.Interface {
			n := rv.Len()
			if n > 2 {
				n = 2 // the first two elements of a table are enough for the sweep
			}
			for i := 0; i < n; i++ {
				collectLeaves(typeName, fmt.Sprintf("%s[%d]", path, i), rv.Index(i), out, depth+1)
			}
		}
	}
}

func leavesOf(obj interface{}) []leaf {
	var ls []leaf
	rv := reflect.ValueOf(obj)
	if rv.Kind() == reflect.Ptr && !rv.IsNil() && rv.Elem().Kind() == reflect.Struct {
		collectLeaves(rv.Elem().Type().Name(), "", rv.Elem(), &ls, 0)
	}
	return ls
}

func setLeaf(l leaf, b []byte) {
	switch l.v.Kind() {
	case reflect.String:
		l.v.SetString(string(b))
	case reflect.Slice:
		l.v.SetBytes(append([]byte{}, b...))
	case reflect.Ptr:
		s := string(b)
		l.v.Set(reflect.ValueOf(&s))
	}
}

// specialSweepJobs: one job per (byte-string leaf of a generated object) × (pool value).  The object
// is regenerated from the same seed for every job, so that the only difference is the leaf's content.
func specialSweepJobs(sp *spec, g *G) []job {
	mk := func(seed uint64) interface{} { return sp.gen(&G{r: vh.NewRng(seed), thorough: g.thorough, small: 1}) }
	// pick, among a few generated objects, the one exposing the most leaves (nested tables non-empty)
	var best uint64
	bestN := -1
	for try := 0; try < 12; try++ {
		seed := g.r.U64()
		var n int
		if oc := guard(func() { n = len(leavesOf(mk(seed))) }); !oc.OK() {
			continue
		}
		if n > bestN {
			best, bestN = seed, n
		}
	}
	var jobs []job
	for li := 0; li < bestN; li++ {
		for _, sv := range specialPool {
			li, sv := li, sv
			jobs = append(jobs, job{func() *Case {
				obj := mk(best)
				ls := leavesOf(obj)
				if li >= len(ls) {
					return &Case{Type: sp.name}
				}
				setLeaf(ls[li], sv.b)
				c := checkRoundtrip(sp, obj)
				c.buckets = append(c.buckets, "special-sweep:"+strings.SplitN(sv.label, ":", 2)[0])
				for i := range c.fails {
					if m := c.fails[i].replay; m != nil {
						m["special"] = sv.label
						m["field"] = ls[li].path
					}
					c.fails[i].summary += fmt.Sprintf(" [field %s set to special content %q]", ls[li].path, sv.label)
				}
				return c
			}})
		}
	}
	return jobs
}
