package main

// Deterministic minimal witnesses of the defects found for C03.  Each runs on
// every execution.  A witness whose key is listed open in known_findings.json is
// reported through rep.KnownReplay; otherwise, while it still fails, it is an
// ordinary property failure (so the unfixed tree prints a VIOLATION with a replay
// and the fixed tree is quiet).

import (
	"fmt"

	gio "github.com/whatap/golib/io"
	"github.com/whatap/golib/lang"
	"github.com/whatap/golib/lang/pack"
	"github.com/whatap/golib/lang/service"
	"github.com/whatap/golib/lang/value"
	"github.com/whatap/golib/util/hmap"
	"verif/harness/vh"
)

type witness struct {
	id  string
	key string
	fn  func() (bool, string)
}

var witnesses = []witness{
	{"D21", "EventPack.Status:not-restored", witnessD21},
	{"D22", "TagLogPack:decode-panic", witnessD22},
	{"D23", "ProfilePack:decode-panic", witnessD23},
	{"D24", "ServerInfoPack.Attr:not-restored", witnessD24},
	{"D25", "SMExtension:decode-panic", witnessD25},
	{"D26", "CpuOSX.Steal:not-restored", witnessD26},
	{"D27-poid", "CounterPack1.TxcallerPOidMeter:acts-not-written", witnessD27Poid},
	{"D27-dbnum", "CounterPack1.Read:DbNum-dropped", witnessD27DbNum},
	{"D27-netstat", "CounterPack1.Read:Netstat-dropped", witnessD27Netstat},
	{"D27-websocket", "CounterPack1.Read:Websocket-dropped", witnessD27Websocket},
	{"D28", "StatErrorPack.SetRecordsArray:records-dropped", witnessD28},
	{"D61", "SMLogEvent:encode-panic", witnessD61},
	{"D62", "CounterPack1.Extra:tag-not-consumed", witnessD62},
	{"D63", "CounterPack1.TxcallerPOidMeter:acts-length", witnessD63},
	{"D65", "StatGeneralPack.GetDataTable:panic", witnessD65},
	{"D66", "SMBasePack.OS:unsupported-os", witnessD66},
	{"D67-error", "StatErrorPack.GetRecords:panic", witnessD67Error},
	{"D67-downcheck", "SMDownCheckPack.GetRecords:panic", witnessD67DownCheck},
	{"D68", "EventPack.Uuid:stale-after-reuse", witnessD68},
}

// runWitness evaluates the plain round trip on obj and reports whether a failure
// with the expected key shows up.
func runWitness(specName string, obj interface{}, key string) (bool, string) {
	c := checkRoundtrip(specByName[specName], obj)
	for _, f := range c.fails {
		if f.key == key {
			return true, f.summary + " [input " + specName + ":" + clipDump(c.Pre) + "]"
		}
	}
	if len(c.fails) > 0 {
		return true, "fails differently: " + c.fails[0].key + ": " + c.fails[0].summary
	}
	return false, specName + ":" + clipDump(c.Pre) + " round-trips"
}

func clipDump(kvs []KV) string {
	s := DumpString(kvs)
	if len(s) > 300 {
		s = s[:300] + "…"
	}
	return s
}

// D21 EventPack.Read: inverted err test, and Status stored into Otype.
func witnessD21() (bool, string) {
	p := pack.NewEventPack()
	p.Status, p.Otype = 5, 7
	return runWitness("EventPack", p, "EventPack.Status:not-restored")
}

// D22 TagLogPack.Read never reads the tag hash that Write emits.
func witnessD22() (bool, string) {
	p := pack.NewTagLogPack()
	p.Category = "c"
	p.PutTag("a", "b")
	p.Put("f", int64(1))
	return runWitness("TagLogPack", p, "TagLogPack:decode-panic")
}

// D23 ProfilePack.Read reads service.ToObject where a TxRecord was written.
func witnessD23() (bool, string) {
	p := pack.NewProfilePack()
	p.Transaction = service.NewTxRecord()
	p.Transaction.Txid = 1
	p.Steps = []byte{1, 2, 3}
	return runWitness("ProfilePack", p, "ProfilePack:decode-panic")
}

// D24 ServerInfoPack writes Attr untagged, reads it tagged.
func witnessD24() (bool, string) {
	p := pack.NewServerInfoPack()
	p.UpTime = 1
	p.ServerName = "s"
	p.Attr.PutString("k", "v")
	return runWitness("ServerInfoPack", p, "ServerInfoPack.Attr:not-restored")
}

// D25 SMExtension.Read consumes the value tags inconsistently with Write.
func witnessD25() (bool, string) {
	p := pack.NewSMExtensionPack()
	h, v, m := value.NewIntMapValue(), value.NewIntMapValue(), value.NewIntMapValue()
	h.PutLong(1, 10)
	v.PutLong(2, 20)
	m.PutLong(3, 30)
	p.SetHeader(h)
	p.SetValues(v)
	p.SetMetaValues(m)
	return runWitness("SMExtension", p, "SMExtension:decode-panic")
}

// D26 CpuOSX.Read omits Steal: every later field is shifted.
func witnessD26() (bool, string) {
	p := &pack.CpuOSX{User: 1, System: 2, Idle: 3, Nice: 4, Irq: 5, Softirq: 6, Steal: 7, Iowait: 8, Load1: 9, Load5: 10, Load15: 11}
	return runWitness("CpuOSX", p, "CpuOSX.Steal:not-restored")
}

// D27 CounterPack1: the POid-meter writer omits the Acts array the reader consumes.
func witnessD27Poid() (bool, string) {
	p := pack.NewCounterPack1()
	p.TxcallerPOidMeter = hmap.NewLinkedMapDefault()
	p.TxcallerPOidMeter.Put(lang.NewPOID(1, 2), &pack.TxMeter{Time: 3, Count: 4, Error: 5, Actx: 6, Acts: []int16{7}})
	return runWitness("CounterPack1", p, "CounterPack1.TxcallerPOidMeter:acts-not-written")
}

// D27 CounterPack1.Read drops the DB-pool section.
func witnessD27DbNum() (bool, string) {
	p := pack.NewCounterPack1()
	p.DbNumActive, p.DbNumIdle = hmap.NewIntIntMapDefault(), hmap.NewIntIntMapDefault()
	p.DbNumActive.Put(1, 2)
	p.DbNumIdle.Put(3, 4)
	return runWitness("CounterPack1", p, "CounterPack1.Read:DbNum-dropped")
}

// D27 CounterPack1.Read drops the netstat section.
func witnessD27Netstat() (bool, string) {
	p := pack.NewCounterPack1()
	p.Netstat = &pack.NETSTAT{Est: 1, FinW: 2, TimW: 3, CloW: 4}
	return runWitness("CounterPack1", p, "CounterPack1.Read:Netstat-dropped")
}

// D27 CounterPack1.Read drops the websocket section.
func witnessD27Websocket() (bool, string) {
	p := pack.NewCounterPack1()
	p.Websocket = &pack.WEBSOCKET{Count: 1, In: 2, Out: 3}
	return runWitness("CounterPack1", p, "CounterPack1.Read:Websocket-dropped")
}

// D28 StatErrorPack.SetRecordsArray builds the record bytes and throws them away.
func witnessD28() (bool, string) {
	p := pack.NewStatErrorPack()
	p.SetRecordsArray([]*pack.ErrorRec{{ClassHash: 1, Service: 2, SnapSeq: 3, Msg: 4, Count: 5}})
	if len(p.Records) == 0 || p.RecordCount != 1 {
		return true, fmt.Sprintf("SetRecordsArray([1 record]) left Records=%d bytes, RecordCount=%d", len(p.Records), p.RecordCount)
	}
	var n int
	oc := guard(func() { n = len(pack.ToPack(pack.ToBytesPack(p)).(*pack.StatErrorPack).GetRecords()) })
	if !oc.OK() || n != 1 {
		return true, "records set with SetRecordsArray do not come back: " + oc.Panic
	}
	return false, "SetRecordsArray([1 record]) round-trips"
}

// D61 SMLogEvent.Write dereferences nil Keyword / LogRule (the other *string fields are nil-guarded).
func witnessD61() (bool, string) {
	return runWitness("SMLogEvent", &pack.SMLogEvent{EventSource: 1}, "SMLogEvent:encode-panic")
}

// D62 CounterPack1.Write emits Extra with value.WriteValue (tag + body), Read parses the body only.
func witnessD62() (bool, string) {
	p := pack.NewCounterPack1()
	p.Extra = value.NewIntMapValue()
	p.Extra.PutLong(1, 5)
	return runWitness("CounterPack1", p, "CounterPack1.Extra:tag-not-consumed")
}

// D63 pack.ReadShortArray sizes the Acts array by the number of POid-meter entries
// instead of by its own length byte (visible once the writer emits Acts).
func witnessD63() (bool, string) {
	if probeActsNotWritten() {
		return false, "not observable: the POid-meter writer does not emit Acts yet (D27)"
	}
	p := pack.NewCounterPack1()
	p.TxcallerPOidMeter = hmap.NewLinkedMapDefault()
	p.TxcallerPOidMeter.Put(lang.NewPOID(1, 2), &pack.TxMeter{Time: 3, Acts: []int16{7, 8, 9}})
	return runWitness("CounterPack1", p, "CounterPack1.TxcallerPOidMeter:acts-length")
}

// D65 a decoded StatGeneralPack with an empty table panics in GetDataTable().
func witnessD65() (bool, string) {
	return runWitness("StatGeneralPack", pack.NewStatGeneralPack(), "StatGeneralPack.GetDataTable:panic")
}

// D66 SMBasePack.Read has no case for OS_SUNOS/OPENBSD/FREEBSD: the CPU, core and
// memory blocks that Write emits are not consumed.
func witnessD66() (bool, string) {
	p := pack.NewSMBasePack()
	p.OS = pack.OS_SUNOS
	p.Cpu = &pack.CpuLinux{User: 1}
	p.Memory = &pack.MemoryLinux{Total: 2}
	p.UpTime = 3
	var q *pack.SMBasePack
	oc := guard(func() {
		b := pack.ToBytesPack(p)
		in := gio.NewDataInputX(b)
		in.ReadShort()
		q = pack.NewSMBasePack()
		q.Read(in)
	})
	if !oc.OK() {
		return true, "SMBasePack{OS:OS_SUNOS} does not decode: " + oc.Panic
	}
	if q.Cpu == nil || q.UpTime != 3 {
		return true, fmt.Sprintf("SMBasePack{OS:OS_SUNOS,UpTime:3}: decoded Cpu=%v UpTime=%d", q.Cpu, q.UpTime)
	}
	return false, "SMBasePack{OS:OS_SUNOS} round-trips"
}

// D67 StatErrorPack.GetRecords / SMDownCheckPack.GetRecords read the 16-bit record count signed
// (their siblings mask it with 0xffff): a table of 32768..65535 records does not come back.
func witnessD67Error() (bool, string) {
	items := make([]*pack.ErrorRec, 32768)
	for i := range items {
		items[i] = &pack.ErrorRec{ClassHash: int32(i)}
	}
	p := pack.NewStatErrorPack()
	p.SetRecordsArray(items)
	var n int
	oc := guard(func() { n = len(pack.ToPack(pack.ToBytesPack(p)).(*pack.StatErrorPack).GetRecords()) })
	if !oc.OK() || n != len(items) {
		return true, fmt.Sprintf("StatErrorPack with 32768 records: GetRecords returns %d records %s", n, vh.Clip(oc.Panic, 120))
	}
	return false, "StatErrorPack with 32768 records round-trips"
}

func witnessD67DownCheck() (bool, string) {
	items := make([]*pack.DownCheckRec, 32768)
	for i := range items {
		items[i] = &pack.DownCheckRec{Port: int32(i)}
	}
	p := pack.NewSMDownCheckPack()
	p.SetRecords(items)
	var n int
	oc := guard(func() {
		in := gio.NewDataInputX(pack.ToBytesPack(p))
		in.ReadShort()
		q := pack.NewSMDownCheckPack()
		q.Read(in)
		n = len(q.GetRecords())
	})
	if !oc.OK() || n != len(items) {
		return true, fmt.Sprintf("SMDownCheckPack with 32768 records: GetRecords returns %d records %s", n, vh.Clip(oc.Panic, 120))
	}
	return false, "SMDownCheckPack with 32768 records round-trips"
}

// D68 EventPack.Write leaves the reserved keys in the pack's own Attr table: a pack written with a
// uuid, then cleared and written again, still sends the old uuid.
func witnessD68() (bool, string) {
	p := pack.NewEventPack()
	p.Uuid = "u-1"
	pack.ToBytesPack(p)
	p.Uuid = ""
	var got string
	oc := guard(func() { got = pack.ToPack(pack.ToBytesPack(p)).(*pack.EventPack).Uuid })
	if !oc.OK() || got != "" {
		return true, fmt.Sprintf("EventPack{Uuid:\"u-1\"} encoded, Uuid cleared, encoded again: decodes with Uuid %q %s", got, vh.Clip(oc.Panic, 120))
	}
	return false, "a re-used EventPack with its Uuid cleared decodes with an empty Uuid"
}
