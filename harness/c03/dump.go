package main

// Generic field dump of packs / records / element structs through reflection.
//
// Dump(obj) yields ordered (path,val) pairs.  Paths are Go field names; the
// embedded AbstractPack (and the TxMeter embedded in SqlMeter/HttpcMeter) is
// promoted.  Unexported fields are read through reflect.NewAt + unsafe, so no
// accessor hooks are needed in the library.
//
// Value syntax (parsed by the Lean driver):
//
//	i:<dec>          every integer-like scalar (bool as 0/1); floats as their IEEE bit pattern
//	b:<hex>|b:-      string / []byte / *string (nil or empty = "-")
//	is:<d,d,…>|is:-  numeric slices (floats as bit patterns)
//	ss:<h,h,…>|ss:-  []string, each element hex, "_" for an empty element
//	v:<tokens>       value.Value in prefix notation (see valTokens)
//
// Structure:
//
//	F#        element count of a slice of structs / table / list of packs
//	F[i].sub  element i
//	F?        nil-ness of a pointer / table / value (i:0 nil, i:1 present)
//	F!        concrete type of an interface field (Cpu: 1 CpuLinux 2 CpuWindow 3 CpuOSX;
//	          Memory: 1 MemoryLinux 2 MemoryWindow; 0 nil); for nested packs the
//	          pack type code (GetPackType as unsigned 16 bit)

import (
	"encoding/hex"
	"fmt"
	"math"
	"reflect"
	"sort"
	"strconv"
	"strings"
	"sync"
	"unsafe"

	gio "github.com/whatap/golib/io"
	"github.com/whatap/golib/lang"
	"github.com/whatap/golib/lang/pack"
	"github.com/whatap/golib/lang/value"
	"github.com/whatap/golib/util/hash"
	"github.com/whatap/golib/util/hmap"
	"github.com/whatap/golib/util/list"
)

// KV is one dumped field.  owner is "<StructType>.<Field>" of the struct field
// that produced it (used by the carried projection).
type KV struct {
	Path  string
	Val   string
	owner string
	exp   string // value the wire carries when it differs from the field (tag hash computed by Write)
}

// DumpString joins path=val with ';'.
func DumpString(kvs []KV) string {
	var sb strings.Builder
	for i, kv := range kvs {
		if i > 0 {
			sb.WriteByte(';')
		}
		sb.WriteString(kv.Path)
		sb.WriteByte('=')
		sb.WriteString(kv.Val)
	}
	return sb.String()
}

func hexOf(b []byte) string {
	if len(b) == 0 {
		return "-"
	}
	return hex.EncodeToString(b)
}

func iv(x int64) string  { return "i:" + strconv.FormatInt(x, 10) }
func uv(x uint64) string { return "i:" + strconv.FormatUint(x, 10) }
func bv(b []byte) string { return "b:" + hexOf(b) }
func boolv(b bool) string {
	if b {
		return "i:1"
	}
	return "i:0"
}

var mutexType = reflect.TypeOf(sync.Mutex{})
var valueIface = reflect.TypeOf((*value.Value)(nil)).Elem()
var packIface = reflect.TypeOf((*pack.Pack)(nil)).Elem()

// access returns a readable/settable view of a (possibly unexported) field.
func access(f reflect.Value) reflect.Value {
	if f.CanInterface() && f.CanSet() {
		return f
	}
	if f.CanAddr() {
		return reflect.NewAt(f.Type(), unsafe.Pointer(f.UnsafeAddr())).Elem()
	}
	return f
}

type dumper struct{ out []KV }

func (d *dumper) add(path, val, owner string) {
	d.out = append(d.out, KV{Path: path, Val: val, owner: owner})
}

// Dump dumps a pack, record or element struct (pointer or value).
func Dump(obj interface{}) []KV {
	d := &dumper{}
	rv := reflect.ValueOf(obj)
	if !rv.IsValid() {
		return nil
	}
	if rv.Kind() == reflect.Ptr {
		if rv.IsNil() {
			return nil
		}
		rv = rv.Elem()
	} else {
		// make it addressable so unexported fields can be read
		c := reflect.New(rv.Type()).Elem()
		c.Set(rv)
		rv = c
	}
	d.structFields("", rv)
	return d.out
}

func join(prefix, name string) string {
	if prefix == "" {
		return name
	}
	return prefix + "." + name
}

// structFields dumps the fields of a struct.  Fields of an embedded struct are
// promoted and owned by the outer struct type ("EventPack.Pcode", "SqlMeter.Acts").
func (d *dumper) structFields(prefix string, rv reflect.Value) { d.structFieldsAs(prefix, rv, "") }

func (d *dumper) structFieldsAs(prefix string, rv reflect.Value, outer string) {
	t := rv.Type()
	if outer == "" {
		outer = t.Name()
	}
	start := len(d.out)
	for i := 0; i < t.NumField(); i++ {
		sf := t.Field(i)
		if sf.Type == mutexType {
			continue
		}
		fv := access(rv.Field(i))
		if sf.Anonymous && sf.Type.Kind() == reflect.Struct {
			d.structFieldsAs(prefix, fv, outer) // promoted (AbstractPack, TxMeter)
			continue
		}
		d.field(join(prefix, sf.Name), fv, outer+"."+sf.Name)
	}
	if tagHashField[t.Name()] != "" && rv.CanAddr() {
		d.expectTagHash(prefix, rv, start)
	}
}

// tagHashField: packs whose Write replaces a zero tag hash by Hash64(encoded tags).
var tagHashField = map[string]string{"TagCountPack": "tagHash", "TagLogPack": "tagHash", "LogSinkPack": "TagHash"}

// expectTagHash records, on the tag-hash entry, the value the wire carries: if the
// hash is 0 and Tags is non-empty the writer computes hash.Hash64(encoded tags).
func (d *dumper) expectTagHash(prefix string, rv reflect.Value, start int) {
	name := tagHashField[rv.Type().Name()]
	hv := access(rv.FieldByName(name))
	if hv.Int() != 0 {
		return
	}
	tags, _ := access(rv.FieldByName("Tags")).Interface().(*value.MapValue)
	if tags == nil || tags.Size() == 0 {
		return
	}
	o := gio.NewDataOutputX()
	value.WriteValue(o, tags)
	h := hash.Hash64(o.ToByteArray())
	path := join(prefix, name)
	for i := start; i < len(d.out); i++ {
		if d.out[i].Path == path {
			d.out[i].exp = iv(h)
		}
	}
}

func (d *dumper) field(path string, fv reflect.Value, owner string) {
	t := fv.Type()
	switch t.Kind() {
	case reflect.Bool:
		d.add(path, boolv(fv.Bool()), owner)
	case reflect.Int, reflect.Int8, reflect.Int16, reflect.Int32, reflect.Int64:
		d.add(path, iv(fv.Int()), owner)
	case reflect.Uint, reflect.Uint8, reflect.Uint16, reflect.Uint32, reflect.Uint64:
		d.add(path, uv(fv.Uint()), owner)
	case reflect.Float32:
		d.add(path, uv(f32bits(fv)), owner)
	case reflect.Float64:
		d.add(path, uv(math.Float64bits(fv.Float())), owner)
	case reflect.String:
		d.add(path, bv([]byte(fv.String())), owner)
	case reflect.Struct:
		d.structFields(path, fv)
	case reflect.Slice:
		d.slice(path, fv, owner)
	case reflect.Ptr:
		d.pointer(path, fv, owner)
	case reflect.Interface:
		d.iface(path, fv, owner)
	default:
		d.add(path, "?:"+t.String(), owner)
	}
}

func f32bits(fv reflect.Value) uint64 {
	// fv.Float() widens; the float32 payload survives float32->float64->float32 only for
	// non-signalling NaNs on some platforms, so read the bits from memory when addressable.
	if fv.CanAddr() {
		return uint64(*(*uint32)(unsafe.Pointer(fv.UnsafeAddr())))
	}
	return uint64(math.Float32bits(float32(fv.Float())))
}

func (d *dumper) slice(path string, fv reflect.Value, owner string) {
	et := fv.Type().Elem()
	n := fv.Len()
	switch et.Kind() {
	case reflect.Uint8:
		d.add(path, bv(fv.Bytes()), owner)
	case reflect.Int8, reflect.Int16, reflect.Int32, reflect.Int64, reflect.Int:
		s := make([]string, n)
		for i := 0; i < n; i++ {
			s[i] = strconv.FormatInt(fv.Index(i).Int(), 10)
		}
		d.add(path, "is:"+listOr(s), owner)
	case reflect.Uint16, reflect.Uint32, reflect.Uint64, reflect.Uint:
		s := make([]string, n)
		for i := 0; i < n; i++ {
			s[i] = strconv.FormatUint(fv.Index(i).Uint(), 10)
		}
		d.add(path, "is:"+listOr(s), owner)
	case reflect.Float32:
		s := make([]string, n)
		for i := 0; i < n; i++ {
			s[i] = strconv.FormatUint(f32bits(fv.Index(i)), 10)
		}
		d.add(path, "is:"+listOr(s), owner)
	case reflect.Float64:
		s := make([]string, n)
		for i := 0; i < n; i++ {
			s[i] = strconv.FormatUint(math.Float64bits(fv.Index(i).Float()), 10)
		}
		d.add(path, "is:"+listOr(s), owner)
	case reflect.String:
		s := make([]string, n)
		for i := 0; i < n; i++ {
			s[i] = fv.Index(i).String()
		}
		d.add(path, ssv(s), owner)
	case reflect.Struct:
		d.add(path+"#", iv(int64(n)), owner)
		for i := 0; i < n; i++ {
			d.structFields(fmt.Sprintf("%s[%d]", path, i), fv.Index(i))
		}
	case reflect.Interface:
		d.add(path+"#", iv(int64(n)), owner)
		for i := 0; i < n; i++ {
			d.iface(fmt.Sprintf("%s[%d]", path, i), fv.Index(i), owner)
		}
	case reflect.Ptr:
		d.add(path+"#", iv(int64(n)), owner)
		for i := 0; i < n; i++ {
			d.pointer(fmt.Sprintf("%s[%d]", path, i), fv.Index(i), owner)
		}
	default:
		d.add(path, "?:"+fv.Type().String(), owner)
	}
}

func listOr(s []string) string {
	if len(s) == 0 {
		return "-"
	}
	return strings.Join(s, ",")
}

func ssv(xs []string) string {
	if len(xs) == 0 {
		return "ss:-"
	}
	s := make([]string, len(xs))
	for i, x := range xs {
		if x == "" {
			s[i] = "_"
		} else {
			s[i] = hex.EncodeToString([]byte(x))
		}
	}
	return "ss:" + strings.Join(s, ",")
}

func ifaceTag(x interface{}) int64 {
	switch x.(type) {
	case *pack.CpuLinux, *pack.MemoryLinux:
		return 1
	case *pack.CpuWindow, *pack.MemoryWindow:
		return 2
	case *pack.CpuOSX:
		return 3
	}
	return 99
}

func (d *dumper) iface(path string, fv reflect.Value, owner string) {
	if fv.Type() == valueIface {
		d.valueField(path, fv, owner)
		return
	}
	if fv.IsNil() {
		d.add(path+"!", iv(0), owner)
		return
	}
	x := fv.Interface()
	if p, ok := x.(pack.Pack); ok {
		d.add(path+"!", iv(int64(uint16(p.GetPackType()))), owner)
		ev := reflect.ValueOf(x)
		if ev.Kind() == reflect.Ptr && !ev.IsNil() {
			d.structFields(path, ev.Elem())
		}
		return
	}
	d.add(path+"!", iv(ifaceTag(x)), owner)
	ev := reflect.ValueOf(x)
	if ev.Kind() == reflect.Ptr && !ev.IsNil() && ev.Elem().Kind() == reflect.Struct {
		d.structFields(path, ev.Elem())
	}
}

func (d *dumper) valueField(path string, fv reflect.Value, owner string) {
	if fv.IsNil() {
		d.add(path+"?", iv(0), owner)
		return
	}
	v, ok := fv.Interface().(value.Value)
	if !ok || isNilPtr(v) {
		d.add(path+"?", iv(0), owner)
		return
	}
	d.add(path+"?", iv(1), owner)
	d.add(path, ValString(v), owner)
}

func isNilPtr(x interface{}) bool {
	rv := reflect.ValueOf(x)
	return rv.Kind() == reflect.Ptr && rv.IsNil()
}

func (d *dumper) pointer(path string, fv reflect.Value, owner string) {
	t := fv.Type()
	if t.Elem().Kind() == reflect.String { // *string
		if fv.IsNil() {
			d.add(path, "b:-", owner)
		} else {
			d.add(path, bv([]byte(fv.Elem().String())), owner)
		}
		return
	}
	if fv.IsNil() {
		d.add(path+"?", iv(0), owner)
		return
	}
	switch x := fv.Interface().(type) {
	case *value.MapValue:
		d.add(path+"?", iv(1), owner)
		d.add(path, ValString(x), owner)
		return
	case *value.IntMapValue:
		d.add(path+"?", iv(1), owner)
		d.add(path, ValString(x), owner)
		return
	case *hmap.IntIntLinkedMap:
		d.add(path+"?", iv(1), owner)
		d.add(path+"#", iv(int64(x.Size())), owner)
		en := x.Entries()
		for i := 0; en.HasMoreElements(); i++ {
			e := en.NextElement().(*hmap.IntIntLinkedEntry)
			d.add(fmt.Sprintf("%s[%d].key", path, i), iv(int64(e.GetKey())), owner)
			d.add(fmt.Sprintf("%s[%d].val", path, i), iv(int64(e.GetValue())), owner)
		}
		return
	case *hmap.IntIntMap: // unordered hash map: sorted by key
		d.add(path+"?", iv(1), owner)
		d.add(path+"#", iv(int64(x.Size())), owner)
		type kv struct{ k, v int32 }
		var es []kv
		en := x.Entries()
		for en.HasMoreElements() {
			e := en.NextElement().(*hmap.IntIntEntry)
			es = append(es, kv{e.GetKey(), e.GetValue()})
		}
		sort.Slice(es, func(i, j int) bool { return es[i].k < es[j].k })
		for i, e := range es {
			d.add(fmt.Sprintf("%s[%d].key", path, i), iv(int64(e.k)), owner)
			d.add(fmt.Sprintf("%s[%d].val", path, i), iv(int64(e.v)), owner)
		}
		return
	case *hmap.StringIntLinkedMap:
		d.add(path+"?", iv(1), owner)
		d.add(path+"#", iv(int64(x.Size())), owner)
		en := x.Entries()
		for i := 0; en.HasMoreElements(); i++ {
			e := en.NextElement().(*hmap.StringIntLinkedEntry)
			d.add(fmt.Sprintf("%s[%d].key", path, i), bv([]byte(e.GetKey())), owner)
			d.add(fmt.Sprintf("%s[%d].val", path, i), iv(int64(e.GetValue())), owner)
		}
		return
	case *hmap.StringKeyLinkedMap:
		d.add(path+"?", iv(1), owner)
		d.add(path+"#", iv(int64(x.Size())), owner)
		en := x.Entries()
		for i := 0; en.HasMoreElements(); i++ {
			e := en.NextElement().(*hmap.StringKeyLinkedEntry)
			p := fmt.Sprintf("%s[%d]", path, i)
			d.add(p+".key", bv([]byte(e.GetKey())), owner)
			switch v := e.GetValue().(type) {
			case string:
				d.add(p+".val", bv([]byte(v)), owner)
			case list.AnyList:
				d.add(p+".type", iv(int64(v.GetType())), owner)
				d.add(p+".val", anyListString(v), owner)
			case value.Value:
				d.add(p+".val", ValString(v), owner)
			default:
				d.add(p+".val", fmt.Sprintf("?:%T", v), owner)
			}
		}
		return
	case *hmap.IntKeyLinkedMap:
		d.add(path+"?", iv(1), owner)
		d.add(path+"#", iv(int64(x.Size())), owner)
		en := x.Entries()
		for i := 0; en.HasMoreElements(); i++ {
			e := en.NextElement().(*hmap.IntKeyLinkedEntry)
			p := fmt.Sprintf("%s[%d]", path, i)
			d.add(p+".key", iv(int64(e.GetKey())), owner)
			d.entryValue(p, e.GetValue(), owner)
		}
		return
	case *hmap.LinkedMap:
		d.add(path+"?", iv(1), owner)
		d.add(path+"#", iv(int64(x.Size())), owner)
		en := x.Entries()
		for i := 0; en.HasMoreElements(); i++ {
			e := en.NextElement().(*hmap.LinkedEntry)
			p := fmt.Sprintf("%s[%d]", path, i)
			switch k := e.GetKey().(type) {
			case *lang.PKIND:
				d.add(p+".PCode", iv(k.PCode), owner)
				d.add(p+".OKind", iv(int64(k.OKind)), owner)
			case *lang.POID:
				d.add(p+".PCode", iv(k.PCode), owner)
				d.add(p+".Oid", iv(int64(k.Oid)), owner)
			default:
				d.add(p+".key", fmt.Sprintf("?:%T", k), owner)
			}
			d.entryValue(p, e.GetValue(), owner)
		}
		return
	case *hmap.IntKeyMap: // unordered hash map: sorted by key
		d.add(path+"?", iv(1), owner)
		d.add(path+"#", iv(int64(x.Size())), owner)
		type kv struct {
			k int32
			v interface{}
		}
		var es []kv
		en := x.Entries()
		for en.HasMoreElements() {
			e := en.NextElement().(*hmap.IntKeyEntry)
			es = append(es, kv{e.GetKey(), e.GetValue()})
		}
		sort.SliceStable(es, func(i, j int) bool { return es[i].k < es[j].k })
		for i, e := range es {
			p := fmt.Sprintf("%s[%d]", path, i)
			d.add(p+".key", iv(int64(e.k)), owner)
			d.entryValue(p, e.v, owner)
		}
		return
	}
	if t.Elem().Kind() == reflect.Struct {
		d.add(path+"?", iv(1), owner)
		d.structFields(path, fv.Elem())
		return
	}
	d.add(path, "?:"+t.String(), owner)
}

// entryValue dumps the value of a table entry (a *TxMeter, *SqlMeter, *HttpcMeter, *TimeCount …).
func (d *dumper) entryValue(p string, v interface{}, owner string) {
	rv := reflect.ValueOf(v)
	if rv.Kind() == reflect.Ptr && !rv.IsNil() && rv.Elem().Kind() == reflect.Struct {
		d.structFields(p, rv.Elem())
		return
	}
	d.add(p+".val", fmt.Sprintf("?:%T", v), owner)
}

func anyListString(l list.AnyList) string {
	n := l.Size()
	s := make([]string, n)
	switch l.GetType() {
	case list.ANYLIST_INT:
		for i := 0; i < n; i++ {
			s[i] = strconv.FormatInt(int64(l.GetInt(i)), 10)
		}
		return "is:" + listOr(s)
	case list.ANYLIST_LONG:
		for i := 0; i < n; i++ {
			s[i] = strconv.FormatInt(l.GetLong(i), 10)
		}
		return "is:" + listOr(s)
	case list.ANYLIST_FLOAT:
		for i := 0; i < n; i++ {
			s[i] = strconv.FormatUint(uint64(math.Float32bits(l.GetFloat(i))), 10)
		}
		return "is:" + listOr(s)
	case list.ANYLIST_DOUBLE:
		for i := 0; i < n; i++ {
			s[i] = strconv.FormatUint(math.Float64bits(l.GetDouble(i)), 10)
		}
		return "is:" + listOr(s)
	default:
		for i := 0; i < n; i++ {
			s[i] = l.GetString(i)
		}
		return ssv(s)
	}
}

// ---------------------------------------------------------------- values

// ValString renders a value.Value as "v:<tokens joined by ','>".
func ValString(v value.Value) string {
	var toks []string
	valTokens(v, &toks)
	return "v:" + strings.Join(toks, ",")
}

func u(x uint64) string { return strconv.FormatUint(x, 10) }
func s(x int64) string  { return strconv.FormatInt(x, 10) }

// valTokens appends the prefix-notation tokens of v:
//
//	null | bool,<0|1> | dec,<n> | int,<n> | long,<n> | f32,<bits> | f64,<bits>
//	dsum,<sumbits>,<count>,<minbits>,<maxbits> | lsum,<sum>,<count>,<min>,<max>
//	text,<hex|-> | hash,<n> | blob,<hex|-> | ip4,<hex>
//	list,<n>,<item>… | ai,<n>,<x>… | af,<n>,<bits>… | at,<n>,<hex|->… | al,<n>,<x>…
//	map,<n>,<hexkey|->,<value>… | imap,<n>,<key>,<value>…
func valTokens(v value.Value, out *[]string) {
	add := func(t ...string) { *out = append(*out, t...) }
	switch x := v.(type) {
	case *value.NullValue:
		add("null")
	case *value.BoolValue:
		if x.Val {
			add("bool", "1")
		} else {
			add("bool", "0")
		}
	case *value.DecimalValue:
		add("dec", s(x.Val))
	case *value.IntValue:
		add("int", s(int64(x.Val)))
	case *value.LongValue:
		add("long", s(x.Val))
	case *value.FloatValue:
		add("f32", u(uint64(math.Float32bits(x.Val))))
	case *value.DoubleValue:
		add("f64", u(math.Float64bits(x.Val)))
	case *value.DoubleSummary:
		add("dsum", u(math.Float64bits(x.Sum)), s(int64(x.Count)), u(math.Float64bits(x.Min)), u(math.Float64bits(x.Max)))
	case *value.LongSummary:
		add("lsum", s(x.Sum), s(int64(x.Count)), s(x.Min), s(x.Max))
	case *value.TextValue:
		add("text", hexOf([]byte(x.Val)))
	case *value.TextHashValue:
		add("hash", s(int64(x.Val)))
	case *value.BlobValue:
		add("blob", hexOf(x.Val))
	case *value.IP4Value:
		add("ip4", hexOf(x.Val))
	case *value.ListValue:
		n := x.Size()
		add("list", s(int64(n)))
		for i := 0; i < n; i++ {
			valTokens(x.Get(i), out)
		}
	case *value.IntArray:
		add("ai", s(int64(len(x.Val))))
		for _, e := range x.Val {
			add(s(int64(e)))
		}
	case *value.FloatArray:
		add("af", s(int64(len(x.Val))))
		for _, e := range x.Val {
			add(u(uint64(math.Float32bits(e))))
		}
	case *value.TextArray:
		add("at", s(int64(len(x.Val))))
		for _, e := range x.Val {
			add(hexOf([]byte(e)))
		}
	case *value.LongArray:
		add("al", s(int64(len(x.Val))))
		for _, e := range x.Val {
			add(s(e))
		}
	case *value.MapValue:
		add("map", s(int64(x.Size())))
		en := x.Keys()
		for en.HasMoreElements() {
			k := en.NextString()
			add(hexOf([]byte(k)))
			valTokens(x.Get(k), out)
		}
	case *value.IntMapValue:
		add("imap", s(int64(x.Size())))
		en := x.Keys()
		for en.HasMoreElements() {
			k := en.NextInt()
			add(s(int64(k)))
			valTokens(x.Get(k), out)
		}
	case nil:
		add("nil")
	default:
		add(fmt.Sprintf("?%T", v))
	}
}

// ---------------------------------------------------------------- dump utilities

// topField is the top-level field name of a path (indices and markers stripped).
func topField(path string) string {
	for i := 0; i < len(path); i++ {
		switch path[i] {
		case '.', '[', '?', '#', '!':
			return path[:i]
		}
	}
	return path
}

// stripIdx removes "[n]" index parts: "Disk[3].Count" -> "Disk.Count".
func stripIdx(path string) string {
	if !strings.Contains(path, "[") {
		return path
	}
	var sb strings.Builder
	skip := false
	for i := 0; i < len(path); i++ {
		c := path[i]
		if c == '[' {
			skip = true
			continue
		}
		if c == ']' {
			skip = false
			continue
		}
		if !skip {
			sb.WriteByte(c)
		}
	}
	return sb.String()
}

// isZeroVal tells whether a dumped value is the zero / absent form.
func isZeroVal(v string) bool {
	switch v {
	case "i:0", "b:-", "is:-", "ss:-", "", "v:null", "v:map,0", "v:imap,0", "v:list,0":
		return true
	}
	return false
}

// parseDump is the inverse of DumpString (for -replay).
func parseDump(s string) []KV {
	var out []KV
	if s == "" {
		return out
	}
	for _, part := range strings.Split(s, ";") {
		i := strings.IndexByte(part, '=')
		if i < 0 {
			continue
		}
		out = append(out, KV{Path: part[:i], Val: part[i+1:]})
	}
	return out
}
