package main

// Container packs (ZipPack, LogSinkZipPack) and record-list packs: inner packs /
// records come back unchanged, in order, stamped with the container's identity.
// (CompositePack is covered by the plain round trip: its dump nests the inner packs.)

import (
	"fmt"
	"reflect"

	gio "github.com/whatap/golib/io"
	"github.com/whatap/golib/lang/pack"
	"verif/harness/vh"
)

// job: generated sequentially (all randomness), evaluated in parallel.
type job struct {
	eval func() *Case
}

func header(g *G) pack.AbstractPack {
	var h pack.AbstractPack
	g.fillHeader(reflect.ValueOf(&h).Elem())
	return h
}

func headerKVs(h pack.AbstractPack) []KV {
	return []KV{{Path: "Pcode", Val: iv(h.Pcode)}, {Path: "Oid", Val: iv(int64(h.Oid))}, {Path: "Okind", Val: iv(int64(h.Okind))},
		{Path: "Onode", Val: iv(int64(h.Onode))}, {Path: "Time", Val: iv(h.Time)}}
}

// stamp replaces the identity fields of an item's dump by the container's (Time untouched).
func stamp(kvs []KV, h pack.AbstractPack) []KV {
	out := make([]KV, len(kvs))
	copy(out, kvs)
	for i := range out {
		switch out[i].Path {
		case "Pcode":
			out[i].Val = iv(h.Pcode)
		case "Oid":
			out[i].Val = iv(int64(h.Oid))
		case "Okind":
			out[i].Val = iv(int64(h.Okind))
		case "Onode":
			out[i].Val = iv(int64(h.Onode))
		}
	}
	return out
}

// containerPre builds the replayable description of a container case.
func containerPre(h pack.AbstractPack, label string, pres [][]KV, extra ...KV) []KV {
	out := headerKVs(h)
	out = append(out, extra...)
	out = append(out, KV{Path: label + "#", Val: iv(int64(len(pres)))})
	for i, p := range pres {
		for _, kv := range p {
			out = append(out, KV{Path: fmt.Sprintf("%s[%d].%s", label, i, kv.Path), Val: kv.Val})
		}
	}
	return out
}

// precheck runs the plain round trip on every inner object; its failures are
// reported under the inner type's key.
func (c *Case) precheck(sp *spec, objs []interface{}) bool {
	for _, o := range objs {
		isp := sp
		if isp == nil {
			isp = specOf(o)
		}
		if isp == nil {
			continue
		}
		ic := checkRoundtrip(isp, o)
		c.extra += 1 + ic.extra
		c.fails = append(c.fails, ic.fails...)
	}
	return len(c.fails) == 0
}

// compareItems: same length, same order, each item equal to the expected dump.
func (c *Case) compareItems(aspect string, want [][]KV, got []interface{}, wantTypes []reflect.Type, drop []string) bool {
	if len(got) != len(want) {
		c.fail(aspect+":count", fmt.Sprintf("%d items in, %d items out", len(want), len(got)), fmt.Sprintf("%d/%d", len(want), len(got)))
		return false
	}
	for i := range want {
		if wantTypes != nil && reflect.TypeOf(got[i]) != wantTypes[i] {
			c.fail(aspect+":wrong-type", fmt.Sprintf("item %d: got %T", i, got[i]), fmt.Sprintf("items[%d]: %T", i, got[i]))
			return false
		}
		var gd []KV
		if oc := guard(func() { unpackAll(got[i]); gd = Dump(got[i]) }); !oc.OK() {
			c.fail(aspect+":panic", "dumping a returned item panicked: "+vh.Clip(oc.Panic, 200), oc.Panic)
			return false
		}
		if d := firstDiff(want[i], carried(gd, carryOpt{drop: drop})); d != nil {
			d.path = fmt.Sprintf("items[%d].%s", i, d.path)
			c.fail(aspect+":"+d.class(), "item returned by the container differs: "+d.String(), d.String())
			return false
		}
	}
	return true
}

func packsToIfaces(ps []pack.Pack) []interface{} {
	out := make([]interface{}, len(ps))
	for i, p := range ps {
		out[i] = p
	}
	return out
}

// ---------------------------------------------------------------- ZipPack

func zipJob(g *G) job {
	n := g.r.PickInt([]int{0, 1, 2, 3, 5, 10})
	if g.r.Chance(3) {
		n = 60
	}
	items := make([]pack.Pack, n)
	for i := range items {
		items[i] = g.anyRegistered(1)
	}
	h := header(g)
	return job{func() *Case {
		c := &Case{Type: "ZipPack.records"}
		pres := make([][]KV, n)
		want := make([][]KV, n)
		types := make([]reflect.Type, n)
		for i, it := range items {
			pres[i] = Dump(it)
			pres[i] = append([]KV{{Path: "!", Val: iv(int64(uint16(it.GetPackType())))}}, pres[i]...)
			want[i] = stamp(carried(pres[i][1:], carryOpt{orig: true}), h)
			types[i] = reflect.TypeOf(it)
		}
		c.Pre = containerPre(h, "items", pres)
		c.canon = c.Type + ":" + DumpString(c.Pre)
		if !c.precheck(nil, packsToIfaces(items)) {
			return c
		}
		z := pack.NewZipPack()
		z.AbstractPack = h
		if oc := guard(func() { z.SetRecords(items) }); !oc.OK() {
			c.fail("ZipPack.SetRecords:panic", vh.Clip(oc.Panic, 200), oc.Panic)
			return c
		}
		var b []byte
		if oc := guard(func() { b = pack.ToBytesPack(z) }); !oc.OK() {
			c.fail("ZipPack:encode-panic", vh.Clip(oc.Panic, 200), oc.Panic)
			return c
		}
		c.Bytes = b
		c.nontrivial = n > 0
		trace(c)
		if z.RecordCount != n {
			c.fail("ZipPack.RecordCount:differs", fmt.Sprintf("RecordCount %d for %d items", z.RecordCount, n), fmt.Sprint(z.RecordCount))
		}
		var r1 []pack.Pack
		if oc := guard(func() { r1 = z.GetRecords() }); !oc.OK() {
			c.fail("ZipPack.GetRecords:panic", vh.Clip(oc.Panic, 200), oc.Panic)
			return c
		}
		if !c.compareItems("ZipPack.GetRecords", want, packsToIfaces(r1), types, nil) {
			return c
		}
		var r2 []pack.Pack
		if oc := guard(func() { r2 = pack.ToPack(b).(*pack.ZipPack).GetRecords() }); !oc.OK() {
			c.fail("ZipPack.GetRecords:panic", "after a ToBytesPack/ToPack trip: "+vh.Clip(oc.Panic, 200), oc.Panic)
			return c
		}
		c.compareItems("ZipPack.GetRecords", want, packsToIfaces(r2), types, nil)
		return c
	}}
}

// ---------------------------------------------------------------- LogSinkZipPack

func logSinkZipJob(g *G) job {
	n := g.recCount()
	if n > 40 {
		n = 40
	}
	recs := make([]*pack.LogSinkPack, n)
	g.small++
	for i := range recs {
		recs[i] = g.logSinkPack()
	}
	g.small--
	h := header(g)
	return job{func() *Case {
		c := &Case{Type: "LogSinkZipPack.records"}
		pres := make([][]KV, n)
		want := make([][]KV, n)
		objs := make([]interface{}, n)
		for i, it := range recs {
			pres[i] = Dump(it)
			want[i] = stamp(carried(pres[i], carryOpt{orig: true}), h) // Time keeps the record's own
			objs[i] = it
		}
		c.Pre = containerPre(h, "items", pres)
		c.canon = c.Type + ":" + DumpString(c.Pre)
		if !c.precheck(specByName["LogSinkPack"], objs) {
			return c
		}
		out := gio.NewDataOutputX()
		if oc := guard(func() {
			for _, it := range recs {
				pack.WritePack(out, it)
			}
		}); !oc.OK() {
			c.fail("LogSinkPack:encode-panic", vh.Clip(oc.Panic, 200), oc.Panic)
			return c
		}
		raw := out.ToByteArray()
		c.nontrivial = n > 0
		c.Bytes = raw
		trace(c)
		for _, zms := range []int{0, len(raw), len(raw) + 1, 1 << 30} {
			c.extra++
			lz := pack.NewLogSinkZipPack()
			lz.AbstractPack = h
			lz.RecordCount = n
			if oc := guard(func() { lz.SetRecords(raw, zms) }); !oc.OK() {
				c.fail("LogSinkZipPack.SetRecords:panic", vh.Clip(oc.Panic, 200), oc.Panic)
				return c
			}
			wantStatus := byte(pack.UN_ZIPPED)
			if len(raw) >= zms {
				wantStatus = pack.ZIPPED
			}
			if lz.Status != wantStatus {
				c.fail("LogSinkZipPack.SetRecords:status", fmt.Sprintf("payload %d bytes, zipMinSize %d: status %d", len(raw), zms, lz.Status), fmt.Sprint(lz.Status))
			}
			c.buckets = append(c.buckets, fmt.Sprintf("logsinkzip:status=%d", lz.Status))
			var b []byte
			var got []*pack.LogSinkPack
			if oc := guard(func() {
				b = pack.ToBytesPack(lz)
				got = pack.ToPack(b).(*pack.LogSinkZipPack).GetRecords()
			}); !oc.OK() {
				c.fail("LogSinkZipPack.GetRecords:panic", vh.Clip(oc.Panic, 200), oc.Panic)
				return c
			}
			c.Bytes = b
			gi := make([]interface{}, len(got))
			for i, x := range got {
				gi[i] = x
			}
			if !c.compareItems("LogSinkZipPack.GetRecords", want, gi, nil, nil) {
				return c
			}
		}
		return c
	}}
}

// ---------------------------------------------------------------- record lists

type recKind struct {
	packName string
	elem     string // element spec name ("" = by version)
	setters  []string
	gen      func(g *G) interface{}
}

var recKinds = []recKind{
	{"StatTransactionPack", "", []string{"SetRecords", "SetRecordsList"}, func(g *G) interface{} { return g.transactionRec() }},
	{"StatTransactionPack1", "", []string{"SetRecords", "SetRecordsList"}, func(g *G) interface{} { return g.transactionRec() }},
	{"StatSqlPack", "SqlRec", []string{"SetRecords", "SetRecordsList"}, func(g *G) interface{} { return g.sqlRec() }},
	{"StatHttpcPack", "HttpcRec", []string{"SetRecords", "SetRecordsList"}, func(g *G) interface{} { return g.httpcRec() }},
	{"StatErrorPack", "ErrorRec", []string{"SetRecords", "SetRecordsArray"}, func(g *G) interface{} { return g.errorRec() }},
	{"StatServicePack", "ServiceRec", []string{"SetRecords"}, func(g *G) interface{} { return g.serviceRec() }},
	{"SMDownCheckPack", "DownCheckRec", []string{"SetRecords"}, func(g *G) interface{} { return g.downCheckRec() }},
}

func recordsJob(g *G, k recKind) job {
	n := g.recCount()
	recs := make([]interface{}, n)
	if n > 20 {
		g.small++
	}
	for i := range recs {
		recs[i] = k.gen(g)
	}
	if n > 20 {
		g.small--
	}
	h := header(g)
	setter := k.setters[g.r.Intn(len(k.setters))]
	version := byte(2 + g.r.Intn(3))
	if g.r.Chance(8) {
		version = byte(5 + g.r.Intn(251)) // read like version 4
	}
	return job{func() *Case {
		c := &Case{Type: k.packName + ".records"}
		esp := specByName[k.elem]
		var drop []string
		if k.elem == "" {
			v := version
			if v > 4 {
				v = 4
			}
			esp = specByName[fmt.Sprintf("TransactionRec/v%d", v)]
			drop = esp.drop
		}
		pres := make([][]KV, n)
		want := make([][]KV, n)
		for i, r := range recs {
			pres[i] = Dump(r)
			want[i] = carried(pres[i], carryOpt{orig: true, drop: drop})
		}
		extra := []KV{{Path: "setter", Val: "b:" + hexOf([]byte(setter))}}
		if k.elem == "" {
			extra = append(extra, KV{Path: "Version", Val: iv(int64(version))})
		}
		c.Pre = containerPre(h, "items", pres, extra...)
		c.canon = c.Type + ":" + DumpString(c.Pre)
		if !c.precheck(esp, recs) {
			return c
		}
		aspect := k.packName + "." + setter
		trace(c)
		var p pack.Pack
		var count int64 = -1
		oc := guard(func() { p, count = buildRecordPack(k.packName, setter, version, h, recs) })
		if !oc.OK() {
			c.fail(aspect+":panic", vh.Clip(oc.Panic, 200), oc.Panic)
			return c
		}
		raw, _ := getField(p, "Records").Interface().([]byte)
		if len(raw) == 0 {
			c.fail(aspect+":records-dropped", fmt.Sprintf("%s(%d records) left Records empty", setter, n), "Records empty")
			return c
		}
		if count != int64(n) {
			c.fail(k.packName+".RecordCount:differs", fmt.Sprintf("%s(%d records) set RecordCount %d", setter, n, count), fmt.Sprint(count))
		}
		psp := specByName[k.packName]
		var q interface{}
		if oc := guard(func() {
			c.Bytes = psp.encode(p)
			q, _ = psp.decode(c.Bytes)
		}); !oc.OK() {
			c.fail(k.packName+":decode-panic", vh.Clip(oc.Panic, 200), oc.Panic)
			return c
		}
		c.nontrivial = n > 0
		// the pack keeps its identity
		if d := firstDiff(headerKVs(h), Dump(q)[:5]); d != nil {
			c.fail(failKey(k.packName, topField(d.path), d.class(), nil), "header of the record pack: "+d.String(), d.String())
		}
		var got []interface{}
		if oc := guard(func() { got = getRecords(k.packName, q) }); !oc.OK() {
			c.fail(k.packName+".GetRecords:panic", vh.Clip(oc.Panic, 200), oc.Panic)
			return c
		}
		c.compareItems(k.packName+".GetRecords", want, got, nil, drop)
		if rc := getField(q, "RecordCount").Int(); rc != int64(n) {
			c.fail(k.packName+".RecordCount:differs", fmt.Sprintf("decoded RecordCount %d for %d records", rc, n), fmt.Sprint(rc))
		}
		return c
	}}
}

// buildRecordPack creates the record-list pack through its public setter.
func buildRecordPack(name, setter string, version byte, h pack.AbstractPack, recs []interface{}) (pack.Pack, int64) {
	n := len(recs)
	enum := &sliceEnum{xs: recs}
	switch name {
	case "StatTransactionPack":
		p := pack.NewStatTransactionPack()
		p.AbstractPack, p.Version = h, version
		if setter == "SetRecords" {
			p.SetRecords(n, enum)
		} else {
			p.SetRecordsList(toList(recs))
		}
		return p, int64(p.RecordCount)
	case "StatTransactionPack1":
		p := pack.NewStatTransactionPack1()
		p.AbstractPack, p.Version = h, version
		if setter == "SetRecords" {
			p.SetRecords(n, enum)
		} else {
			p.SetRecordsList(toList(recs))
		}
		return p, int64(p.RecordCount)
	case "StatSqlPack":
		p := pack.NewStatSqlPack()
		p.AbstractPack = h
		if setter == "SetRecords" {
			p.SetRecords(n, enum)
		} else {
			p.SetRecordsList(toList(recs))
		}
		return p, int64(p.RecordCount)
	case "StatHttpcPack":
		p := pack.NewStatHttpcPack()
		p.AbstractPack = h
		if setter == "SetRecords" {
			p.SetRecords(n, enum)
		} else {
			p.SetRecordsList(toList(recs))
		}
		return p, int64(p.RecordCount)
	case "StatErrorPack":
		p := pack.NewStatErrorPack()
		p.AbstractPack = h
		if setter == "SetRecords" {
			p.SetRecords(n, enum)
		} else {
			items := make([]*pack.ErrorRec, n)
			for i, r := range recs {
				items[i] = r.(*pack.ErrorRec)
			}
			p.SetRecordsArray(items)
		}
		return p, int64(p.RecordCount)
	case "StatServicePack":
		p := pack.NewStatServicePack()
		p.AbstractPack = h
		p.SetRecords(n, enum)
		return p, int64(p.RecordCount)
	case "SMDownCheckPack":
		p := pack.NewSMDownCheckPack()
		p.AbstractPack = h
		items := make([]*pack.DownCheckRec, n)
		for i, r := range recs {
			items[i] = r.(*pack.DownCheckRec)
		}
		p.SetRecords(items)
		return p, int64(p.RecordCount)
	}
	panic("unknown record pack " + name)
}

func getRecords(name string, q interface{}) []interface{} {
	switch p := q.(type) {
	case *pack.StatTransactionPack:
		return fromList(p.GetRecords())
	case *pack.StatTransactionPack1:
		return fromList(p.GetRecords())
	case *pack.StatSqlPack:
		return fromList(p.GetRecords())
	case *pack.StatHttpcPack:
		return fromList(p.GetRecords())
	case *pack.StatErrorPack:
		var out []interface{}
		for _, r := range p.GetRecords() {
			out = append(out, r)
		}
		return out
	case *pack.StatServicePack:
		// no GetRecords(): the documented layout is a 16-bit count followed by ReadRec records
		in := gio.NewDataInputX(p.Records)
		n := int(in.ReadShort()) & 0xffff
		var out []interface{}
		for i := 0; i < n; i++ {
			out = append(out, pack.ReadRec(in))
		}
		if in.Available() != 0 {
			panic(fmt.Sprintf("%d bytes left after %d records", in.Available(), n))
		}
		return out
	case *pack.SMDownCheckPack:
		var out []interface{}
		for _, r := range p.GetRecords() {
			out = append(out, r)
		}
		return out
	}
	panic("unknown record pack " + name)
}
