package main

// Generators: a reflection-driven filler (every field gets a boundary-biased
// value of its Go type) plus per-field hooks where the type needs a hand-made
// constructor (tables, interface fields, format caps).

import (
	"container/list"
	"math"
	"reflect"
	"unsafe"

	"github.com/whatap/golib/lang"
	"github.com/whatap/golib/lang/pack"
	"github.com/whatap/golib/lang/service"
	"github.com/whatap/golib/lang/value"
	"github.com/whatap/golib/util/hmap"
	ulist "github.com/whatap/golib/util/list"
)

// ---------------------------------------------------------------- reflection filler

// nullableMaps: *MapValue / *IntMapValue fields whose writer guards nil (all
// others are dereferenced by Write and therefore always generated non-nil).
var nullableMaps = map[string]bool{
	"LogSinkPack.Fields":   true,
	"SMBasePack.Extra":     true,
	"CounterPack1.Extra":   true,
	"TxRecord.Fields":      true,
	"CounterPack1.Netstat": true,
}

type hook func(g *G, fv reflect.Value)

var fieldHooks map[string]hook

func init() {
	skip := func(g *G, fv reflect.Value) {}
	fieldHooks = map[string]hook{
		// format cap: exactly HITMAP_LENGTH slots, each carried as unsigned 16 bit
		"HitMapPack1.Hit":   func(g *G, fv reflect.Value) { fv.Set(reflect.ValueOf(g.hitArr())) },
		"HitMapPack1.Error": func(g *G, fv reflect.Value) { fv.Set(reflect.ValueOf(g.hitArr())) },
		// format cap: one-byte attribute count, four reserved keys added by Write
		"EventPack.Attr": func(g *G, fv reflect.Value) { fv.Set(reflect.ValueOf(g.eventAttr())) },
		"ParamPack.table": func(g *G, fv reflect.Value) {
			fv.Set(reflect.ValueOf(g.valueTable()))
		},
		"StatGeneralPack.data":          func(g *G, fv reflect.Value) { fv.Set(reflect.ValueOf(g.anyListTable())) },
		"StatGeneralPack.dataBytes":     skip,
		"StatGeneralPack.dataBytesSize": skip,
		"StatGeneralPack.packType":      skip,
		// format cap: one-byte counts
		"CounterPack1.ActSvcSlice":    func(g *G, fv reflect.Value) { fv.Set(reflect.ValueOf(g.shortArr255())) },
		"CounterPack1.ActiveStat":     func(g *G, fv reflect.Value) { fv.Set(reflect.ValueOf(g.shortArr255())) },
		"CounterPack1.ActiveStatKeys": skip,
		"TxMeter.Acts":                func(g *G, fv reflect.Value) { fv.Set(reflect.ValueOf(g.shortArr255())) },
		"CounterPack1.DbNumActive":    skip, // pair, see genCounterPack1
		"CounterPack1.DbNumIdle":      skip,
		"CounterPack1.TxcallerOidMeter": func(g *G, fv reflect.Value) {
			fv.Set(reflect.ValueOf(g.intKeyMeters(func() interface{} { m := pack.NewTxMeter(); g.fillStruct(reflect.ValueOf(m).Elem()); return m })))
		},
		"CounterPack1.SqlMeter": func(g *G, fv reflect.Value) {
			fv.Set(reflect.ValueOf(g.intKeyMeters(func() interface{} { m := pack.NewSqlMeter(); g.fillStruct(reflect.ValueOf(m).Elem()); return m })))
		},
		"CounterPack1.HttpcMeter": func(g *G, fv reflect.Value) {
			fv.Set(reflect.ValueOf(g.intKeyMeters(func() interface{} { m := pack.NewHttpcMeter(); g.fillStruct(reflect.ValueOf(m).Elem()); return m })))
		},
		"CounterPack1.TxcallerGroupMeter": func(g *G, fv reflect.Value) { fv.Set(reflect.ValueOf(g.linkedMeters(false))) },
		"CounterPack1.TxcallerPOidMeter":  func(g *G, fv reflect.Value) { fv.Set(reflect.ValueOf(g.linkedMeters(true))) },
		"ProfilePack.Transaction": func(g *G, fv reflect.Value) {
			fv.Set(reflect.ValueOf(g.txRecord()))
		},
		// format cap: one-byte field count
		"TxRecord.Fields": func(g *G, fv reflect.Value) {
			switch g.r.Intn(4) {
			case 0:
				fv.Set(reflect.Zero(fv.Type()))
			case 1:
				fv.Set(reflect.ValueOf(value.NewMapValue()))
			default:
				m := g.mapValue(1)
				if m.Size() > 255 {
					m = value.NewMapValue()
				}
				if g.r.Chance(3) {
					m = value.NewMapValue()
					g.small++
					for _, k := range g.keys(255, nil) {
						m.Put(k, g.value(2))
					}
					g.small--
				}
				fv.Set(reflect.ValueOf(m))
			}
		},
		// written with WriteInt3: carried as signed 24 bit
		"ServerInfoPack.Version": func(g *G, fv reflect.Value) { fv.SetInt(g.intIn(-8388608, 8388607)) },
		"CompositePack.pack":     skip, // see genComposite
		"SMBasePack.OS":          skip, // see genSMBase
		"SMBasePack.Cpu":         skip,
		"SMBasePack.CpuCore":     skip,
		"SMBasePack.Memory":      skip,
		"TagCountPack.tagHash":   func(g *G, fv reflect.Value) { fv.SetInt(g.tagHash()) },
		"TagLogPack.tagHash":     func(g *G, fv reflect.Value) { fv.SetInt(g.tagHash()) },
		"LogSinkPack.TagHash":    func(g *G, fv reflect.Value) { fv.SetInt(g.tagHash()) },
		// record version byte: 0/1 are the unsupported old layout (reader rejects them)
		"StatTransactionPack.Version":  func(g *G, fv reflect.Value) { fv.SetUint(uint64(g.recVersion())) },
		"StatTransactionPack1.Version": func(g *G, fv reflect.Value) { fv.SetUint(uint64(g.recVersion())) },
	}
}

func (g *G) recVersion() byte {
	if g.r.Chance(10) {
		return byte(5 + g.r.Intn(251))
	}
	return byte(2 + g.r.Intn(3))
}

func (g *G) tagHash() int64 {
	if g.r.Bool() {
		return 0
	}
	return g.i64()
}

func (g *G) hitArr() []int32 {
	a := make([]int32, pack.HITMAP_LENGTH)
	if g.r.Chance(10) {
		return a
	}
	for i := range a {
		if g.r.Chance(60) {
			a[i] = int32(g.intIn(0, 65535))
		}
	}
	return a
}

func (g *G) shortArr255() []int16 {
	var n int
	switch g.r.Intn(8) {
	case 0:
		return nil
	case 1:
		return []int16{}
	case 2:
		n = 255
	case 3:
		n = 3
	case 4:
		n = 5
	default:
		n = g.r.Intn(10)
	}
	a := make([]int16, n)
	for i := range a {
		a[i] = g.i16()
	}
	return a
}

func setF32(fv reflect.Value, bits uint32) {
	*(*uint32)(unsafe.Pointer(fv.UnsafeAddr())) = bits
}

func (g *G) fillStruct(rv reflect.Value) {
	t := rv.Type()
	for i := 0; i < t.NumField(); i++ {
		sf := t.Field(i)
		if sf.Type == mutexType {
			continue
		}
		fv := access(rv.Field(i))
		owner := t.Name() + "." + sf.Name
		if h, ok := fieldHooks[owner]; ok {
			h(g, fv)
			continue
		}
		if sf.Anonymous && sf.Type.Kind() == reflect.Struct {
			if sf.Type.Name() == "AbstractPack" {
				g.fillHeader(fv)
			} else {
				g.fillStruct(fv)
			}
			continue
		}
		g.fillValue(fv, owner)
	}
}

// fillHeader: both header forms (Okind|Onode == 0 and != 0), Pcode across all
// decimal width classes including 0 and negatives.
func (g *G) fillHeader(fv reflect.Value) {
	h := fv.Addr().Interface().(*pack.AbstractPack)
	h.Pcode = g.i64()
	h.Oid = g.i32()
	h.Time = g.i64()
	switch g.r.Intn(5) {
	case 0, 1:
		h.Okind, h.Onode = 0, 0
	case 2:
		h.Okind, h.Onode = g.nz32(), 0
	case 3:
		h.Okind, h.Onode = 0, g.nz32()
	default:
		h.Okind, h.Onode = g.nz32(), g.nz32()
	}
}

func (g *G) nz32() int32 {
	for {
		if v := g.i32(); v != 0 {
			return v
		}
	}
}

func (g *G) fillValue(fv reflect.Value, owner string) {
	t := fv.Type()
	switch t.Kind() {
	case reflect.Bool:
		fv.SetBool(g.r.Bool())
	case reflect.Int8, reflect.Int16, reflect.Int32, reflect.Int64, reflect.Int:
		bits := t.Bits()
		lo, hi := rangeBits(bits, true)
		fv.SetInt(g.intIn(lo, hi))
	case reflect.Uint8, reflect.Uint16, reflect.Uint32:
		lo, hi := rangeBits(t.Bits(), false)
		fv.SetUint(uint64(g.intIn(lo, hi)))
	case reflect.Uint64, reflect.Uint:
		fv.SetUint(g.r.U64())
	case reflect.Float32:
		setF32(fv, g.f32bits())
	case reflect.Float64:
		fv.SetFloat(math.Float64frombits(g.f64bits()))
	case reflect.String:
		fv.SetString(g.str())
	case reflect.Struct:
		g.fillStruct(fv)
	case reflect.Slice:
		g.fillSlice(fv, owner)
	case reflect.Ptr:
		g.fillPtr(fv, owner)
	case reflect.Interface:
		if t == valueIface {
			fv.Set(reflect.ValueOf(g.value(0)))
		}
	}
}

func (g *G) fillSlice(fv reflect.Value, owner string) {
	t := fv.Type()
	et := t.Elem()
	if et.Kind() == reflect.Uint8 {
		b := g.blob()
		if b == nil {
			fv.Set(reflect.Zero(t))
		} else {
			fv.SetBytes(b)
		}
		return
	}
	var n int
	if et.Kind() == reflect.Struct {
		n = g.tableSize()
		if g.small > 0 && n > 3 {
			n = 3
		}
	} else {
		n = g.arrLen()
	}
	if n == 0 {
		if g.r.Bool() {
			fv.Set(reflect.Zero(t))
		} else {
			fv.Set(reflect.MakeSlice(t, 0, 0))
		}
		return
	}
	sl := reflect.MakeSlice(t, n, n)
	if n > 12 {
		g.small++
		defer func() { g.small-- }()
	}
	for i := 0; i < n; i++ {
		g.fillValue(sl.Index(i), owner)
	}
	fv.Set(sl)
}

func (g *G) fillPtr(fv reflect.Value, owner string) {
	t := fv.Type()
	switch t {
	case reflect.TypeOf((*value.MapValue)(nil)):
		if nullableMaps[owner] && g.r.Chance(30) {
			fv.Set(reflect.Zero(t))
			return
		}
		if g.r.Chance(15) {
			fv.Set(reflect.ValueOf(value.NewMapValue()))
			return
		}
		fv.Set(reflect.ValueOf(g.mapValue(0)))
		return
	case reflect.TypeOf((*value.IntMapValue)(nil)):
		if nullableMaps[owner] && g.r.Chance(40) {
			fv.Set(reflect.Zero(t))
			return
		}
		if g.r.Chance(15) {
			fv.Set(reflect.ValueOf(value.NewIntMapValue()))
			return
		}
		fv.Set(reflect.ValueOf(g.intMapValue(0)))
		return
	case reflect.TypeOf((*hmap.IntIntLinkedMap)(nil)):
		m, _ := fv.Interface().(*hmap.IntIntLinkedMap)
		if m == nil {
			m = hmap.NewIntIntLinkedMap()
			fv.Set(reflect.ValueOf(m))
		}
		for _, k := range g.intKeys(g.tableSize()) {
			m.Put(k, g.i32())
		}
		return
	case reflect.TypeOf((*hmap.StringIntLinkedMap)(nil)):
		m := hmap.NewStringIntLinkedMap()
		n := g.tableSize()
		if n > 12 {
			g.small++
			defer func() { g.small-- }()
		}
		for _, k := range g.keys(n, nil) {
			m.Put(k, g.i32())
		}
		fv.Set(reflect.ValueOf(m))
		return
	case reflect.TypeOf((*hmap.IntKeyMap)(nil)):
		// TimeCount maps of ServiceRec / TransactionRec
		switch g.r.Intn(5) {
		case 0:
			fv.Set(reflect.Zero(t))
		case 1:
			fv.Set(reflect.ValueOf(hmap.NewIntKeyMap(1, 1)))
		default:
			n := g.tableSize()
			m := hmap.NewIntKeyMap(n, 1)
			for _, k := range g.intKeys(n) {
				m.Put(k, pack.NewTimeCount(g.i32(), g.i32(), g.i64()))
			}
			fv.Set(reflect.ValueOf(m))
		}
		return
	}
	if t.Elem().Kind() == reflect.String {
		if g.r.Chance(25) {
			fv.Set(reflect.Zero(t))
			return
		}
		s := g.str()
		fv.Set(reflect.ValueOf(&s))
		return
	}
	if t.Elem().Kind() == reflect.Struct {
		// optional sections (NETSTAT, WEBSOCKET, TxMeter): nil vs present
		if g.r.Chance(40) {
			fv.Set(reflect.Zero(t))
			return
		}
		p := reflect.New(t.Elem())
		g.fillStruct(p.Elem())
		fv.Set(p)
	}
}

// ---------------------------------------------------------------- tables

var reservedAttr = map[string]bool{pack.ESCALATION_KEY: true, pack.UUID_KEY: true, pack.STATUS_KEY: true, pack.OTYPE_KEY: true}

func (g *G) eventAttr() *hmap.StringKeyLinkedMap {
	m := hmap.NewStringKeyLinkedMap()
	n := g.tableSize()
	if n > 250 {
		n = 250
	}
	if g.r.Chance(3) {
		n = 250
	}
	if n > 12 {
		g.small++
		defer func() { g.small-- }()
	}
	for _, k := range g.keys(n, reservedAttr) {
		m.Put(k, g.str())
	}
	return m
}

func (g *G) valueTable() *hmap.StringKeyLinkedMap {
	m := hmap.NewStringKeyLinkedMap()
	n := g.tableSize()
	if n > 12 {
		g.small++
		defer func() { g.small-- }()
	}
	for _, k := range g.keys(n, nil) {
		m.Put(k, g.value(0))
	}
	return m
}

func (g *G) anyList() ulist.AnyList {
	n := g.tableSize()
	switch g.r.Intn(5) {
	case 0:
		l := ulist.NewIntListDefault()
		for i := 0; i < n; i++ {
			l.AddInt(int(g.i64()))
		}
		return l
	case 1:
		l := ulist.NewLongListDefault()
		for i := 0; i < n; i++ {
			l.AddLong(g.i64())
		}
		return l
	case 2:
		l := ulist.NewFloatListDefault()
		for i := 0; i < n; i++ {
			l.AddFloat(g.f32())
		}
		return l
	case 3:
		l := ulist.NewDoubleListDefault()
		for i := 0; i < n; i++ {
			l.AddDouble(g.f64())
		}
		return l
	default:
		l := ulist.NewStringListDefault()
		g.small++
		for i := 0; i < n; i++ {
			l.AddString(g.str())
		}
		g.small--
		return l
	}
}

func (g *G) anyListTable() *hmap.StringKeyLinkedMap {
	m := hmap.NewStringKeyLinkedMap()
	n := g.tableSize()
	if n > 12 {
		g.small++
		defer func() { g.small-- }()
	}
	for _, k := range g.keys(n, nil) {
		m.Put(k, g.anyList())
	}
	return m
}

func (g *G) intKeyMeters(mk func() interface{}) *hmap.IntKeyLinkedMap {
	if g.r.Chance(35) {
		return nil
	}
	m := hmap.NewIntKeyLinkedMapDefault()
	for _, k := range g.intKeys(g.tableSize()) {
		m.Put(k, mk())
	}
	return m
}

func (g *G) linkedMeters(poid bool) *hmap.LinkedMap {
	if g.r.Chance(35) {
		return nil
	}
	m := hmap.NewLinkedMapDefault()
	n := g.tableSize()
	type k2 struct {
		p int64
		o int32
	}
	seen := map[k2]bool{}
	for m.Size() < n {
		k := k2{g.i64(), g.i32()}
		if seen[k] {
			continue
		}
		seen[k] = true
		tm := pack.NewTxMeter()
		g.fillStruct(reflect.ValueOf(tm).Elem())
		if poid {
			m.Put(lang.NewPOID(k.p, k.o), tm)
		} else {
			m.Put(lang.NewPKIND(k.p, k.o), tm)
		}
	}
	return m
}

func (g *G) txRecord() *service.TxRecord {
	t := service.NewTxRecord()
	g.fillStruct(reflect.ValueOf(t).Elem())
	if g.r.Chance(30) {
		t.Mtid = 0
	}
	if g.r.Chance(30) {
		t.McallerPcode = 0
	}
	return t
}

// ---------------------------------------------------------------- per-type generators

// fresh builds an object from its constructor and fills every field.
func (g *G) filled(obj interface{}) interface{} {
	g.fillStruct(reflect.ValueOf(obj).Elem())
	return obj
}

func (g *G) genCounterPack1() interface{} {
	p := g.filled(pack.NewCounterPack1()).(*pack.CounterPack1)
	// DB pool maps are one section on the wire (one flag for both)
	mk := func() *hmap.IntIntMap {
		m := hmap.NewIntIntMapDefault()
		for _, k := range g.intKeys(g.tableSize()) {
			m.Put(k, g.i32())
		}
		return m
	}
	switch g.r.Intn(10) {
	case 0, 1, 2, 3, 4:
		p.DbNumActive, p.DbNumIdle = nil, nil
	case 5:
		p.DbNumActive, p.DbNumIdle = mk(), nil
	default:
		p.DbNumActive, p.DbNumIdle = mk(), mk()
	}
	// thin out the optional sections so that single-section cases are common
	if g.r.Chance(50) {
		p.Netstat = nil
	}
	if g.r.Chance(50) {
		p.Websocket = nil
	}
	if g.r.Chance(50) {
		p.Extra = nil
	}
	if g.r.Chance(50) {
		p.TxcallerPOidMeter = nil
	}
	return p
}

func (g *G) genStatGeneral(t int16) interface{} {
	var p *pack.StatGeneralPack
	if t == pack.PACK_STAT_GENERAL {
		p = pack.CreatePack(t).(*pack.StatGeneralPack)
	} else {
		p = pack.NewStatGeneralPackType(t)
	}
	return g.filled(p)
}

func (g *G) cpuFor(os int16, allowOSX bool) pack.Cpu {
	if os == pack.OS_WINDOW {
		c := &pack.CpuWindow{}
		g.filled(c)
		return c
	}
	if os == pack.OS_OSX && allowOSX && g.r.Bool() {
		c := &pack.CpuOSX{}
		g.filled(c)
		return c
	}
	c := &pack.CpuLinux{}
	g.filled(c)
	return c
}

// genSMBase: OS in {LINUX,WINDOW,OSX,HPUX,AIX} (the ones Read dispatches on);
// Cpu/CpuCore/Memory of the layout that OS selects; CpuCore <= 255 (one-byte count).
func (g *G) genSMBase() interface{} {
	p := g.filled(pack.NewSMBasePack()).(*pack.SMBasePack)
	p.OS = int16(g.r.PickInt([]int{pack.OS_LINUX, pack.OS_WINDOW, pack.OS_OSX, pack.OS_HPUX, pack.OS_AIX}))
	p.Cpu = g.cpuFor(p.OS, true)
	n := g.r.PickInt([]int{0, 0, 1, 2, 4, 8, 64, 255})
	if n == 0 && g.r.Bool() {
		p.CpuCore = nil
	} else {
		p.CpuCore = make([]pack.Cpu, n)
		for i := range p.CpuCore {
			p.CpuCore[i] = g.cpuFor(p.OS, false)
		}
	}
	if p.OS == pack.OS_WINDOW {
		p.Memory = g.filled(&pack.MemoryWindow{}).(pack.Memory)
	} else {
		p.Memory = g.filled(&pack.MemoryLinux{}).(pack.Memory)
	}
	return p
}

func (g *G) genSMExtension() interface{} {
	return g.filled(pack.NewSMExtensionPack())
}

// registered pack type codes in CreatePack order
var registeredCodes = []int16{
	pack.PACK_PARAMETER, pack.PACK_COUNTER_1, pack.PACK_PROFILE, pack.PACK_ACTIVESTACK_1, pack.PACK_TEXT,
	pack.PACK_ERROR_SNAP_1, pack.PACK_REALTIME_USER, pack.PACK_STAT_SERVICE, pack.PACK_STAT_GENERAL,
	pack.PACK_STAT_SQL, pack.PACK_STAT_HTTPC, pack.PACK_STAT_ERROR, pack.PACK_STAT_REMOTE_IP,
	pack.PACK_STAT_USER_AGENT, pack.PACK_EVENT, pack.PACK_HITMAP_1, pack.PACK_EXTENSION, pack.TAG_COUNT,
	pack.TAG_LOG, pack.PACK_COMPOSITE, pack.PACK_LOGSINK, pack.PACK_ZIP, pack.PACK_LOGSINK_ZIP, pack.PACK_SERVERINFO,
}

// genRegistered builds a populated pack of a registered type, starting from
// pack.CreatePack(code) so that constructor defaults apply.
func (g *G) genRegistered(code int16, depth int) pack.Pack {
	switch code {
	case pack.PACK_COUNTER_1:
		return g.genCounterPack1().(pack.Pack)
	case pack.PACK_COMPOSITE:
		return g.genComposite(depth)
	case pack.PACK_ZIP:
		return g.genZip(depth)
	case pack.PACK_LOGSINK_ZIP:
		return g.genLogSinkZip()
	}
	p := pack.CreatePack(code)
	g.filled(p)
	return p
}

func (g *G) anyRegistered(depth int) pack.Pack {
	code := registeredCodes[g.r.Intn(len(registeredCodes))]
	if depth >= 3 && (code == pack.PACK_COMPOSITE || code == pack.PACK_ZIP) {
		code = pack.PACK_TEXT
	}
	g.small++
	defer func() { g.small-- }()
	return g.genRegistered(code, depth)
}

// genComposite: nested packs to depth <= 3.
func (g *G) genComposite(depth int) pack.Pack {
	p := pack.NewCompositePack()
	g.filled(p)
	n := g.r.PickInt([]int{0, 1, 1, 2, 3, 5})
	if depth == 0 && g.r.Chance(5) {
		n = 40
	}
	if depth >= 2 && n > 2 {
		n = 2
	}
	inner := make([]pack.Pack, 0, n)
	for i := 0; i < n; i++ {
		inner = append(inner, g.anyRegistered(depth+1))
	}
	if n == 0 && g.r.Bool() {
		inner = nil
	}
	setField(p, "pack", inner)
	return p
}

// genZip: a ZipPack whose Records hold nested packs (uncompressed status), or raw fields.
func (g *G) genZip(depth int) pack.Pack {
	p := pack.NewZipPack()
	g.filled(p)
	if g.r.Chance(70) {
		n := g.r.PickInt([]int{0, 1, 2, 3, 6})
		if depth >= 2 && n > 2 {
			n = 2
		}
		items := make([]pack.Pack, 0, n)
		for i := 0; i < n; i++ {
			items = append(items, g.anyRegistered(depth+1))
		}
		if oc := guard(func() { p.SetRecords(items) }); !oc.OK() {
			// an inner pack that cannot be encoded is reported where it is checked standalone
			p.Records, p.RecordCount = nil, 0
		}
		p.Status = 0
	}
	return p
}

func (g *G) genLogSinkZip() pack.Pack {
	p := pack.NewLogSinkZipPack()
	g.filled(p)
	return p
}

func (g *G) logSinkPack() *pack.LogSinkPack {
	return g.filled(pack.NewLogSinkPack()).(*pack.LogSinkPack)
}

// setField sets a (possibly unexported) struct field by name.
func setField(obj interface{}, name string, v interface{}) {
	f := access(reflect.ValueOf(obj).Elem().FieldByName(name))
	if v == nil {
		f.Set(reflect.Zero(f.Type()))
		return
	}
	rv := reflect.ValueOf(v)
	if rv.Kind() == reflect.Slice && rv.IsNil() {
		f.Set(reflect.Zero(f.Type()))
		return
	}
	f.Set(rv)
}

func getField(obj interface{}, name string) reflect.Value {
	return access(reflect.ValueOf(obj).Elem().FieldByName(name))
}

// ---------------------------------------------------------------- records

func (g *G) transactionRec() *pack.TransactionRec {
	return g.filled(pack.NewTransactionRec()).(*pack.TransactionRec)
}
func (g *G) serviceRec() *pack.ServiceRec { return g.filled(pack.NewServiceRec()).(*pack.ServiceRec) }
func (g *G) sqlRec() *pack.SqlRec         { return g.filled(pack.NewSqlRec()).(*pack.SqlRec) }
func (g *G) httpcRec() *pack.HttpcRec     { return g.filled(pack.NewHttpcRec()).(*pack.HttpcRec) }
func (g *G) errorRec() *pack.ErrorRec     { return g.filled(pack.NewErrorRec()).(*pack.ErrorRec) }
func (g *G) downCheckRec() *pack.DownCheckRec {
	return g.filled(&pack.DownCheckRec{}).(*pack.DownCheckRec)
}

func (g *G) recCount() int {
	switch {
	case g.r.Chance(15):
		return 0
	case g.r.Chance(25):
		return 1
	case g.r.Chance(4):
		return 300
	default:
		return 2 + g.r.Intn(12)
	}
}

// sliceEnum adapts a slice to hmap.Enumeration (SetRecords(size, items)).
type sliceEnum struct {
	xs []interface{}
	i  int
}

func (e *sliceEnum) HasMoreElements() bool { return e.i < len(e.xs) }
func (e *sliceEnum) NextElement() interface{} {
	x := e.xs[e.i]
	e.i++
	return x
}

func toList(xs []interface{}) *list.List {
	l := list.New()
	for _, x := range xs {
		l.PushBack(x)
	}
	return l
}

func fromList(l *list.List) []interface{} {
	if l == nil {
		return nil
	}
	var out []interface{}
	for e := l.Front(); e != nil; e = e.Next() {
		out = append(out, e.Value)
	}
	return out
}
