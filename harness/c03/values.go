package main

// Scalar pools and the value.Value generator (all 20 value types, nested to depth <= 3).

import (
	"math"
	"strconv"

	"github.com/whatap/golib/lang/value"
	"verif/harness/vh"
)

// G is the generator state: every random choice derives from r.
type G struct {
	r        *vh.Rng
	thorough bool
	small    int // >0: inside a big container, keep leaves short
}

var bounds = vh.SignedBoundaries()

// boundsFor caches the signed boundaries that fit [lo,hi].
var boundsCache = map[[2]int64][]int64{}

func boundsIn(lo, hi int64) []int64 {
	k := [2]int64{lo, hi}
	if b, ok := boundsCache[k]; ok {
		return b
	}
	var out []int64
	for _, v := range bounds {
		if v >= lo && v <= hi {
			out = append(out, v)
		}
	}
	out = append(out, lo, hi)
	boundsCache[k] = out
	return out
}

func rangeBits(bits int, signed bool) (int64, int64) {
	if signed {
		if bits == 64 {
			return math.MinInt64, math.MaxInt64
		}
		hi := int64(1)<<(uint(bits)-1) - 1
		return -hi - 1, hi
	}
	if bits >= 63 {
		return 0, math.MaxInt64
	}
	return 0, int64(1)<<uint(bits) - 1
}

// intIn: half boundaries (clamped to the range), else small magnitudes / uniform.
func (g *G) intIn(lo, hi int64) int64 {
	switch {
	case g.r.Chance(45):
		return g.r.Pick64(boundsIn(lo, hi))
	case g.r.Chance(40):
		// small magnitude of a random byte width
		k := uint(g.r.Intn(8)) + 1
		l, h := rangeBits(int(8*k), true)
		if l < lo {
			l = lo
		}
		if h > hi {
			h = hi
		}
		if l > h {
			return lo
		}
		return g.r.Range(l, h)
	default:
		return g.r.Range(lo, hi)
	}
}

func (g *G) i64() int64 { return g.intIn(math.MinInt64, math.MaxInt64) }
func (g *G) i32() int32 { return int32(g.intIn(math.MinInt32, math.MaxInt32)) }
func (g *G) i16() int16 { return int16(g.intIn(math.MinInt16, math.MaxInt16)) }
func (g *G) u8() byte   { return byte(g.intIn(0, 255)) }

var f32Pool = []uint32{0, 0x80000000, 0x7f800000, 0xff800000, 0x7fc00000, 0x7fc00001, 0xffc12345, 0x7f800001, 1, 0x007fffff, 0x00800000, 0x3f800000, 0xbf800000, 0x7f7fffff, 0xffffffff}
var f64Pool = []uint64{0, 0x8000000000000000, 0x7ff0000000000000, 0xfff0000000000000, 0x7ff8000000000000, 0x7ff8000000000001, 0xfff8123456789abc, 0x7ff0000000000001, 1, 0x000fffffffffffff, 0x0010000000000000, 0x3ff0000000000000, 0xbff0000000000000, 0x7fefffffffffffff, 0xffffffffffffffff}

func (g *G) f32bits() uint32 {
	if g.r.Chance(45) {
		return f32Pool[g.r.Intn(len(f32Pool))]
	}
	return uint32(g.r.U64())
}
func (g *G) f64bits() uint64 {
	if g.r.Chance(45) {
		return f64Pool[g.r.Intn(len(f64Pool))]
	}
	return g.r.U64()
}
func (g *G) f32() float32 { return math.Float32frombits(g.f32bits()) }
func (g *G) f64() float64 { return math.Float64frombits(g.f64bits()) }

var strLens = []int{0, 1, 253, 254, 255, 256, 300}
var strLensBig = []int{65535, 65536, 70000}

func (g *G) strLen() int {
	if g.small > 0 {
		if g.r.Chance(4) {
			return g.r.PickInt(strLens)
		}
		return g.r.Intn(9)
	}
	switch {
	case g.r.Chance(30):
		return g.r.PickInt(strLens)
	case g.r.Chance(1):
		return g.r.PickInt(strLensBig)
	default:
		return g.r.Intn(24)
	}
}

// bytes: arbitrary bytes (invalid UTF-8 included), sometimes printable.
func (g *G) bytesN(n int) []byte {
	b := g.r.Bytes(n)
	if g.r.Chance(40) {
		for i := range b {
			b[i] = 'a' + b[i]%26
		}
	}
	return b
}
func (g *G) str() string {
	if g.r.Chance(specialPct) { // content that looks like an address / a number / odd text (special.go)
		return string(g.specialBytes())
	}
	return string(g.bytesN(g.strLen()))
}

// blob: nil, empty or populated.
func (g *G) blob() []byte {
	switch g.r.Intn(8) {
	case 0:
		return nil
	case 1:
		return []byte{}
	}
	if g.r.Chance(specialPct) {
		return g.specialBytes()
	}
	return g.bytesN(g.strLen())
}

// size of a table / list: 0,1,2,~10, occasionally 130 and 300.
func (g *G) tableSize() int {
	if g.small > 0 {
		return g.r.Intn(4)
	}
	switch {
	case g.r.Chance(20):
		return 0
	case g.r.Chance(25):
		return 1
	case g.r.Chance(25):
		return 2
	case g.r.Chance(4):
		return 130
	case g.r.Chance(3):
		return 300
	default:
		return 3 + g.r.Intn(10)
	}
}

// keys returns n distinct string keys (the linked maps dedup on Put).
func (g *G) keys(n int, reserved map[string]bool) []string {
	seen := map[string]bool{}
	out := make([]string, 0, n)
	for len(out) < n {
		var k string
		switch {
		case g.r.Chance(3):
			k = string(g.bytesN(g.r.PickInt([]int{254, 255, 256})))
		case g.r.Chance(50):
			k = string(g.bytesN(1 + g.r.Intn(8)))
		default:
			k = "k" + strconv.Itoa(g.r.Intn(100000))
		}
		if len(out) == 0 && g.r.Chance(5) {
			k = ""
		}
		if seen[k] || reserved[k] {
			continue
		}
		seen[k] = true
		out = append(out, k)
	}
	return out
}

// intKeys returns n distinct int32 keys.
func (g *G) intKeys(n int) []int32 {
	seen := map[int32]bool{}
	out := make([]int32, 0, n)
	for len(out) < n {
		k := g.i32()
		if seen[k] {
			continue
		}
		seen[k] = true
		out = append(out, k)
	}
	return out
}

func (g *G) arrLen() int {
	if g.small > 0 {
		return g.r.Intn(4)
	}
	switch {
	case g.r.Chance(25):
		return g.r.PickInt([]int{0, 1, 2, 255, 256})
	case g.thorough && g.r.Chance(1) && g.r.Chance(10):
		return 32767
	default:
		return g.r.Intn(12)
	}
}

const nValueKinds = 20

// value generates one of the 20 value types; containers nest to depth <= 3.
func (g *G) value(depth int) value.Value {
	k := g.r.Intn(nValueKinds)
	if depth >= 3 && (k == 13 || k >= 18) {
		k = g.r.Intn(13)
	}
	return g.valueKind(k, depth)
}

func (g *G) valueKind(k, depth int) value.Value {
	switch k {
	case 0:
		return value.NewNullValue()
	case 1:
		return value.NewBoolValue(g.r.Bool())
	case 2:
		return value.NewDecimalValue(g.i64())
	case 3:
		return value.NewIntValue(g.i32())
	case 4:
		return value.NewLongValue(g.i64())
	case 5:
		return value.NewFloatValue(g.f32())
	case 6:
		return value.NewDoubleValue(g.f64())
	case 7:
		d := value.NewDoubleSummary()
		d.Sum, d.Count, d.Min, d.Max = g.f64(), g.i32(), g.f64(), g.f64()
		return d
	case 8:
		l := value.NewLongSummary()
		l.Sum, l.Count, l.Min, l.Max = g.i64(), g.i32(), g.i64(), g.i64()
		return l
	case 9:
		return value.NewTextValue(g.str())
	case 10:
		return value.NewTextHashValue(g.i32())
	case 11:
		return value.NewBlobValue(g.blob())
	case 12:
		return value.NewIP4Value(g.r.Bytes(4))
	case 13:
		n := g.tableSize()
		if depth > 0 && n > 12 {
			n = 3
		}
		lv := value.NewListValue(nil)
		g.small++
		for i := 0; i < n; i++ {
			lv.Add(g.value(depth + 1))
		}
		g.small--
		return lv
	case 14:
		n := g.arrLen()
		a := make([]int32, n)
		for i := range a {
			a[i] = g.i32()
		}
		if n == 0 && g.r.Bool() {
			a = nil
		}
		return value.NewIntArray(a)
	case 15:
		n := g.arrLen()
		a := make([]float32, n)
		for i := range a {
			a[i] = g.f32()
		}
		if n == 0 && g.r.Bool() {
			a = nil
		}
		return value.NewFloatArray(a)
	case 16:
		n := g.arrLen()
		if n > 300 {
			n = 300
		}
		a := make([]string, n)
		g.small++
		for i := range a {
			a[i] = g.str()
		}
		g.small--
		if n == 0 && g.r.Bool() {
			a = nil
		}
		return value.NewTextArray(a)
	case 17:
		n := g.arrLen()
		a := make([]int64, n)
		for i := range a {
			a[i] = g.i64()
		}
		if n == 0 && g.r.Bool() {
			a = nil
		}
		return value.NewLongArray(a)
	case 18:
		return g.mapValue(depth)
	default:
		return g.intMapValue(depth)
	}
}

func (g *G) mapValue(depth int) *value.MapValue {
	m := value.NewMapValue()
	n := g.tableSize()
	if depth > 0 && n > 12 {
		n = 3
	}
	if n > 12 {
		g.small++
		defer func() { g.small-- }()
	}
	for _, k := range g.keys(n, nil) {
		m.Put(k, g.value(depth+1))
	}
	return m
}

func (g *G) intMapValue(depth int) *value.IntMapValue {
	m := value.NewIntMapValue()
	n := g.tableSize()
	if depth > 0 && n > 12 {
		n = 3
	}
	if n > 12 {
		g.small++
		defer func() { g.small-- }()
	}
	for _, k := range g.intKeys(n) {
		m.Put(k, g.value(depth+1))
	}
	return m
}
