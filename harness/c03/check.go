package main

// The round-trip check, the CARRIED projection and failure classification.

import (
	"bytes"
	"fmt"
	"reflect"
	"strings"
	"sync"

	gio "github.com/whatap/golib/io"
	"github.com/whatap/golib/lang"
	"github.com/whatap/golib/lang/pack"
	"github.com/whatap/golib/lang/service"
	"github.com/whatap/golib/lang/value"
	"github.com/whatap/golib/util/hmap"
	"verif/harness/vh"
)

func guard(f func()) vh.Outcome { return vh.Guard(f) }

// ---------------------------------------------------------------- type specs

const (
	clsRegistered   = iota // created by pack.CreatePack: decoded with pack.ReadPack
	clsUnregistered        // own Write/Read pair, type tag checked by hand
	clsElement             // element struct / record with its own Write/Read pair
)

type spec struct {
	name  string
	class int
	code  int16
	gen   func(g *G) interface{}
	fresh func() interface{}                        // unregistered / element: zero object to Read into
	encEl func(o interface{}, out *gio.DataOutputX) // element: its Write
	decEl func(in *gio.DataInputX) interface{}      // element: its Read (fresh object inside)
	drop  []string                                  // extra fields not carried (TransactionRec by version)
	// unordered: the type holds an unordered hash map (IntKeyMap / IntIntMap) whose
	// iteration order is not part of the value: a re-encoding may permute its rows
	unordered bool
	n         int // relative number of cases (100 = base)
}

func (sp *spec) encode(o interface{}) []byte {
	if sp.class == clsElement {
		out := gio.NewDataOutputX()
		sp.encEl(o, out)
		return out.ToByteArray()
	}
	return pack.ToBytesPack(o.(pack.Pack))
}

// decode returns the decoded object and the number of unread bytes.
func (sp *spec) decode(b []byte) (interface{}, int) {
	in := gio.NewDataInputX(b)
	switch sp.class {
	case clsRegistered:
		q := pack.ReadPack(in)
		return q, int(in.Available())
	case clsUnregistered:
		t := in.ReadShort()
		if t != sp.code {
			panic(fmt.Sprintf("type tag %d, want %d", t, sp.code))
		}
		q := sp.fresh().(pack.Pack)
		q.Read(in)
		return q, int(in.Available())
	default:
		q := sp.decEl(in)
		return q, int(in.Available())
	}
}

type rw interface {
	Write(*gio.DataOutputX)
	Read(*gio.DataInputX)
}

func elem(name string, mk func() interface{}) *spec {
	return &spec{name: name, class: clsElement, n: 100,
		gen:   func(g *G) interface{} { return g.filled(mk()) },
		encEl: func(o interface{}, out *gio.DataOutputX) { o.(rw).Write(out) },
		decEl: func(in *gio.DataInputX) interface{} { q := mk(); q.(rw).Read(in); return q }}
}

func unreg(name string, code int16, mk func() interface{}) *spec {
	return &spec{name: name, class: clsUnregistered, code: code, n: 100, fresh: mk,
		gen: func(g *G) interface{} { return g.filled(mk()) }}
}

var specs []*spec
var specByName = map[string]*spec{}
var specByType = map[reflect.Type]*spec{}

// unpackAll calls GetDataTable() on every StatGeneralPack in o (the table is
// observable only through it: Read keeps the encoded bytes); reports whether any was found.
func hasStatGeneral(o interface{}) bool {
	switch x := o.(type) {
	case *pack.StatGeneralPack:
		return true
	case *pack.CompositePack:
		for _, in := range innerPacks(x) {
			if hasStatGeneral(in) {
				return true
			}
		}
	}
	return false
}

func unpackAll(o interface{}) bool {
	switch x := o.(type) {
	case *pack.StatGeneralPack:
		x.GetDataTable()
		return true
	case *pack.CompositePack:
		found := false
		for _, in := range innerPacks(x) {
			if unpackAll(in) {
				found = true
			}
		}
		return found
	}
	return false
}

func buildSpecs() {
	add := func(sp *spec) { specs = append(specs, sp); specByName[sp.name] = sp }
	for _, code := range registeredCodes {
		code := code
		p := pack.CreatePack(code)
		name := reflect.TypeOf(p).Elem().Name()
		sp := &spec{name: name, class: clsRegistered, code: code, n: 100,
			gen: func(g *G) interface{} { return g.genRegistered(code, 0) }}
		switch code {
		case pack.PACK_COUNTER_1, pack.PACK_COMPOSITE, pack.PACK_ZIP:
			sp.n = 60
			sp.unordered = true // CounterPack1.DbNumActive/DbNumIdle are IntIntMap (also when nested)
		}
		specByType[reflect.TypeOf(p)] = sp
		add(sp)
	}
	// StatTransactionPack shares PACK_STAT_SERVICE with StatServicePack (ToPack yields a
	// *StatServicePack), SMExtension shares PACK_EXTENSION: their own Read is used.
	add(unreg("StatTransactionPack", pack.PACK_STAT_SERVICE, func() interface{} { return pack.NewStatTransactionPack() }))
	add(unreg("StatTransactionPack1", pack.PACK_STAT_SERVICE_1, func() interface{} { return pack.NewStatTransactionPack1() }))
	add(unreg("ProfileStepSplitPack", pack.PACK_PROFILE_STEP_SPLIT, func() interface{} { return pack.NewProfileStepSplitPack() }))
	sg := unreg("StatGeneralPack/1", pack.PACK_STAT_GENERAL_1, func() interface{} { return pack.NewStatGeneralPackType(pack.PACK_STAT_GENERAL_1) })
	sg.gen = func(g *G) interface{} { return g.genStatGeneral(pack.PACK_STAT_GENERAL_1) }
	add(sg)
	smb := unreg("SMBasePack", pack.PACK_SM_BASE, func() interface{} { return pack.NewSMBasePack() })
	smb.gen = func(g *G) interface{} { return g.genSMBase() }
	add(smb)
	add(unreg("SMDiskPerfPack", pack.PACK_SM_DISK_QUATA, func() interface{} { return pack.NewSMDiskPerfPack() }))
	add(unreg("SMNetPerfPack", pack.PACK_SM_NET_PERF, func() interface{} { return pack.NewSMNetPerfPack() }))
	add(unreg("SMProcPerfPack", pack.PACK_SM_PROC_PERF, func() interface{} { return pack.NewSMProcPerfPack() }))
	add(unreg("SMTCPPerfPack", pack.PACK_SM_PORT_PERF, func() interface{} { return pack.NewSMTCPPerfPack() }))
	add(unreg("SMLogEventPack", pack.PACK_SM_LOG_EVENT, func() interface{} { return pack.NewSMLogEventPack() }))
	add(unreg("SMPingPack", pack.PACK_SM_PING, func() interface{} { return pack.NewSMPingPack() }))
	add(unreg("SMDownCheckPack", pack.PACK_SM_DOWN_CHECK, func() interface{} { return pack.NewSMDownCheckPack() }))
	add(unreg("SMExtension", pack.PACK_SM_EXTENSION, func() interface{} { return pack.NewSMExtensionPack() }))

	// element structs with their own Write/Read pair
	add(elem("CpuLinux", func() interface{} { return &pack.CpuLinux{} }))
	add(elem("CpuWindow", func() interface{} { return &pack.CpuWindow{} }))
	add(elem("CpuOSX", func() interface{} { return &pack.CpuOSX{} }))
	add(elem("MemoryLinux", func() interface{} { return &pack.MemoryLinux{} }))
	add(elem("MemoryWindow", func() interface{} { return &pack.MemoryWindow{} }))
	add(elem("DiskPerf", func() interface{} { return &pack.DiskPerf{} }))
	add(elem("NetPerf", func() interface{} { return &pack.NetPerf{} }))
	add(elem("ProcNetPerf", func() interface{} { return &pack.ProcNetPerf{} }))
	add(elem("ProcFilePerf", func() interface{} { return &pack.ProcFilePerf{} }))
	add(elem("ProcPerf", func() interface{} { return &pack.ProcPerf{} }))
	add(elem("TCPPortPerf", func() interface{} { return &pack.TCPPortPerf{} }))
	add(elem("SMLogEvent", func() interface{} { return &pack.SMLogEvent{} }))
	add(&spec{name: "TimeCount", class: clsElement, n: 100,
		gen:   func(g *G) interface{} { return g.filled(pack.NewTimeCountDefault()) },
		encEl: func(o interface{}, out *gio.DataOutputX) { o.(*pack.TimeCount).Write(out) },
		decEl: func(in *gio.DataInputX) interface{} { return pack.NewTimeCountDefault().Read(in) }})
	add(&spec{name: "SqlRec", class: clsElement, n: 100,
		gen:   func(g *G) interface{} { return g.sqlRec() },
		encEl: func(o interface{}, out *gio.DataOutputX) { o.(*pack.SqlRec).Write(out) },
		decEl: func(in *gio.DataInputX) interface{} { return pack.NewSqlRec().Read(in) }})
	add(&spec{name: "HttpcRec", class: clsElement, n: 100,
		gen:   func(g *G) interface{} { return g.httpcRec() },
		encEl: func(o interface{}, out *gio.DataOutputX) { o.(*pack.HttpcRec).Write(out) },
		decEl: func(in *gio.DataInputX) interface{} { return pack.NewHttpcRec().Read(in) }})
	add(&spec{name: "TxRecord", class: clsElement, n: 100,
		gen:   func(g *G) interface{} { return g.txRecord() },
		encEl: func(o interface{}, out *gio.DataOutputX) { o.(interface{ Write(*gio.DataOutputX) }).Write(out) },
		decEl: func(in *gio.DataInputX) interface{} { return service.NewTxRecord().Read(in) }})
	// records with a WriteRec/ReadRec pair on their pack
	add(&spec{name: "ServiceRec", class: clsElement, n: 100, unordered: true,
		gen: func(g *G) interface{} { return g.serviceRec() },
		encEl: func(o interface{}, out *gio.DataOutputX) {
			pack.NewStatServicePack().WriteRec(out, o.(*pack.ServiceRec))
		},
		decEl: func(in *gio.DataInputX) interface{} { return pack.ReadRec(in) }})
	add(&spec{name: "ErrorRec", class: clsElement, n: 100,
		gen:   func(g *G) interface{} { return g.errorRec() },
		encEl: func(o interface{}, out *gio.DataOutputX) { pack.NewStatErrorPack().WriteRec(out, o.(*pack.ErrorRec)) },
		decEl: func(in *gio.DataInputX) interface{} { return pack.NewStatErrorPack().ReadRec(in) }})
	add(&spec{name: "DownCheckRec", class: clsElement, n: 100,
		gen: func(g *G) interface{} { return g.downCheckRec() },
		encEl: func(o interface{}, out *gio.DataOutputX) {
			pack.NewSMDownCheckPack().WriteRec(out, o.(*pack.DownCheckRec))
		},
		decEl: func(in *gio.DataInputX) interface{} { return pack.NewSMDownCheckPack().ReadRec(in) }})
	for _, v := range []byte{2, 3, 4} {
		v := v
		add(&spec{name: fmt.Sprintf("TransactionRec/v%d", v), class: clsElement, n: 100, drop: transactionRecDrop(v), unordered: true,
			gen:   func(g *G) interface{} { return g.transactionRec() },
			encEl: func(o interface{}, out *gio.DataOutputX) { pack.WriteTransactionRec(out, o.(*pack.TransactionRec), v) },
			decEl: func(in *gio.DataInputX) interface{} { return pack.ReadTransactionRec(in) }})
	}
}

// transactionRecDrop: fields beyond the record version are not on the wire.
func transactionRecDrop(v byte) []string {
	switch {
	case v <= 2:
		return []string{"ApdexSatisfied", "ApdexTolerated", "TimeMin", "TimeStd"}
	case v == 3:
		return []string{"TimeMin", "TimeStd"}
	}
	return nil
}

// ---------------------------------------------------------------- carried projection

// notCarried: fields the Write method never puts on the wire, keyed by
// "<struct>.<field>" (promoted fields are owned by the outer struct).
var notCarried = map[string]string{
	"ServerInfoPack.Pcode": "ServerInfoPack.Write does not call AbstractPack.Write: the common header is not on the wire",
	"ServerInfoPack.Oid":   "see ServerInfoPack.Pcode",
	"ServerInfoPack.Okind": "see ServerInfoPack.Pcode",
	"ServerInfoPack.Onode": "see ServerInfoPack.Pcode",
	"ServerInfoPack.Time":  "see ServerInfoPack.Pcode",
	"ServerInfoPack.Host":  "never written",

	"DiskPerf.Count": "writer emits the constant 1",
	"NetPerf.Count":  "writer emits the constant 1",

	"CounterPack1.CollectIntervalMs": "transient: no read, no write",
	"CounterPack1.ActiveStatKeys":    "constant key names, never written",
	"SqlMeter.Acts":                  "TxMeter.Acts is written only for the POid meter",
	"HttpcMeter.Acts":                "TxMeter.Acts is written only for the POid meter",

	"EventPack.Eid": "never written",

	"StatTransactionPack.Version":  "version byte lives inside each record, not on the pack's wire",
	"StatTransactionPack1.Version": "version byte lives inside each record, not on the pack's wire",
	"TransactionRec.Profiled":      "never written (its slot became the version byte)",

	"StatGeneralPack.dataBytes":     "cache of the encoded table: compared through GetDataTable()",
	"StatGeneralPack.dataBytesSize": "cache of the encoded table: compared through GetDataTable()",
}

// nilEqEmpty: optional sections written only when non-nil AND non-empty (or whose
// count 0 is the absence marker): nil and empty are the same wire value.
var nilEqEmpty = map[string]string{
	"LogSinkPack.Fields":             "flag true only if Fields != nil && Size() > 0",
	"SMBasePack.Extra":               "flag 1 only if Extra != nil && Size() > 0",
	"TxRecord.Fields":                "count byte 0 for nil and for empty",
	"CounterPack1.TxcallerPOidMeter": "decimal count 0 for nil and for empty (no separate presence byte)",
	"ServiceRec.SqlMap":              "count 0 for nil and for empty",
	"ServiceRec.HttpcMap":            "count 0 for nil and for empty",
	"TransactionRec.SqlMap":          "count 0 for nil and for empty",
	"TransactionRec.HttpcMap":        "count 0 for nil and for empty",
}

type carryOpt struct {
	orig bool     // apply writer-side expectations (tag hash)
	drop []string // extra top-level fields not carried
}

func hasPathPrefix(path, prefix string) bool {
	return path == prefix || (strings.HasPrefix(path, prefix) && strings.ContainsRune(".[?#!", rune(path[len(prefix)])))
}

// carried projects a dump onto the fields the wire format carries and canonicalises it.
func carried(kvs []KV, opt carryOpt) []KV {
	vals := make(map[string]string, len(kvs))
	for _, kv := range kvs {
		vals[kv.Path] = kv.Val
	}
	dropPrefix := []string{}
	forceAbsent := map[string]bool{} // "F" whose F? becomes 0 and whose content is dropped
	for _, kv := range kvs {
		base := kv.Path[:len(kv.Path)-len(lastName(kv.Path))]
		switch kv.owner {
		case "TxRecord.Mtid":
			if kv.Val == "i:0" { // Mdepth/Mcaller written only when Mtid != 0
				dropPrefix = append(dropPrefix, base+"Mdepth", base+"Mcaller")
			}
		case "TxRecord.McallerPcode":
			if kv.Val == "i:0" { // caller block written only when McallerPcode != 0
				for _, f := range []string{"McallerOkind", "McallerOid", "McallerSpec", "McallerUrl", "MthisSpec"} {
					dropPrefix = append(dropPrefix, base+f)
				}
			}
		case "StatGeneralPack.packType":
			if kv.Val == fmt.Sprintf("i:%d", pack.PACK_STAT_GENERAL) { // trailer only for PACK_STAT_GENERAL_1
				dropPrefix = append(dropPrefix, base+"DataStartTime")
			}
		case "CounterPack1.DbNumActive", "CounterPack1.DbNumIdle":
			// one presence flag for the pair: written only if both are non-nil
			if strings.HasSuffix(kv.Path, "?") && kv.Val == "i:0" {
				forceAbsent[base+"DbNumActive"] = true
				forceAbsent[base+"DbNumIdle"] = true
			}
		case "TxMeter.Acts":
			// written only inside the POid meter
			if !strings.Contains(kv.Path, "TxcallerPOidMeter[") {
				dropPrefix = append(dropPrefix, kv.Path)
			}
		}
		if _, ok := nilEqEmpty[kv.owner]; ok {
			if strings.HasSuffix(kv.Path, "#") && kv.Val == "i:0" {
				forceAbsent[strings.TrimSuffix(kv.Path, "#")] = true
			}
			if kv.Val == "v:map,0" || kv.Val == "v:imap,0" {
				forceAbsent[kv.Path] = true
			}
		}
	}
	for _, f := range opt.drop {
		dropPrefix = append(dropPrefix, f)
	}
	out := make([]KV, 0, len(kvs))
next:
	for _, kv := range kvs {
		if _, ok := notCarried[kv.owner]; ok {
			continue
		}
		for _, p := range dropPrefix {
			if hasPathPrefix(kv.Path, p) {
				continue next
			}
		}
		for f := range forceAbsent {
			if hasPathPrefix(kv.Path, f) {
				if kv.Path == f+"?" {
					kv.Val = "i:0"
					out = append(out, kv)
				}
				continue next
			}
		}
		if opt.orig && kv.exp != "" {
			kv.Val = kv.exp
		}
		// TxRecord: the decoder's deliberate defaulting of a zero error level to WARNING(20) when an
		// error id is present is part of the expected result (property C08's text): the carried value
		// of ErrorLevel 0 with Error != 0 is 20
		if opt.orig && kv.owner == "TxRecord.ErrorLevel" && kv.Val == "i:0" {
			base := kv.Path[:len(kv.Path)-len(lastName(kv.Path))]
			if e, ok := vals[base+"Error"]; ok && e != "i:0" {
				kv.Val = "i:20"
			}
		}
		// CpuOSX and CpuLinux share one layout; the decoder picks the type from OS
		if kv.owner == "SMBasePack.Cpu" && strings.HasSuffix(kv.Path, "!") && kv.Val == "i:3" {
			kv.Val = "i:1"
		}
		out = append(out, kv)
	}
	return out
}

func lastName(path string) string {
	i := strings.LastIndexByte(path, '.')
	return path[i+1:]
}

type diff struct {
	path      string
	want, got string
	missing   bool
}

func firstDiff(a, b []KV) *diff {
	for i := 0; i < len(a) || i < len(b); i++ {
		switch {
		case i >= len(b):
			return &diff{path: a[i].Path, want: a[i].Val, got: "<absent>", missing: true}
		case i >= len(a):
			return &diff{path: b[i].Path, want: "<absent>", got: b[i].Val}
		case a[i].Path != b[i].Path:
			return &diff{path: a[i].Path, want: a[i].Val, got: "<absent; found " + b[i].Path + ">", missing: true}
		case a[i].Val != b[i].Val:
			return &diff{path: a[i].Path, want: a[i].Val, got: b[i].Val}
		}
	}
	return nil
}

func (d *diff) class() string {
	if d.missing || isZeroVal(d.got) {
		return "not-restored"
	}
	return "differs"
}

func (d *diff) String() string {
	return fmt.Sprintf("%s: wrote %s, read %s", d.path, vh.Clip(d.want, 200), vh.Clip(d.got, 200))
}

// ---------------------------------------------------------------- cases and failures

type failure struct {
	key, summary string
	replay       map[string]interface{}
}

// Case is one generated object with everything the driver comparison needs.
type Case struct {
	Type  string
	Pre   []KV   // dump before writing
	Bytes []byte // type-tagged encoding (elements: their own Write)
	Post  []KV   // dump of the decoded object

	obj        interface{}
	sp         *spec
	fails      []failure
	nontrivial bool
	buckets    []string
	canon      string
	extra      int // additional evaluations performed for this case (containers)
}

// CarriedPre is the pre-write dump projected onto the carried fields, with the
// writer-side expectations applied (a zero tag hash replaced by Hash64(encoded tags)).
func (c *Case) CarriedPre() []KV {
	var drop []string
	if c.sp != nil {
		drop = c.sp.drop
	}
	return carried(c.Pre, carryOpt{orig: true, drop: drop})
}

// CarriedPost is the post-read dump projected onto the carried fields.
func (c *Case) CarriedPost() []KV {
	var drop []string
	if c.sp != nil {
		drop = c.sp.drop
	}
	return carried(c.Post, carryOpt{drop: drop})
}

func (c *Case) fail(key, summary string, got string) {
	c.fails = append(c.fails, failure{key, summary, map[string]interface{}{
		"type": c.Type, "fields": vh.Clip(DumpString(c.Pre), 20000), "bytes": vh.Clip(vh.Hex(c.Bytes), 20000), "got": got}})
}

func hasOpt(pre []KV, path string) bool {
	for _, kv := range pre {
		if kv.Path == path {
			return kv.Val != "i:0"
		}
	}
	return false
}

// desyncKey: sections of CounterPack1 that a deterministic probe showed to
// desynchronise the reader (everything after them is read from the wrong offset).
func desyncKey(typ string, pre []KV) string {
	if typ != "CounterPack1" {
		return ""
	}
	// wire order: DB pool, Extra, POid meter
	if hasOpt(pre, "DbNumActive?") && hasOpt(pre, "DbNumIdle?") && probeDbNumDropped() {
		return "CounterPack1.Read:DbNum-dropped"
	}
	if hasOpt(pre, "Extra?") && probeExtraTagBroken() {
		return "CounterPack1.Extra:tag-not-consumed"
	}
	if hasOpt(pre, "TxcallerPOidMeter#") && probeActsNotWritten() {
		return "CounterPack1.TxcallerPOidMeter:acts-not-written"
	}
	return ""
}

// key builds the stable failure key "<Type>.<field or aspect>:<class>".
func failKey(typ, field, class string, pre []KV) string {
	if typ == "CounterPack1" {
		if class == "not-restored" {
			switch field {
			case "DbNumActive", "DbNumIdle":
				return "CounterPack1.Read:DbNum-dropped"
			case "Netstat":
				return "CounterPack1.Read:Netstat-dropped"
			case "Websocket":
				return "CounterPack1.Read:Websocket-dropped"
			}
		}
		if hasOpt(pre, "TxcallerPOidMeter#") && probeActsLengthBroken() {
			return "CounterPack1.TxcallerPOidMeter:acts-length"
		}
	}
	if field == "" {
		return typ + ":" + class
	}
	switch field {
	case "Pcode", "Oid", "Okind", "Onode", "Time":
		// the common header is one piece of code shared by every pack: one key, not one per type
		if sp := specByName[typ]; sp != nil && sp.class != clsElement {
			return "AbstractPack." + field + ":" + class
		}
	}
	return typ + "." + field + ":" + class
}

var probeOnce sync.Once
var probeActs, probeExtra, probeActsLen, probeDbNum bool

func runProbes() {
	probeOnce.Do(func() {
		// POid meter: does the writer emit TxMeter.Acts?
		enc := func(acts []int16) []byte {
			p := pack.NewCounterPack1()
			p.TxcallerPOidMeter = hmap.NewLinkedMapDefault()
			p.TxcallerPOidMeter.Put(lang.NewPOID(1, 1), &pack.TxMeter{Time: 1, Count: 1, Acts: acts})
			var b []byte
			guard(func() { b = pack.ToBytesPack(p) })
			return b
		}
		probeActs = bytes.Equal(enc(nil), enc([]int16{7}))
		// Extra: does Read consume the value tag that WriteValue emits?
		p := pack.NewCounterPack1()
		p.Extra = value.NewIntMapValue()
		p.Extra.Put(1, value.NewDecimalValue(5))
		ok := false
		guard(func() {
			q := pack.ToPack(pack.ToBytesPack(p)).(*pack.CounterPack1)
			ok = q.Extra != nil && ValString(q.Extra) == "v:imap,1,1,dec,5"
		})
		probeExtra = !ok
		// DB pool section: restored?
		ok = false
		guard(func() {
			p := pack.NewCounterPack1()
			p.DbNumActive, p.DbNumIdle = hmap.NewIntIntMapDefault(), hmap.NewIntIntMapDefault()
			p.DbNumActive.Put(1, 2)
			p.DbNumIdle.Put(3, 4)
			q := pack.ToPack(pack.ToBytesPack(p)).(*pack.CounterPack1)
			ok = q.DbNumActive != nil && q.DbNumIdle != nil && q.DbNumActive.Get(1) == 2 && q.DbNumIdle.Get(3) == 4
		})
		probeDbNum = !ok
		// POid meter: is Acts restored with its own length (not the number of meter entries)?
		ok = false
		guard(func() {
			p := pack.NewCounterPack1()
			p.TxcallerPOidMeter = hmap.NewLinkedMapDefault()
			p.TxcallerPOidMeter.Put(lang.NewPOID(1, 1), &pack.TxMeter{Acts: []int16{7, 8, 9}})
			q := pack.ToPack(pack.ToBytesPack(p)).(*pack.CounterPack1)
			m := q.TxcallerPOidMeter.Get(lang.NewPOID(1, 1)).(*pack.TxMeter)
			ok = len(m.Acts) == 3 && m.Acts[2] == 9
		})
		probeActsLen = !probeActs && !ok
	})
}
func probeActsNotWritten() bool   { runProbes(); return probeActs }
func probeExtraTagBroken() bool   { runProbes(); return probeExtra }
func probeActsLengthBroken() bool { runProbes(); return probeActsLen }
func probeDbNumDropped() bool     { runProbes(); return probeDbNum }

// innerPacks lists the packs nested directly inside a CompositePack.
func innerPacks(o interface{}) []pack.Pack {
	if c, ok := o.(*pack.CompositePack); ok {
		ps, _ := getField(c, "pack").Interface().([]pack.Pack)
		return ps
	}
	return nil
}

func specOf(o interface{}) *spec {
	if sp, ok := specByType[reflect.TypeOf(o)]; ok {
		return sp
	}
	return nil
}

// checkRoundtrip evaluates the property on one object.
func checkRoundtrip(sp *spec, obj interface{}) *Case {
	c := &Case{Type: sp.name, obj: obj, sp: sp}
	c.Pre = Dump(obj)
	c.canon = sp.name + ":" + DumpString(c.Pre)

	// nested packs are checked on their own first: a defect of an inner type is
	// reported under that type's key, not under the container's
	for _, in := range innerPacks(obj) {
		isp := specOf(in)
		if isp == nil {
			continue
		}
		ic := checkRoundtrip(isp, in)
		c.extra += 1 + ic.extra
		if len(ic.fails) > 0 {
			c.fails = append(c.fails, ic.fails...)
		}
	}
	if len(c.fails) > 0 {
		return c
	}

	var b []byte
	if oc := guard(func() { b = sp.encode(obj) }); !oc.OK() {
		c.fail(failKey(sp.name, "", "encode-panic", c.Pre), "Write panicked: "+vh.Clip(oc.Panic, 200), oc.Panic)
		return c
	}
	c.Bytes = append([]byte{}, b...)
	c.nontrivial = len(b) > bareLen(sp, c.Pre)
	trace(c)

	if key := desyncKey(sp.name, c.Pre); key != "" {
		c.fail(key, "a probe shows that this section of CounterPack1 desynchronises the reader; decoding skipped (the desynchronised reader can request an unbounded allocation)", key)
		return c
	}
	var q interface{}
	left := 0
	if oc := guard(func() { q, left = sp.decode(c.Bytes) }); !oc.OK() {
		c.fail(failKey(sp.name, "", "decode-panic", c.Pre), "Read panicked on the pack's own encoding: "+vh.Clip(oc.Panic, 200), oc.Panic)
		return c
	}
	if q == nil || reflect.TypeOf(q) != reflect.TypeOf(obj) {
		c.fail(failKey(sp.name, "", "wrong-type", c.Pre), fmt.Sprintf("decoded %T, wrote %T", q, obj), fmt.Sprintf("%T", q))
		return c
	}
	c.Post = Dump(q)

	// the table of a StatGeneralPack is observable only through GetDataTable(): a second,
	// fresh decode is unpacked and dumped (q itself keeps the cached bytes for the re-encoding check)
	qd := c.Post
	var qu interface{}
	if oc := guard(func() {
		if hasStatGeneral(q) {
			qu, _ = sp.decode(c.Bytes)
			unpackAll(qu)
			qd = Dump(qu)
		}
	}); !oc.OK() {
		c.fail(strings.TrimSuffix(sp.name, "/1")+".GetDataTable:panic", "GetDataTable() of the decoded pack panicked: "+vh.Clip(oc.Panic, 200), oc.Panic)
		return c
	}
	unpacked := qu != nil

	var b2 []byte
	reenc := guard(func() { b2 = sp.encode(q) })
	if d := firstDiff(carried(c.Pre, carryOpt{orig: true, drop: sp.drop}), carried(qd, carryOpt{drop: sp.drop})); d != nil {
		key := failKey(sp.name, topField(d.path), d.class(), c.Pre)
		c.fail(key, "decoded "+sp.name+" differs in a carried field: "+d.String(), d.String())
		return c
	}
	if left != 0 {
		c.fail(failKey(sp.name, "", "leftover-bytes", c.Pre), fmt.Sprintf("decoding left %d of %d bytes unread", left, len(c.Bytes)), fmt.Sprint(left))
	}
	// the expected re-encoding is the encoding of the carried value: where the carried value differs
	// from the field written (TxRecord.ErrorLevel defaulting), the original is normalised first
	want := c.Bytes
	if normaliseTx(obj) {
		guard(func() { want = sp.encode(obj) })
		c.buckets = append(c.buckets, "carried:TxRecord.ErrorLevel-defaulted")
	}
	if !reenc.OK() {
		c.fail(failKey(sp.name, "", "reencode-panic", c.Pre), "re-encoding the decoded pack panicked: "+vh.Clip(reenc.Panic, 200), reenc.Panic)
	} else if !bytes.Equal(b2, want) && sp.unordered && sameUpToMapOrder(sp, b2, qd) {
		c.buckets = append(c.buckets, "reencode:hash-map-rows-permuted")
	} else if !bytes.Equal(b2, want) {
		c.fail(failKey(sp.name, "", "reencode-differs", c.Pre), "re-encoding the decoded pack is not byte-identical to the encoding of the carried value: "+diffBytes(want, b2), diffBytes(want, b2))
	} else if unpacked {
		// the unpacked table must re-encode to the same bytes as the cached ones
		var b3 []byte
		if oc := guard(func() { b3 = sp.encode(qu) }); !oc.OK() || !bytes.Equal(b3, c.Bytes) {
			c.fail(strings.TrimSuffix(sp.name, "/1")+":reencode-after-unpack-differs", "re-encoding after GetDataTable() is not byte-identical: "+diffBytes(c.Bytes, b3), oc.Panic)
		}
	}
	return c
}

// normaliseTx applies the TxRecord reader's documented defaulting (ErrorLevel 0 -> WARNING when
// Error != 0) to the transaction records held by o; reports whether anything changed.
func normaliseTx(o interface{}) bool {
	changed := false
	switch t := o.(type) {
	case *service.TxRecord:
		if t != nil && t.ErrorLevel == 0 && t.Error != 0 {
			t.ErrorLevel = service.WARNING
			changed = true
		}
	case *pack.ProfilePack:
		if t != nil && t.Transaction != nil {
			changed = normaliseTx(t.Transaction)
		}
	case *pack.CompositePack:
		for _, in := range innerPacks(t) {
			if normaliseTx(in) {
				changed = true
			}
		}
	}
	return changed
}

// sameUpToMapOrder: the re-encoding has the same length and decodes to the same carried dump.
func sameUpToMapOrder(sp *spec, b2 []byte, qd []KV) bool {
	same := false
	guard(func() {
		q2, left := sp.decode(b2)
		unpackAll(q2)
		same = left == 0 && firstDiff(carried(qd, carryOpt{drop: sp.drop}), carried(Dump(q2), carryOpt{drop: sp.drop})) == nil
	})
	return same
}

func diffBytes(a, b []byte) string {
	n := len(a)
	if len(b) < n {
		n = len(b)
	}
	i := 0
	for i < n && a[i] == b[i] {
		i++
	}
	return fmt.Sprintf("lengths %d/%d, first difference at offset %d", len(a), len(b), i)
}

// bareLen is the length of an encoding that carries nothing but the type tag
// and the smallest common header (a case is non-trivial if it is longer).
func bareLen(sp *spec, pre []KV) int {
	if sp.class == clsElement {
		return 1
	}
	return 2 + 1 + 4 + 8 // tag, decimal 0, oid, time
}

// buckets: input distribution of a case.
func (c *Case) classify() {
	add := func(s string) { c.buckets = append(c.buckets, s) }
	add("type:" + c.Type)
	var okind, onode, seen bool
	for _, kv := range c.Pre {
		switch kv.Path {
		case "Okind":
			okind, seen = kv.Val != "i:0", true
		case "Onode":
			onode = kv.Val != "i:0"
		}
		if strings.HasSuffix(kv.Path, "?") && !strings.ContainsAny(kv.Path, ".[") {
			if kv.Val == "i:0" {
				add("opt:" + c.Type + "." + strings.TrimSuffix(kv.Path, "?") + ":nil")
			} else {
				add("opt:" + c.Type + "." + strings.TrimSuffix(kv.Path, "?") + ":present")
			}
		}
		if strings.HasSuffix(kv.Path, "#") && !strings.ContainsAny(kv.Path, ".[") {
			add("tablesize:" + sizeBucket(kv.Val))
		}
	}
	if seen {
		if okind || onode {
			add("header:with-kind-node")
		} else {
			add("header:short")
		}
	}
	n := len(c.Bytes)
	switch {
	case n == 0:
		add("bytes:none")
	case n < 64:
		add("bytes:<64")
	case n < 1024:
		add("bytes:<1k")
	case n < 65536:
		add("bytes:<64k")
	default:
		add("bytes:>=64k")
	}
	if len(c.fails) > 0 {
		add("outcome:fail")
	} else {
		add("outcome:ok")
	}
}

func sizeBucket(v string) string {
	var n int
	fmt.Sscanf(v, "i:%d", &n)
	switch {
	case n == 0:
		return "0"
	case n == 1:
		return "1"
	case n == 2:
		return "2"
	case n < 20:
		return "3-19"
	case n < 200:
		return "20-199"
	}
	return ">=200"
}
