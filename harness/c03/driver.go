// Tie B, model side: the kept cases are replayed through the Lean CodeModel (drv_c03).
//
// For every case whose type has a layout in the model (regenerated from the source or
// hand-written, see the driver's T command):
//
//	E  the model's writer layout applied to the pre-write field dump must give the Go bytes;
//	D  the model's reader layout applied to the Go bytes must deliver, field by field, what the
//	   Go reader stored in the decoded object, and leave nothing unread.
//
// A disagreement here, on a case for which the direct evaluation of the property found nothing,
// is reported as kind "correspondence" (model and implementation disagree; no failing input).
package main

import (
	"sort"
	"strconv"
	"strings"

	"verif/harness/vh"
)

// types whose wire order of rows is the iteration order of an unordered hash map: the dump is
// sorted, so the model cannot reproduce the bytes from it (decode is still compared, as a set)
func encodeSkipped(c *Case) bool { return c.sp != nil && c.sp.unordered }

func modelName(c *Case) string {
	n := c.Type
	if i := strings.IndexByte(n, '/'); i >= 0 {
		n = n[:i]
	}
	return n
}

// eventFold mirrors EventPack.Write's folding of uuid/escalation/status/otype into the attribute
// table (the model's EventPack layout describes the table as it is on the wire)
func eventFold(kvs []KV) []KV {
	get := func(p string) string {
		for _, kv := range kvs {
			if kv.Path == p {
				return kv.Val
			}
		}
		return ""
	}
	type ent struct{ k, v string }
	var attrs []ent
	n, _ := strconv.Atoi(strings.TrimPrefix(get("Attr#"), "i:"))
	for i := 0; i < n; i++ {
		attrs = append(attrs, ent{get("Attr[" + strconv.Itoa(i) + "].key"), get("Attr[" + strconv.Itoa(i) + "].val")})
	}
	put := func(k, v string) {
		hk := "b:" + hexOf([]byte(k))
		hv := "b:" + hexOf([]byte(v))
		for i := range attrs {
			if attrs[i].k == hk {
				attrs[i].v = hv
				return
			}
		}
		attrs = append(attrs, ent{hk, hv})
	}
	if u := get("Uuid"); u != "b:-" && u != "" {
		attrs2 := vh.UnHex(strings.TrimPrefix(u, "b:"))
		put("_uuid_", string(attrs2))
	}
	if get("Escalation") == "i:1" {
		put("_esca_", "true")
	} else {
		put("_esca_", "false")
	}
	put("_status_", strings.TrimPrefix(get("Status"), "i:"))
	put("_otype_", strings.TrimPrefix(get("Otype"), "i:"))
	var out []KV
	for _, kv := range kvs {
		if strings.HasPrefix(kv.Path, "Attr") {
			continue
		}
		out = append(out, kv)
	}
	out = append(out, KV{Path: "Attr#", Val: "i:" + strconv.Itoa(len(attrs))})
	for i, a := range attrs {
		out = append(out, KV{Path: "Attr[" + strconv.Itoa(i) + "].key", Val: a.k}, KV{Path: "Attr[" + strconv.Itoa(i) + "].val", Val: a.v})
	}
	return out
}

func mapCount(v string) int { // "v:map,<n>,…"
	parts := strings.SplitN(v, ",", 3)
	if len(parts) >= 2 {
		n, _ := strconv.Atoi(parts[1])
		return n
	}
	return 0
}

// modelRecord adapts the dump to the record the model's writer layout reads
func modelRecord(c *Case) string {
	kvs := c.Pre
	if modelName(c) == "EventPack" {
		kvs = eventFold(kvs)
	}
	vals := map[string]string{}
	for _, kv := range kvs {
		vals[kv.Path] = kv.Val
	}
	var sb strings.Builder
	first := true
	for _, kv := range kvs {
		v := kv.Val
		if kv.exp != "" {
			v = kv.exp // the carried tag hash
		}
		// a section written only when non-nil AND non-empty
		if modelName(c) == "LogSinkPack" && kv.Path == "Fields?" {
			if v != "i:0" && mapCount(vals["Fields"]) == 0 {
				v = "i:0"
			}
		}
		if strings.ContainsAny(kv.Path, " ;=") {
			continue
		}
		if !first {
			sb.WriteByte(';')
		}
		first = false
		sb.WriteString(kv.Path)
		sb.WriteByte('=')
		sb.WriteString(v)
	}
	if first {
		return "-"
	}
	return sb.String()
}

func parseOut(s string) map[string]string {
	m := map[string]string{}
	if s == "-" {
		return m
	}
	for _, kv := range strings.Split(s, ";") {
		if i := strings.IndexByte(kv, '='); i > 0 {
			m[kv[:i]] = kv[i+1:]
		}
	}
	return m
}

// rows of a table as a sorted multiset (for the unordered maps)
func tableRows(m map[string]string, table string) []string {
	rows := map[string][]string{}
	for k, v := range m {
		if strings.HasPrefix(k, table+"[") {
			i := strings.IndexByte(k, ']')
			rows[k[:i+1]] = append(rows[k[:i+1]], k[i+1:]+"="+v)
		}
	}
	var out []string
	for _, r := range rows {
		sort.Strings(r)
		out = append(out, strings.Join(r, ";"))
	}
	sort.Strings(out)
	return out
}

func driverChecksImpl(env *vh.Env, rep *vh.Report, cases []*Case) {
	names, err := vh.RunDriver(env.Driver, []string{"T"})
	if err != nil {
		rep.Fail("correspondence", "driver:unusable", "the Lean driver could not be run: "+vh.Clip(err.Error(), 300), nil)
		return
	}
	have := map[string]bool{}
	for _, n := range strings.Split(names[0], ",") {
		have[n] = true
	}
	type req struct {
		c    *Case
		kind byte
		body []byte
	}
	var reqs []req
	var lines []string
	perType := map[string]int{}
	limit := 400
	if env.Thorough {
		limit = 20000
	}
	for _, c := range cases {
		if c == nil || c.sp == nil || len(c.fails) > 0 || c.Bytes == nil || c.Post == nil {
			continue
		}
		mn := modelName(c)
		if !have[mn] {
			rep.Count("model:no-layout:" + mn)
			continue
		}
		if perType[c.Type] >= limit || len(c.Bytes) > 200000 {
			continue
		}
		perType[c.Type]++
		body := c.Bytes
		if c.sp.class != clsElement {
			body = body[2:] // the type tag is WritePack's, not the body's
		}
		if !encodeSkipped(c) {
			reqs = append(reqs, req{c, 'E', body})
			lines = append(lines, "E "+mn+" "+modelRecord(c))
		}
		reqs = append(reqs, req{c, 'D', body})
		lines = append(lines, "D "+mn+" "+vh.Hex(body))
	}
	if len(lines) == 0 {
		rep.Note("driver comparison: no case had a model layout")
		return
	}
	outs, err := vh.RunDriver(env.Driver, lines)
	if err != nil {
		rep.Fail("correspondence", "driver:unusable", "the Lean driver could not be run: "+vh.Clip(err.Error(), 300), nil)
		return
	}
	for i, rq := range reqs {
		c, o := rq.c, outs[i]
		mn := modelName(c)
		switch rq.kind {
		case 'E':
			rep.Count("model:encode")
			if o != vh.Hex(rq.body) {
				rep.Fail("correspondence", mn+":model-bytes-differ",
					"the model's writer layout does not produce the bytes of "+mn+".Write for this object: "+diffBytes(rq.body, vh.UnHex(safeHex(o))),
					map[string]interface{}{"type": c.Type, "fields": vh.Clip(modelRecord(c), 20000), "go_bytes": vh.Clip(vh.Hex(rq.body), 20000), "model": vh.Clip(o, 20000)})
			}
		case 'D':
			rep.Count("model:decode")
			if !strings.HasPrefix(o, "ok ") {
				rep.Fail("correspondence", mn+":model-decode-fails",
					"the model's reader layout rejects bytes that "+mn+".Read accepts: "+o,
					map[string]interface{}{"type": c.Type, "bytes": vh.Clip(vh.Hex(rq.body), 20000), "model": o})
				continue
			}
			parts := strings.Split(o, " ")
			if len(parts) != 3 {
				rep.Fail("correspondence", "driver:unusable", "unexpected driver answer: "+vh.Clip(o, 200), nil)
				continue
			}
			if parts[2] != "0" {
				rep.Fail("correspondence", mn+":model-leftover",
					"the model's reader leaves "+parts[2]+" bytes that "+mn+".Read consumes",
					map[string]interface{}{"type": c.Type, "bytes": vh.Clip(vh.Hex(rq.body), 20000)})
			}
			got := parseOut(parts[1])
			post := map[string]string{}
			for _, kv := range c.Post {
				post[kv.Path] = kv.Val
			}
			if c.sp.unordered {
				// compare the hash-map tables as multisets of rows, everything else by path
				for _, tab := range []string{"SqlMap", "HttpcMap"} {
					a, b := tableRows(got, tab), tableRows(post, tab)
					if strings.Join(a, "|") != strings.Join(b, "|") {
						rep.Fail("correspondence", mn+"."+tab+":model-field-differs", "rows of "+tab+" differ between the model's decode and Go's",
							map[string]interface{}{"type": c.Type, "bytes": vh.Clip(vh.Hex(rq.body), 20000)})
					}
				}
			}
			keys := make([]string, 0, len(got))
			for k := range got {
				keys = append(keys, k)
			}
			sort.Strings(keys)
			for _, k := range keys {
				if strings.HasSuffix(k, "?") { // presence flags: nil-ness of a Go field is not what the flag says
					continue
				}
				if c.sp.unordered && (strings.HasPrefix(k, "SqlMap[") || strings.HasPrefix(k, "HttpcMap[")) {
					continue
				}
				if mn == "EventPack" && strings.HasPrefix(k, "Attr") {
					continue // the wire table is unfolded again by Read; compared through the fields
				}
				want, ok := post[k]
				if !ok && strings.HasSuffix(k, "#") && got[k] == "i:0" {
					continue // a table that stayed nil: no rows either way
				}
				if !ok {
					rep.Fail("correspondence", mn+"."+topField(k)+":model-field-unknown",
						"the model's reader delivers field "+k+" which the dump of the decoded "+mn+" does not have",
						map[string]interface{}{"type": c.Type, "path": k})
					break
				}
				if want != got[k] {
					rep.Fail("correspondence", mn+"."+topField(k)+":model-field-differs",
						"field "+k+": the model's reader delivers "+vh.Clip(got[k], 120)+", Go's reader stored "+vh.Clip(want, 120),
						map[string]interface{}{"type": c.Type, "path": k, "bytes": vh.Clip(vh.Hex(rq.body), 20000)})
					break
				}
			}
		}
	}
	rep.Note("driver comparison: %d request lines over %d types with a model layout", len(lines), len(perType))
}

func safeHex(s string) string {
	for _, ch := range s {
		if !strings.ContainsRune("0123456789abcdef-", ch) {
			return "-"
		}
	}
	return s
}
