// Tie B, model side: the kept cases are replayed through the Lean CodeModel (drv_c03).
//
// For every case whose type has a layout in the model (regenerated from the source or
// hand-written, see the driver's T command):
//
//	E  the model's writer layout applied to the pre-write field dump must give the Go bytes;
//	D  the model's reader layout applied to the Go bytes must deliver, field by field, what the
//	   Go reader stored in the decoded object, and leave nothing unread.
//
// A disagreement here, on a case for which the direct evaluation of the property found nothing,
// is reported as kind "correspondence" (model and implementation disagree; no failing input).
package main

import (
	"sort"
	"strconv"
	"strings"

	"verif/harness/vh"
)

// rows of an unordered hash map (IntKeyMap, IntIntMap) are written in iteration order but dumped
// sorted: with more than one row the model cannot reproduce the bytes from the dump (the decode is
// still compared, as a multiset of rows)
var unorderedTables = []string{"SqlMap", "HttpcMap", "DbNumActive", "DbNumIdle"}

func encodeSkipped(c *Case) bool {
	if c.sp == nil || !c.sp.unordered {
		return false
	}
	for _, kv := range c.Pre {
		for _, t := range unorderedTables {
			if kv.Path == t+"#" && kv.Val != "i:0" && kv.Val != "i:1" {
				return true
			}
		}
	}
	return false
}

func modelName(c *Case) string {
	n := c.Type
	if n == "StatGeneralPack/1" {
		return "StatGeneralPack1"
	}
	if i := strings.IndexByte(n, '/'); i >= 0 {
		n = n[:i]
	}
	return n
}

func kvGet(kvs []KV, p string) string {
	for _, kv := range kvs {
		if kv.Path == p {
			return kv.Val
		}
	}
	return ""
}

func intsOf(v string) []string { // "is:1,2,3"
	v = strings.TrimPrefix(v, "is:")
	if v == "-" || v == "" {
		return nil
	}
	return strings.Split(v, ",")
}

// adapt rewrites the generic dump into the record shape of the model's layout for this type
func adapt(c *Case, kvs []KV, post bool) []KV {
	switch modelName(c) {
	case "EventPack":
		if !post {
			return eventFold(kvs)
		}
	case "TransactionRec": // the version is a parameter of WriteTransactionRec
		if i := strings.Index(c.Type, "/v"); i >= 0 && !post {
			return append(append([]KV{}, kvs...), KV{Path: "$version", Val: "i:" + c.Type[i+2:]})
		}
	case "HitMapPack1": // parallel arrays -> cells "[i].Hit", "[i].Error"
		var out []KV
		for _, kv := range kvs {
			if kv.Path == "Hit" || kv.Path == "Error" {
				for i, x := range intsOf(kv.Val) {
					out = append(out, KV{Path: "[" + strconv.Itoa(i) + "]." + kv.Path, Val: "i:" + x})
				}
				continue
			}
			out = append(out, kv)
		}
		return out
	case "CounterPack1": // one presence flag for the two DB-pool maps
		f := "i:0"
		if kvGet(kvs, "DbNumActive?") == "i:1" && kvGet(kvs, "DbNumIdle?") == "i:1" {
			f = "i:1"
		}
		return append(append([]KV{}, kvs...), KV{Path: "DbNum?", Val: f})
	case "SMBasePack", "LogSinkPack": // sections written only when non-nil AND non-empty
		name := "Extra"
		if modelName(c) == "LogSinkPack" {
			name = "Fields"
		}
		out := append([]KV{}, kvs...)
		for i := range out {
			if out[i].Path == name+"?" && out[i].Val != "i:0" && mapCount(kvGet(kvs, name)) == 0 {
				out[i].Val = "i:0"
			}
		}
		return out
	case "StatGeneralPack", "StatGeneralPack1":
		// Write serialises the table into dataBytes (cached); the pack layout carries those bytes
		out := append([]KV{}, kvs...)
		if !post {
			db := kvGet(c.Post, "dataBytes")
			for i := range out {
				if out[i].Path == "dataBytes" {
					out[i].Val = db
				}
			}
		}
		return out
	}
	return kvs
}

// tableRecord: the typed-list table of a StatGeneralPack as the record of the StatGeneralTable layout
func tableRecord(kvs []KV) string {
	var parts []string
	n, _ := strconv.Atoi(strings.TrimPrefix(kvGet(kvs, "data#"), "i:"))
	parts = append(parts, "data#=i:"+strconv.Itoa(n))
	for i := 0; i < n; i++ {
		p := "data[" + strconv.Itoa(i) + "]"
		parts = append(parts, p+".key="+kvGet(kvs, p+".key"))
		ty := strings.TrimPrefix(kvGet(kvs, p+".type"), "i:")
		v := kvGet(kvs, p+".val")
		if strings.HasPrefix(v, "is:") { // numeric lists: the type byte leads the list
			if v == "is:-" {
				v = "is:" + ty
			} else {
				v = "is:" + ty + "," + strings.TrimPrefix(v, "is:")
			}
		}
		parts = append(parts, p+".val="+v)
	}
	return strings.Join(parts, ";")
}

// eventFold mirrors EventPack.Write's folding of uuid/escalation/status/otype into the attribute
// table (the model's EventPack layout describes the table as it is on the wire)
func eventFold(kvs []KV) []KV {
	get := func(p string) string {
		for _, kv := range kvs {
			if kv.Path == p {
				return kv.Val
			}
		}
		return ""
	}
	type ent struct{ k, v string }
	var attrs []ent
	n, _ := strconv.Atoi(strings.TrimPrefix(get("Attr#"), "i:"))
	for i := 0; i < n; i++ {
		attrs = append(attrs, ent{get("Attr[" + strconv.Itoa(i) + "].key"), get("Attr[" + strconv.Itoa(i) + "].val")})
	}
	put := func(k, v string) {
		hk := "b:" + hexOf([]byte(k))
		hv := "b:" + hexOf([]byte(v))
		for i := range attrs {
			if attrs[i].k == hk {
				attrs[i].v = hv
				return
			}
		}
		attrs = append(attrs, ent{hk, hv})
	}
	if u := get("Uuid"); u != "b:-" && u != "" {
		attrs2 := vh.UnHex(strings.TrimPrefix(u, "b:"))
		put("_uuid_", string(attrs2))
	}
	if get("Escalation") == "i:1" {
		put("_esca_", "true")
	} else {
		put("_esca_", "false")
	}
	put("_status_", strings.TrimPrefix(get("Status"), "i:"))
	put("_otype_", strings.TrimPrefix(get("Otype"), "i:"))
	var out []KV
	for _, kv := range kvs {
		if strings.HasPrefix(kv.Path, "Attr") {
			continue
		}
		out = append(out, kv)
	}
	out = append(out, KV{Path: "Attr#", Val: "i:" + strconv.Itoa(len(attrs))})
	for i, a := range attrs {
		out = append(out, KV{Path: "Attr[" + strconv.Itoa(i) + "].key", Val: a.k}, KV{Path: "Attr[" + strconv.Itoa(i) + "].val", Val: a.v})
	}
	return out
}

func mapCount(v string) int { // "v:map,<n>,…"
	parts := strings.SplitN(v, ",", 3)
	if len(parts) >= 2 {
		n, _ := strconv.Atoi(parts[1])
		return n
	}
	return 0
}

// modelRecord: the record the model's writer layout reads
func modelRecord(c *Case) string {
	kvs := adapt(c, c.Pre, false)
	var sb strings.Builder
	first := true
	for _, kv := range kvs {
		v := kv.Val
		if kv.exp != "" {
			v = kv.exp // the carried tag hash
		}
		if kv.Path == "" || strings.ContainsAny(kv.Path, " ;=") || strings.HasPrefix(v, "?:") {
			continue
		}
		if !first {
			sb.WriteByte(';')
		}
		first = false
		sb.WriteString(kv.Path)
		sb.WriteByte('=')
		sb.WriteString(v)
	}
	if first {
		return "-"
	}
	return sb.String()
}

func parseOut(s string) map[string]string {
	m := map[string]string{}
	if s == "-" {
		return m
	}
	for _, kv := range strings.Split(s, ";") {
		if i := strings.IndexByte(kv, '='); i > 0 {
			m[kv[:i]] = kv[i+1:]
		}
	}
	return m
}

// rows of a table as a sorted multiset (for the unordered maps)
func tableRows(m map[string]string, table string) []string {
	rows := map[string][]string{}
	for k, v := range m {
		if strings.HasPrefix(k, table+"[") {
			i := strings.IndexByte(k, ']')
			rows[k[:i+1]] = append(rows[k[:i+1]], k[i+1:]+"="+v)
		}
	}
	var out []string
	for _, r := range rows {
		sort.Strings(r)
		out = append(out, strings.Join(r, ";"))
	}
	sort.Strings(out)
	return out
}

func driverChecksImpl(env *vh.Env, rep *vh.Report, cases []*Case) {
	names, err := vh.RunDriver(env.Driver, []string{"T"})
	if err != nil {
		rep.Fail("correspondence", "driver:unusable", "the Lean driver could not be run: "+vh.Clip(err.Error(), 300), nil)
		return
	}
	have := map[string]bool{}
	for _, n := range strings.Split(names[0], ",") {
		have[n] = true
	}
	type req struct {
		c    *Case
		kind byte
		body []byte
	}
	var reqs []req
	var lines []string
	perType := map[string]int{}
	limit := 400
	if env.Thorough {
		limit = 20000
	}
	for _, c := range cases {
		if c == nil || c.sp == nil || len(c.fails) > 0 || c.Bytes == nil || c.Post == nil {
			continue
		}
		mn := modelName(c)
		if !have[mn] {
			rep.Count("model:no-layout:" + mn)
			continue
		}
		if perType[c.Type] >= limit || len(c.Bytes) > 200000 {
			continue
		}
		perType[c.Type]++
		body := c.Bytes
		if c.sp.class != clsElement {
			body = body[2:] // the type tag is WritePack's, not the body's
		}
		if !encodeSkipped(c) {
			reqs = append(reqs, req{c, 'E', body})
			lines = append(lines, "E "+mn+" "+modelRecord(c))
		}
		reqs = append(reqs, req{c, 'D', body})
		lines = append(lines, "D "+mn+" "+vh.Hex(body))
		if (mn == "StatGeneralPack" || mn == "StatGeneralPack1") && kvGet(c.Pre, "data#") != "i:0" && kvGet(c.Pre, "data#") != "" {
			// writeTable: the model's table layout must produce the cached bytes the pack carries
			db := vh.UnHex(strings.TrimPrefix(kvGet(c.Post, "dataBytes"), "b:"))
			reqs = append(reqs, req{c, 'T', db})
			lines = append(lines, "E StatGeneralTable "+tableRecord(c.Pre))
		}
	}
	if len(lines) == 0 {
		rep.Note("driver comparison: no case had a model layout")
		return
	}
	outs, err := vh.RunDriver(env.Driver, lines)
	if err != nil {
		rep.Fail("correspondence", "driver:unusable", "the Lean driver could not be run: "+vh.Clip(err.Error(), 300), nil)
		return
	}
	for i, rq := range reqs {
		c, o := rq.c, outs[i]
		mn := modelName(c)
		switch rq.kind {
		case 'T':
			rep.Count("model:table")
			if o != vh.Hex(rq.body) {
				rep.Fail("correspondence", "StatGeneralPack.writeTable:model-bytes-differ",
					"the model's table layout does not produce the bytes of StatGeneralPack.writeTable: "+diffBytes(rq.body, vh.UnHex(safeHex(o))),
					map[string]interface{}{"type": c.Type, "fields": vh.Clip(tableRecord(c.Pre), 20000), "go_bytes": vh.Clip(vh.Hex(rq.body), 20000), "model": vh.Clip(o, 20000)})
			}
		case 'E':
			rep.Count("model:encode")
			if o != vh.Hex(rq.body) {
				rep.Fail("correspondence", mn+":model-bytes-differ",
					"the model's writer layout does not produce the bytes of "+mn+".Write for this object: "+diffBytes(rq.body, vh.UnHex(safeHex(o))),
					map[string]interface{}{"type": c.Type, "fields": vh.Clip(modelRecord(c), 20000), "go_bytes": vh.Clip(vh.Hex(rq.body), 20000), "model": vh.Clip(o, 20000)})
			}
		case 'D':
			rep.Count("model:decode")
			if !strings.HasPrefix(o, "ok ") {
				rep.Fail("correspondence", mn+":model-decode-fails",
					"the model's reader layout rejects bytes that "+mn+".Read accepts: "+o,
					map[string]interface{}{"type": c.Type, "bytes": vh.Clip(vh.Hex(rq.body), 20000), "model": o})
				continue
			}
			parts := strings.Split(o, " ")
			if len(parts) != 3 {
				rep.Fail("correspondence", "driver:unusable", "unexpected driver answer: "+vh.Clip(o, 200), nil)
				continue
			}
			if parts[2] != "0" {
				rep.Fail("correspondence", mn+":model-leftover",
					"the model's reader leaves "+parts[2]+" bytes that "+mn+".Read consumes",
					map[string]interface{}{"type": c.Type, "bytes": vh.Clip(vh.Hex(rq.body), 20000)})
			}
			got := parseOut(parts[1])
			post := map[string]string{}
			for _, kv := range adapt(c, c.Post, true) {
				post[kv.Path] = kv.Val
			}
			if c.sp.unordered {
				// compare the hash-map tables as multisets of rows, everything else by path
				for _, tab := range unorderedTables {
					a, b := tableRows(got, tab), tableRows(post, tab)
					if strings.Join(a, "|") != strings.Join(b, "|") {
						rep.Fail("correspondence", mn+"."+tab+":model-field-differs", "rows of "+tab+" differ between the model's decode and Go's",
							map[string]interface{}{"type": c.Type, "bytes": vh.Clip(vh.Hex(rq.body), 20000)})
					}
				}
			}
			keys := make([]string, 0, len(got))
			for k := range got {
				keys = append(keys, k)
			}
			sort.Strings(keys)
			for _, k := range keys {
				if strings.HasSuffix(k, "?") { // presence flags: nil-ness of a Go field is not what the flag says
					continue
				}
				if c.sp.unordered && (strings.HasPrefix(k, "SqlMap[") || strings.HasPrefix(k, "HttpcMap[") ||
					strings.HasPrefix(k, "DbNumActive[") || strings.HasPrefix(k, "DbNumIdle[")) {
					continue
				}
				if mn == "EventPack" && strings.HasPrefix(k, "Attr") {
					continue // the wire table is unfolded again by Read; compared through the fields
				}
				want, ok := post[k]
				if !ok && strings.HasSuffix(k, "#") && got[k] == "i:0" {
					continue // a table that stayed nil: no rows either way
				}
				if !ok {
					rep.Fail("correspondence", mn+"."+topField(k)+":model-field-unknown",
						"the model's reader delivers field "+k+" which the dump of the decoded "+mn+" does not have",
						map[string]interface{}{"type": c.Type, "path": k})
					break
				}
				if want != got[k] {
					rep.Fail("correspondence", mn+"."+topField(k)+":model-field-differs",
						"field "+k+": the model's reader delivers "+vh.Clip(got[k], 120)+", Go's reader stored "+vh.Clip(want, 120),
						map[string]interface{}{"type": c.Type, "path": k, "bytes": vh.Clip(vh.Hex(rq.body), 20000)})
					break
				}
			}
		}
	}
	rep.Note("driver comparison: %d request lines over %d types with a model layout", len(lines), len(perType))
}

func safeHex(s string) string {
	for _, ch := range s {
		if !strings.ContainsRune("0123456789abcdef-", ch) {
			return "-"
		}
	}
	return s
}
