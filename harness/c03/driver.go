// Tie B, model side: the kept cases are replayed through the Lean CodeModel (drv_c03).
//
// For every case whose type has a layout in the model (regenerated from the source or
// hand-written, see the driver's T command):
//
//	E  the model's writer layout applied to the pre-write field dump must give the Go bytes;
//	D  the model's reader layout applied to the Go bytes must deliver, field by field, what the
//	   Go reader stored in the decoded object, and leave nothing unread.
//
// A disagreement here, on a case for which the direct evaluation of the property found nothing,
// is reported as kind "correspondence" (model and implementation disagree; no failing input).
package main

import (
	"fmt"
	"sort"
	"strconv"
	"strings"

	"verif/harness/vh"
)

// rows of an unordered hash map (IntKeyMap, IntIntMap) are written in iteration order but dumped
// sorted: with more than one row the model cannot reproduce the bytes from the dump (the decode is
// still compared, as a multiset of rows)
var unorderedTables = []string{"SqlMap", "HttpcMap", "DbNumActive", "DbNumIdle"}

func encodeSkipped(c *Case) bool {
	if c.sp == nil || !c.sp.unordered {
		return false
	}
	for _, kv := range c.Pre {
		for _, t := range unorderedTables {
			if kv.Path == t+"#" && kv.Val != "i:0" && kv.Val != "i:1" {
				return true
			}
		}
	}
	return false
}

func modelName(c *Case) string {
	n := c.Type
	if n == "StatGeneralPack/1" {
		return "StatGeneralPack1"
	}
	if i := strings.IndexByte(n, '/'); i >= 0 {
		n = n[:i]
	}
	return n
}

func kvGet(kvs []KV, p string) string {
	for _, kv := range kvs {
		if kv.Path == p {
			return kv.Val
		}
	}
	return ""
}

func intsOf(v string) []string { // "is:1,2,3"
	v = strings.TrimPrefix(v, "is:")
	if v == "-" || v == "" {
		return nil
	}
	return strings.Split(v, ",")
}

// adapt rewrites the generic dump into the record shape of the model's layout for this type
func adapt(c *Case, kvs []KV, post bool) []KV {
	switch modelName(c) {
	case "TransactionRec": // the version is a parameter of WriteTransactionRec
		if i := strings.Index(c.Type, "/v"); i >= 0 && !post {
			return append(append([]KV{}, kvs...), KV{Path: "$version", Val: "i:" + c.Type[i+2:]})
		}
	case "HitMapPack1": // parallel arrays -> cells "[i].Hit", "[i].Error"
		var out []KV
		for _, kv := range kvs {
			if kv.Path == "Hit" || kv.Path == "Error" {
				for i, x := range intsOf(kv.Val) {
					out = append(out, KV{Path: "[" + strconv.Itoa(i) + "]." + kv.Path, Val: "i:" + x})
				}
				continue
			}
			out = append(out, kv)
		}
		return out
	case "CounterPack1": // one presence flag for the two DB-pool maps
		f := "i:0"
		if kvGet(kvs, "DbNumActive?") == "i:1" && kvGet(kvs, "DbNumIdle?") == "i:1" {
			f = "i:1"
		}
		return append(append([]KV{}, kvs...), KV{Path: "DbNum?", Val: f})
	case "SMBasePack", "LogSinkPack": // sections written only when non-nil AND non-empty
		name := "Extra"
		if modelName(c) == "LogSinkPack" {
			name = "Fields"
		}
		out := append([]KV{}, kvs...)
		for i := range out {
			if out[i].Path == name+"?" && out[i].Val != "i:0" && mapCount(kvGet(kvs, name)) == 0 {
				out[i].Val = "i:0"
			}
		}
		return out
	case "StatGeneralPack", "StatGeneralPack1":
		// Write serialises the table into dataBytes (cached); the pack layout carries those bytes
		out := append([]KV{}, kvs...)
		if !post {
			db := kvGet(c.Post, "dataBytes")
			for i := range out {
				if out[i].Path == "dataBytes" {
					out[i].Val = db
				}
			}
		}
		return out
	}
	return kvs
}

// tableRecord: the typed-list table of a StatGeneralPack as the record of the StatGeneralTable layout
func tableRecord(kvs []KV) string {
	var parts []string
	n, _ := strconv.Atoi(strings.TrimPrefix(kvGet(kvs, "data#"), "i:"))
	parts = append(parts, "data#=i:"+strconv.Itoa(n))
	for i := 0; i < n; i++ {
		p := "data[" + strconv.Itoa(i) + "]"
		parts = append(parts, p+".key="+kvGet(kvs, p+".key"))
		ty := strings.TrimPrefix(kvGet(kvs, p+".type"), "i:")
		v := kvGet(kvs, p+".val")
		if strings.HasPrefix(v, "is:") { // numeric lists: the type byte leads the list
			if v == "is:-" {
				v = "is:" + ty
			} else {
				v = "is:" + ty + "," + strings.TrimPrefix(v, "is:")
			}
		}
		parts = append(parts, p+".val="+v)
	}
	return strings.Join(parts, ";")
}

func mapCount(v string) int { // "v:map,<n>,…"
	parts := strings.SplitN(v, ",", 3)
	if len(parts) >= 2 {
		n, _ := strconv.Atoi(parts[1])
		return n
	}
	return 0
}

// modelRecord: the record the model's writer layout reads
func modelRecord(c *Case) string {
	kvs := adapt(c, c.Pre, false)
	var sb strings.Builder
	first := true
	for _, kv := range kvs {
		v := kv.Val
		if kv.exp != "" {
			v = kv.exp // the carried tag hash
		}
		if kv.Path == "" || strings.ContainsAny(kv.Path, " ;=") || strings.HasPrefix(v, "?:") {
			continue
		}
		if !first {
			sb.WriteByte(';')
		}
		first = false
		sb.WriteString(kv.Path)
		sb.WriteByte('=')
		sb.WriteString(v)
	}
	if first {
		return "-"
	}
	return sb.String()
}

func parseOut(s string) map[string]string {
	m := map[string]string{}
	if s == "-" {
		return m
	}
	for _, kv := range strings.Split(s, ";") {
		if i := strings.IndexByte(kv, '='); i > 0 {
			m[kv[:i]] = kv[i+1:]
		}
	}
	return m
}

// rows of a table as a sorted multiset (for the unordered maps)
func tableRows(m map[string]string, table string) []string {
	rows := map[string][]string{}
	for k, v := range m {
		if strings.HasPrefix(k, table+"[") {
			i := strings.IndexByte(k, ']')
			rows[k[:i+1]] = append(rows[k[:i+1]], k[i+1:]+"="+v)
		}
	}
	var out []string
	for _, r := range rows {
		sort.Strings(r)
		out = append(out, strings.Join(r, ";"))
	}
	sort.Strings(out)
	return out
}

func driverChecksImpl(env *vh.Env, rep *vh.Report, cases []*Case) {
	names, err := vh.RunDriver(env.Driver, []string{"T"})
	if err != nil {
		rep.Fail("correspondence", "driver:unusable", "the Lean driver could not be run: "+vh.Clip(err.Error(), 300), nil)
		return
	}
	have := map[string]bool{}
	for _, n := range strings.Split(names[0], ",") {
		have[n] = true
	}
	type req struct {
		c    *Case
		kind byte
		body []byte
	}
	var reqs []req
	var lines []string
	perType := map[string]int{}
	limit := 400
	if env.Thorough {
		limit = 20000
	}
	for _, c := range cases {
		if c == nil || c.sp == nil || len(c.fails) > 0 || c.Bytes == nil || c.Post == nil {
			continue
		}
		mn := modelName(c)
		if mn == "CompositePack" {
			// the pack tree model (Packs.Tree.readPT): decode the type-tagged bytes, compare the tree
			if perType[c.Type] >= limit || len(c.Bytes) > 200000 {
				continue
			}
			skip := false
			for _, kv := range c.Post {
				if strings.HasSuffix(kv.Path, "!") && !codeHasLayout(have, kv.Val) {
					skip = true
				}
			}
			if skip {
				rep.Count("model:tree:inner-without-layout")
				continue
			}
			perType[c.Type]++
			reqs = append(reqs, req{c, 'C', c.Bytes})
			lines = append(lines, "C "+vh.Hex(c.Bytes))
			// … and the tree ENCODE: the decoded tree re-encoded by the writer layouts must be Go's bytes
			reqs = append(reqs, req{c, 'X', c.Bytes})
			lines = append(lines, "CE "+vh.Hex(c.Bytes))
			continue
		}
		if !have[mn] {
			rep.Count("model:no-layout:" + mn)
			continue
		}
		if perType[c.Type] >= limit || len(c.Bytes) > 200000 {
			continue
		}
		perType[c.Type]++
		body := c.Bytes
		if c.sp.class != clsElement {
			body = body[2:] // the type tag is WritePack's, not the body's
		}
		if mn == "EventPack" {
			// Packs.Event.fold / unfold: stage 1 asks the model for the folded table and for the wire table
			reqs = append(reqs, req{c, 'F', body})
			lines = append(lines, "EF "+rawRecord(c.Pre))
			reqs = append(reqs, req{c, 'D', body})
			lines = append(lines, "D "+mn+" "+vh.Hex(body))
			continue
		}
		if !encodeSkipped(c) {
			reqs = append(reqs, req{c, 'E', body})
			lines = append(lines, "E "+mn+" "+modelRecord(c))
		}
		reqs = append(reqs, req{c, 'D', body})
		lines = append(lines, "D "+mn+" "+vh.Hex(body))
		if (mn == "StatGeneralPack" || mn == "StatGeneralPack1") && kvGet(c.Pre, "data#") != "i:0" && kvGet(c.Pre, "data#") != "" {
			// writeTable: the model's table layout must produce the cached bytes the pack carries
			db := vh.UnHex(strings.TrimPrefix(kvGet(c.Post, "dataBytes"), "b:"))
			reqs = append(reqs, req{c, 'T', db})
			lines = append(lines, "E StatGeneralTable "+tableRecord(c.Pre))
		}
	}
	if len(lines) == 0 {
		rep.Note("driver comparison: no case had a model layout")
		return
	}
	outs, err := vh.RunDriver(env.Driver, lines)
	if err != nil {
		rep.Fail("correspondence", "driver:unusable", "the Lean driver could not be run: "+vh.Clip(err.Error(), 300), nil)
		return
	}
	// stage 2 (EventPack): encode with the model's folded table; unfold the model's wire table
	var reqs2 []req
	var lines2 []string
	for i, rq := range reqs {
		if rq.kind == 'F' && strings.HasPrefix(outs[i], "Attr#=") {
			var keep []string
			for _, kv := range rq.c.Pre {
				if !strings.HasPrefix(kv.Path, "Attr") && kv.Path != "" {
					keep = append(keep, kv.Path+"="+kv.Val)
				}
			}
			reqs2 = append(reqs2, req{rq.c, 'E', rq.body})
			lines2 = append(lines2, "E EventPack "+strings.Join(keep, ";")+";"+outs[i])
		}
		if rq.kind == 'D' && modelName(rq.c) == "EventPack" && strings.HasPrefix(outs[i], "ok ") {
			parts := strings.Split(outs[i], " ")
			var attrs []string
			for _, kv := range strings.Split(parts[1], ";") {
				if strings.HasPrefix(kv, "Attr") {
					attrs = append(attrs, kv)
				}
			}
			reqs2 = append(reqs2, req{rq.c, 'U', rq.body})
			lines2 = append(lines2, "EU "+strings.Join(attrs, ";"))
		}
	}
	if len(lines2) > 0 {
		outs2, err := vh.RunDriver(env.Driver, lines2)
		if err != nil {
			rep.Fail("correspondence", "driver:unusable", "the Lean driver could not be run: "+vh.Clip(err.Error(), 300), nil)
			return
		}
		for i, rq := range reqs2 {
			c, o := rq.c, outs2[i]
			switch rq.kind {
			case 'E':
				rep.Count("model:event-fold")
				if o != vh.Hex(rq.body) {
					rep.Fail("correspondence", "EventPack.Write:model-fold-differs",
						"EventPack.Write does not put on the wire the attribute table the model's folding (Packs.Event.fold) gives: "+diffBytes(rq.body, vh.UnHex(safeHex(o))),
						map[string]interface{}{"type": c.Type, "fields": vh.Clip(rawRecord(c.Pre), 20000), "go_bytes": vh.Clip(vh.Hex(rq.body), 20000), "model": vh.Clip(o, 20000)})
				}
			case 'U':
				rep.Count("model:event-unfold")
				got := parseOut(o)
				post := map[string]string{}
				for _, kv := range c.Post {
					post[kv.Path] = kv.Val
				}
				for _, k := range sortedKeys(got) {
					if want, ok := post[k]; !ok || want != got[k] {
						rep.Fail("correspondence", "EventPack.Read:model-unfold-differs",
							"field "+k+": the model's unfolding (Packs.Event.unfold) gives "+vh.Clip(got[k], 120)+", EventPack.Read stored "+vh.Clip(want, 120),
							map[string]interface{}{"type": c.Type, "path": k, "bytes": vh.Clip(vh.Hex(rq.body), 20000)})
						break
					}
				}
			}
		}
	}
	for i, rq := range reqs {
		c, o := rq.c, outs[i]
		mn := modelName(c)
		switch rq.kind {
		case 'F':
			if !strings.HasPrefix(o, "Attr#=") {
				rep.Fail("correspondence", "driver:unusable", "unexpected answer to EF: "+vh.Clip(o, 200), nil)
			}
		case 'X':
			switch {
			case o == "same":
				rep.Count("model:tree-encode:same")
			case o == "n/a" || o == "fail": // a leaf whose writer layout has a marker section (CounterPack1); "fail" is reported by the C line
				rep.Count("model:tree-encode:n/a")
			default:
				rep.Fail("correspondence", "CompositePack:model-encode-differs", "the pack tree re-encoded by the model's writer layouts (encodeTree) is not the bytes CompositePack.Write produced: "+vh.Clip(o, 200),
					map[string]interface{}{"type": c.Type, "bytes": vh.Clip(vh.Hex(rq.body), 20000)})
			}
		case 'C':
			rep.Count("model:tree")
			if !strings.HasPrefix(o, "ok ") {
				rep.Fail("correspondence", "CompositePack:model-decode-fails", "the pack-tree model (Packs.Tree.readPT) rejects bytes that ReadPack accepts: "+o,
					map[string]interface{}{"type": c.Type, "bytes": vh.Clip(vh.Hex(rq.body), 20000)})
				continue
			}
			parts := strings.Split(o, " ")
			if len(parts) != 3 || parts[2] != "0" {
				rep.Fail("correspondence", "CompositePack:model-leftover", "the pack-tree model leaves bytes that ReadPack consumes: "+vh.Clip(o, 100),
					map[string]interface{}{"type": c.Type, "bytes": vh.Clip(vh.Hex(rq.body), 20000)})
				continue
			}
			got := parseOut(parts[1])
			post := map[string]string{}
			for _, kv := range c.Post {
				post[kv.Path] = kv.Val
			}
			// shape: every count and every type code the model delivers must be the dump's; fields are
			// compared where both name them (per-type adaptations are checked by the per-type D lines)
			for _, k := range sortedKeys(got) {
				want, ok := post[k]
				structural := strings.HasSuffix(k, "pack#") || strings.HasSuffix(k, "!")
				if !ok {
					if structural {
						rep.Fail("correspondence", "CompositePack:model-shape-differs", "the model's tree has "+k+"="+got[k]+" which the decoded CompositePack does not have",
							map[string]interface{}{"type": c.Type, "path": k, "bytes": vh.Clip(vh.Hex(rq.body), 20000)})
						break
					}
					continue
				}
				if strings.HasSuffix(k, "?") || (strings.HasSuffix(k, "#") && !structural) || strings.Contains(k, ".Attr") ||
					strings.Contains(k, "DbNum") || strings.Contains(k, "SqlMap[") || strings.Contains(k, "HttpcMap[") {
					continue
				}
				if want != got[k] {
					rep.Fail("correspondence", "CompositePack:model-field-differs", "field "+k+": the pack-tree model delivers "+vh.Clip(got[k], 120)+", Go's reader stored "+vh.Clip(want, 120),
						map[string]interface{}{"type": c.Type, "path": k, "bytes": vh.Clip(vh.Hex(rq.body), 20000)})
					break
				}
			}
			n := 0
			for k := range post {
				if strings.HasSuffix(k, "pack#") || strings.HasSuffix(k, "!") {
					if _, ok := got[k]; !ok {
						n++
					}
				}
			}
			if n > 0 {
				rep.Fail("correspondence", "CompositePack:model-shape-differs", fmt.Sprintf("%d counts / type codes of the decoded CompositePack are missing in the model's tree", n),
					map[string]interface{}{"type": c.Type, "bytes": vh.Clip(vh.Hex(rq.body), 20000)})
			}
		case 'T':
			rep.Count("model:table")
			if o != vh.Hex(rq.body) {
				rep.Fail("correspondence", "StatGeneralPack.writeTable:model-bytes-differ",
					"the model's table layout does not produce the bytes of StatGeneralPack.writeTable: "+diffBytes(rq.body, vh.UnHex(safeHex(o))),
					map[string]interface{}{"type": c.Type, "fields": vh.Clip(tableRecord(c.Pre), 20000), "go_bytes": vh.Clip(vh.Hex(rq.body), 20000), "model": vh.Clip(o, 20000)})
			}
		case 'E':
			rep.Count("model:encode")
			if o != vh.Hex(rq.body) {
				rep.Fail("correspondence", mn+":model-bytes-differ",
					"the model's writer layout does not produce the bytes of "+mn+".Write for this object: "+diffBytes(rq.body, vh.UnHex(safeHex(o))),
					map[string]interface{}{"type": c.Type, "fields": vh.Clip(modelRecord(c), 20000), "go_bytes": vh.Clip(vh.Hex(rq.body), 20000), "model": vh.Clip(o, 20000)})
			}
		case 'D':
			rep.Count("model:decode")
			if !strings.HasPrefix(o, "ok ") {
				rep.Fail("correspondence", mn+":model-decode-fails",
					"the model's reader layout rejects bytes that "+mn+".Read accepts: "+o,
					map[string]interface{}{"type": c.Type, "bytes": vh.Clip(vh.Hex(rq.body), 20000), "model": o})
				continue
			}
			parts := strings.Split(o, " ")
			if len(parts) != 3 {
				rep.Fail("correspondence", "driver:unusable", "unexpected driver answer: "+vh.Clip(o, 200), nil)
				continue
			}
			if parts[2] != "0" {
				rep.Fail("correspondence", mn+":model-leftover",
					"the model's reader leaves "+parts[2]+" bytes that "+mn+".Read consumes",
					map[string]interface{}{"type": c.Type, "bytes": vh.Clip(vh.Hex(rq.body), 20000)})
			}
			got := parseOut(parts[1])
			post := map[string]string{}
			for _, kv := range adapt(c, c.Post, true) {
				post[kv.Path] = kv.Val
			}
			if c.sp.unordered {
				// compare the hash-map tables as multisets of rows, everything else by path
				for _, tab := range unorderedTables {
					a, b := tableRows(got, tab), tableRows(post, tab)
					if strings.Join(a, "|") != strings.Join(b, "|") {
						rep.Fail("correspondence", mn+"."+tab+":model-field-differs", "rows of "+tab+" differ between the model's decode and Go's",
							map[string]interface{}{"type": c.Type, "bytes": vh.Clip(vh.Hex(rq.body), 20000)})
					}
				}
			}
			keys := make([]string, 0, len(got))
			for k := range got {
				keys = append(keys, k)
			}
			sort.Strings(keys)
			for _, k := range keys {
				if strings.HasSuffix(k, "?") { // presence flags: nil-ness of a Go field is not what the flag says
					continue
				}
				if c.sp.unordered && (strings.HasPrefix(k, "SqlMap[") || strings.HasPrefix(k, "HttpcMap[") ||
					strings.HasPrefix(k, "DbNumActive[") || strings.HasPrefix(k, "DbNumIdle[")) {
					continue
				}
				if mn == "EventPack" && strings.HasPrefix(k, "Attr") {
					continue // the wire table is unfolded again by Read; compared through the fields
				}
				want, ok := post[k]
				if !ok && strings.HasSuffix(k, "#") && got[k] == "i:0" {
					continue // a table that stayed nil: no rows either way
				}
				if !ok {
					rep.Fail("correspondence", mn+"."+topField(k)+":model-field-unknown",
						"the model's reader delivers field "+k+" which the dump of the decoded "+mn+" does not have",
						map[string]interface{}{"type": c.Type, "path": k})
					break
				}
				if want != got[k] {
					rep.Fail("correspondence", mn+"."+topField(k)+":model-field-differs",
						"field "+k+": the model's reader delivers "+vh.Clip(got[k], 120)+", Go's reader stored "+vh.Clip(want, 120),
						map[string]interface{}{"type": c.Type, "path": k, "bytes": vh.Clip(vh.Hex(rq.body), 20000)})
					break
				}
			}
		}
	}
	rep.Note("driver comparison: %d request lines over %d types with a model layout", len(lines), len(perType))
}

func safeHex(s string) string {
	for _, ch := range s {
		if !strings.ContainsRune("0123456789abcdef-", ch) {
			return "-"
		}
	}
	return s
}

func sortedKeys(m map[string]string) []string {
	ks := make([]string, 0, len(m))
	for k := range m {
		ks = append(ks, k)
	}
	sort.Strings(ks)
	return ks
}

// rawRecord: the dump as a record, unadapted
func rawRecord(kvs []KV) string {
	var parts []string
	for _, kv := range kvs {
		if kv.Path == "" || strings.ContainsAny(kv.Path, " ;=") || strings.HasPrefix(kv.Val, "?:") {
			continue
		}
		parts = append(parts, kv.Path+"="+kv.Val)
	}
	if len(parts) == 0 {
		return "-"
	}
	return strings.Join(parts, ";")
}

// type codes of the registered packs and the model type each has (for the pack-tree comparison)
var codeType = map[string]string{"i:256": "ParamPack", "i:513": "CounterPack1", "i:768": "ProfilePack", "i:1025": "ActiveStackPack",
	"i:1792": "TextPack", "i:2049": "ErrorSnapPack1", "i:3840": "RealtimeUserPack", "i:2304": "StatServicePack", "i:2320": "StatGeneralPack",
	"i:2560": "StatSqlPack", "i:2816": "StatHttpcPack", "i:3072": "StatErrorPack", "i:4352": "StatRemoteIpPack", "i:4608": "StatUserAgentPack",
	"i:5120": "EventPack", "i:5377": "HitMapPack1", "i:5632": "ExtensionPack", "i:5633": "TagCountPack", "i:5634": "TagLogPack",
	"i:5888": "CompositePack", "i:5898": "LogSinkPack", "i:5899": "ZipPack", "i:5901": "LogSinkZipPack", "i:25856": "ServerInfoPack"}

func codeHasLayout(have map[string]bool, code string) bool {
	t, ok := codeType[code]
	return ok && (t == "CompositePack" || have[t])
}
