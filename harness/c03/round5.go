// Round-5 input classes.
//
//  1. Capacity limits of bounded tables inside packs (util/hmap tables created with SetMax): for every
//     (type, field, limit) the MODEL lists (driver command K = Packs.expectedCaps; tie A regenerates
//     Gen.Packs.caps from the constructors' SetMax literals and C03Gen.caps_as_recorded pins it to that
//     table), packs are sent whose table is built
//     INDEPENDENTLY of the pack's constructor (an unbounded table) with limit-1, limit, limit+1 and
//     sizes well inside / outside.  Oracle = the model: the decoded pack must hold what the model's
//     reader delivers for those bytes, capped by Packs.capRows at the limit (driver DK); the model's
//     writer must give the Go bytes.
//
//  2. Decoding into a USED object: q decodes message A, then the same q decodes message B (B = A with
//     nested record lists emptied / shortened, optional sections dropped, scalars changed).  Every
//     section that B has on the wire must come out exactly as in a fresh decode of B; a section B does
//     not have (absent flag, zero rows, nil) may keep what the object held — as the code has it
//     (Golib/Layout/History.lean: unassigned paths keep their content).  Tables that Read fills with
//     Put without re-creating them merge rows (listed in mergingTables).
package main

import (
	"fmt"
	"reflect"
	"sort"
	"strconv"
	"strings"

	gio "github.com/whatap/golib/io"
	"github.com/whatap/golib/lang/pack"
	"github.com/whatap/golib/lang/service"
	"github.com/whatap/golib/util/hmap"
	"verif/harness/vh"
)

// ---------------------------------------------------------------- 1. capacity limits

type capSpec struct {
	typ, field string
	max        int
}

// limits as recorded (used only when no driver is given: then the oracle is this table)
var capsRecorded = []capSpec{{"StatRemoteIpPack", "IpTable", 10000}, {"StatUserAgentPack", "UserAgents", 500}}

func modelCaps(env *vh.Env) []capSpec {
	if env.Driver == "" {
		return capsRecorded
	}
	outs, err := vh.RunDriver(env.Driver, []string{"K"})
	if err != nil || len(outs) != 1 {
		return capsRecorded
	}
	var cs []capSpec
	for _, e := range strings.Split(outs[0], ",") {
		p := strings.Split(e, ":")
		if len(p) == 3 {
			m, _ := strconv.Atoi(p[2])
			cs = append(cs, capSpec{p[0], p[1], m})
		}
	}
	return cs
}

func capacityPhase(x *runCtx) {
	for _, cs := range modelCaps(x.env) {
		sp := specByName[cs.typ]
		if sp == nil || cs.max <= 0 {
			x.rep.Fail("correspondence", cs.typ+"."+cs.field+":capacity-unknown-type", "the model lists a bounded table of a type the harness does not know", nil)
			continue
		}
		sizes := []int{0, 1, cs.max / 2, cs.max - 1, cs.max, cs.max + 1, cs.max + 137, 2*cs.max + 1}
		var cases []*Case
		var lines []string
		for _, n := range sizes {
			c := &Case{Type: cs.typ + ".capacity"} // no sp: compared with the model here (DK), not by the generic D stage
			key := cs.typ + "." + cs.field
			obj := sp.gen(&G{r: vh.NewRng(x.g.r.U64()), thorough: x.env.Thorough, small: 1})
			// a table built independently of the pack's constructor: unbounded, n distinct keys
			tbl := hmap.NewIntIntLinkedMap()
			base := int32(x.g.r.U64())
			for i := 0; i < n; i++ {
				tbl.Put(base+int32(i)*7919, int32(x.g.r.U64()))
			}
			setField(obj, cs.field, tbl)
			c.Pre = Dump(obj)
			c.canon = fmt.Sprintf("%s:capacity:%d", key, n)
			c.nontrivial = n > 0
			c.buckets = append(c.buckets, fmt.Sprintf("capacity:%s:n=%d(limit %d)", key, n, cs.max))
			var q interface{}
			left := 0
			if oc := guard(func() { c.Bytes = sp.encode(obj); q, left = sp.decode(c.Bytes) }); !oc.OK() || left != 0 {
				c.fail(key+":capacity-panic", fmt.Sprintf("a wire table of %d rows (limit %d): %s left=%d", n, cs.max, vh.Clip(oc.Panic, 200), left), oc.Panic)
				cases = append(cases, c)
				continue
			}
			c.Post = Dump(q)
			// direct evaluation: the last min(n, limit) rows, in order
			keep := n
			if keep > cs.max {
				keep = cs.max
			}
			want := map[string]string{cs.field + "#": iv(int64(keep))}
			for i := 0; i < keep; i++ {
				src := fmt.Sprintf("%s[%d]", cs.field, n-keep+i)
				dst := fmt.Sprintf("%s[%d]", cs.field, i)
				want[dst+".key"] = kvGet(c.Pre, src+".key")
				want[dst+".val"] = kvGet(c.Pre, src+".val")
			}
			got := map[string]string{}
			for _, kv := range c.Post {
				if strings.HasPrefix(kv.Path, cs.field+"[") || kv.Path == cs.field+"#" {
					got[kv.Path] = kv.Val
				}
			}
			if d := mapDiff(want, got); d != "" {
				c.fail(key+":capacity-differs", fmt.Sprintf("a wire table of %d rows into the table bounded by %d (the limit the model records): the decoded pack must hold the last %d rows, in order: %s", n, cs.max, keep, d), d)
			}
			if x.env.Driver != "" && len(c.fails) == 0 {
				lines = append(lines, "E "+cs.typ+" "+rawRecord(c.Pre), "DK "+cs.typ+" "+vh.Hex(c.Bytes[2:]))
			}
			cases = append(cases, c)
		}
		if len(lines) > 0 {
			outs, err := vh.RunDriver(x.env.Driver, lines)
			if err == nil {
				i := 0
				for _, c := range cases {
					if len(c.fails) > 0 {
						continue
					}
					e, dk := outs[i], outs[i+1]
					i += 2
					x.rep.Count("model:capacity")
					if e != vh.Hex(c.Bytes[2:]) {
						x.rep.Fail("correspondence", cs.typ+":model-bytes-differ", "capacity case "+c.canon+": the model's writer layout does not give the Go bytes",
							map[string]interface{}{"type": cs.typ, "case": c.canon})
					}
					if !strings.HasPrefix(dk, "ok ") {
						x.rep.Fail("correspondence", cs.typ+":model-decode-fails", "capacity case "+c.canon+": "+vh.Clip(dk, 100), map[string]interface{}{"type": cs.typ, "case": c.canon})
						continue
					}
					model := parseOut(strings.Split(dk, " ")[1])
					post := map[string]string{}
					for _, kv := range c.Post {
						post[kv.Path] = kv.Val
					}
					for _, k := range sortedKeys(model) {
						if strings.HasSuffix(k, "?") {
							continue
						}
						if post[k] != model[k] {
							c.fail(cs.typ+"."+cs.field+":capacity-differs", fmt.Sprintf("%s: the model (reader layout, then the table bounded at %d keeps its last rows) delivers %s=%s, the decoded pack holds %s",
								c.canon, cs.max, k, vh.Clip(model[k], 60), vh.Clip(post[k], 60)), k)
							break
						}
					}
				}
			}
		}
		x.report(cases)
	}
}

func mapDiff(want, got map[string]string) string {
	for _, k := range sortedKeys(want) {
		if got[k] != want[k] {
			return fmt.Sprintf("%s: want %s, decoded %s", k, vh.Clip(want[k], 40), vh.Clip(got[k], 40))
		}
	}
	var extra []string
	for k := range got {
		if _, ok := want[k]; !ok {
			extra = append(extra, k)
		}
	}
	sort.Strings(extra)
	if len(extra) > 0 {
		return fmt.Sprintf("%d rows too many, first %s", len(extra)/2, extra[0])
	}
	return ""
}

// ---------------------------------------------------------------- 2. decoding into a used object

// tables that Read fills with Put on the table it finds in the object (no re-creation): re-use merges
var mergingTables = map[string]bool{
	"StatRemoteIpPack.IpTable": true, "StatUserAgentPack.UserAgents": true, "ParamPack.table": true,
	"EventPack.Attr": true, "StatGeneralPack.data": true, "StatGeneralPack/1.data": true,
}

// scalars that Read assigns only inside a conditional section (they keep the old value when B has no
// such section): TxRecord's multi-trace / caller blocks, EventPack.Uuid (only when the key is present),
// AbstractPack's Okind/Onode.  Tolerated only where a fresh decode of B has the zero value.
var conditionalScalars = map[string]bool{
	"Mtid": true, "Mdepth": true, "Mcaller": true, "McallerPcode": true, "McallerOkind": true, "McallerOid": true,
	"McallerSpec": true, "McallerUrl": true, "MthisSpec": true, "Uuid": true,
	// AbstractPack writes Okind/Onode only when one of them is non-zero (version byte 9), Read assigns them only then
	"Okind": true, "Onode": true,
}

// emptyNested empties / shortens nested record lists and drops optional struct sections of o, at random
func emptyNested(r *vh.Rng, rv reflect.Value, depth int) {
	if depth > 5 {
		return
	}
	switch rv.Kind() {
	case reflect.Ptr:
		if !rv.IsNil() && rv.Elem().Kind() == reflect.Struct && strings.HasSuffix(rv.Type().Elem().PkgPath(), "lang/pack") {
			emptyNested(r, rv.Elem(), depth+1)
		}
	case reflect.Interface:
		if !rv.IsNil() {
			emptyNested(r, rv.Elem(), depth+1)
		}
	case reflect.Struct:
		t := rv.Type()
		for i := 0; i < t.NumField(); i++ {
			if t.Field(i).Type == mutexType {
				continue
			}
			fv := access(rv.Field(i))
			if !fv.CanSet() {
				continue
			}
			switch fv.Kind() {
			case reflect.Slice:
				ek := fv.Type().Elem().Kind()
				if ek != reflect.Struct && ek != reflect.Interface && ek != reflect.Ptr {
					continue
				}
				switch n := fv.Len(); {
				case n > 0 && r.Chance(40):
					fv.Set(reflect.Zero(fv.Type())) // emptied
				case n > 1 && r.Chance(30):
					fv.Set(fv.Slice(0, 1+r.Intn(n-1))) // shortened
				}
				for j := 0; j < fv.Len(); j++ {
					emptyNested(r, fv.Index(j), depth+1)
				}
			case reflect.Ptr:
				if !fv.IsNil() && fv.Type().Elem().Kind() == reflect.Struct && strings.HasSuffix(fv.Type().Elem().PkgPath(), "lang/pack") {
					if r.Chance(25) && t.Name() == "CounterPack1" {
						fv.Set(reflect.Zero(fv.Type())) // optional section dropped
					} else {
						emptyNested(r, fv, depth+1)
					}
				}
			case reflect.Struct, reflect.Interface:
				emptyNested(r, fv, depth+1)
			}
		}
	}
}

// readInto decodes b into the existing object q (a second Read on the same object)
func readInto(sp *spec, q interface{}, b []byte) (left int, ok bool) {
	in := gio.NewDataInputX(b)
	switch sp.class {
	case clsRegistered, clsUnregistered:
		p, isPack := q.(pack.Pack)
		if !isPack {
			return 0, false
		}
		in.ReadShort()
		p.Read(in)
	default:
		switch t := q.(type) {
		case *service.TxRecord:
			t.Read(in)
		case *pack.SqlRec:
			t.Read(in)
		case *pack.HttpcRec:
			t.Read(in)
		case *pack.TimeCount:
			t.Read(in)
		case rw:
			t.Read(in)
		default:
			return 0, false // decoded by a function that creates the record: nothing to re-use
		}
	}
	return int(in.Available()), true
}

func topOf(path string) string {
	for i, ch := range path {
		if ch == '.' || ch == '[' || ch == '?' || ch == '#' || ch == '!' {
			return path[:i]
		}
	}
	return path
}

func redecodeJob(sp *spec, g *G) job {
	seedA, seedC, seedM := g.r.U64(), g.r.U64(), g.r.U64()
	mk := func(seed uint64) interface{} { return sp.gen(&G{r: vh.NewRng(seed), thorough: g.thorough}) }
	a, b, src := mk(seedA), mk(seedA), mk(seedC)
	return job{func() *Case {
		name := strings.TrimSuffix(sp.name, "/1")
		c := &Case{Type: sp.name + ".redecode"}
		c.Pre = Dump(a)
		c.canon = c.Type + ":" + DumpString(c.Pre)
		// B: A with nested lists emptied / shortened, sections dropped, some scalars changed
		emptyNested(vh.NewRng(seedM), reflect.ValueOf(b).Elem(), 0)
		var changed []string
		if seedM%2 == 0 {
			changed = mutateScalars(name, b, src, seedM)
		}
		var ba, bb []byte
		if oc := guard(func() { ba = sp.encode(a); bb = sp.encode(b) }); !oc.OK() {
			return c
		}
		c.Bytes = bb
		c.nontrivial = true
		var used, fresh interface{}
		okInto := true
		if oc := guard(func() {
			used, _ = sp.decode(ba)
			fresh, _ = sp.decode(bb)
			_, okInto = readInto(sp, used, bb)
		}); !oc.OK() {
			if okInto {
				c.fail(name+".redecode:panic", "decoding a second message into an object that already decoded one panicked: "+vh.Clip(oc.Panic, 200), oc.Panic)
			}
			return c
		}
		if !okInto {
			c.buckets = append(c.buckets, "redecode:not-applicable")
			return c
		}
		fd := carried(Dump(fresh), carryOpt{drop: sp.drop})
		ud := carried(Dump(used), carryOpt{drop: sp.drop})
		// which top-level fields does B have on the wire?
		absent := map[string]bool{}
		for _, kv := range fd {
			t := topOf(kv.Path)
			rest := kv.Path[len(t):]
			if (rest == "?" || rest == "#" || rest == "!") && kv.Val == "i:0" {
				absent[t] = true
			}
			if rest == "" && (kv.Val == "v:map,0" || kv.Val == "v:imap,0") {
				absent[t] = true
			}
		}
		um := map[string]string{}
		for _, kv := range ud {
			um[kv.Path] = kv.Val
		}
		fm := map[string]bool{}
		for _, kv := range fd {
			fm[kv.Path] = true
			t := topOf(kv.Path)
			if absent[t] || mergingTables[sp.name+"."+t] {
				continue
			}
			if conditionalScalars[lastName(kv.Path)] && (kv.Val == "i:0" || kv.Val == "b:-") {
				continue
			}
			if got, ok := um[kv.Path]; !ok || got != kv.Val {
				if !ok {
					got = "<absent>"
				}
				c.fail(failKey(name, t, "stale-after-redecode", nil),
					fmt.Sprintf("message B decoded into an object that had decoded message A differs from a fresh decode of B in a section B carries: %s: fresh %s, re-used %s", kv.Path, vh.Clip(kv.Val, 80), vh.Clip(got, 80)),
					fmt.Sprintf("A=%s; B: nested lists emptied/shortened, scalars changed: %s; path %s", vh.Clip(vh.Hex(ba), 4000), strings.Join(changed, ","), kv.Path))
				return c
			}
		}
		// rows / elements the re-used object holds beyond what B carries (in sections B has)
		for _, kv := range ud {
			t := topOf(kv.Path)
			if fm[kv.Path] || absent[t] || mergingTables[sp.name+"."+t] || !strings.ContainsAny(kv.Path[len(t):], "[") {
				continue
			}
			c.fail(failKey(name, t, "stale-after-redecode", nil),
				fmt.Sprintf("message B decoded into an object that had decoded message A keeps content of A in a section B carries: %s=%s is not in a fresh decode of B", kv.Path, vh.Clip(kv.Val, 80)),
				fmt.Sprintf("A=%s; path %s", vh.Clip(vh.Hex(ba), 4000), kv.Path))
			return c
		}
		return c
	}}
}

// ---------------------------------------------------------------- 3. the factory, every type code

// registryPhase asks the real factory for every 16-bit type code: what it creates must be exactly what
// the model's registry (driver R = Gen.Packs.registry, regenerated from the CreatePack switch) says, must
// declare that same code, and must be a type this harness exercises (a pack type added to the factory
// without a spec here would otherwise go unexamined on the Go side; in Lean C03Gen.covered_agree /
// registered_named pick it up).
func registryPhase(x *runCtx) {
	model := map[int]string{}
	if x.env.Driver != "" {
		outs, err := vh.RunDriver(x.env.Driver, []string{"R"})
		if err == nil && len(outs) == 1 {
			for _, e := range strings.Split(outs[0], ",") {
				if p := strings.Split(e, ":"); len(p) == 2 {
					c, _ := strconv.Atoi(p[0])
					model[c] = p[1]
				}
			}
		}
	}
	listed := map[int16]bool{}
	for _, c := range registeredCodes {
		listed[c] = true
	}
	for code := -32768; code <= 32767; code++ {
		var p pack.Pack
		oc := guard(func() { p = pack.CreatePack(int16(code)) })
		x.rep.Evaluations++
		name := ""
		if oc.OK() && p != nil && !reflect.ValueOf(p).IsNil() {
			name = reflect.TypeOf(p).Elem().Name()
		}
		if !oc.OK() {
			x.rep.Fail("property", "CreatePack:panic", fmt.Sprintf("CreatePack(%d) panicked: %s", code, vh.Clip(oc.Panic, 200)), map[string]interface{}{"code": code})
			continue
		}
		if name != "" {
			x.rep.Count("registry:created")
			if int(p.GetPackType()) != code {
				x.rep.Fail("property", name+":type-code-differs", fmt.Sprintf("CreatePack(%d) creates a %s whose GetPackType() is %d: its encoding would decode as another type", code, name, p.GetPackType()), map[string]interface{}{"code": code})
			}
			if !listed[int16(code)] || specByName[name] == nil {
				x.rep.Fail("correspondence", name+":no-harness-spec", fmt.Sprintf("CreatePack(%d) creates a %s, a type the harness has no generator/spec for", code, name), map[string]interface{}{"code": code})
			}
		}
		if len(model) > 0 && model[code] != name {
			x.rep.Fail("correspondence", "CreatePack:model-registry-differs", fmt.Sprintf("CreatePack(%d): Go creates %q, the regenerated registry says %q", code, name, model[code]), map[string]interface{}{"code": code})
		}
	}
}
