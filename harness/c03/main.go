// Correspondence harness for C03: every pack type survives type-tagged
// serialize/deserialize with all carried fields intact.
//
// The property is evaluated DIRECTLY on the real code (lang/pack, lang/service,
// lang/value): per generated object the concrete type, every carried field,
// exact consumption and byte-identical re-encoding are checked; containers and
// record-list packs must return their inner packs / records unchanged, in order,
// stamped with the container's identity.  When a driver is given, the kept
// cases (type, pre-write dump, bytes, post-read dump) are handed to driverChecks.
//
// Process structure: the run is split into phases (the witnesses, one phase per
// type, one per container / record-list kind).  Each phase runs in a child
// process of this executable, because a desynchronised decoder can request an
// allocation that the Go runtime answers with a fatal (unrecoverable) error; the
// parent turns a dead child into a "<Type>:decode-crash" failure whose replay is
// the case that a sequential re-run of the phase was decoding when it died.
package main

import (
	"encoding/json"
	"flag"
	"fmt"
	"os"
	"os/exec"
	"path/filepath"
	"runtime"
	"strconv"
	"strings"
	"sync"
	"syscall"

	"verif/harness/vh"
)

// cases kept for the driver comparison (only when a driver is given).
var cases []*Case

// driverChecks compares the kept cases with the Lean model (drv_c03): see driver.go.
// Each Case carries Type, Pre (dump before writing), Bytes (the encoding) and Post
// (dump of the decoded object).
// It is called once per phase (inside the phase's process) with that phase's cases.
func driverChecks(env *vh.Env, rep *vh.Report, cases []*Case) {
	driverChecksImpl(env, rep, cases)
}

var (
	childPhase = flag.Int("child", -1, "internal: run only this phase and write a partial report")
	traceFile  = flag.String("trace", "", "internal: evaluate sequentially and record the case being decoded in this file")
	noFork     = flag.Bool("nofork", false, "run all phases in this process (debugging)")
)

type knownSet map[string]bool

// loadKnown reads the keys listed open for C03 in $VERIF_ROOT/known_findings.json.
func loadKnown() knownSet {
	root := os.Getenv("VERIF_ROOT")
	if root == "" {
		root = "/verif"
	}
	out := knownSet{}
	b, err := os.ReadFile(root + "/known_findings.json")
	if err != nil {
		return out
	}
	var f struct {
		Findings []struct {
			Property, Status, Key string
		} `json:"findings"`
	}
	if json.Unmarshal(b, &f) != nil {
		return out
	}
	for _, e := range f.Findings {
		if e.Property == "C03" && e.Status == "open" {
			out[e.Key] = true
		}
	}
	return out
}

type replayFile struct {
	Key   string                   `json:"key"`
	Tier  string                   `json:"tier"`
	Seed  uint64                   `json:"seed"`
	Cases []map[string]interface{} `json:"cases"`
}

func runJobs(jobs []job) []*Case {
	out := make([]*Case, len(jobs))
	workers := runtime.NumCPU()
	if workers > 16 {
		workers = 16
	}
	if *traceFile != "" {
		workers = 1
	}
	var wg sync.WaitGroup
	ch := make(chan int, len(jobs))
	for i := range jobs {
		ch <- i
	}
	close(ch)
	for w := 0; w < workers; w++ {
		wg.Add(1)
		go func() {
			defer wg.Done()
			for i := range ch {
				i := i
				if oc := guard(func() { out[i] = jobs[i].eval() }); !oc.OK() {
					// a panic outside the guarded calls is a harness defect, made visible as such
					c := &Case{Type: "harness"}
					c.fail("harness:panic", "the harness itself panicked: "+vh.Clip(oc.Panic, 300), oc.Panic)
					out[i] = c
				}
			}
		}()
	}
	wg.Wait()
	return out
}

// trace records the case about to be decoded (sequential re-run of a phase whose child died).
func trace(c *Case) {
	if *traceFile == "" {
		return
	}
	b, _ := json.Marshal(map[string]interface{}{"type": c.Type, "fields": vh.Clip(DumpString(c.Pre), 20000), "bytes": vh.Clip(vh.Hex(c.Bytes), 20000)})
	os.WriteFile(*traceFile, b, 0o644)
}

// ---------------------------------------------------------------- phases

type phase struct {
	name string
	run  func(x *runCtx)
}

type runCtx struct {
	env       *vh.Env
	rep       *vh.Report
	g         *G
	known     knownSet
	filterKey string
	base      int
	sampled   map[string]bool
	keptPer   map[string]int
}

const chunk = 2000 // objects generated, evaluated and reported per batch (bounds memory)

func (x *runCtx) report(cs []*Case) {
	keep := x.env.Driver != ""
	maxKeep := 300
	if x.env.Thorough {
		maxKeep = 1000
	}
	for _, c := range cs {
		c.classify()
		x.rep.Case(c.canon, c.nontrivial)
		x.rep.Evaluations += c.extra
		for _, b := range c.buckets {
			x.rep.Count(b)
		}
		if !x.sampled[c.Type] && c.nontrivial && len(c.Bytes) < 400 && len(c.fails) == 0 {
			x.sampled[c.Type] = true
			x.rep.Sample(map[string]interface{}{"type": c.Type, "fields": vh.Clip(DumpString(c.Pre), 1500), "bytes": vh.Hex(c.Bytes)})
		}
		for _, f := range c.fails {
			if x.filterKey != "" && f.key != x.filterKey {
				continue
			}
			x.rep.Fail("property", f.key, f.summary, f.replay)
		}
		c.obj = nil
		if keep && c.sp != nil && x.keptPer[c.Type] < maxKeep {
			cases = append(cases, c)
			x.keptPer[c.Type]++
		}
	}
}

func (x *runCtx) batches(n int, mk func() job) {
	step := chunk
	if *traceFile != "" {
		step = 100 // sequential re-run after a crash: save what completes
	}
	for off := 0; off < n; off += step {
		m := n - off
		if m > step {
			m = step
		}
		jobs := make([]job, m)
		for i := range jobs {
			jobs[i] = mk()
		}
		x.report(runJobs(jobs))
		if *childPhase >= 0 {
			x.rep.Write(x.env.Out) // partial report: survives a fatal error in a later batch
		}
	}
}

func buildPhases() []phase {
	var ps []phase
	ps = append(ps, phase{"witnesses", func(x *runCtx) {
		// deterministic witnesses of the defects found so far
		for _, w := range witnesses {
			var still bool
			var what string
			if oc := guard(func() { still, what = w.fn() }); !oc.OK() {
				still, what = true, "witness panicked: "+oc.Panic
			}
			x.rep.Count("witness")
			if x.known[w.key] {
				x.rep.KnownReplay(w.key, still, w.id+": "+what)
			} else if still && (x.filterKey == "" || x.filterKey == w.key) {
				x.rep.Fail("property", w.key, w.id+" witness: "+what, map[string]interface{}{"witness": w.id, "what": what})
			}
		}
	}})
	// plain round trip, type by type (generate sequentially, evaluate in parallel, report in order)
	for _, sp := range specs {
		sp := sp
		ps = append(ps, phase{sp.name, func(x *runCtx) {
			x.batches(x.base*sp.n/100, func() job {
				obj := sp.gen(x.g)
				return job{func() *Case { return checkRoundtrip(sp, obj) }}
			})
			// re-use of a pack object: encode, change fields, encode again (classes.go)
			x.batches(x.base*sp.n/100/25, func() job { return reuseJob(sp, x.g) })
			// decoding a second message into the object that decoded the first (round5.go)
			x.batches(x.base*sp.n/100/10, func() job { return redecodeJob(sp, x.g) })
			// deterministic sweep: every byte-string leaf × every special-content value (special.go)
			sweep := specialSweepJobs(sp, x.g)
			si := 0
			x.batches(len(sweep), func() job { si++; return sweep[si-1] })
		}})
	}
	// capacity limits of the bounded tables the model lists (round5.go)
	ps = append(ps, phase{"capacity", capacityPhase})
	// the factory on every 16-bit type code against the regenerated registry (round5.go)
	ps = append(ps, phase{"registry", registryPhase})
	// containers and record lists
	ps = append(ps, phase{"ZipPack.records", func(x *runCtx) { x.batches(x.base/4, func() job { return zipJob(x.g) }) }})
	ps = append(ps, phase{"LogSinkZipPack.records", func(x *runCtx) {
		x.batches(x.base/4, func() job { return logSinkZipJob(x.g) })
		// payloads of about 1, 8-, 8+ and 20 MiB through the compressing container
		rounds := 1
		if x.env.Thorough {
			rounds = 3
		}
		i := 0
		x.batches(rounds*len(bigPayloadTargets), func() job { i++; return bigLogSinkZipJob(x.g, bigPayloadTargets[(i-1)%len(bigPayloadTargets)]) })
	}})
	for _, k := range recKinds {
		k := k
		ps = append(ps, phase{k.packName + ".records", func(x *runCtx) {
			x.batches(x.base/4, func() job { return recordsJob(x.g, k) })
			// tables at the boundaries of the 16-bit count field
			rounds := 1
			if x.env.Thorough {
				rounds = 3
			}
			i := 0
			x.batches(rounds*len(recCountBoundaries), func() job { i++; return boundaryRecordsJob(x.g, k, recCountBoundaries[(i-1)%len(recCountBoundaries)]) })
		}})
	}
	// the public API: constructors, setters, Put/Add methods, getters, ToBytesPackECB, DoZip/UnZip (api.go);
	// last, so that the seeds of the earlier phases are what they were
	ps = append(ps, phase{"api", apiPhase})
	return ps
}

func describe(rep *vh.Report) {
	rep.Rule = "per pack / record / element type: objects built from the type's constructor and filled by reflection " +
		"(integer boundaries of every width, float bit patterns incl. NaN payloads, strings of length 0..70000 with arbitrary bytes, " +
		"nil vs empty vs populated optional sections, tables of 0..300 rows, all 20 value types nested to depth 3, both header forms, " +
		"nested packs to depth 3); containers and record lists with 0..300 items, record lists also at the 16-bit count boundaries 0,1,255,256,32767,32768,65535, " +
		"every string/blob drawn from a pool of special content (binary and text addresses incl. IPv4-mapped/-compatible 16-byte forms, lengths 0..32, UTF-8 edge cases, numeric-looking text, blanks, NULs) with 18 % probability, plus a deterministic sweep byte-string leaf x pool value per type; " +
		"compressed container payloads of 1, 8-, 8+ and 20 MiB; every type also re-used (encode, change scalar fields incl. back to zero, encode again vs a fresh pack; repeat encoding; buffer aliasing); " +
		"non-trivial = the encoding is longer than the bare type tag + header; distinct = distinct type+field dumps"
	rep.Note("format caps respected by the generators (limits of the wire format, not defects): HitMapPack1.Hit/Error carried as unsigned 16 bit (values 0..65535, exactly 120 slots); " +
		"EventPack attribute count is one byte (<= 250 user attributes, the four reserved keys _esca_/_uuid_/_status_/_otype_ are not used as user keys); " +
		"CounterPack1 short arrays, TxMeter.Acts, SMBasePack.CpuCore and TxRecord.Fields have a one-byte count (<= 255); array values have a signed 16-bit count (<= 32767); " +
		"ServerInfoPack.Version is written as 3 bytes (signed 24 bit); record lists / CompositePack have a 16-bit count; TransactionRec versions 0/1 (old layout) are rejected by the reader, versions >= 5 read like 4")
	rep.Note("well-formedness assumed by Write (nil would panic in Write, constructors or callers provide them): TagCountPack/TagLogPack/LogSinkPack.Tags, Data/Fields of the tag packs, EventPack.Attr, ExtensionPack.Header/Value, " +
		"ServerInfoPack.Attr, ProfilePack.Transaction, SMBasePack.Cpu/Memory, SMExtension header/values/meta; SMBasePack.OS in {LINUX,WINDOW,OSX,HPUX,AIX} with Cpu/Memory of the layout OS selects (CpuOSX == CpuLinux layout)")
	rep.Note("carried projection: see notCarried / nilEqEmpty in check.go; CounterPack1.DbNumActive/DbNumIdle are one section (present only if both are non-nil); " +
		"unordered hash maps (IntIntMap, IntKeyMap) are compared sorted by key and a re-encoding may permute their rows (bucket reencode:hash-map-rows-permuted); " +
		"StatGeneralPack's table is compared through GetDataTable()")
}

// applyReplay switches the run to the recorded seed/tier and returns the recorded key.
func applyReplay(env *vh.Env, rep *vh.Report) (string, *replayFile) {
	if env.Replay == "" {
		return "", nil
	}
	b, err := os.ReadFile(env.Replay)
	if err != nil {
		vh.Die("cannot read replay file: %v", err)
	}
	var rf replayFile
	if err := json.Unmarshal(b, &rf); err != nil {
		vh.Die("cannot parse replay file: %v", err)
	}
	// best effort: re-run the recorded seed/tier and report only the recorded key;
	// in addition the recorded bytes are decoded again (witness phase)
	if rf.Seed != 0 {
		env.Seed = rf.Seed
	}
	if rf.Tier != "" {
		env.Tier = rf.Tier
		env.Thorough = rf.Tier == "thorough"
		rep.Tier = rf.Tier
	}
	rep.Seed = env.Seed
	return rf.Key, &rf
}

func runPhase(env *vh.Env, rep *vh.Report, phases []phase, i int, filterKey string, rf *replayFile) {
	base := 3000
	if env.Thorough {
		base = 30000
	}
	x := &runCtx{env: env, rep: rep, known: loadKnown(), filterKey: filterKey, base: base,
		g:       &G{r: vh.NewRng(env.Seed + uint64(i)<<32), thorough: env.Thorough},
		sampled: map[string]bool{}, keptPer: map[string]int{}}
	if i == 0 && rf != nil {
		for _, rc := range rf.Cases {
			replayBytes(rep, rc, filterKey)
		}
	}
	phases[i].run(x)
	if env.Driver != "" && len(cases) > 0 {
		driverChecks(env, rep, cases)
		rep.Extra["kept_cases"] = len(cases)
		cases = nil
	}
}

func main() {
	env, rep := vh.Parse("C03")
	buildSpecs()
	phases := buildPhases()
	filterKey, rf := applyReplay(env, rep)

	if *childPhase >= 0 {
		// child: one phase, partial report
		limitMemory()
		runProbes()
		if *childPhase >= len(phases) {
			vh.Die("no phase %d", *childPhase)
		}
		runPhase(env, rep, phases, *childPhase, filterKey, rf)
		rep.Write(env.Out)
		return
	}

	describe(rep)
	rep.Extra["types"] = len(specs)
	rep.Extra["phases"] = len(phases)
	if *noFork {
		runProbes()
		for i := range phases {
			runPhase(env, rep, phases, i, filterKey, rf)
		}
		rep.Write(env.Out)
		return
	}

	// parent: run every phase in a child process, merge the partial reports in phase order
	tmp, err := os.MkdirTemp("", "c03-phases-")
	if err != nil {
		vh.Die("%v", err)
	}
	defer os.RemoveAll(tmp)
	results := make([]*childResult, len(phases))
	sem := make(chan struct{}, 4)
	var wg sync.WaitGroup
	for i := range phases {
		wg.Add(1)
		go func(i int) {
			defer wg.Done()
			sem <- struct{}{}
			defer func() { <-sem }()
			results[i] = runChild(env, tmp, i, false)
			if results[i].died {
				// the child died: re-run the phase sequentially with a trace of the case being decoded
				results[i].retry = runChild(env, tmp, i, true)
			}
		}(i)
	}
	wg.Wait()
	evals, distinct, kept := 0, 0, 0
	for i, r := range results {
		src := r.rep
		if r.died {
			key := phases[i].name + ":decode-crash"
			replay := map[string]interface{}{"type": phases[i].name, "phase": i, "seed": env.Seed, "tier": env.Tier, "stderr": r.stderr}
			if r.retry != nil {
				if t, err := os.ReadFile(r.retry.trace); err == nil {
					var m map[string]interface{}
					if json.Unmarshal(t, &m) == nil {
						for k, v := range m {
							replay[k] = v
						}
					}
				}
				if r.retry.rep != nil {
					src = r.retry.rep // what the sequential run completed (all of it if it survived)
				}
				if r.retry.died {
					replay["stderr"] = r.retry.stderr
				} else {
					replay["note"] = "the sequential re-run survived: the traced case is the last one evaluated, not necessarily the culprit"
				}
			}
			if filterKey == "" || filterKey == key {
				rep.Fail("property", key, "the process died while round-tripping "+phases[i].name+" (fatal runtime error, e.g. an unbounded allocation requested by the decoder): "+firstLine(r.stderr), replay)
			}
		}
		if src == nil {
			continue
		}
		evals += src.Evaluations
		distinct += src.Distinct
		for b, n := range src.Distribution {
			rep.CountN(b, n)
		}
		for _, s := range src.Samples {
			if i%9 == 1 || len(rep.Samples) < 3 {
				rep.Sample(s)
			}
		}
		per := map[string]int{}
		for _, f := range src.Failures {
			rep.Fail(f.Kind, f.Key, f.Summary, f.Replay)
			per[f.Key]++
		}
		if fc, ok := src.Extra["failure_counts"].(map[string]interface{}); ok {
			for k, v := range fc {
				n, _ := v.(float64)
				for j := per[k]; j < int(n); j++ {
					rep.Fail("property", k, "", nil) // only counted: three replays per key are kept
				}
			}
		}
		for _, k := range src.Known {
			rep.KnownReplay(k.Key, k.StillFails, k.What)
		}
		if n, ok := src.Extra["kept_cases"].(float64); ok {
			kept += int(n)
		}
	}
	// distinct non-trivial cases are disjoint between phases (different types): they add up
	for k := 0; k < distinct; k++ {
		rep.Case("#"+strconv.Itoa(k), true)
	}
	rep.Evaluations = evals
	rep.Extra["kept_cases"] = kept
	rep.Write(env.Out)
}

type childResult struct {
	died   bool
	rep    *vh.Report // possibly partial when died
	stderr string
	trace  string
	retry  *childResult
}

func runChild(env *vh.Env, tmp string, i int, traced bool) *childResult {
	out := filepath.Join(tmp, fmt.Sprintf("phase-%d.json", i))
	args := []string{"-child", strconv.Itoa(i), "-driver", env.Driver, "-tier", env.Tier, "-seed", strconv.FormatUint(env.Seed, 10),
		"-out", out, "-repo", env.Repo}
	if env.Replay != "" {
		args = append(args, "-replay", env.Replay)
	}
	res := &childResult{}
	if traced {
		res.trace = filepath.Join(tmp, fmt.Sprintf("trace-%d.json", i))
		out = filepath.Join(tmp, fmt.Sprintf("phase-%d-seq.json", i))
		args[9] = out
		args = append(args, "-trace", res.trace)
	}
	os.Remove(out)
	cmd := exec.Command(os.Args[0], args...)
	var errb strings.Builder
	cmd.Stderr = &errb
	err := cmd.Run()
	res.stderr = vh.Clip(errb.String(), 1500)
	res.died = err != nil
	b, rerr := os.ReadFile(out)
	if rerr != nil {
		return res
	}
	var r vh.Report
	if json.Unmarshal(b, &r) != nil {
		return res
	}
	res.rep = &r
	return res
}

func firstLine(s string) string {
	if i := strings.IndexByte(s, '\n'); i >= 0 {
		return s[:i]
	}
	return s
}

// limitMemory caps the address space of a child so that a runaway allocation
// fails fast instead of exhausting the machine.
func limitMemory() {
	const lim = 12 << 30
	var rl syscall.Rlimit
	if syscall.Getrlimit(syscall.RLIMIT_AS, &rl) == nil && (rl.Cur == ^uint64(0) || rl.Cur > lim) {
		rl.Cur = lim
		syscall.Setrlimit(syscall.RLIMIT_AS, &rl)
	}
}

// replayBytes decodes the recorded encoding again with the recorded type's decoder
// and, when it decodes, runs the round-trip check on the decoded object.
func replayBytes(rep *vh.Report, rc map[string]interface{}, key string) {
	typ, _ := rc["type"].(string)
	hexs, _ := rc["bytes"].(string)
	sp := specByName[typ]
	if sp == nil || hexs == "" || hexs == "-" {
		return
	}
	var b []byte
	if oc := guard(func() { b = vh.UnHex(hexs) }); !oc.OK() {
		return // clipped in the report
	}
	var q interface{}
	if oc := guard(func() { q, _ = sp.decode(b) }); !oc.OK() {
		rep.Fail("property", key, "replay: decoding the recorded bytes panics: "+vh.Clip(oc.Panic, 200),
			map[string]interface{}{"type": typ, "bytes": hexs, "got": oc.Panic})
		return
	}
	c := checkRoundtrip(sp, q)
	rep.Case("replay:"+c.canon, true)
	for _, f := range c.fails {
		rep.Fail("property", f.key, "replay (object rebuilt from the recorded bytes): "+f.summary, f.replay)
	}
	fmt.Fprintf(os.Stderr, "replayed %s: %d failure(s)\n", typ, len(c.fails))
}
