package main

// RequestDoubleQueue keeps its four callbacks in unexported fields and offers no setter (through
// the public API they can never be installed — recorded in notes/C11.md).  To observe what the
// code hands to them, the harness installs callbacks by reflection.

import (
	"reflect"
	"strconv"
	"unsafe"

	"github.com/whatap/golib/util/queue"
)

func setField(obj interface{}, name string, f func(interface{})) bool {
	v := reflect.ValueOf(obj).Elem().FieldByName(name)
	if !v.IsValid() || v.Type() != reflect.TypeOf(f) {
		return false
	}
	reflect.NewAt(v.Type(), unsafe.Pointer(v.UnsafeAddr())).Elem().Set(reflect.ValueOf(f))
	return true
}

// setDoubleCB installs one failed and one overflowed callback on both queues.
func setDoubleCB(d *queue.RequestDoubleQueue, failed, overflowed func(interface{})) bool {
	ok := setField(d, "failed1", failed)
	ok = setField(d, "failed2", failed) && ok
	ok = setField(d, "overflowed1", overflowed) && ok
	ok = setField(d, "overflowed2", overflowed) && ok
	return ok
}

func setDoubleCallbacks(im *impl) {
	mk := func(tag string) func(interface{}) {
		return func(v interface{}) { im.cb.evs = append(im.cb.evs, tag+strconv.Itoa(unelem(v))) }
	}
	im.cbOK = setField(im.d, "failed1", mk("1:F"))
	im.cbOK = setField(im.d, "failed2", mk("2:F")) && im.cbOK
	im.cbOK = setField(im.d, "overflowed1", mk("1:O")) && im.cbOK
	im.cbOK = setField(im.d, "overflowed2", mk("2:O")) && im.cbOK
}
