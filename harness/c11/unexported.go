package main

// RequestDoubleQueue keeps its four callbacks in unexported fields and offers no setter (through
// the public API they can never be installed — recorded in notes/C11.md).  To observe what the
// code hands to them, the harness installs callbacks by reflection.

import (
	"reflect"
	"strconv"
	"sync"
	"sync/atomic"
	"time"
	"unsafe"

	"github.com/whatap/golib/util/queue"
)

func setField(obj interface{}, name string, f func(interface{})) bool {
	v := reflect.ValueOf(obj).Elem().FieldByName(name)
	if !v.IsValid() || v.Type() != reflect.TypeOf(f) {
		return false
	}
	reflect.NewAt(v.Type(), unsafe.Pointer(v.UnsafeAddr())).Elem().Set(reflect.ValueOf(f))
	return true
}

// setDoubleCB installs one failed and one overflowed callback on both queues.
func setDoubleCB(d *queue.RequestDoubleQueue, failed, overflowed func(interface{})) bool {
	ok := setField(d, "failed1", failed)
	ok = setField(d, "failed2", failed) && ok
	ok = setField(d, "overflowed1", overflowed) && ok
	ok = setField(d, "overflowed2", overflowed) && ok
	return ok
}

func setDoubleCallbacks(im *impl) {
	mk := func(tag string) func(interface{}) {
		return func(v interface{}) { im.cb.evs = append(im.cb.evs, tag+strconv.Itoa(unelem(v))) }
	}
	im.cbOK = setField(im.d, "failed1", mk("1:F"))
	im.cbOK = setField(im.d, "failed2", mk("2:F")) && im.cbOK
	im.cbOK = setField(im.d, "overflowed1", mk("1:O")) && im.cbOK
	im.cbOK = setField(im.d, "overflowed2", mk("2:O")) && im.cbOK
}

// condMutex returns the mutex of the queue's condition variable (unexported field of type *sync.Cond).
func condMutex(obj interface{}) *sync.Mutex {
	e := reflect.ValueOf(obj).Elem()
	for i := 0; i < e.NumField(); i++ {
		f := e.Field(i)
		if f.Type() == reflect.TypeOf((*sync.Cond)(nil)) {
			c := *(**sync.Cond)(unsafe.Pointer(f.UnsafeAddr()))
			if c != nil {
				if mu, ok := c.L.(*sync.Mutex); ok {
					return mu
				}
			}
		}
	}
	return nil
}

func mutexStarving(mu *sync.Mutex) bool {
	// sync.Mutex{state int32; sema uint32}; bit 2 of state = starvation mode
	return atomic.LoadInt32((*int32)(unsafe.Pointer(mu)))&4 != 0
}

// fifoRelease releases a mutex the caller holds such that the goroutines parked on it — and everyone who
// queues up while waiters that have waited > 1 ms remain — are served strictly in arrival order (Go's
// starvation mode: direct hand-off, no barging).  Entered by barging once ourselves.
func fifoRelease(mu *sync.Mutex) {
	mu.Unlock()
	mu.Lock()
	for i := 0; i < 100 && !mutexStarving(mu); i++ {
		time.Sleep(50 * time.Microsecond)
	}
	mu.Unlock()
}
