package main

// The timed get under dateutil's synchronised clock (WHATAP_DATETIME_MODE ≠ default: SystemNow() returns a
// value refreshed by a ticker).  The mode is chosen at process start and cannot be left again, so it runs
// in a child process of its own.  The lower bound is judged against the monotonic clock: GetTimeout(30)
// on an empty queue must not come back more than a tick (1 ms ticker + millisecond truncation) early.
//
// Earliness of a single trial can also come from the machine (the ticker goroutine starved for a few ms
// right before the call), so the verdict needs both: (a) early by more than 3 ms in at least a third of
// the trials, and (b) the clock itself is coarse — in none of up to six 100 ms windows (monotonic) does
// SystemNow() take 15 distinct values (a 1 ms ticker shows ~100, a 10 ms ticker can never show more than
// 11).  (b) cannot be caused by load alone in all six windows short of total starvation, and (a) cannot be
// explained by load once (b) holds.

import (
	"bytes"
	"encoding/json"
	"fmt"
	"os"
	"os/exec"
	"runtime"
	"syscall"
	"time"

	"github.com/whatap/golib/util/dateutil"
	"github.com/whatap/golib/util/queue"
	"verif/harness/vh"
)

type syncClockOut struct {
	Sync         bool      `json:"sync_mode"`
	EarlyMs      []float64 `json:"early_ms"` // timeout − elapsed (monotonic), per trial
	BestDistinct int       `json:"best_distinct_values_in_100ms"`
	Windows      int       `json:"windows"`
	TimeoutMs    int       `json:"timeout_ms"`
}

func syncClockChild() {
	out := syncClockOut{Sync: dateutil.IsSyncTime(), TimeoutMs: 30}
	for w := 0; w < 6 && out.BestDistinct < 15; w++ {
		seen := map[int64]bool{}
		for t0 := time.Now(); time.Since(t0) < 100*time.Millisecond; {
			seen[dateutil.SystemNow()] = true
			runtime.Gosched()
		}
		out.Windows++
		if len(seen) > out.BestDistinct {
			out.BestDistinct = len(seen)
		}
	}
	for i := 0; i < 24; i++ {
		var get func(int) interface{}
		if i%3 == 2 {
			get = queue.NewRequestDoubleQueue(2, 2).GetTimeout
		} else {
			get = queue.NewRequestQueue(2).GetTimeout
		}
		time.Sleep(time.Duration(300+(i*2300)%11000) * time.Microsecond) // start at phases spread over 11 ms: the previous trial ended right on a tick
		t0 := time.Now()
		o := vh.GuardTimeout(hangLimit, func() { get(out.TimeoutMs) })
		el := time.Since(t0)
		if !o.OK() {
			break
		}
		out.EarlyMs = append(out.EarlyMs, float64(out.TimeoutMs)-float64(el)/1e6)
	}
	b, _ := json.Marshal(out)
	os.Stdout.Write(b)
}

func syncClockStage(env *vh.Env, rep *vh.Report) {
	cmd := exec.Command(os.Args[0], "-child", "syncclock", "-repo", env.Repo)
	cmd.Env = append(os.Environ(), "WHATAP_DATETIME_MODE=sync")
	var ob, eb bytes.Buffer
	cmd.Stdout, cmd.Stderr = &ob, &eb
	runtime.LockOSThread()
	cmd.SysProcAttr = &syscall.SysProcAttr{Setpgid: true, Pdeathsig: syscall.SIGKILL}
	if err := cmd.Start(); err != nil {
		runtime.UnlockOSThread()
		rep.Note("sync-clock child could not be started: %v", err)
		return
	}
	done := make(chan error, 1)
	go func() { done <- cmd.Wait() }()
	select {
	case <-done:
	case <-time.After(3 * time.Minute):
	}
	syscall.Kill(-cmd.Process.Pid, syscall.SIGKILL)
	runtime.UnlockOSThread()
	var out syncClockOut
	if json.Unmarshal(ob.Bytes(), &out) != nil || !out.Sync {
		rep.Note("sync-clock stage produced no result (sync mode on: %v; %s)", out.Sync, vh.Clip(eb.String(), 200))
		rep.Count("sync-clock:not-run")
		return
	}
	early, worst := 0, 0.0
	for _, e := range out.EarlyMs {
		rep.Case(fmt.Sprintf("sync-clock timed get early=%.1f", e), true)
		if e > 3.0 {
			early++
		}
		if e > worst {
			worst = e
		}
	}
	rep.Count("sync-clock:trials")
	rep.Note("sync clock mode: GetTimeout(%d) on an empty queue, %d trials, worst earliness against the monotonic clock %.2f ms; SystemNow() took up to %d distinct values in a 100 ms window",
		out.TimeoutMs, len(out.EarlyMs), worst, out.BestDistinct)
	coarse := out.BestDistinct < 15
	if coarse && len(out.EarlyMs) > 0 && early*3 >= len(out.EarlyMs) {
		rep.Fail("property", "RequestQueue.GetTimeout:returned-early-in-sync-clock-mode",
			fmt.Sprintf("with the synchronised clock (WHATAP_DATETIME_MODE=sync) GetTimeout(%d) on an empty queue returned empty-handed up to %.1f ms before the timeout had elapsed on the monotonic clock (%d of %d trials more than 3 ms early); the clock it reads advanced in steps: at most %d distinct values per 100 ms in %d windows",
				out.TimeoutMs, worst, early, len(out.EarlyMs), out.BestDistinct, out.Windows),
			map[string]interface{}{"early_ms": out.EarlyMs, "best_distinct_values_in_100ms": out.BestDistinct,
				"how": "child process with WHATAP_DATETIME_MODE=sync; GetTimeout(30) on empty queues, elapsed measured with time.Now() (monotonic); SystemNow() sampled for 100 ms windows"})
	} else if early > 0 {
		rep.Note("sync clock mode: %d of %d trials were more than 3 ms early but the clock is fine-grained (%d values / 100 ms): attributed to the machine, not reported", early, len(out.EarlyMs), out.BestDistinct)
	}
}
