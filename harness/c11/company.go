package main

// timedInCompany: timed gets that are not alone on their queue.
//
// The property: "a timed get returns empty-handed only after its timeout has elapsed" — *its* timeout,
// whatever other consumers parked on the same queue are doing.  Several consumers wait on one queue at the
// same time: timed gets with different deadlines, blocking gets, and a thread that puts an element and
// takes it out again at once; fewer elements are put than consumers wait.  Classes (every seed runs each
// class on both queue types; sizes, timeouts, put modes are drawn from the seed):
//
//	deadlines        2..4 timed gets with pairwise different timeouts, no producer at all
//	fewer-elements   2..4 timed gets with one timeout, fewer elements than consumers put while they wait
//	blocking-company 1..2 timed gets and 1..2 blocking gets, fewer elements than consumers
//	in-and-out       1..3 timed gets; another thread does Put(x); GetNoWait() several times
//
// Evaluated directly on the implementation: (1) every timed get that came back empty-handed did so no
// earlier than its own timeout, on the clock the code reads (dateutil.SystemNow, read before the call and
// after it: a lower bound only, load can only make the call later); (2) an element that came back was put,
// and every element put is held by exactly one of: a timed get, a blocking get, the in-and-out thread, the
// queue (drained at the end); (3) the elements came out in the order they were put; (4) nobody hangs.
// The same observation is then expressed as a history of `Queue.mrun` (Golib/Queue/TimedMany.lean,
// driver line TM: every consumer with its own deadline; first turns, the final turns of the consumers
// that came back empty-handed — clock reading = the reading observed after the call —, the puts, the
// takes in queue order) and the model must give every consumer the observed outcome: `running` where
// the implementation has returned means the call ended although no turn of its own loop could end it
// (theorems C11.timed_gets_each_by_its_own_deadline, C11.timed_get_not_ended_by_others).

import (
	"fmt"
	"sort"
	"strconv"
	"strings"
	"sync"
	"time"

	"github.com/whatap/golib/util/dateutil"
	"github.com/whatap/golib/util/queue"
	"verif/harness/vh"
)

type companyCfg struct {
	Class    string `json:"class"`
	Double   bool   `json:"double"`
	Second   bool   `json:"second_list"` // double queue: use Put2 / PutForce2
	Force    bool   `json:"force"`
	Timeouts []int  `json:"timed_get_timeouts_ms"`
	Blocking int    `json:"blocking_gets"`
	Elements int    `json:"elements_put"`
	InOut    int    `json:"in_and_out_rounds"`
	GapMs    int    `json:"ms_between_puts"`
}

type timedObs struct {
	TimeoutMs int    `json:"timeout_ms"`
	Before    int64  `json:"clock_before"` // relative to the scenario's base
	After     int64  `json:"clock_after"`
	Got       int    `json:"returned"` // 0 = nil
	Outcome   string `json:"outcome"`
}

type companyObs struct {
	Timed    []timedObs `json:"timed_gets"`
	Blocking []int      `json:"blocking_gets_returned"`
	InOut    []int      `json:"in_and_out_returned"`
	Left     []int      `json:"left_in_queue"`
	Put      []int      `json:"put_in_order"`
}

func genCompany(r *vh.Rng, class string, dbl bool) companyCfg {
	c := companyCfg{Class: class, Double: dbl, Second: dbl && r.Chance(50), Force: r.Chance(40), GapMs: r.Intn(12)}
	base := 50 + r.Intn(50)
	switch class {
	case "deadlines":
		n := 2 + r.Intn(3)
		for i := 0; i < n; i++ {
			c.Timeouts = append(c.Timeouts, base*(1+2*i)+r.Intn(20)) // ~ base, 3·base, 5·base, 7·base
		}
		for i := len(c.Timeouts) - 1; i > 0; i-- { // the shortest deadline is not always the first consumer
			j := r.Intn(i + 1)
			c.Timeouts[i], c.Timeouts[j] = c.Timeouts[j], c.Timeouts[i]
		}
	case "fewer-elements":
		n := 2 + r.Intn(3)
		for i := 0; i < n; i++ {
			c.Timeouts = append(c.Timeouts, 4*base)
		}
		c.Elements = 1 + r.Intn(n-1)
	case "blocking-company":
		n := 1 + r.Intn(2)
		for i := 0; i < n; i++ {
			c.Timeouts = append(c.Timeouts, 4*base+40*i)
		}
		c.Blocking = 1 + r.Intn(2)
		c.Elements = 1 + r.Intn(n+c.Blocking-1)
	case "in-and-out":
		n := 1 + r.Intn(3)
		for i := 0; i < n; i++ {
			c.Timeouts = append(c.Timeouts, 3*base+60*i)
		}
		c.InOut = 2 + r.Intn(3)
	}
	return c
}

func runCompany(c companyCfg) (obs companyObs, hang string) {
	at("timed-in-company %+v", c)
	var getT func(int) interface{}
	var get, getNW func() interface{}
	var put func(interface{}) bool
	if c.Double {
		d := queue.NewRequestDoubleQueue(16, 16)
		getT, get, getNW = d.GetTimeout, d.Get, d.GetNoWait
		switch {
		case c.Second && c.Force:
			put = d.PutForce2
		case c.Second:
			put = d.Put2
		case c.Force:
			put = d.PutForce1
		default:
			put = d.Put1
		}
	} else {
		q := queue.NewRequestQueue(16)
		getT, get, getNW = q.GetTimeout, q.Get, q.GetNoWait
		put = q.Put
		if c.Force {
			put = q.PutForce
		}
	}
	base := dateutil.SystemNow()
	// blocking consumers first, then the timed ones
	blocked := make([]int, c.Blocking)
	blockedOut := make([]vh.Outcome, c.Blocking)
	var bwg sync.WaitGroup
	for b := 0; b < c.Blocking; b++ {
		bwg.Add(1)
		go func(b int) {
			defer bwg.Done()
			blockedOut[b] = vh.GuardTimeout(3*hangLimit, func() { blocked[b] = unelem(get()) })
		}(b)
	}
	obs.Timed = make([]timedObs, len(c.Timeouts))
	var twg sync.WaitGroup
	for i, ms := range c.Timeouts {
		twg.Add(1)
		go func(i, ms int) {
			defer twg.Done()
			var v interface{}
			before := dateutil.SystemNow()
			o := vh.GuardTimeout(time.Duration(ms)*time.Millisecond+hangLimit, func() { v = getT(ms) })
			after := dateutil.SystemNow()
			obs.Timed[i] = timedObs{TimeoutMs: ms, Before: before - base, After: after - base, Got: unelem(v), Outcome: o.String()}
		}(i, ms)
	}
	time.Sleep(25 * time.Millisecond) // the consumers are parked (not needed for any verdict)
	next := 101
	for e := 0; e < c.Elements; e++ {
		put(next)
		obs.Put = append(obs.Put, next)
		next++
		time.Sleep(time.Duration(c.GapMs) * time.Millisecond)
	}
	for e := 0; e < c.InOut; e++ {
		var v interface{}
		o := vh.GuardTimeout(hangLimit, func() { put(next); v = getNW() })
		if !o.OK() {
			return obs, "Put; GetNoWait next to parked timed gets: " + o.String()
		}
		obs.Put = append(obs.Put, next)
		obs.InOut = append(obs.InOut, unelem(v))
		next++
		time.Sleep(time.Duration(10+c.GapMs) * time.Millisecond)
	}
	twg.Wait()
	for i, t := range obs.Timed {
		if t.Outcome != "ok" {
			return obs, fmt.Sprintf("GetTimeout(%d) of consumer %d: %s", t.TimeoutMs, i, t.Outcome)
		}
	}
	// release the blocking consumers that are still parked: one pill each (elements are ahead of the pills)
	for b := 0; b < c.Blocking; b++ {
		if o := vh.GuardTimeout(hangLimit, func() { put(stopPill) }); !o.OK() {
			return obs, "Put next to parked blocking gets: " + o.String()
		}
	}
	bwg.Wait()
	for b, o := range blockedOut {
		if !o.OK() {
			return obs, fmt.Sprintf("blocking Get of consumer %d, an element (pill) being in the queue: %s", b, o.String())
		}
		obs.Blocking = append(obs.Blocking, blocked[b])
	}
	for i := 0; i < 64; i++ {
		var v interface{}
		if o := vh.GuardTimeout(hangLimit, func() { v = getNW() }); !o.OK() {
			return obs, "GetNoWait while draining: " + o.String()
		}
		if v == nil {
			break
		}
		obs.Left = append(obs.Left, unelem(v))
	}
	return obs, ""
}

// companyLine: the observation as a history of the model (see the file comment)
func companyLine(c companyCfg, o companyObs) (line string, want []string, wantLeft string) {
	var deadlines, evs []string
	for i, t := range o.Timed {
		deadlines = append(deadlines, strconv.FormatInt(t.Before+int64(t.TimeoutMs), 10))
		evs = append(evs, fmt.Sprintf("%d@%d", i, t.Before))
	}
	holder := map[int]string{} // element → the take that removed it
	for i, t := range o.Timed {
		if t.Got == 0 {
			evs = append(evs, fmt.Sprintf("%d@%d", i, t.After))
			want = append(want, fmt.Sprintf("timeout %d", t.After))
		} else {
			holder[t.Got] = fmt.Sprintf("%d@%d", i, t.After)
			want = append(want, fmt.Sprintf("got %d", t.Got))
		}
	}
	for _, x := range o.Blocking {
		if x != stopPill && x != 0 {
			holder[x] = "og"
		}
	}
	for _, x := range o.InOut {
		if x != 0 {
			holder[x] = "on"
		}
	}
	for _, x := range o.Put {
		evs = append(evs, "op"+strconv.Itoa(x))
	}
	for _, x := range o.Put { // takes in queue order
		if h, ok := holder[x]; ok {
			evs = append(evs, h)
		}
	}
	var left []string
	for _, x := range o.Left {
		if x != stopPill {
			left = append(left, strconv.Itoa(x))
		}
	}
	wantLeft = strings.Join(left, ",")
	if wantLeft == "" {
		wantLeft = "-"
	}
	return "TM 16 " + strings.Join(deadlines, ",") + " " + strings.Join(evs, "|"), want, wantLeft
}

// companyProperty evaluates the clauses on the observation alone
func companyProperty(c companyCfg, o companyObs) (key, why string) {
	name := qname(c.Double)
	for i, t := range o.Timed {
		if t.Got == 0 && t.After-t.Before < int64(t.TimeoutMs) {
			others := "the other consumers parked on the queue"
			return name + ".GetTimeout:returned-early-among-other-consumers",
				fmt.Sprintf("%s, class %s: GetTimeout(%d) of consumer %d came back empty-handed after %d ms on the clock the code reads, while %s were waiting with timeouts %v (%d blocking gets, %d elements put, %d put-and-take rounds)",
					name, c.Class, t.TimeoutMs, i, t.After-t.Before, others, c.Timeouts, c.Blocking, c.Elements, c.InOut)
		}
	}
	where := map[int]string{}
	note := func(x int, who string) (string, string) {
		if x == 0 || x == stopPill {
			return "", ""
		}
		if w, dup := where[x]; dup {
			return name + ":duplicate", fmt.Sprintf("%s, class %s: element %d was handed to %s and to %s", name, c.Class, x, w, who)
		}
		where[x] = who
		return "", ""
	}
	for i, t := range o.Timed {
		if k, w := note(t.Got, fmt.Sprintf("timed get %d", i)); k != "" {
			return k, w
		}
	}
	for b, x := range o.Blocking {
		if x == 0 {
			return name + ":get-returned-nothing", fmt.Sprintf("%s, class %s: the blocking Get of consumer %d returned nil although no nil element was put", name, c.Class, b)
		}
		if k, w := note(x, fmt.Sprintf("blocking get %d", b)); k != "" {
			return k, w
		}
	}
	for _, x := range o.InOut {
		if k, w := note(x, "the put-and-take thread"); k != "" {
			return k, w
		}
	}
	for _, x := range o.Left {
		if k, w := note(x, "the queue (drained at the end)"); k != "" {
			return k, w
		}
	}
	put := map[int]bool{}
	for _, x := range o.Put {
		put[x] = true
		if _, ok := where[x]; !ok {
			return name + ":lost", fmt.Sprintf("%s, class %s: element %d was accepted, but no get returned it and it is not in the queue", name, c.Class, x)
		}
	}
	for x, w := range where {
		if !put[x] {
			return name + ":phantom-element", fmt.Sprintf("%s, class %s: %s holds %d, which was never put", name, c.Class, w, x)
		}
	}
	// order: what is left in the queue was put after everything that was taken, and is in put order
	left := append([]int(nil), o.Left...)
	var leftReal []int
	for _, x := range left {
		if x != stopPill {
			leftReal = append(leftReal, x)
		}
	}
	if !sort.IntsAreSorted(leftReal) {
		return name + ".Get:fifo", fmt.Sprintf("%s, class %s: the queue was drained in the order %v, put in the order %v", name, c.Class, leftReal, o.Put)
	}
	if len(leftReal) > 0 {
		for x, w := range where {
			if x > leftReal[0] && w != "the queue (drained at the end)" {
				return name + ".Get:fifo", fmt.Sprintf("%s, class %s: %s took %d while %d, put earlier, stayed in the queue", name, c.Class, w, x, leftReal[0])
			}
		}
	}
	return "", ""
}

func timedInCompany(env *vh.Env, rep *vh.Report, rng *vh.Rng) {
	per := 3
	if env.Thorough {
		per = 30
	}
	var cfgs []companyCfg
	for _, dbl := range []bool{false, true} {
		for _, class := range []string{"deadlines", "fewer-elements", "blocking-company", "in-and-out"} {
			for i := 0; i < per; i++ {
				cfgs = append(cfgs, genCompany(rng, class, dbl))
			}
		}
	}
	type res struct {
		obs  companyObs
		hang string
	}
	out := make([]res, len(cfgs))
	sem := make(chan struct{}, 8) // the scenarios mostly sleep
	var wg sync.WaitGroup
	for i := range cfgs {
		wg.Add(1)
		sem <- struct{}{}
		go func(i int) {
			defer wg.Done()
			defer func() { <-sem }()
			o, h := runCompany(cfgs[i])
			out[i] = res{o, h}
		}(i)
	}
	wg.Wait()
	var lines []string
	var idx []int
	for i, c := range cfgs {
		rep.Case(fmt.Sprintf("timed-in-company %+v", c), true)
		rep.Count("timed-in-company:" + c.Class)
		if out[i].hang == "" {
			l, _, _ := companyLine(c, out[i].obs)
			lines = append(lines, l)
			idx = append(idx, i)
		}
	}
	answers, err := vh.RunDriver(env.Driver, lines)
	if err != nil {
		vh.Die("driver: %v", err)
	}
	reported := map[string]bool{}
	early := 0
	for i, c := range cfgs {
		name := qname(c.Double)
		replay := map[string]interface{}{"config": c, "observed": out[i].obs,
			"how": "start the blocking gets and the timed gets on one queue (capacity 16), 25 ms later the puts / put-and-take rounds; clock = dateutil.SystemNow() read before and after each GetTimeout call, relative to the start of the scenario"}
		if out[i].hang != "" {
			if k := name + ".GetTimeout:hangs-among-other-consumers"; !reported[k] {
				reported[k] = true
				rep.Fail("property", k, name+", class "+c.Class+": "+out[i].hang, replay)
			}
			continue
		}
		for _, t := range out[i].obs.Timed {
			if t.Got == 0 {
				rep.Count("timed-in-company:came-back-empty-handed")
			} else {
				rep.Count("timed-in-company:came-back-with-an-element")
			}
		}
		if key, why := companyProperty(c, out[i].obs); key != "" {
			if strings.Contains(key, "returned-early") {
				early++
			}
			if !reported[key] {
				reported[key] = true
				rep.Fail("property", key, why, replay)
			}
			continue
		}
	}
	// model and implementation
	for n, i := range idx {
		c := cfgs[i]
		if k, _ := companyProperty(c, out[i].obs); k != "" {
			continue // reported above with the failing input
		}
		line, want, wantLeft := companyLine(c, out[i].obs)
		ans := answers[n]
		wantPrefix := strings.Join(want, ";") + " ["
		if !strings.HasPrefix(ans, wantPrefix) || !strings.HasSuffix(ans, "| "+wantLeft+"/16") {
			key := "timedGets:model"
			if !reported[key] {
				reported[key] = true
				rep.Fail("correspondence", key, "the model of several timed gets on one queue (Queue.mrun) does not give the consumers the outcomes observed on "+qname(c.Double),
					map[string]interface{}{"config": c, "observed": out[i].obs, "line": line, "model": ans, "expected_results": want, "expected_queue": wantLeft})
			}
		}
	}
	if early > 0 {
		rep.Note("timed-in-company: %d scenarios with a timed get cut short", early)
	}
	if len(cfgs) > 0 {
		l, _, _ := companyLine(cfgs[0], out[0].obs)
		rep.Sample(map[string]interface{}{"timed_in_company": cfgs[0], "model_line": l})
	}
}
