package main

// Supervisor / worker split (same idea as harness/c10): the process started by `check` only supervises; the
// probes run in a worker process (this binary with `-child worker`).  A runtime fatal that a change of the
// implementation provokes ("sync: unlock of unlocked mutex", "all goroutines are asleep", …) kills the
// worker, not the harness: the supervisor reads the crash from the worker's stderr, records
// `<Type>.<Method>:fatal` (kind property) with the last `##AT` marker (phase and operation history) as
// replay, and runs the worker again without the phase that crashed.

import (
	"bytes"
	"encoding/json"
	"flag"
	"fmt"
	"os"
	"os/exec"
	"os/signal"
	"path/filepath"
	"regexp"
	"runtime"
	"strings"
	"syscall"
	"time"

	"verif/harness/vh"
)

// hangLimit only bounds hangs: no verdict depends on something happening within a short time (see c10)
const hangLimit = 25 * time.Second

var (
	childMode  = flag.String("child", "", "internal: run as worker")
	skipPhases = flag.String("skip", "", "internal: comma-separated phases the worker leaves out")
	workerMode bool
)

func at(format string, a ...interface{}) {
	if workerMode {
		fmt.Fprintf(os.Stderr, "##AT "+format+"\n", a...)
	}
}

func skipped(name string) bool {
	for _, s := range strings.Split(*skipPhases, ",") {
		if s == name {
			return true
		}
	}
	return false
}

var repoFrameRe = regexp.MustCompile(`github\.com/whatap/golib/util/\w+\.\(\*?(\w+)\)\.(\w+)\(`)

func lastMarker(s string) string {
	i := strings.LastIndex(s, "##AT ")
	if i < 0 {
		return ""
	}
	e := strings.Index(s[i:], "\n")
	if e < 0 {
		return s[i+5:]
	}
	return s[i+5 : i+e]
}

func lastPhase(s string) string {
	i := strings.LastIndex(s, "##AT phase ")
	if i < 0 {
		return ""
	}
	rest := s[i+len("##AT phase "):]
	if e := strings.IndexAny(rest, " \n"); e >= 0 {
		return rest[:e]
	}
	return rest
}

func crashOf(stderr []byte) (msg, tm, marker, phase, stack string) {
	s := string(stderr)
	i := strings.LastIndex(s, "fatal error:")
	if j := strings.LastIndex(s, "\npanic: "); j > i {
		i = j + 1
	}
	if i < 0 {
		return "", "", lastMarker(s), lastPhase(s), vh.Clip(s[max(0, len(s)-600):], 600)
	}
	marker, phase = lastMarker(s[:i]), lastPhase(s[:i])
	rest := s[i:]
	if nl := strings.Index(rest, "\n"); nl > 0 {
		msg = strings.TrimSpace(rest[:nl])
	}
	g := rest
	if k := strings.Index(rest, "\ngoroutine "); k >= 0 {
		g = rest[k+1:]
		if e := strings.Index(g, "\n\n"); e > 0 {
			g = g[:e]
		}
	}
	if m := repoFrameRe.FindStringSubmatch(g); m != nil {
		tm = m[1] + "." + m[2]
	} else if m := repoFrameRe.FindStringSubmatch(rest); m != nil {
		tm = m[1] + "." + m[2]
	}
	return msg, tm, marker, phase, vh.Clip(g, 1200)
}

type subReport struct {
	Evaluations  int            `json:"evaluations"`
	Distinct     int            `json:"distinct_nontrivial"`
	Samples      []interface{}  `json:"samples"`
	Distribution map[string]int `json:"distribution"`
	Failures     []vh.Failure   `json:"failures"`
	Known        []vh.Known     `json:"known_replayed"`
	Notes        []string       `json:"notes"`
}

func supervise(env *vh.Env, rep *vh.Report) {
	wd, _ := os.Getwd()
	skip := ""
	var pg int
	sig := make(chan os.Signal, 1)
	signal.Notify(sig, syscall.SIGINT, syscall.SIGTERM, syscall.SIGHUP)
	go func() {
		<-sig
		if pg > 0 {
			syscall.Kill(-pg, syscall.SIGKILL)
		}
		os.Exit(130)
	}()
	limit := 9 * time.Minute
	if env.Thorough {
		limit = 45 * time.Minute
	}
	for attempt := 0; attempt < 5; attempt++ {
		out := filepath.Join(wd, "worker-report.json")
		os.Remove(out)
		args := []string{"-child", "worker", "-driver", env.Driver, "-tier", env.Tier, "-seed", fmt.Sprint(env.Seed), "-repo", env.Repo, "-out", out, "-skip", skip}
		if env.Replay != "" {
			args = append(args, "-replay", env.Replay)
		}
		cmd := exec.Command(os.Args[0], args...)
		var eb bytes.Buffer
		cmd.Stderr = &eb
		runtime.LockOSThread() // Pdeathsig is tied to the forking thread
		cmd.SysProcAttr = &syscall.SysProcAttr{Setpgid: true, Pdeathsig: syscall.SIGKILL}
		err := cmd.Start()
		if err != nil {
			runtime.UnlockOSThread()
			vh.Die("cannot start the worker: %v", err)
		}
		pg = cmd.Process.Pid
		done := make(chan error, 1)
		go func() { done <- cmd.Wait() }()
		select {
		case err = <-done:
		case <-time.After(limit):
			err = fmt.Errorf("worker exceeded %v", limit)
		}
		syscall.Kill(-pg, syscall.SIGKILL)
		runtime.UnlockOSThread()
		var sub subReport
		b, rerr := os.ReadFile(out)
		if rerr == nil && json.Unmarshal(b, &sub) == nil {
			for i := 0; i < sub.Distinct; i++ {
				rep.Case(fmt.Sprintf("w%d#%d", attempt, i), true)
			}
			if sub.Evaluations > sub.Distinct {
				rep.Evaluations += sub.Evaluations - sub.Distinct
			}
			for k, n := range sub.Distribution {
				rep.CountN(k, n)
			}
			for _, f := range sub.Failures {
				rep.Fail(f.Kind, f.Key, f.Summary, f.Replay)
			}
			for _, k := range sub.Known {
				rep.KnownReplay(k.Key, k.StillFails, k.What)
			}
			for _, n := range sub.Notes {
				rep.Note("%s", n)
			}
			for _, s := range sub.Samples {
				rep.Sample(s)
			}
			break
		}
		msg, tm, marker, phase, stack := crashOf(eb.Bytes())
		rep.Count("worker-crashed:" + phase)
		replay := map[string]interface{}{"phase": phase, "fatal": msg, "probe": marker, "crashing_goroutine": stack,
			"how": "the harness ran in a worker process which died with this runtime fatal in phase '" + phase + "'; the probe line says which operation (and history) it was executing"}
		if tm != "" && msg != "" {
			rep.Fail("property", tm+":fatal", fmt.Sprintf("%s brought the process down with an unrecoverable runtime error (%s) while the harness ran: %s", tm, msg, vh.Clip(marker, 160)), replay)
		} else if msg == "" {
			rep.Note("the worker ended without a report and without a crash (%v; last marker: %s): reduced coverage in this run", err, vh.Clip(marker, 120))
			rep.Count("worker-cut-short")
			break
		} else {
			rep.Fail("correspondence", "harness:worker-died", fmt.Sprintf("the worker ended without a report (%v; %s)", err, vh.Clip(msg+" "+marker, 200)), replay)
		}
		if phase == "" || skipped(phase) {
			break
		}
		if skip != "" {
			skip += ","
		}
		skip += phase
		*skipPhases = skip
	}
	rep.Write(env.Out)
	os.Exit(0)
}

const workerRule = "sequential: one case per history (≤ 300 ops), non-trivial when at least one element is accepted, refused or evicted; " +
	"concurrent: one case per (producers × consumers, capacity, put mode) run, non-trivial when ≥ 2 goroutines share the queue; " +
	"timed: one case per GetTimeout call on an empty queue, non-trivial when the timeout is positive; the probes run in a worker process (a runtime fatal is a finding)"

func superviseWithRule(env *vh.Env, rep *vh.Report) {
	rep.Rule = workerRule
	supervise(env, rep)
}
