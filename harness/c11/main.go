// Harness for C11: request queues are bounded FIFOs that lose, duplicate or strand nothing.
//
//	1 sequential  random histories (≤ 300 ops; capacities −1/0/1/2/5 changed mid-history; nil
//	              elements; every public operation incl. timed gets) on util/queue.RequestQueue and
//	              RequestDoubleQueue, compared op by op with the Lean model (drv_c11 runs
//	              Golib/Queue/Seq.lean): return value, Failed/Overflowed callback arguments, Size().
//	              On a disagreement the property is evaluated directly on the implementation
//	              (FIFO order, refusal/eviction accounting, boundedness, conservation by element
//	              identity) to decide between `property` and `correspondence`.
//	2 concurrent  k producers × m consumers on one queue, consumers started first (they block before
//	              the first producer arrives); exactly-once, per-producer order, nobody stranded.
//	3 timed gets  GetTimeout on an empty queue with timeouts 0/1/10/50 ms: empty-handed only after
//	              the timeout elapsed (same millisecond clock the code uses); generous upper
//	              tolerance is reported, not asserted.
//	4 known finding replay: a nil element is swallowed by GetTimeout.
package main

import (
	"encoding/json"
	"fmt"
	"os"
	"reflect"
	"runtime"
	"sort"
	"strconv"
	"strings"
	"sync"
	"sync/atomic"
	"time"

	"github.com/whatap/golib/util/dateutil"
	"github.com/whatap/golib/util/queue"
	"verif/harness/vh"
)

const keyNilSwallowed = "RequestQueue.GetTimeout:nil-element-swallowed"

// ---------------------------------------------------------------- elements

func elem(x int) interface{} {
	if x == 0 {
		return nil
	}
	return x
}
func unelem(v interface{}) int {
	if v == nil {
		return 0
	}
	if i, ok := v.(int); ok {
		return i
	}
	return -1
}

// ---------------------------------------------------------------- sequential histories

type qop struct {
	Kind string `json:"k"`            // p f g n t x c s k   (double: p1 p2 f1 f2 g n t x c s s1 s2 k1 k2)
	X    int    `json:"x"`            // element / capacity / extra polls
	Y    int    `json:"y"`            // second capacity (double queue)
	Ms   int    `json:"ms,omitempty"` // timeout handed to the implementation (t)
}

func (o qop) line(dbl bool) string {
	switch o.Kind {
	case "p", "f", "t":
		return o.Kind + strconv.Itoa(o.X)
	case "p1", "p2", "f1", "f2":
		return o.Kind + "_" + strconv.Itoa(o.X)
	case "c":
		if dbl {
			return fmt.Sprintf("c%d_%d", o.X, o.Y)
		}
		return "c" + strconv.Itoa(o.X)
	}
	return o.Kind
}

// mirror of the queue content, used by the generator (to know when a call would block or when a
// timed get is deterministic) and by the direct evaluation of the property
type mirror struct {
	items [2][]int
	cap   [2]int
}

func (m *mirror) room(i int) bool { return m.cap[i] <= 0 || len(m.items[i]) < m.cap[i] }
func (m *mirror) size() int       { return len(m.items[0]) + len(m.items[1]) }
func (m *mirror) head() (int, bool) {
	for i := 0; i < 2; i++ {
		if len(m.items[i]) > 0 {
			return m.items[i][0], true
		}
	}
	return 0, false
}

type callbacks struct {
	evs []string
}

type impl struct {
	q    *queue.RequestQueue
	d    *queue.RequestDoubleQueue
	cb   callbacks
	dbl  bool
	cbOK bool // double queue: callbacks could be installed by reflection
}

func newImpl(dbl bool, c1, c2 int) *impl {
	im := &impl{dbl: dbl}
	if dbl {
		im.d = queue.NewRequestDoubleQueue(c1, c2)
		setDoubleCallbacks(im)
	} else {
		im.q = queue.NewRequestQueue(c1)
		im.q.Failed = func(v interface{}) { im.cb.evs = append(im.cb.evs, "F"+strconv.Itoa(unelem(v))) }
		im.q.Overflowed = func(v interface{}) { im.cb.evs = append(im.cb.evs, "O"+strconv.Itoa(unelem(v))) }
	}
	return im
}

func b2s(b bool) string {
	if b {
		return "t"
	}
	return "f"
}

// apply runs one op on the implementation; returns "<ret>[<callback events>]" and Size() after.
func (im *impl) apply(o qop) (res string, size int, out vh.Outcome) {
	im.cb.evs = nil
	ret := ""
	out = vh.GuardTimeout(hangLimit, func() {
		if !im.dbl {
			q := im.q
			switch o.Kind {
			case "p":
				ret = b2s(q.Put(elem(o.X)))
			case "f":
				ret = b2s(q.PutForce(elem(o.X)))
			case "g":
				ret = strconv.Itoa(unelem(q.Get()))
			case "n":
				ret = strconv.Itoa(unelem(q.GetNoWait()))
			case "t":
				ret = strconv.Itoa(unelem(q.GetTimeout(o.Ms)))
			case "x":
				q.Clear()
				ret = "-"
			case "c":
				q.SetCapacity(o.X)
				ret = "-"
			case "s":
				ret = strconv.Itoa(q.Size())
			case "k":
				ret = strconv.Itoa(q.GetCapacity())
			}
			size = q.Size()
			return
		}
		d := im.d
		switch o.Kind {
		case "p1":
			ret = b2s(d.Put1(elem(o.X)))
		case "p2":
			ret = b2s(d.Put2(elem(o.X)))
		case "f1":
			ret = b2s(d.PutForce1(elem(o.X)))
		case "f2":
			ret = b2s(d.PutForce2(elem(o.X)))
		case "g":
			ret = strconv.Itoa(unelem(d.Get()))
		case "n":
			ret = strconv.Itoa(unelem(d.GetNoWait()))
		case "t":
			ret = strconv.Itoa(unelem(d.GetTimeout(o.Ms)))
		case "x":
			d.Clear()
			ret = "-"
		case "c":
			d.SetCapacity(o.X, o.Y)
			ret = "-"
		case "s":
			ret = strconv.Itoa(d.Size())
		case "s1":
			ret = strconv.Itoa(d.Size1())
		case "s2":
			ret = strconv.Itoa(d.Size2())
		case "k1":
			ret = strconv.Itoa(d.GetCapacity1())
		case "k2":
			ret = strconv.Itoa(d.GetCapacity2())
		}
		size = d.Size()
	})
	return ret + "[" + strings.Join(im.cb.evs, ",") + "]", size, out
}

// the model's answer with the unobservable events (accepted / delivered / cleared / swallowed) removed
func observable(ans string) string {
	i := strings.Index(ans, "[")
	if i < 0 {
		return ans
	}
	ret, evs := ans[:i], strings.TrimSuffix(ans[i+1:], "]")
	var keep []string
	for _, e := range strings.Split(evs, ",") {
		if e == "" {
			continue
		}
		x := e
		if j := strings.Index(e, ":"); j >= 0 { // double queue tag "1:F7"
			x = e[j+1:]
		}
		if x[0] == 'F' || x[0] == 'O' {
			keep = append(keep, e)
		}
	}
	return ret + "[" + strings.Join(keep, ",") + "]"
}

var caps = []int{-1, 0, 1, 2, 5}

type history struct {
	dbl        bool
	c1, c2     int
	ops        []qop
	got        []string
	sizes      []int
	msizes     []int // the generator's mirror size after each op
	stuck      int   // index of an op that did not return, or -1
	timedEmpty int
	tostr      [2]string // double queue: ToString1(), ToString2() at the end of the history
	tostrOK    bool
}

// readToString: the double queue's two content renderings, read at the end of a history
func (h *history) readToString(im *impl) {
	if !h.dbl || h.stuck >= 0 {
		return
	}
	o := vh.GuardTimeout(hangLimit, func() { h.tostr = [2]string{im.d.ToString1(), im.d.ToString2()} })
	h.tostrOK = o.OK()
	if !o.OK() {
		h.tostr = [2]string{o.String(), o.String()}
	}
}

// renderItems: what LinkedList.ToString prints for the model's content `1,0,3` (`-` = empty; a nil element prints as nothing)
func renderItems(items string) string {
	if items == "-" || items == "" {
		return ""
	}
	xs := strings.Split(items, ",")
	for i, x := range xs {
		if x == "0" {
			xs[i] = ""
		}
	}
	return strings.Join(xs, ",")
}

// genOp draws one op; the mirror is advanced so that blocking gets are only issued on a non-empty
// queue and positive-timeout gets only where the number of polls does not matter.
func genOp(r *vh.Rng, m *mirror, dbl bool, next *int, budget *int) qop {
	for {
		var kinds []string
		if dbl {
			kinds = []string{"p1", "p2", "f1", "f2", "p1", "p2", "f1", "g", "n", "t", "x", "c", "s", "s1", "s2", "k1", "k2"}
		} else {
			kinds = []string{"p", "p", "p", "f", "f", "g", "n", "t", "x", "c", "s", "k"}
		}
		k := r.PickStr(kinds)
		o := qop{Kind: k}
		switch k {
		case "p", "f", "p1", "p2", "f1", "f2":
			if r.Chance(8) {
				o.X = 0 // nil element
			} else {
				*next++
				o.X = *next
			}
			i := 0
			if k == "p2" || k == "f2" {
				i = 1
			}
			force := k[0] == 'f'
			if m.room(i) {
				m.items[i] = append(m.items[i], o.X)
			} else if force {
				for len(m.items[i]) >= m.cap[i] {
					m.items[i] = m.items[i][1:]
				}
				m.items[i] = append(m.items[i], o.X)
			}
		case "g":
			if m.size() == 0 {
				continue // would block: that is the concurrent part's business
			}
			m.pop()
		case "n":
			m.pop()
		case "t":
			h, ok := m.head()
			switch {
			case !ok:
				// empty queue: returns nil after the timeout; costs wall time, so rationed
				if *budget <= 0 {
					o.Ms, o.X = 0, 0
				} else {
					*budget--
					o.Ms = r.PickInt([]int{0, 1, 1, 10})
					o.X = 2
				}
			case h != 0:
				o.Ms = r.PickInt([]int{0, 1, 10, 50})
				o.X = r.Intn(4)
				m.pop()
			default:
				// nil head: only timeout 0 is deterministic (exactly one poll, which swallows the nil)
				o.Ms, o.X = 0, 0
				m.pop()
			}
		case "x":
			m.items[0], m.items[1] = nil, nil
		case "c":
			o.X, o.Y = r.PickInt(caps), r.PickInt(caps)
			m.cap[0] = o.X
			if dbl {
				m.cap[1] = o.Y
			}
		}
		return o
	}
}

func (m *mirror) pop() {
	for i := 0; i < 2; i++ {
		if len(m.items[i]) > 0 {
			m.items[i] = m.items[i][1:]
			return
		}
	}
}

// per-operation markers are printed in the quick tier only (the thorough tier would write millions)
var thoroughMarkersOff bool

func runHistory(r *vh.Rng, dbl bool, maxOps int, budget *int) *history {
	h := &history{dbl: dbl, c1: r.PickInt(caps), c2: r.PickInt(caps), stuck: -1}
	m := &mirror{cap: [2]int{h.c1, h.c2}}
	im := newImpl(dbl, h.c1, h.c2)
	n := 1 + r.Intn(maxOps)
	next := 0
	at("sequential history: %s capacities %d/%d", qname(dbl), h.c1, h.c2)
	for i := 0; i < n; i++ {
		o := genOp(r, m, dbl, &next, budget)
		h.ops = append(h.ops, o)
		if !thoroughMarkersOff {
			at("sequential %s cap %d/%d op %d: %s (after %d earlier ops of this history)", qname(dbl), h.c1, h.c2, i, o.line(dbl), i)
		}
		before := dateutil.SystemNow()
		res, sz, out := im.apply(o)
		after := dateutil.SystemNow()
		if !out.OK() {
			h.got = append(h.got, out.String())
			h.sizes = append(h.sizes, -1)
			h.stuck = i
			break
		}
		if o.Kind == "t" && strings.HasPrefix(res, "0[") && o.Ms > 0 && int(after-before) < o.Ms {
			h.timedEmpty = i + 1 // returned empty-handed too early
		}
		h.got = append(h.got, res)
		h.sizes = append(h.sizes, sz)
		h.msizes = append(h.msizes, m.size())
	}
	h.readToString(im)
	return h
}

// scriptedHistories: short fixed histories that every run includes — the list re-used after Clear,
// refusal and eviction at capacity 1 and 2, capacity lowered below the size, nil elements.
func scriptedHistories() []history {
	q := func(c1 int, ops ...qop) history { return history{c1: c1, c2: c1, ops: ops, stuck: -1} }
	d := func(c1, c2 int, ops ...qop) history { return history{dbl: true, c1: c1, c2: c2, ops: ops, stuck: -1} }
	p := func(x int) qop { return qop{Kind: "p", X: x} }
	f := func(x int) qop { return qop{Kind: "f", X: x} }
	g, n, x, sz := qop{Kind: "g"}, qop{Kind: "n"}, qop{Kind: "x"}, qop{Kind: "s"}
	t0 := qop{Kind: "t", X: 0, Ms: 0}
	c := func(a int) qop { return qop{Kind: "c", X: a} }
	return []history{
		q(0, p(1), x, p(2), sz, g, sz, n),                     // put, Clear, put, get
		q(0, p(1), p(2), x, sz, p(3), p(4), g, g, n, sz),      // Clear of several, then reuse
		q(2, p(1), x, x, p(2), p(3), p(4), f(5), g, g, n),     // Clear twice, fill, refuse, evict
		q(1, p(1), p(2), f(3), f(4), g, n, x, f(5), t0, sz),   // capacity 1
		q(5, p(1), p(2), p(3), p(4), c(2), f(5), sz, g, g, n), // capacity lowered below the size: evicts several
		q(-1, p(0), p(1), n, g, p(0), t0, sz, x, p(2), t0),    // nil elements
		q(0, x, n, t0, sz, p(1), x, n, p(2), n, n),            // Clear on empty
		d(2, 2, qop{Kind: "p1", X: 1}, qop{Kind: "p2", X: 2}, x, qop{Kind: "p2", X: 3}, qop{Kind: "p1", X: 4}, sz, g, g, n, sz),
		d(1, 1, qop{Kind: "p1", X: 1}, qop{Kind: "p1", X: 2}, qop{Kind: "f1", X: 3}, qop{Kind: "f2", X: 4}, qop{Kind: "f2", X: 5}, g, g, n),
	}
}

func runScripted(sc history) *history {
	h := &history{dbl: sc.dbl, c1: sc.c1, c2: sc.c2, stuck: -1}
	m := &mirror{cap: [2]int{h.c1, h.c2}}
	im := newImpl(h.dbl, h.c1, h.c2)
	for i, o := range sc.ops {
		// keep the mirror (used for the size comparison) in step
		switch o.Kind[0] {
		case 'p', 'f':
			qi := 0
			if strings.HasSuffix(o.Kind, "2") {
				qi = 1
			}
			if m.room(qi) {
				m.items[qi] = append(m.items[qi], o.X)
			} else if o.Kind[0] == 'f' {
				for len(m.items[qi]) >= m.cap[qi] {
					m.items[qi] = m.items[qi][1:]
				}
				m.items[qi] = append(m.items[qi], o.X)
			}
		case 'g', 'n', 't':
			m.pop()
		case 'x':
			m.items[0], m.items[1] = nil, nil
		case 'c':
			m.cap[0] = o.X
			if h.dbl {
				m.cap[1] = o.Y
			}
		}
		h.ops = append(h.ops, o)
		res, sz, out := im.apply(o)
		if !out.OK() {
			h.got = append(h.got, out.String())
			h.sizes = append(h.sizes, -1)
			h.stuck = i
			break
		}
		h.got = append(h.got, res)
		h.sizes = append(h.sizes, sz)
		h.msizes = append(h.msizes, m.size())
	}
	h.readToString(im)
	return h
}

func (h *history) line() string {
	ls := make([]string, len(h.ops))
	for i, o := range h.ops {
		ls[i] = o.line(h.dbl)
	}
	// the model with the repaired timed get when the implementation has the repair
	if h.dbl {
		return fmt.Sprintf("DQ%s %d %d %s", repairSuffix(true), h.c1, h.c2, strings.Join(ls, ";"))
	}
	return fmt.Sprintf("Q%s %d %s", repairSuffix(false), h.c1, strings.Join(ls, ";"))
}

// repairedTimedGet: does GetTimeout hand a nil element out (proposed/C11/fix-KF-nil-element-swallowed.diff)
// instead of swallowing it?  Probed once per queue type on the implementation.
var repairProbe [2]int // 0 unknown, 1 old behaviour, 2 repaired

func repairedTimedGet(dbl bool) bool {
	i := 0
	if dbl {
		i = 1
	}
	if repairProbe[i] == 0 {
		repairProbe[i] = 1
		vh.GuardTimeout(hangLimit, func() {
			var v interface{}
			var sz int
			if dbl {
				d := queue.NewRequestDoubleQueue(0, 0)
				d.Put1(nil)
				d.Put2(5)
				v, sz = d.GetTimeout(30), d.Size()
			} else {
				q := queue.NewRequestQueue(0)
				q.Put(nil)
				q.Put(5)
				v, sz = q.GetTimeout(30), q.Size()
			}
			if v == nil && sz == 1 {
				repairProbe[i] = 2
			}
		})
	}
	return repairProbe[i] == 2
}

func repairSuffix(dbl bool) string {
	if repairedTimedGet(dbl) {
		return "F"
	}
	return ""
}

// directProperty evaluates the property on the implementation's own observations of a history,
// phrased as the property's clauses (it keeps only the list of elements currently owed):
//
//	fifo        every delivered element is the oldest one owed (of queue 1 first, for the double queue)
//	refusal     a put on a full queue returns false, calls the failure callback with exactly that
//	            element and leaves the size unchanged; a put with room returns true, no callback
//	eviction    a forced put on a full queue reports the oldest elements, in order, until there is
//	            room, and ends with exactly `capacity` elements
//	bounded     Size() never exceeds max(capacity, previous size) when the capacity is positive
//	conservation nothing is delivered twice or without having been accepted; Size() equals what is owed
func directProperty(h *history) string {
	var live [2][]int
	cap := [2]int{h.c1, h.c2}
	nq := 1
	if h.dbl {
		nq = 2
	}
	total := func() int { return len(live[0]) + len(live[1]) }
	for i, o := range h.ops {
		if i >= len(h.got) {
			break
		}
		g := h.got[i]
		j := strings.Index(g, "[")
		if j < 0 {
			return fmt.Sprintf("op %d did not return (%s)", i, g)
		}
		ret, evs := g[:j], strings.TrimSuffix(g[j+1:], "]")
		var cbs []string
		if evs != "" {
			cbs = strings.Split(strings.NewReplacer("1:", "", "2:", "").Replace(evs), ",")
		}
		qi := 0
		if strings.HasSuffix(o.Kind, "2") {
			qi = 1
		}
		prev := total()
		switch o.Kind[0] {
		case 'p', 'f':
			force := o.Kind[0] == 'f'
			room := cap[qi] <= 0 || len(live[qi]) < cap[qi]
			switch {
			case room:
				if ret != "t" || len(cbs) != 0 {
					return fmt.Sprintf("op %d %s: there is room (size %d, capacity %d) but it returned %s with callbacks %v (refusal clause)", i, o.line(h.dbl), len(live[qi]), cap[qi], ret, cbs)
				}
				live[qi] = append(live[qi], o.X)
			case !force:
				if ret != "f" || len(cbs) != 1 || cbs[0] != "F"+strconv.Itoa(o.X) {
					return fmt.Sprintf("op %d %s: the queue is full (size %d, capacity %d) but it returned %s with callbacks %v, expected false and the failure callback with %d (refusal clause)", i, o.line(h.dbl), len(live[qi]), cap[qi], ret, cbs, o.X)
				}
			default:
				n := len(live[qi]) - cap[qi] + 1
				if ret != "f" || len(cbs) != n {
					return fmt.Sprintf("op %d %s: forced put on a full queue (size %d, capacity %d) returned %s and reported %d evictions, expected false and %d (eviction clause)", i, o.line(h.dbl), len(live[qi]), cap[qi], ret, len(cbs), n)
				}
				for k := 0; k < n; k++ {
					if cbs[k] != "O"+strconv.Itoa(live[qi][k]) {
						return fmt.Sprintf("op %d %s: eviction %d reported %s, the oldest element owed is %d (eviction clause: oldest first)", i, o.line(h.dbl), k, cbs[k], live[qi][k])
					}
				}
				live[qi] = append(live[qi][n:], o.X)
			}
		case 'g', 'n', 't':
			x, _ := strconv.Atoi(ret)
			src := -1
			for q := 0; q < nq; q++ {
				if len(live[q]) > 0 {
					src = q
					break
				}
			}
			if src < 0 {
				if x != 0 {
					return fmt.Sprintf("op %d %s: delivered %d from an empty queue (conservation clause)", i, o.line(h.dbl), x)
				}
				break
			}
			if o.Kind[0] == 't' && live[src][0] == 0 {
				// timed get over a nil head: the known quirk (a nil element is swallowed); the generator only
				// issues it with timeout 0 = exactly one poll
				live[src] = live[src][1:]
				if x != 0 {
					return fmt.Sprintf("op %d %s: one poll over a nil head returned %d", i, o.line(h.dbl), x)
				}
				break
			}
			if x != live[src][0] {
				return fmt.Sprintf("op %d %s: delivered %d, the oldest element owed is %d of queue %d (fifo clause)", i, o.line(h.dbl), x, live[src][0], src+1)
			}
			live[src] = live[src][1:]
		case 'x':
			live[0], live[1] = nil, nil
		case 'c':
			cap[0] = o.X
			if h.dbl {
				cap[1] = o.Y
			}
		}
		if i < len(h.sizes) && h.sizes[i] != total() {
			return fmt.Sprintf("op %d %s: Size() = %d afterwards, %d elements are owed (conservation clause)", i, o.line(h.dbl), h.sizes[i], total())
		}
		if !h.dbl && cap[0] > 0 && i < len(h.sizes) && h.sizes[i] > prev && h.sizes[i] > cap[0] {
			return fmt.Sprintf("op %d %s: size grew to %d beyond the capacity %d (bounded clause)", i, o.line(h.dbl), h.sizes[i], cap[0])
		}
	}
	return ""
}

func sequential(env *vh.Env, rep *vh.Report, rng *vh.Rng) {
	nHist, maxOps, budget := 500, 300, 60
	if env.Thorough {
		nHist, maxOps, budget = 25000, 300, 1500
	}
	var hs []*history
	var lines []string
	stuck := 0
	for _, sc := range scriptedHistories() {
		h := runScripted(sc)
		hs = append(hs, h)
		lines = append(lines, h.line())
		rep.Count("seq:scripted")
		if h.stuck >= 0 {
			stuck++
		}
	}
	for i := 0; i < nHist; i++ {
		if stuck >= 3 {
			rep.Note("sequential histories stopped after %d operations that never returned (each is reported)", stuck)
			break
		}
		h := runHistory(rng, i%3 == 2, maxOps, &budget)
		if h.stuck >= 0 {
			stuck++
		}
		hs = append(hs, h)
		lines = append(lines, h.line())
		for _, o := range h.ops {
			rep.Count("seq-op:" + o.Kind)
			if (o.Kind[0] == 'p' || o.Kind[0] == 'f') && o.X == 0 {
				rep.Count("seq:nil-element")
			}
		}
		rep.Count(fmt.Sprintf("seq-cap:%d", h.c1))
	}
	outs, err := vh.RunDriver(env.Driver, lines)
	if err != nil {
		vh.Die("driver: %v", err)
	}
	// the same single-queue histories on the queue over the pointer-level linked list (driver line QL,
	// Queue/OverLinked.lean; theorem C11.queue_over_linked_list_refines): same answers, same final content
	var qlLines []string
	var qlIdx []int
	for i, l := range lines {
		if strings.HasPrefix(l, "QF ") {
			qlLines = append(qlLines, "QL "+l[3:])
			qlIdx = append(qlIdx, i)
		}
	}
	if len(qlLines) > 0 {
		qlOuts, err := vh.RunDriver(env.Driver, qlLines)
		if err != nil {
			vh.Die("driver: %v", err)
		}
		for n, i := range qlIdx {
			rep.Count("seq:over-linked-list")
			if qlOuts[n] != outs[i] {
				rep.Fail("correspondence", "queueOverLinkedList:model", "the queue model over the pointer-level linked list answers differently from the abstract queue model",
					map[string]interface{}{"line": qlLines[n], "over_linked_list": qlOuts[n], "abstract": outs[i]})
				break
			}
		}
	}
	for i, h := range hs {
		main := outs[i]
		final := ""
		if j := strings.Index(main, " | "); j >= 0 {
			main, final = main[:j], main[j+3:]
		}
		model := strings.Split(main, ";")
		nontrivial := false
		for _, a := range model {
			if strings.Contains(a, "[a") || strings.Contains(a, ":a") || strings.Contains(a, "O") || strings.Contains(a, "F") {
				nontrivial = true
			}
		}
		rep.Case(lines[i], nontrivial)
		replay := map[string]interface{}{"line": lines[i], "ops": h.ops}
		if h.stuck >= 0 {
			rep.Fail("property", qname(h.dbl)+"."+opName(h.ops[h.stuck].Kind)+":"+h.got[h.stuck],
				fmt.Sprintf("sequential history: op %d (%s) did not return normally: %s", h.stuck, h.ops[h.stuck].line(h.dbl), h.got[h.stuck]), replay)
			continue
		}
		if h.timedEmpty > 0 {
			o := h.ops[h.timedEmpty-1]
			rep.Fail("property", qname(h.dbl)+".GetTimeout:returned-early",
				fmt.Sprintf("GetTimeout(%d) returned empty-handed before %d ms had elapsed on the clock it uses", o.Ms, o.Ms), replay)
		}
		// model size after each op: replay the model's events is the driver's job; we compare the final
		// size via the op `s` the generator inserts, plus every return value and callback list
		for k := range h.ops {
			if k >= len(model) {
				break
			}
			for _, ch := range []string{"F", "O", "w"} {
				if n := strings.Count(model[k], ch); n > 0 {
					rep.CountN(map[string]string{"F": "seq:refused-put", "O": "seq:evicted-element", "w": "seq:swallowed-nil"}[ch], n)
				}
			}
			if strings.HasPrefix(model[k], "f[") && strings.Contains(model[k], "O") {
				rep.Count("seq:putForce-on-full")
			}
			want := observable(model[k])
			if h.got[k] == want && (k >= len(h.msizes) || h.sizes[k] == h.msizes[k]) {
				continue
			}
			if h.got[k] == want {
				replay["op_index"] = k
				rep.Fail("property", qname(h.dbl)+".Size:wrong-after-"+opName(h.ops[k].Kind),
					fmt.Sprintf("after op %d %s Size() = %d, the queue content implies %d", k, h.ops[k].line(h.dbl), h.sizes[k], h.msizes[k]), replay)
				break
			}
			replay["op_index"] = k
			replay["implementation"] = h.got[k]
			replay["model"] = model[k]
			why := directProperty(h)
			op := h.ops[k]
			if why != "" {
				rep.Fail("property", qname(h.dbl)+"."+opName(op.Kind)+":"+classify(why), "sequential history violates the property on the implementation: "+why, replay)
			} else {
				rep.Fail("correspondence", qname(h.dbl)+"."+opName(op.Kind)+":model-mismatch",
					fmt.Sprintf("op %d %s: implementation answered %s, model %s; direct evaluation of FIFO/accounting found no violation", k, op.line(h.dbl), h.got[k], want), replay)
			}
			break
		}
		// the direct evaluation runs on every history, mismatch or not
		why := directProperty(h)
		if why != "" {
			rep.Fail("property", qname(h.dbl)+":"+classify(why), "sequential history violates the property on the implementation: "+why, replay)
		}
		// ToString1 / ToString2 of the double queue against the model's final content
		if parts := strings.Split(final, " "); h.dbl && why == "" && len(parts) == 2 && len(h.got) == len(h.ops) {
			for qi, part := range parts {
				items := part
				if j := strings.LastIndex(part, "/"); j >= 0 {
					items = part[:j]
				}
				rep.Count("seq:double-queue-ToString")
				if want := renderItems(items); h.tostr[qi] != want && rep.NFail() == 0 {
					rep.Fail("correspondence", fmt.Sprintf("RequestDoubleQueue.ToString%d:model-mismatch", qi+1),
						fmt.Sprintf("at the end of the history ToString%d() = %q, the model's content renders as %q", qi+1, h.tostr[qi], want), replay)
				}
			}
		}
	}
	rep.Sample(map[string]interface{}{"history": lines[0], "model": outs[0]})
}

// replaySequential re-runs the sequential histories stored in a replay file (`-replay`).
func replaySequential(env *vh.Env, rep *vh.Report) bool {
	b, err := os.ReadFile(env.Replay)
	if err != nil {
		vh.Die("cannot read replay: %v", err)
	}
	var r struct {
		Cases []struct {
			Line string `json:"line"`
			Ops  []qop  `json:"ops"`
		} `json:"cases"`
	}
	if json.Unmarshal(b, &r) != nil {
		return false
	}
	n := 0
	for _, c := range r.Cases {
		f := strings.Fields(c.Line)
		if len(c.Ops) == 0 || len(f) < 3 {
			continue
		}
		h := &history{dbl: strings.HasPrefix(f[0], "DQ"), stuck: -1}
		h.c1, _ = strconv.Atoi(f[1])
		if h.dbl {
			h.c2, _ = strconv.Atoi(f[2])
		}
		im := newImpl(h.dbl, h.c1, h.c2)
		for i, o := range c.Ops {
			res, sz, out := im.apply(o)
			h.ops = append(h.ops, o)
			if !out.OK() {
				h.got = append(h.got, out.String())
				h.stuck = i
				break
			}
			h.got = append(h.got, res)
			h.sizes = append(h.sizes, sz)
		}
		n++
		rep.Case(c.Line, true)
		if h.stuck >= 0 {
			rep.Fail("property", qname(h.dbl)+"."+opName(h.ops[h.stuck].Kind)+":"+h.got[h.stuck], "replayed history: an operation did not return", c.Line)
		} else if why := directProperty(h); why != "" {
			rep.Fail("property", qname(h.dbl)+":"+classify(why), "replayed history violates the property on the implementation: "+why, map[string]interface{}{"line": c.Line, "ops": c.Ops})
		}
	}
	return n > 0
}

func qname(dbl bool) string {
	if dbl {
		return "RequestDoubleQueue"
	}
	return "RequestQueue"
}

func opName(k string) string {
	return map[string]string{"p": "Put", "f": "PutForce", "g": "Get", "n": "GetNoWait", "t": "GetTimeout", "x": "Clear",
		"c": "SetCapacity", "s": "Size", "k": "GetCapacity", "p1": "Put1", "p2": "Put2", "f1": "PutForce1", "f2": "PutForce2",
		"s1": "Size1", "s2": "Size2", "k1": "GetCapacity1", "k2": "GetCapacity2"}[k]
}

func classify(why string) string {
	for _, c := range []string{"fifo", "refusal", "eviction", "bounded", "conservation"} {
		if strings.Contains(why, c+" clause") {
			return c
		}
	}
	return "property"
}

// ---------------------------------------------------------------- concurrent producers / consumers

// (CapChanger: a goroutine keeps calling SetCapacity with 0 / −1 / 1 / 2 / 5 while producers and consumers run)
type concCfg struct {
	CapChanger bool `json:"capacity_changer"`
	Producers  int  `json:"producers"`
	Consumers  int  `json:"consumers"`
	PerProd    int  `json:"per_producer"`
	Cap        int  `json:"cap"`
	Force      bool `json:"force"`
	Timed      bool `json:"timed_consumers"`
	Double     bool `json:"double"`
}

const stopPill = -7

func concurrentRun(cfg concCfg) (fail string, detail map[string]interface{}) {
	at("concurrent run %+v", cfg)
	var mu sync.Mutex // protects the callback logs (callbacks run in the putting goroutine)
	var failed, overflowed []int
	var put func(p int, v interface{}, force bool) bool
	var get func() interface{}
	var getT func(ms int) interface{}
	var size func() int
	var setCap func(int)
	if cfg.Double {
		d := queue.NewRequestDoubleQueue(cfg.Cap, cfg.Cap)
		setDoubleCB(d, func(v interface{}) { mu.Lock(); failed = append(failed, unelem(v)); mu.Unlock() },
			func(v interface{}) { mu.Lock(); overflowed = append(overflowed, unelem(v)); mu.Unlock() })
		put = func(p int, v interface{}, force bool) bool {
			switch {
			case p%2 == 0 && force:
				return d.PutForce1(v)
			case p%2 == 0:
				return d.Put1(v)
			case force:
				return d.PutForce2(v)
			}
			return d.Put2(v)
		}
		get, getT, size = d.Get, d.GetTimeout, d.Size
		setCap = func(c int) { d.SetCapacity(c, c) }
	} else {
		q := queue.NewRequestQueue(cfg.Cap)
		q.Failed = func(v interface{}) { mu.Lock(); failed = append(failed, unelem(v)); mu.Unlock() }
		q.Overflowed = func(v interface{}) { mu.Lock(); overflowed = append(overflowed, unelem(v)); mu.Unlock() }
		put = func(p int, v interface{}, force bool) bool {
			if force {
				return q.PutForce(v)
			}
			return q.Put(v)
		}
		get, getT, size = q.Get, q.GetTimeout, q.Size
		setCap = q.SetCapacity
	}

	started := time.Now()
	received := make([][]int, cfg.Consumers)
	gotNil := make([]int, cfg.Consumers)
	var cwg sync.WaitGroup
	for c := 0; c < cfg.Consumers; c++ {
		cwg.Add(1)
		go func(c int) {
			defer cwg.Done()
			for {
				var v interface{}
				if cfg.Timed {
					v = getT(20)
					if v == nil {
						if time.Since(started) > 15*time.Second {
							return
						}
						continue
					}
				} else {
					v = get()
				}
				x := unelem(v)
				if x == stopPill {
					return
				}
				if x == 0 {
					gotNil[c]++ // a blocking get must not come back empty-handed (no nil element is ever put here)
					if gotNil[c] > 1000 && !cfg.Timed {
						return // do not spin on a queue that hands out nothing forever
					}
					continue
				}
				received[c] = append(received[c], x)
			}
		}(c)
	}
	// consumers first: give them time to block in Get() before any producer exists
	time.Sleep(15 * time.Millisecond)

	accepted := make([][]int, cfg.Producers)
	var pwg sync.WaitGroup
	for p := 0; p < cfg.Producers; p++ {
		pwg.Add(1)
		go func(p int) {
			defer pwg.Done()
			for i := 1; i <= cfg.PerProd; i++ {
				id := (p+1)*1000000 + i
				ok := put(p, id, cfg.Force)
				if ok || cfg.Force {
					accepted[p] = append(accepted[p], id)
				}
			}
		}(p)
	}
	var changerStop int32
	changerDone := make(chan struct{})
	go func() {
		defer close(changerDone)
		for i := 0; cfg.CapChanger && atomic.LoadInt32(&changerStop) == 0; i++ {
			setCap([]int{0, -1, 1, 2, 5}[i%5])
			runtime.Gosched()
		}
	}()
	done := make(chan struct{})
	go func() {
		pwg.Wait()
		atomic.StoreInt32(&changerStop, 1)
		<-changerDone
		if cfg.CapChanger {
			setCap(cfg.Cap)
		}
		// stop pills: plain puts, retried while the queue is full (consumers are draining);
		// a double queue serves queue 1 first, so pills go to queue 2 (odd producer index)
		for c := 0; c < cfg.Consumers; c++ {
			for !put(1, stopPill, false) {
				time.Sleep(200 * time.Microsecond)
			}
		}
		cwg.Wait()
		close(done)
	}()
	select {
	case <-done:
	case <-time.After(hangLimit):
		return "stranded", map[string]interface{}{"config": cfg, "what": "producers finished and stop pills were offered, but not every consumer returned within 25 s", "size": size()}
	}
	for c, n := range gotNil {
		if n > 0 && !cfg.Timed {
			return "get-returned-nothing", map[string]interface{}{"config": cfg, "consumer": c, "times": n, "what": "a blocking Get() returned nil although no nil element was ever put"}
		}
	}
	// accounting
	where := map[int]string{}
	for _, x := range overflowed {
		if x == stopPill {
			continue
		}
		if w, dup := where[x]; dup {
			return "duplicate", map[string]interface{}{"config": cfg, "element": x, "first": w, "second": "overflowed"}
		}
		where[x] = "overflowed"
	}
	for c, rs := range received {
		last := map[int]int{}
		for _, x := range rs {
			if w, dup := where[x]; dup {
				return "duplicate", map[string]interface{}{"config": cfg, "element": x, "first": w, "second": fmt.Sprintf("consumer %d", c)}
			}
			where[x] = fmt.Sprintf("consumer %d", c)
			p, i := x/1000000, x%1000000
			if i <= last[p] {
				return "per-producer-order", map[string]interface{}{"config": cfg, "consumer": c, "element": x, "after": p*1000000 + last[p]}
			}
			last[p] = i
		}
	}
	nAcc := 0
	for _, as := range accepted {
		nAcc += len(as)
		for _, x := range as {
			if _, ok := where[x]; !ok {
				return "lost", map[string]interface{}{"config": cfg, "element": x, "what": "accepted, but neither delivered nor reported evicted; queue size at the end " + strconv.Itoa(size())}
			}
		}
	}
	if len(where) != nAcc {
		return "phantom-element", map[string]interface{}{"config": cfg, "accounted": len(where), "accepted": nAcc}
	}
	refused := map[int]bool{}
	for _, x := range failed {
		if x != stopPill {
			refused[x] = true
		}
	}
	for x := range refused {
		if _, ok := where[x]; ok {
			return "refused-but-delivered", map[string]interface{}{"config": cfg, "element": x}
		}
	}
	return "", nil
}

func concurrent(env *vh.Env, rep *vh.Report, rng *vh.Rng) {
	rounds := 40
	if env.Thorough {
		rounds = 1500
	}
	type res struct {
		cfg    concCfg
		fail   string
		detail map[string]interface{}
	}
	cfgs := make([]concCfg, rounds)
	for i := range cfgs {
		cfgs[i] = concCfg{Producers: 1 + rng.Intn(4), Consumers: 1 + rng.Intn(4), PerProd: 50 + rng.Intn(400),
			Cap: rng.PickInt([]int{-1, 0, 1, 2, 5, 64}), Force: rng.Chance(35), Timed: rng.Chance(20), Double: rng.Chance(30), CapChanger: rng.Chance(30)}
		if env.Thorough && rng.Chance(30) {
			cfgs[i].Producers, cfgs[i].Consumers = 1+rng.Intn(8), 1+rng.Intn(8)
		}
	}
	out := make([]res, rounds)
	sem := make(chan struct{}, 6)
	var wg sync.WaitGroup
	var stranded int32
	for i := range cfgs {
		if atomic.LoadInt32(&stranded) >= 2 {
			break // every further round would only wait for its watchdog / repeat the same failure
		}
		wg.Add(1)
		sem <- struct{}{}
		go func(i int) {
			defer wg.Done()
			defer func() { <-sem }()
			f, d := concurrentRun(cfgs[i])
			if f != "" {
				atomic.AddInt32(&stranded, 1)
			}
			out[i] = res{cfgs[i], f, d}
		}(i)
	}
	wg.Wait()
	for _, r := range out {
		if r.cfg.Producers == 0 {
			continue // not run
		}
		rep.Case(fmt.Sprintf("conc %+v", r.cfg), r.cfg.Producers+r.cfg.Consumers >= 2)
		rep.Count(fmt.Sprintf("conc:%dx%d", r.cfg.Producers, r.cfg.Consumers))
		rep.Count(fmt.Sprintf("conc-cap:%d", r.cfg.Cap))
		if r.cfg.Force {
			rep.Count("conc:putForce")
		}
		if r.cfg.Timed {
			rep.Count("conc:timed-consumers")
		}
		if r.cfg.Double {
			rep.Count("conc:double-queue")
		}
		if r.cfg.CapChanger {
			rep.Count("conc:capacity-changed-concurrently")
		}
		if r.fail != "" {
			name := qname(r.cfg.Double)
			key := name + ":" + r.fail
			if r.fail == "stranded" {
				key = name + ".Get:stranded-consumer"
			}
			rep.Fail("property", key, "concurrent producers/consumers: "+r.fail, r.detail)
		}
	}
	rep.Sample(map[string]interface{}{"concurrent_config": cfgs[0]})
}

// ---------------------------------------------------------------- timed gets against the real clock

func timed(env *vh.Env, rep *vh.Report) {
	reps := 3
	if env.Thorough {
		reps = 15
	}
	var worst time.Duration
	for _, dbl := range []bool{false, true} {
		for _, ms := range []int{0, 1, 10, 50} {
			for i := 0; i < reps; i++ {
				var get func(int) interface{}
				if dbl {
					get = queue.NewRequestDoubleQueue(2, 2).GetTimeout
				} else {
					get = queue.NewRequestQueue(2).GetTimeout
				}
				before := dateutil.SystemNow()
				t0 := time.Now()
				var v interface{}
				if o := vh.GuardTimeout(time.Duration(ms)*time.Millisecond+hangLimit, func() { v = get(ms) }); o.Timeout {
					rep.Fail("property", qname(dbl)+".GetTimeout:never-returns", fmt.Sprintf("GetTimeout(%d) on an empty queue had not returned %d ms + 25 s later", ms, ms), map[string]interface{}{"timeout_ms": ms})
					return
				}
				el := time.Since(t0)
				after := dateutil.SystemNow()
				rep.Case(fmt.Sprintf("timed %v %d #%d", dbl, ms, i), ms > 0)
				rep.Count(fmt.Sprintf("timed:%dms", ms))
				if v != nil {
					rep.Fail("property", qname(dbl)+".GetTimeout:phantom-element", "GetTimeout on an empty queue returned an element", map[string]interface{}{"timeout_ms": ms})
				}
				if int(after-before) < ms {
					rep.Fail("property", qname(dbl)+".GetTimeout:returned-early",
						fmt.Sprintf("GetTimeout(%d) on an empty queue returned empty-handed after %d ms of the clock it uses", ms, after-before),
						map[string]interface{}{"timeout_ms": ms, "elapsed_ms": after - before})
				}
				if over := el - time.Duration(ms)*time.Millisecond; over > worst {
					worst = over
				}
			}
		}
	}
	rep.Note("timed gets: largest overshoot beyond the timeout %.1f ms (reported, not asserted: the machine is shared)", float64(worst)/1e6)
	// the abstract-clock model on a few environments (also exercises the driver's T line)
	lines := []string{"T 150 0@120;0@140;0@151", "T 150 0@120;9@140", "T 0 0@0", "T 100 0@40"}
	want := []string{"timeout 151", "got 9", "timeout 0", "running"}
	outs, err := vh.RunDriver(env.Driver, lines)
	if err != nil {
		vh.Die("driver: %v", err)
	}
	for i := range lines {
		if outs[i] != want[i] {
			rep.Fail("correspondence", "timedGet:model", "timed-get model answer changed", map[string]interface{}{"line": lines[i], "got": outs[i], "want": want[i]})
		}
	}
}

// ---------------------------------------------------------------- known finding replay

func knownFindings(rep *vh.Report) {
	q := queue.NewRequestQueue(0)
	q.Put(nil)
	q.Put(5)
	v := q.GetTimeout(100)
	still := unelem(v) == 5 && q.Size() == 0
	rep.KnownReplay(keyNilSwallowed, still,
		"Put(nil); Put(5); GetTimeout(100) returns 5 and leaves the queue empty: the nil element was popped by the polling loop and handed to nobody")
	d := queue.NewRequestDoubleQueue(2, 2)
	d.Put1(nil)
	d.Put2(5)
	v = d.GetTimeout(100)
	rep.KnownReplay("RequestDoubleQueue.GetTimeout:nil-element-swallowed", unelem(v) == 5 && d.Size() == 0,
		"Put1(nil); Put2(5); GetTimeout(100) returns 5 from queue 2 although queue 1 held a (nil) element, which is gone")
	rep.KnownReplay("RequestDoubleQueue:callbacks-unsettable", callbacksUnsettable(),
		"RequestDoubleQueue has neither an exported callback field nor a method taking a function: refused/evicted elements cannot be reported")
}

// callbacksUnsettable: no exported field or method of RequestDoubleQueue lets a caller install the
// failure / overflow callbacks.
func callbacksUnsettable() bool {
	t := reflect.TypeOf(queue.NewRequestDoubleQueue(1, 1))
	for i := 0; i < t.Elem().NumField(); i++ {
		f := t.Elem().Field(i)
		if f.IsExported() && f.Type.Kind() == reflect.Func {
			return false
		}
	}
	for i := 0; i < t.NumMethod(); i++ {
		m := t.Method(i)
		for j := 1; j < m.Type.NumIn(); j++ {
			if m.Type.In(j).Kind() == reflect.Func {
				return false
			}
		}
	}
	return true
}

func main() {
	env, rep := vh.Parse("C11")
	rng := vh.NewRng(env.Seed)
	if *childMode == "syncclock" {
		syncClockChild()
		return
	}
	if *childMode == "" {
		rep.Rule = "see the worker: sequential histories, concurrent producer/consumer runs, timed gets; the probes run in a worker process (a runtime fatal is a finding)"
		defer func() {}()
		superviseWithRule(env, rep)
		return
	}
	workerMode = true
	thoroughMarkersOff = env.Thorough
	ppid := os.Getppid()
	go func() {
		for {
			time.Sleep(2 * time.Second)
			if os.Getppid() != ppid {
				os.Exit(0) // the supervisor is gone
			}
		}
	}()
	rep.Rule = "sequential: one case per history (≤ 300 ops), non-trivial when at least one element is accepted, refused or evicted; " +
		"concurrent: one case per (producers × consumers, capacity, put mode) run, non-trivial when ≥ 2 goroutines share the queue; " +
		"timed: one case per GetTimeout call on an empty queue, non-trivial when the timeout is positive"
	if env.Replay != "" && replaySequential(env, rep) {
		knownFindings(rep)
		rep.Write(env.Out)
		return
	}
	deadline := 7 * time.Minute
	if env.Thorough {
		deadline = 40 * time.Minute
	}
	go func() {
		time.Sleep(deadline)
		rep.Note("the harness did not finish within %v (busy machine?): partial report written; hangs of the implementation are reported by the per-call watchdogs", deadline)
		rep.Count("harness-deadline")
		rep.Write(env.Out)
		os.Exit(0)
	}()
	phase := func(name string, d time.Duration, f func()) {
		if skipped(name) {
			rep.Note("phase %s left out: it crashed the previous worker (reported)", name)
			return
		}
		at("phase %s", name)
		if o := vh.GuardTimeout(3*d, f); o.Panic != "" {
			rep.Fail("correspondence", "harness:"+name+"-panic", "the "+name+" part of the harness panicked: "+vh.Clip(o.Panic, 200), nil)
		} else if o.Timeout {
			// every call into the implementation inside the phases has a watchdog of its own (hangLimit) that
			// reports a hang as a finding; a phase that merely runs long on a busy machine is reduced coverage
			rep.Note("phase %s did not finish within %v (busy machine): reduced coverage in this run, not a failure", name, 3*d)
			rep.Count("phase-cut-short:" + name)
		}
	}
	phase("blocked-consumers", 2*time.Minute, func() { blockedConsumers(env, rep) })
	phase("fifo-wake", time.Minute, func() { fifoWake(env, rep) })
	phase("nil-stress", 2*time.Minute, func() { nilStress(env, rep) })
	phase("sequential", deadline/2, func() { sequential(env, rep, rng.Fork()) }) // every call inside is under its own watchdog
	phase("concurrent", deadline/2, func() { concurrent(env, rep, rng.Fork()) })
	phase("timed", time.Minute, func() { timed(env, rep) })
	phase("timed-in-company", 3*time.Minute, func() { timedInCompany(env, rep, rng.Fork()) })
	phase("timed-under-clock-delta", 2*time.Minute, func() { timedUnderDelta(env, rep) })
	phase("sync-clock", 4*time.Minute, func() { syncClockStage(env, rep) })
	phase("callback-window", time.Minute, func() { callbackWindow(env, rep) })
	phase("callback-window-ops", 2*time.Minute, func() { callbackWindowOps(env, rep) })
	phase("clear-races", 2*time.Minute, func() { clearRaces(env, rep) })
	phase("panicking-callbacks", time.Minute, func() { panickingCallbacks(env, rep) })
	phase("timed-arrival", time.Minute, func() { timedArrival(env, rep) })
	phase("timed-out-then-put", time.Minute, func() { timedOutThenPut(env, rep) })
	phase("known-findings", 30*time.Second, func() { knownFindings(rep) })
	_ = sort.Ints
	rep.Write(env.Out)
	os.Exit(0) // goroutines of operations that never returned are abandoned
}

// ---------------------------------------------------------------- PutForce must stay atomic around its callbacks

// callbackWindow: the queue is full; a forced put evicts and calls Overflowed.  From inside the
// callback another goroutine tries a plain Put (another goroutine, because on the code as it stands the
// callback runs under the queue's lock and a direct call would self-deadlock); the callback waits up to
// 150 ms for it.  Atomicity of PutForce demands that this Put takes effect either before the eviction or
// after the forced element was added: it is refused (the queue is full again) or still blocked when
// PutForce returns — and the queue never holds more than `capacity` elements.
func callbackWindow(env *vh.Env, rep *vh.Report) {
	reps := 3
	if env.Thorough {
		reps = 20
	}
	for _, dbl := range []bool{false, true} {
		for _, capacity := range []int{1, 2, 5} {
			for r := 0; r < reps; r++ {
				var putForce func(v interface{}) bool
				var put func(v interface{}) bool
				var size func() int
				var once sync.Once
				innerDone := make(chan bool, 1)
				var innerReturnedInFlight int32
				cb := func(v interface{}) {
					once.Do(func() {
						go func() {
							innerDone <- put(9999)
						}()
						select {
						case ok := <-innerDone:
							// exact: the callback — hence the PutForce — is still running
							atomic.StoreInt32(&innerReturnedInFlight, 1)
							innerDone <- ok
						case <-time.After(150 * time.Millisecond):
						}
					})
				}
				if dbl {
					d := queue.NewRequestDoubleQueue(capacity, capacity)
					if !setDoubleCB(d, func(interface{}) {}, cb) {
						continue
					}
					putForce, put, size = d.PutForce1, d.Put1, d.Size1
				} else {
					q := queue.NewRequestQueue(capacity)
					q.Overflowed = cb
					putForce, put, size = q.PutForce, q.Put, q.Size
				}
				for i := 1; i <= capacity; i++ {
					put(i)
				}
				out := vh.GuardTimeout(hangLimit, func() { putForce(1000) })
				name := qname(dbl)
				rep.Case(fmt.Sprintf("callback-window %s cap=%d", name, capacity), true)
				rep.Count("callback-window:runs")
				if !out.OK() {
					rep.Fail("property", name+".PutForce:"+out.String(), "PutForce with an Overflowed callback that waits for a concurrent Put did not return", map[string]interface{}{"capacity": capacity})
					return
				}
				accepted, finished := false, false
				select {
				case accepted = <-innerDone:
					finished = true
				case <-time.After(hangLimit):
				}
				sz := -1
				vh.GuardTimeout(hangLimit, func() { sz = size() })
				replay := map[string]interface{}{"type": name, "capacity": capacity, "size_after": sz, "inner_put_accepted": accepted, "inner_put_finished": finished,
					"inner_put_returned_while_putforce_in_flight": atomic.LoadInt32(&innerReturnedInFlight) == 1,
					"how": "fill the queue to capacity; Overflowed callback starts a goroutine doing Put(9999) and waits ≤150 ms for it; call PutForce(1000); then read Size()"}
				switch {
				case sz > capacity:
					rep.Fail("property", name+".PutForce:bounded",
						fmt.Sprintf("%s capacity %d: a plain Put issued while PutForce was running its Overflowed callback was accepted, and the forced element was added on top: Size() = %d > capacity", name, capacity, sz), replay)
					return
				case accepted && atomic.LoadInt32(&innerReturnedInFlight) == 1:
					rep.Fail("property", name+".PutForce:not-atomic",
						fmt.Sprintf("%s capacity %d: a plain Put was accepted in the middle of a PutForce (between its eviction and its add)", name, capacity), replay)
					return
				}
			}
		}
	}
}

// ---------------------------------------------------------------- timed get under a server-time delta

// timedUnderDelta: dateutil keeps a server-time correction (SetDelta / SetServerTime) that shifts Now()
// but not SystemNow().  The timed get's bound is about elapsed time, so it must hold for every delta.
func timedUnderDelta(env *vh.Env, rep *vh.Report) {
	saved := dateutil.GetDelta()
	defer dateutil.SetDelta(saved)
	type dcase struct {
		name  string
		delta func(ms int) int64
	}
	cases := []dcase{
		{"0", func(int) int64 { return 0 }},
		{"+1s", func(int) int64 { return 1000 }},
		{"-1s", func(int) int64 { return -1000 }},
		{"+1h", func(int) int64 { return 3600000 }},
		{"-1h", func(int) int64 { return -3600000 }},
		{"-timeout/2", func(ms int) int64 { return -int64(ms) / 2 }},
		{"+timeout/2", func(ms int) int64 { return int64(ms) / 2 }},
	}
	for _, dbl := range []bool{false, true} {
		for _, dc := range cases {
			for _, ms := range []int{10, 40} {
				var get func(int) interface{}
				if dbl {
					get = queue.NewRequestDoubleQueue(2, 2).GetTimeout
				} else {
					get = queue.NewRequestQueue(2).GetTimeout
				}
				dateutil.SetDelta(dc.delta(ms))
				before := dateutil.SystemNow()
				var v interface{}
				out := vh.GuardTimeout(time.Duration(ms)*time.Millisecond+hangLimit, func() { v = get(ms) })
				after := dateutil.SystemNow()
				dateutil.SetDelta(saved)
				name := qname(dbl)
				rep.Case(fmt.Sprintf("timed-delta %s %s %dms", name, dc.name, ms), true)
				rep.Count("timed:clock-delta " + dc.name)
				replay := map[string]interface{}{"type": name, "timeout_ms": ms, "server_time_delta": dc.name, "elapsed_ms": after - before,
					"how": "dateutil.SetDelta(delta); GetTimeout(timeout) on an empty queue; elapsed measured with dateutil.SystemNow()"}
				switch {
				case out.Timeout:
					rep.Fail("property", name+".GetTimeout:never-returns-under-clock-delta",
						fmt.Sprintf("GetTimeout(%d) on an empty queue with server-time delta %s had not returned %d ms + 5 s later", ms, dc.name, ms), replay)
				case !out.OK():
					rep.Fail("property", name+".GetTimeout:panic", "GetTimeout panicked: "+vh.Clip(out.Panic, 100), replay)
				case v != nil:
					rep.Fail("property", name+".GetTimeout:phantom-element", "GetTimeout on an empty queue returned an element", replay)
				case int(after-before) < ms:
					rep.Fail("property", name+".GetTimeout:returned-early",
						fmt.Sprintf("GetTimeout(%d) on an empty queue with server-time delta %s returned empty-handed after %d ms", ms, dc.name, after-before), replay)
				}
			}
		}
	}
}

// ---------------------------------------------------------------- timed get with arrivals (model: timedGetQ, driver line TQ)

// timedArrival: a timed get is waiting on an empty queue; another goroutine puts while it waits.
// The model of the polling loop (`Queue.timedGetQ`, theorem `C11.timed_get_returns_arrival`) says what
// must come back; the schedule "first poll empty, then the puts, then a poll" is expressed as rounds.
func timedArrival(env *vh.Env, rep *vh.Report) {
	type scen struct {
		name   string
		puts   []int  // elements put while the get is waiting (0 = nil)
		rounds string // the same as rounds of the model, clock relative to a deadline of 1000
		want   int    // element returned (0 = nothing)
		left   int    // Size() afterwards
	}
	scens := []scen{
		{"one element arrives", []int{7}, "-@100|p7@200|-@1001", 7, 0},
		{"nil then an element arrive", []int{0, 5}, "-@100|p0,p5@200|-@1001", 5, 0},
		{"two elements arrive", []int{3, 4}, "-@100|p3,p4@200|-@1001", 3, 1},
		{"nothing arrives", nil, "-@100|-@500|-@1001", 0, 0},
	}
	var lines []string
	for _, sc := range scens {
		lines = append(lines, "TQ 1000 0 "+sc.rounds)
	}
	outs, err := vh.RunDriver(env.Driver, lines)
	if err != nil {
		vh.Die("driver: %v", err)
	}
	for i, sc := range scens {
		if sc.name == "nil then an element arrive" && (repairedTimedGet(false) || repairedTimedGet(true)) {
			continue // with the repair the nil element itself is handed out; timedGetQ models the code as it stands
		}
		wantModel := fmt.Sprintf("got %d ", sc.want)
		if sc.want == 0 {
			wantModel = "timeout 1001 "
		}
		if !strings.HasPrefix(outs[i], wantModel) || !strings.HasSuffix(outs[i], fmt.Sprintf("| %s/0", listN(sc.left, sc.puts))) {
			rep.Fail("correspondence", "timedGetQ:model", "the polling-loop model answers differently from what the harness scenario expects",
				map[string]interface{}{"line": lines[i], "driver": outs[i], "scenario": sc.name})
		}
		for _, dbl := range []bool{false, true} {
			name := qname(dbl)
			// one attempt: GetTimeout(timeout) waits on an empty queue, the puts follow 25 ms later
			attempt := func(timeout int) (got, sz int, out vh.Outcome, elapsed int64) {
				var getT func(int) interface{}
				var put func(interface{}) bool
				var size func() int
				if dbl {
					d := queue.NewRequestDoubleQueue(0, 0)
					getT, put, size = d.GetTimeout, d.Put1, d.Size
				} else {
					q := queue.NewRequestQueue(0)
					getT, put, size = q.GetTimeout, q.Put, q.Size
				}
				var v interface{}
				before := dateutil.SystemNow()
				done := make(chan vh.Outcome, 1)
				go func() {
					done <- vh.GuardTimeout(time.Duration(timeout)*time.Millisecond+hangLimit, func() { v = getT(timeout) })
				}()
				time.Sleep(25 * time.Millisecond)
				for _, x := range sc.puts {
					put(elem(x))
				}
				out = <-done
				elapsed = dateutil.SystemNow() - before
				sz = -1
				vh.GuardTimeout(hangLimit, func() { sz = size() })
				return unelem(v), sz, out, elapsed
			}
			timeout := 250
			got, sz, out, elapsed := attempt(timeout)
			if out.OK() && sc.want != 0 && got == 0 {
				// The loop polls, sleeps a third of the remaining time and gives up *without polling again* once the
				// deadline has passed: on a busy machine a descheduled caller can sleep through a 250 ms deadline
				// and legitimately miss an element that arrived meanwhile.  Decide with a deadline that a stall
				// cannot eat up: 6 s (first sleep 2 s, margin 4 s).
				rep.Count("timed:arrival-retried-with-long-timeout")
				timeout = 6000
				got, sz, out, elapsed = attempt(timeout)
			}
			rep.Case(fmt.Sprintf("timed-arrival %s %s", name, sc.name), true)
			rep.Count("timed:arrival-scenarios")
			replay := map[string]interface{}{"type": name, "scenario": sc.name, "timeout_ms": timeout, "puts_while_waiting": sc.puts,
				"returned": got, "model": outs[i], "how": "GetTimeout(timeout) on an empty queue in one goroutine; 25 ms later the puts; compare the result with Queue.timedGetQ"}
			switch {
			case !out.OK():
				rep.Fail("property", name+".GetTimeout:"+out.String(), "GetTimeout did not return although "+sc.name, replay)
			case got != sc.want:
				key := name + ".GetTimeout:missed-arrival"
				if sc.want == 0 {
					key = name + ".GetTimeout:phantom-element"
				}
				rep.Fail("property", key, fmt.Sprintf("%s: GetTimeout(%d) returned %d, the polling-loop model returns %d", sc.name, timeout, got, sc.want), replay)
			case sz != sc.left:
				rep.Fail("property", name+".GetTimeout:conservation", fmt.Sprintf("%s: Size() = %d afterwards, the model leaves %d", sc.name, sz, sc.left), replay)
			case sc.want == 0 && int(elapsed) < timeout:
				rep.Fail("property", name+".GetTimeout:returned-early", fmt.Sprintf("returned empty-handed after %d ms of %d", elapsed, timeout), replay)
			}
		}
	}
}

// listN renders what the model leaves in the queue: the last `n` of the non-swallowed puts
func listN(n int, puts []int) string {
	if n == 0 {
		return "-"
	}
	var xs []string
	for _, x := range puts[len(puts)-n:] {
		xs = append(xs, strconv.Itoa(x))
	}
	return strings.Join(xs, ",")
}

// ---------------------------------------------------------------- a blocking Get never comes back empty-handed

type qAPI struct {
	name string
	get  func() interface{}
	put  func(v interface{}) bool
	size func() int
}

// newAPI: mode 0/1 = Put / PutForce (queue 1 of the double queue), 2/3 = Put2 / PutForce2
func newAPI(dbl bool, capacity, mode int) qAPI {
	if dbl {
		d := queue.NewRequestDoubleQueue(capacity, capacity)
		put := []func(interface{}) bool{d.Put1, d.PutForce1, d.Put2, d.PutForce2}[mode%4]
		return qAPI{"RequestDoubleQueue", d.Get, put, d.Size}
	}
	q := queue.NewRequestQueue(capacity)
	put := []func(interface{}) bool{q.Put, q.PutForce}[mode%2]
	return qAPI{"RequestQueue", q.Get, put, q.Size}
}

// blockedConsumers: k consumers blocked in Get() before any producer exists, then j ≤ k puts back to
// back: exactly j consumers return, each with a distinct element that was put, none nil; with j < k the
// others are still blocked (and are released afterwards).  Between the puts the producer optionally
// yields, and GOMAXPROCS is varied, so that different interleavings of the woken consumers occur.
func blockedConsumers(env *vh.Env, rep *vh.Report) {
	rounds := 200
	if env.Thorough {
		rounds = 2000
	}
	old := runtime.GOMAXPROCS(0)
	defer runtime.GOMAXPROCS(old)
	rng := vh.NewRng(env.Seed ^ 0xb10c)
	for r := 0; r < rounds; r++ {
		dbl := r%2 == 1
		k := 2 + rng.Intn(4)
		j := k
		if r%3 == 0 {
			j = 1 + rng.Intn(k-1)
		}
		procs := []int{1, 2, 4, old}[rng.Intn(4)]
		yield := rng.Intn(3)
		runtime.GOMAXPROCS(procs)
		api := newAPI(dbl, 16, rng.Intn(4))
		results := make(chan interface{}, k+1)
		for c := 0; c < k; c++ {
			go func() { results <- api.get() }()
		}
		time.Sleep(2 * time.Millisecond) // the consumers are in Wait()
		for i := 1; i <= j; i++ {
			api.put(100 + i)
			if yield == 1 {
				runtime.Gosched()
			}
		}
		var got []int
		bad := ""
		seen := map[int]bool{}
		deadline := time.After(hangLimit)
	collect:
		for len(got) < j {
			select {
			case v := <-results:
				x := unelem(v)
				got = append(got, x)
				switch {
				case v == nil:
					bad = "a blocking Get() returned nil although no nil element was put"
				case x < 101 || x > 100+j:
					bad = fmt.Sprintf("Get() returned %d, which was never put", x)
				case seen[x]:
					bad = fmt.Sprintf("element %d was delivered twice", x)
				}
				seen[x] = true
				if bad != "" {
					break collect
				}
			case <-deadline:
				bad = fmt.Sprintf("only %d of %d consumers returned within 25 s after %d puts (Size() = %d)", len(got), j, j, api.size())
				break collect
			}
		}
		if bad == "" && j < k {
			select {
			case v := <-results:
				got = append(got, unelem(v))
				if v == nil {
					bad = "a blocking Get() returned nil although no nil element was put"
				} else {
					bad = fmt.Sprintf("more consumers returned (%d) than elements were put (%d)", len(got), j)
				}
			case <-time.After(20 * time.Millisecond):
			}
		}
		for i := j + 1; i <= k+1; i++ { // release whoever is still blocked
			api.put(100 + i)
		}
		runtime.GOMAXPROCS(old)
		rep.Case(fmt.Sprintf("blocked-consumers %s k=%d j=%d procs=%d yield=%d", api.name, k, j, procs, yield), true)
		rep.Count("blocked-consumers:rounds")
		if j < k {
			rep.Count("blocked-consumers:fewer-puts-than-waiters")
		}
		if bad != "" {
			key := api.name + ".Get:returned-nothing"
			switch {
			case strings.Contains(bad, "only"):
				key = api.name + ".Get:stranded-consumer"
			case !strings.Contains(bad, "nil"):
				key = api.name + ".Get:not-exactly-once"
			}
			rep.Fail("property", key, fmt.Sprintf("%d consumers blocked in %s.Get(), then %d puts back to back: %s (returned so far %v)", k, api.name, j, bad, got),
				map[string]interface{}{"type": api.name, "consumers": k, "puts": j, "gomaxprocs": procs, "returned": got,
					"how": "start k goroutines calling Get() on an empty queue, wait 2 ms, put j elements without pause, collect the returns"})
			return
		}
	}
}

// nilStress: consumers loop Get() against one producer for a fixed number of elements; no nil element
// is ever put, so no Get may return nil, and every element comes out exactly once.
func nilStress(env *vh.Env, rep *vh.Report) {
	n := 20000
	if env.Thorough {
		n = 200000
	}
	for _, dbl := range []bool{false, true} {
		for _, mode := range []int{0, 1} {
			api := newAPI(dbl, 0, mode)
			const consumers = 6
			var nils, dups int64
			seen := make([]int32, n+1)
			var wg sync.WaitGroup
			var taken int64
			for c := 0; c < consumers; c++ {
				wg.Add(1)
				go func() {
					defer wg.Done()
					for {
						v := api.get()
						if v == nil {
							if atomic.AddInt64(&nils, 1) > 100000 {
								return
							}
							continue
						}
						x := unelem(v)
						if x == stopPill {
							return
						}
						if x >= 1 && x <= n && atomic.AddInt32(&seen[x], 1) > 1 {
							atomic.AddInt64(&dups, 1)
						}
						atomic.AddInt64(&taken, 1)
					}
				}()
			}
			time.Sleep(2 * time.Millisecond)
			for i := 1; i <= n; i++ {
				api.put(i)
				runtime.Gosched() // a slow producer: the queue is empty most of the time, consumers wait and are woken together
			}
			for c := 0; c < consumers; c++ {
				api.put(stopPill)
			}
			fin := make(chan struct{})
			go func() { wg.Wait(); close(fin) }()
			hung := false
			select {
			case <-fin:
			case <-time.After(hangLimit):
				hung = true
			}
			rep.Case(fmt.Sprintf("nil-stress %s mode=%d", api.name, mode), true)
			rep.Count("nil-stress:runs")
			replay := map[string]interface{}{"type": api.name, "elements": n, "consumers": consumers, "nil_returns": atomic.LoadInt64(&nils),
				"duplicates": atomic.LoadInt64(&dups), "delivered": atomic.LoadInt64(&taken),
				"how": "6 goroutines loop Get(); one producer puts 1..n (never nil) and then 6 stop elements; count nil returns, duplicates, deliveries"}
			switch {
			case atomic.LoadInt64(&nils) > 0:
				rep.Fail("property", api.name+".Get:returned-nothing",
					fmt.Sprintf("%s: %d blocking Get() calls returned nil although only the elements 1..%d were put", api.name, atomic.LoadInt64(&nils), n), replay)
				return
			case hung:
				rep.Fail("property", api.name+".Get:stranded-consumer", "consumers did not finish within 25 s after the producer's last put", replay)
				return
			case atomic.LoadInt64(&dups) > 0 || atomic.LoadInt64(&taken) != int64(n):
				rep.Fail("property", api.name+".Get:not-exactly-once",
					fmt.Sprintf("%s: %d elements put, %d delivered, %d delivered twice", api.name, n, atomic.LoadInt64(&taken), atomic.LoadInt64(&dups)), replay)
				return
			}
		}
	}
}

// fifoWake: a deterministic schedule for "the woken consumer gives up the lock between the wait loop and
// the removal".  k consumers wait in Get() on a queue of capacity 1.  The harness holds the queue's mutex
// (found by reflection), parks one producer (Put x) and two slow refused puts (their Failed callback
// sleeps 3 ms *under the lock*, so that everybody queued behind them has waited > 1 ms) and releases the
// mutex in FIFO mode.  The woken consumers then receive the lock by direct hand-off, one after the
// other, with no barging in between.  On a queue whose Get removes the element in the critical section
// in which it saw it, exactly one consumer returns x and the others go back to sleep; a Get that drops
// the lock before removing lets a second consumer through, which comes back with nil.
func fifoWake(env *vh.Env, rep *vh.Report) {
	reps := 6
	if env.Thorough {
		reps = 60
	}
	for r := 0; r < reps; r++ {
		dbl := r%2 == 1
		k := 2 + r%3
		var api qAPI
		var mu *sync.Mutex
		slow := func(interface{}) { time.Sleep(3 * time.Millisecond) }
		var release func()
		if dbl {
			d := queue.NewRequestDoubleQueue(1, 1)
			if !setDoubleCB(d, slow, func(interface{}) {}) {
				continue
			}
			api = qAPI{"RequestDoubleQueue", d.Get, d.Put1, d.Size}
			mu = condMutex(d)
			release = func() { d.SetCapacity(0, 0) }
		} else {
			q := queue.NewRequestQueue(1)
			q.Failed = slow
			api = qAPI{"RequestQueue", q.Get, q.Put, q.Size}
			mu = condMutex(q)
			release = func() { q.SetCapacity(0) }
		}
		if mu == nil {
			rep.Fail("correspondence", api.name+":cond-mutex-not-found", "the harness found no *sync.Cond field", nil)
			return
		}
		results := make(chan interface{}, k+1)
		for c := 0; c < k; c++ {
			go func() { results <- api.get() }()
		}
		time.Sleep(3 * time.Millisecond) // consumers are in Wait()
		mu.Lock()
		go api.put(777)
		time.Sleep(1500 * time.Microsecond)
		go api.put(901) // refused (capacity 1): Failed sleeps under the lock
		time.Sleep(1500 * time.Microsecond)
		go api.put(902)
		time.Sleep(1500 * time.Microsecond)
		fifoRelease(mu)
		var got []int
		select { // the first return: bounded by the hang limit only
		case v := <-results:
			got = append(got, unelem(v))
		case <-time.After(hangLimit):
		}
		if len(got) == 1 { // a second consumer let through comes back (with nil) right away; its absence is the good case
			extra := time.After(150 * time.Millisecond)
		collect:
			for len(got) < k {
				select {
				case v := <-results:
					got = append(got, unelem(v))
				case <-extra:
					break collect
				}
			}
		}
		// let the remaining consumers go
		vh.GuardTimeout(hangLimit, func() {
			release()
			for i := 0; i < k; i++ {
				api.put(1000 + i)
			}
		})
		rep.Case(fmt.Sprintf("fifo-wake %s k=%d", api.name, k), true)
		rep.Count("fifo-wake:runs")
		bad := ""
		switch {
		case len(got) == 0:
			bad = "no consumer returned within 25 s although an element was put"
		case len(got) > 1 || (got[0] != 777 && got[0] != 901 && got[0] != 902):
			// (which of the three parked puts wins the single slot depends on their arrival order)
			bad = fmt.Sprintf("the consumers returned %v for the single element that fits into the queue (0 = nil)", got)
		}
		if bad != "" {
			key := api.name + ".Get:returned-nothing"
			if len(got) == 0 {
				key = api.name + ".Get:stranded-consumer"
			}
			rep.Fail("property", key, fmt.Sprintf("%d consumers blocked in %s.Get(), one Put, woken consumers served the lock in FIFO order: %s", k, api.name, bad),
				map[string]interface{}{"type": api.name, "consumers": k, "returned": got,
					"how": "capacity 1, Failed callback sleeps 3 ms; k goroutines in Get(); hold the cond's mutex (reflection); park Put(777), Put(901), Put(902); release the mutex in starvation (FIFO) mode; collect the returns for 300 ms"})
			return
		}
	}
}

// ---------------------------------------------------------------- a timed-out get leaves nothing behind

// timedOutThenPut: n × GetTimeout on an empty queue (each times out), then Put(x): Size() = 1 a moment
// later and Get / GetNoWait returns x.  (A timed get implemented with a helper goroutine blocked in Get()
// would swallow x: the element is accepted and delivered to nobody.)
func timedOutThenPut(env *vh.Env, rep *vh.Report) {
	for _, dbl := range []bool{false, true} {
		for _, n := range []int{1, 2, 4} {
			for mode := 0; mode < 4; mode++ {
				for _, blocking := range []bool{false, true} {
					var getT func(int) interface{}
					var get, getNW func() interface{}
					var put func(interface{}) bool
					var size func() int
					name := qname(dbl)
					if dbl {
						d := queue.NewRequestDoubleQueue(4, 4)
						getT, get, getNW, size = d.GetTimeout, d.Get, d.GetNoWait, d.Size
						put = []func(interface{}) bool{d.Put1, d.PutForce1, d.Put2, d.PutForce2}[mode]
					} else {
						if mode > 1 {
							continue
						}
						q := queue.NewRequestQueue(4)
						getT, get, getNW, size = q.GetTimeout, q.Get, q.GetNoWait, q.Size
						put = []func(interface{}) bool{q.Put, q.PutForce}[mode]
					}
					bad := ""
					for i := 0; i < n && bad == ""; i++ {
						var v interface{}
						if o := vh.GuardTimeout(hangLimit, func() { v = getT(2 + i) }); !o.OK() {
							bad = "GetTimeout on an empty queue: " + o.String()
						} else if v != nil {
							bad = fmt.Sprintf("GetTimeout on an empty queue returned %v", v)
						}
					}
					szv, got := -1, -1
					if bad == "" {
						put(4242)
						time.Sleep(12 * time.Millisecond)
						o := vh.GuardTimeout(hangLimit, func() {
							szv = size()
							if blocking {
								got = unelem(get())
							} else {
								got = unelem(getNW())
							}
						})
						switch {
						case o.Timeout:
							bad = fmt.Sprintf("after %d timed-out GetTimeout calls and Put(4242): Size() = %d and the blocking Get() never returns — the element was delivered to nobody", n, szv)
						case szv != 1 || got != 4242:
							bad = fmt.Sprintf("after %d timed-out GetTimeout calls and Put(4242): Size() = %d, the get returned %d — the element vanished without any dequeue returning it", n, szv, got)
						}
					}
					rep.Case(fmt.Sprintf("timed-out-then-put %s n=%d mode=%d blocking=%v", name, n, mode, blocking), true)
					rep.Count("timed:timed-out-then-put")
					if bad != "" {
						rep.Fail("property", name+".GetTimeout:loses-later-element", name+": "+bad,
							map[string]interface{}{"type": name, "timed_out_calls": n, "put_mode": mode, "size": szv, "got": got,
								"ops": "t;…;p4242;s;" + map[bool]string{true: "g", false: "n"}[blocking],
								"how": "n × GetTimeout(2..5 ms) on an empty queue; Put(4242); wait 12 ms; Size() must be 1 and Get()/GetNoWait() must return 4242"})
						return
					}
				}
			}
		}
	}
}

// ---------------------------------------------------------------- Clear racing with puts and gets (double queue and single queue)

// clearRaces: producers on both inner lists (Put / PutForce), a blocking consumer, and a goroutine calling
// Clear, all at once; then quiescence.  Checked: every goroutine finishes (a Get blocked while Clear and
// Put happen returns); at quiescence Size() = Size1() + Size2() and no list exceeds its capacity; no
// element is delivered twice; no element whose Put had returned before a Clear *began* is delivered after
// that Clear *returned* (resurrection), unless a Put was in flight — elements carry the time their Put
// returned.  (A Clear that clears the two lists in two separately locked steps instead of under the
// queue's lock is sequentially invisible and, the inner lists being locked themselves, race-free; the
// history that would expose it needs two complete puts inside a window of two mutex operations.  The
// detector for that change is the tie-A obligation `queue_locks`; this stage checks what can be observed.)
func clearRaces(env *vh.Env, rep *vh.Report) {
	rounds := 12
	if env.Thorough {
		rounds = 150
	}
	for r := 0; r < rounds; r++ {
		dbl := r%3 != 2
		capacity := []int{0, 2, 5}[r%3]
		at("clear-races round %d double=%v capacity=%d", r, dbl, capacity)
		var put [2]func(interface{}) bool
		var get func() interface{}
		var clear func()
		var sizes func() (int, int, int)
		name := qname(dbl)
		if dbl {
			d := queue.NewRequestDoubleQueue(capacity, capacity)
			put = [2]func(interface{}) bool{d.Put1, d.PutForce2}
			if r%2 == 1 {
				put = [2]func(interface{}) bool{d.PutForce1, d.Put2}
			}
			get, clear = d.Get, d.Clear
			sizes = func() (int, int, int) { return d.Size(), d.Size1(), d.Size2() }
		} else {
			q := queue.NewRequestQueue(capacity)
			put = [2]func(interface{}) bool{q.Put, q.PutForce}
			get, clear = q.Get, q.Clear
			sizes = func() (int, int, int) { s := q.Size(); return s, s, 0 }
		}
		const perProd = 300
		base := time.Now()
		putDone := make([]int64, 2*perProd+2) // time the Put of element id returned (0 = not accepted)
		type clr struct{ t0, t1 int64 }
		var clears []clr
		var delivered []int
		var deliveredAt []int64
		var wg sync.WaitGroup
		var producersLeft int32 = 2
		for p := 0; p < 2; p++ {
			wg.Add(1)
			go func(p int) {
				defer wg.Done()
				for i := 0; i < perProd; i++ {
					id := 1 + p*perProd + i
					ok := put[p](id)
					if ok || p == 1 || true {
						atomic.StoreInt64(&putDone[id], int64(time.Since(base))+1)
					}
					if i%16 == 0 {
						runtime.Gosched()
					}
				}
				atomic.AddInt32(&producersLeft, -1)
			}(p)
		}
		wg.Add(1)
		go func() { // clearer
			defer wg.Done()
			for atomic.LoadInt32(&producersLeft) > 0 {
				t0 := int64(time.Since(base))
				clear()
				clears = append(clears, clr{t0, int64(time.Since(base))})
				runtime.Gosched()
			}
		}()
		consumerDone := make(chan struct{})
		go func() { // blocking consumer; stopped by a pill after quiescence
			defer close(consumerDone)
			for {
				t0 := int64(time.Since(base)) // the Get that delivers x was *called* at t0
				v := get()
				x := unelem(v)
				if x == stopPill {
					return
				}
				delivered = append(delivered, x)
				deliveredAt = append(deliveredAt, t0)
			}
		}()
		fin := make(chan struct{})
		go func() { wg.Wait(); close(fin) }()
		bad := ""
		select {
		case <-fin:
		case <-time.After(hangLimit):
			bad = "producers / Clear did not finish within 25 s"
		}
		if bad == "" {
			// let the consumer drain, then stop it
			for i := 0; i < 200; i++ {
				if s, _, _ := sizes(); s == 0 {
					break
				}
				time.Sleep(time.Millisecond)
			}
			time.Sleep(5 * time.Millisecond)
			s, s1, s2 := sizes()
			if s != s1+s2 && dbl {
				bad = fmt.Sprintf("at quiescence Size() = %d but Size1() + Size2() = %d + %d", s, s1, s2)
			}
			for !put[0](stopPill) {
				time.Sleep(time.Millisecond)
			}
			select {
			case <-consumerDone:
			case <-time.After(hangLimit):
				if bad == "" {
					bad = "the consumer blocked in Get() did not return although elements were put after the last Clear (lost wake-up)"
				}
			}
		}
		rep.Case(fmt.Sprintf("clear-races %s cap=%d r=%d", name, capacity, r), true)
		rep.Count("clear-races:rounds")
		if bad == "" {
			seen := map[int]bool{}
			for k, x := range delivered {
				switch {
				case x == 0:
					bad = "a blocking Get() returned nil"
				case seen[x]:
					bad = fmt.Sprintf("element %d was delivered twice", x)
				case x < 1 || x > 2*perProd:
					bad = fmt.Sprintf("element %d was never put", x)
				default:
					pd := atomic.LoadInt64(&putDone[x])
					for _, c := range clears {
						// put returned before the Clear began, delivery after the Clear returned
						if pd > 0 && pd < c.t0 && deliveredAt[k] > c.t1 {
							bad = fmt.Sprintf("element %d, whose Put had returned before a Clear began, was delivered by a Get() called %.2f ms after that Clear had returned (resurrected)", x, float64(deliveredAt[k]-c.t1)/1e6)
						}
					}
				}
				seen[x] = true
				if bad != "" {
					break
				}
			}
		}
		if bad != "" {
			key := name + ".Clear:" + map[bool]string{true: "lost-wakeup", false: "inconsistent"}[strings.Contains(bad, "lost wake-up")]
			rep.Fail("property", key, fmt.Sprintf("%s capacity %d, two producers, Clear in a loop, one blocking consumer: %s", name, capacity, bad),
				map[string]interface{}{"type": name, "capacity": capacity, "clears": len(clears), "delivered": len(delivered),
					"how": "2 goroutines put 300 elements each (Put / PutForce on the two lists), one loops Clear(), one loops Get(); afterwards quiescence checks"})
			return
		}
	}
}

// ---------------------------------------------------------------- a panicking callback must not leave the lock behind

// panickingCallbacks: the failure / overflow callbacks panic (installed through the public API: the
// fields of RequestQueue, SetCallbacks1/2 of RequestDoubleQueue); the producer recovers, as user code
// may.  Afterwards the queue must still be usable — Size, GetNoWait, Put, Clear return under a watchdog —
// and consistent: within its capacity, and what it hands out are elements that were put, in order.
func panickingCallbacks(env *vh.Env, rep *vh.Report) {
	panicking := func(interface{}) { panic("user callback panics") }
	type variant struct {
		name string
		dbl  bool
		mk   func() (put func(interface{}) bool, force func(interface{}) bool, getNW func() interface{}, size func() int, clear func(), ok bool)
	}
	mkQ := func() (func(interface{}) bool, func(interface{}) bool, func() interface{}, func() int, func(), bool) {
		q := queue.NewRequestQueue(2)
		q.Failed, q.Overflowed = panicking, panicking
		return q.Put, q.PutForce, q.GetNoWait, q.Size, q.Clear, true
	}
	mkD := func(second bool) func() (func(interface{}) bool, func(interface{}) bool, func() interface{}, func() int, func(), bool) {
		return func() (func(interface{}) bool, func(interface{}) bool, func() interface{}, func() int, func(), bool) {
			d := queue.NewRequestDoubleQueue(2, 2)
			ok := true
			for _, sn := range []string{"SetCallbacks1", "SetCallbacks2"} {
				sm := reflect.ValueOf(d).MethodByName(sn)
				if !sm.IsValid() || sm.Type().NumIn() != 2 {
					ok = setDoubleCB(d, panicking, panicking) // a tree without the setters: reflection
					break
				}
				sm.Call([]reflect.Value{reflect.ValueOf(panicking), reflect.ValueOf(panicking)})
			}
			if second {
				return d.Put2, d.PutForce2, d.GetNoWait, d.Size, d.Clear, ok
			}
			return d.Put1, d.PutForce1, d.GetNoWait, d.Size, d.Clear, ok
		}
	}
	for vi, v := range []variant{{"RequestQueue", false, mkQ}, {"RequestDoubleQueue", true, mkD(false)}, {"RequestDoubleQueue", true, mkD(true)}} {
		for _, forced := range []bool{false, true} {
			put, force, getNW, size, clear, ok := v.mk()
			if !ok {
				continue
			}
			method := map[bool]string{false: "Put", true: "PutForce"}[forced] + []string{"", "1", "2"}[vi]
			at("panicking callbacks: %s full at capacity 2, %s(3) with a panicking callback, recovered; then Size/GetNoWait/Put/Clear", v.name, method)
			put(1)
			put(2)
			out := vh.GuardTimeout(hangLimit, func() {
				if forced {
					force(3)
				} else {
					put(3)
				}
			})
			rep.Case(fmt.Sprintf("panicking-callback %s %s", v.name, method), true)
			rep.Count("panicking-callbacks:runs")
			replay := map[string]interface{}{"type": v.name, "method": method,
				"how": "capacity 2, callbacks that panic (RequestQueue.Failed/Overflowed, RequestDoubleQueue.SetCallbacks1/2); put 1, 2; " + method + "(3) under recover; then Size(), GetNoWait(), Put(9), Clear() under a 2 s watchdog"}
			if out.Timeout {
				rep.Fail("property", v.name+"."+method+":timeout", "did not return", replay)
				continue
			}
			sz, got := -1, -1
			after := vh.GuardTimeout(hangLimit, func() {
				sz = size()
				got = unelem(getNW())
				vh.Guard(func() { put(9) })
				clear()
			})
			replay["size_after"], replay["next_element"] = sz, got
			switch {
			case after.Timeout:
				rep.Fail("property", v.name+"."+method+":lock-leaked-after-panic",
					fmt.Sprintf("%s.%s: the callback panicked, the caller recovered, and the queue's lock was never released: Size()/GetNoWait()/Put()/Clear() block forever", v.name, method), replay)
			case sz > 2 || sz < 1:
				rep.Fail("property", v.name+"."+method+":inconsistent-after-panic", fmt.Sprintf("%s.%s with a panicking callback left Size() = %d at capacity 2", v.name, method, sz), replay)
			case !forced && got != 1 || forced && got != 2:
				rep.Fail("property", v.name+"."+method+":inconsistent-after-panic", fmt.Sprintf("%s.%s with a panicking callback: the next element handed out is %d", v.name, method, got), replay)
			}
		}
	}
}

// ---------------------------------------------------------------- more operations inside the callback window

// callbackWindowOps: the queue is full; an outer Put (refused → Failed) or PutForce (→ Overflowed) sits in
// its callback, which lets another goroutine call GetNoWait or SetCapacity(0 / −1 / 1) and waits ≤ 120 ms.
//   - GetNoWait: the queue is never empty in this scenario (a refused put changes nothing; a forced put
//     evicts one element of a queue of capacity ≥ 2), so the GetNoWait must come back with an element —
//     a nil answer ("lock busy" mistaken for "empty") is a failure, whenever it arrives;
//   - SetCapacity: must not take effect in the middle of the outer operation (decided inside the callback),
//     and the outer operation must return (a capacity of 0 set during the eviction loop makes it spin).
func callbackWindowOps(env *vh.Env, rep *vh.Report) {
	for _, dbl := range []bool{false, true} {
		for _, outer := range []string{"Put", "PutForce"} {
			for _, inner := range []string{"GetNoWait", "SetCapacity0", "SetCapacity-1", "SetCapacity1"} {
				name := qname(dbl)
				at("callback window: %s full at capacity 2, %s(1000) whose callback lets another goroutine call %s", name, outer, inner)
				var put, force func(interface{}) bool
				var getNW func() interface{}
				var setCap func(int)
				var size func() int
				var once sync.Once
				var innerRet interface{} = "not-run"
				var duringCallback int32
				innerDone := make(chan struct{})
				cb := func(interface{}) {
					once.Do(func() {
						go func() {
							defer close(innerDone)
							if inner == "GetNoWait" {
								innerRet = getNW()
							} else {
								setCap(map[string]int{"SetCapacity0": 0, "SetCapacity-1": -1, "SetCapacity1": 1}[inner])
								innerRet = "set"
							}
						}()
						select {
						case <-innerDone:
							atomic.StoreInt32(&duringCallback, 1) // exact: the outer operation is still in its callback
						case <-time.After(120 * time.Millisecond):
						}
					})
				}
				if dbl {
					d := queue.NewRequestDoubleQueue(2, 2)
					ok := false
					if sm := reflect.ValueOf(d).MethodByName("SetCallbacks1"); sm.IsValid() && sm.Type().NumIn() == 2 {
						sm.Call([]reflect.Value{reflect.ValueOf(cb), reflect.ValueOf(cb)})
						ok = true
					} else {
						ok = setDoubleCB(d, cb, cb)
					}
					if !ok {
						continue
					}
					put, force, getNW, size = d.Put1, d.PutForce1, d.GetNoWait, d.Size1
					setCap = func(c int) { d.SetCapacity(c, c) }
				} else {
					q := queue.NewRequestQueue(2)
					q.Failed, q.Overflowed = cb, cb
					put, force, getNW, size, setCap = q.Put, q.PutForce, q.GetNoWait, q.Size, q.SetCapacity
				}
				put(1)
				put(2)
				out := vh.GuardTimeout(hangLimit, func() {
					if outer == "Put" {
						put(1000)
					} else {
						force(1000)
					}
				})
				rep.Case(fmt.Sprintf("callback-window-ops %s %s/%s", name, outer, inner), true)
				rep.Count("callback-window:ops-runs")
				replay := map[string]interface{}{"type": name, "outer": outer, "inner_from_another_goroutine": inner,
					"how": "capacity 2, elements 1, 2; callback starts a goroutine doing the inner call and waits ≤120 ms; outer call under a 25 s watchdog; then wait for the inner call"}
				if !out.OK() {
					rep.Fail("property", name+"."+outer+":blocks-forever", fmt.Sprintf("%s.%s(1000) on a full queue never returned while another goroutine called %s from its callback", name, outer, inner), replay)
					return
				}
				select {
				case <-innerDone:
				case <-time.After(hangLimit):
					rep.Fail("property", name+"."+strings.TrimRight(inner, "-01")+":blocks-forever", fmt.Sprintf("%s: %s started from the callback of %s never returned", name, inner, outer), replay)
					return
				}
				replay["inner_result"] = fmt.Sprint(innerRet)
				sz := -1
				vh.GuardTimeout(hangLimit, func() { sz = size() })
				replay["size_after"] = sz
				switch {
				case inner == "GetNoWait" && innerRet == nil:
					rep.Fail("property", name+".GetNoWait:nil-although-nonempty",
						fmt.Sprintf("%s: GetNoWait called while %s(1000) sat in its callback answered nil although the queue held elements the whole time", name, outer), replay)
					return
				case inner != "GetNoWait" && atomic.LoadInt32(&duringCallback) == 1:
					rep.Fail("property", name+"."+outer+":not-atomic",
						fmt.Sprintf("%s: %s took effect while %s(1000) was still in its callback (capacity changed in the middle of the operation)", name, inner, outer), replay)
					return
				}
			}
		}
	}
}
