package main

// Near-equal payloads: chains of neighbouring representable values for every numeric value type, and
// the property-directed search that is run around a pair on which model and implementation disagree.

import (
	"fmt"
	"math"

	"verif/harness/c02/vg"
	"verif/harness/vh"
)

// payloadEq: "the payloads are equal" as the property means it for the scalar types — the same
// number (IEEE ==, so −0 = +0 and NaN equals nothing), the same bytes, for summaries the same sum
// and count (that is what their Equals documents).  defined=false for NaN operands (known
// findings) and for non-scalar kinds.
func payloadEq(a, b *vg.V) (eq bool, defined bool) {
	if a.K != b.K {
		return false, false
	}
	switch a.K {
	case "N":
		return true, true
	case "B":
		return a.B == b.B, true
	case "D", "I", "L", "H":
		return a.I == b.I, true
	case "T":
		return string(a.Bs) == string(b.Bs), true
	case "F":
		if vg.IsNaN32(a.U) || vg.IsNaN32(b.U) {
			return false, false
		}
		return math.Float32frombits(uint32(a.U)) == math.Float32frombits(uint32(b.U)), true
	case "G":
		if vg.IsNaN64(a.U) || vg.IsNaN64(b.U) {
			return false, false
		}
		return math.Float64frombits(a.U) == math.Float64frombits(b.U), true
	case "S":
		if vg.IsNaN64(a.QU[0]) || vg.IsNaN64(b.QU[0]) {
			return false, false
		}
		return math.Float64frombits(a.QU[0]) == math.Float64frombits(b.QU[0]) && a.Q[1] == b.Q[1], true
	case "M":
		return a.Q[0] == b.Q[0] && a.Q[1] == b.Q[1], true
	}
	return false, false
}

func f32v(x float32) *vg.V { return &vg.V{K: "F", U: uint64(math.Float32bits(x))} }
func f64v(x float64) *vg.V { return &vg.V{K: "G", U: math.Float64bits(x)} }

func dedupe(vs []*vg.V, max int) []*vg.V {
	seen := map[string]bool{}
	var out []*vg.V
	for _, v := range vs {
		l := v.Line()
		if !seen[l] && len(out) < max {
			seen[l] = true
			out = append(out, v)
		}
	}
	return out
}

// chains of float64 around a base: neighbouring representable values, and absolute / relative offsets
// below, around and above 1e-6
func chain64(b float64) ([]float64, []float64) {
	nb := []float64{b}
	x := b
	for i := 0; i < 5; i++ {
		x = math.Nextafter(x, math.Inf(1))
		nb = append(nb, x)
	}
	y := math.Nextafter(b, math.Inf(-1))
	nb = append(nb, y, math.Nextafter(y, math.Inf(-1)))
	off := []float64{b, b + 0.3e-6, b + 0.6e-6, b + 0.9e-6, b + 1.2e-6, b + 1e-9, b * (1 + 1e-9), b * (1 + 0.6e-6), b * (1 + 1.2e-6), b - 0.6e-6}
	return nb, off
}

func chain32(b float32) ([]float32, []float32) {
	nb := []float32{b}
	x := b
	for i := 0; i < 5; i++ {
		x = math.Nextafter32(x, float32(math.Inf(1)))
		nb = append(nb, x)
	}
	y := math.Nextafter32(b, float32(math.Inf(-1)))
	nb = append(nb, y, math.Nextafter32(y, float32(math.Inf(-1))))
	off := []float32{b, b + 0.3e-6, b + 0.6e-6, b + 0.9e-6, b + 1.2e-6, b + 1e-9, b * (1 + 1e-7), b * (1 + 0.6e-6), b * (1 + 1.2e-6), b - 0.6e-6}
	return nb, off
}

// nearPools: for every numeric value type, pools whose members are pairwise "almost equal"
func nearPools(r *vh.Rng, thorough bool) []pool {
	var out []pool
	add := func(how string, vs []*vg.V) {
		vs = dedupe(vs, 9)
		if len(vs) >= 3 {
			out = append(out, pool{how: "near:" + how, vs: vs})
		}
	}
	bases64 := []float64{0, 1e-7, -1e-7, 1e-6, -1e-6, 1, -1, 8, 1e6, math.MaxFloat64, -math.MaxFloat64, 2.2250738585072014e-308, 5e-324, 3e-320, 0.1, 123456.789}
	bases32 := []float32{0, 1e-7, -1e-7, 1e-6, -1e-6, 1, -1, 8, 1e6, math.MaxFloat32, -math.MaxFloat32, 1.1754944e-38, 1e-45, 3e-42, 0.1, 1234.5}
	wrap := func(kind string, v *vg.V) *vg.V {
		switch kind {
		case "l":
			return &vg.V{K: "l", L: []*vg.V{{K: "T", Bs: []byte("x")}, v}}
		case "m":
			return &vg.V{K: "m", Ks: [][]byte{[]byte("a"), []byte("b")}, L: []*vg.V{{K: "D", I: 1}, v}}
		case "im":
			return &vg.V{K: "im", IKs: []int32{7}, L: []*vg.V{v}}
		}
		return v
	}
	mapV := func(vs []*vg.V, f func(*vg.V) *vg.V) []*vg.V {
		var o []*vg.V
		for _, v := range vs {
			o = append(o, f(v))
		}
		return o
	}
	for bi, b := range bases64 {
		nb, off := chain64(b)
		for ci, ch := range [][]float64{nb, off} {
			var g, s []*vg.V
			for i, x := range ch {
				g = append(g, f64v(x))
				sv := &vg.V{K: "S"}
				sv.QU[0], sv.Q[1], sv.QU[2], sv.QU[3] = math.Float64bits(x), int64(3+i%2*0), math.Float64bits(x), math.Float64bits(x)
				s = append(s, sv)
			}
			tag := fmt.Sprintf("G:%d.%d", bi, ci)
			add(tag, g)
			add("S:"+tag, s)
			switch (bi + ci) % 3 {
			case 0:
				add("l:"+tag, mapV(g, func(v *vg.V) *vg.V { return wrap("l", v) }))
			case 1:
				add("m:"+tag, mapV(g, func(v *vg.V) *vg.V { return wrap("m", v) }))
			default:
				add("im:"+tag, mapV(s, func(v *vg.V) *vg.V { return wrap("im", v) }))
			}
		}
	}
	for bi, b := range bases32 {
		nb, off := chain32(b)
		for ci, ch := range [][]float32{nb, off} {
			var f, a []*vg.V
			for _, x := range ch {
				f = append(f, f32v(x))
				a = append(a, &vg.V{K: "af", Us: []uint64{0x3f800000, uint64(math.Float32bits(x))}})
			}
			tag := fmt.Sprintf("F:%d.%d", bi, ci)
			add(tag, f)
			add("af:"+tag, a)
			if (bi+ci)%2 == 0 {
				add("l:"+tag, mapV(f, func(v *vg.V) *vg.V { return wrap("l", v) }))
			} else {
				add("m:"+tag, mapV(a, func(v *vg.V) *vg.V { return wrap("m", v) }))
			}
		}
	}
	// integers next to each other
	for _, b := range []int64{0, -1, 1000000, 2147483647, -2147483648, 1 << 53, math.MaxInt64 - 6, math.MinInt64} {
		var d, l, m []*vg.V
		for i := int64(0); i < 6; i++ {
			d = append(d, &vg.V{K: "D", I: b + i})
			l = append(l, &vg.V{K: "L", I: b + i})
			mv := &vg.V{K: "M"}
			mv.Q[0], mv.Q[1], mv.Q[2], mv.Q[3] = b+i/2, i%2, 0, 0
			m = append(m, mv)
		}
		add("D", d)
		add("L", l)
		add("M", m)
		if b >= math.MinInt32 && b+6 <= math.MaxInt32 {
			var iv, h, ai []*vg.V
			for i := int64(0); i < 6; i++ {
				iv = append(iv, &vg.V{K: "I", I: b + i})
				h = append(h, &vg.V{K: "H", I: b + i})
				ai = append(ai, &vg.V{K: "ai", Is: []int64{5, b + i}})
			}
			add("I", iv)
			add("H", h)
			add("ai", ai)
		}
	}
	// zeros and NaNs with different payloads, next to their neighbours
	add("F:zeros-nans", []*vg.V{{K: "F", U: 0}, {K: "F", U: 0x80000000}, {K: "F", U: 1}, {K: "F", U: 0x80000001}, {K: "F", U: 0x7fc00000}, {K: "F", U: 0x7fc00001}, {K: "F", U: 0xffc00000}, {K: "F", U: 0x7f800001}})
	add("G:zeros-nans", []*vg.V{{K: "G", U: 0}, {K: "G", U: 1 << 63}, {K: "G", U: 1}, {K: "G", U: 1<<63 | 1}, {K: "G", U: 0x7ff8000000000000}, {K: "G", U: 0x7ff8000000000001}, {K: "G", U: 0xfff8000000000000}, {K: "G", U: 0x7ff0000000000001}})
	_ = r
	_ = thorough
	return out
}

// neighbours: values "around" v — its numeric leaves moved by one or a few representable steps, by
// offsets around 1e-6, integers by ±1; used to look for a law failure around a disagreeing pair
func neighbours(v *vg.V) []*vg.V {
	var out []*vg.V
	with := func(f func(c *vg.V) bool) {
		c := v.Clone()
		done := false
		c.Walk(func(n *vg.V) {
			if !done && f(n) {
				done = true
			}
		})
		if done {
			out = append(out, c)
		}
	}
	for _, d := range []float64{0.3e-6, 0.6e-6, 1.2e-6, -0.6e-6} {
		d := d
		with(func(n *vg.V) bool {
			switch n.K {
			case "F":
				n.U = uint64(math.Float32bits(math.Float32frombits(uint32(n.U)) + float32(d)))
			case "G":
				n.U = math.Float64bits(math.Float64frombits(n.U) + d)
			case "S":
				n.QU[0] = math.Float64bits(math.Float64frombits(n.QU[0]) + d)
			case "af":
				if len(n.Us) == 0 {
					return false
				}
				n.Us[len(n.Us)-1] = uint64(math.Float32bits(math.Float32frombits(uint32(n.Us[len(n.Us)-1])) + float32(d)))
			default:
				return false
			}
			return true
		})
	}
	for _, steps := range []int{1, 2, -1} {
		steps := steps
		with(func(n *vg.V) bool {
			dir := math.Inf(steps)
			k := steps
			if k < 0 {
				k = -k
			}
			switch n.K {
			case "F":
				x := math.Float32frombits(uint32(n.U))
				for i := 0; i < k; i++ {
					x = math.Nextafter32(x, float32(dir))
				}
				n.U = uint64(math.Float32bits(x))
			case "G":
				x := math.Float64frombits(n.U)
				for i := 0; i < k; i++ {
					x = math.Nextafter(x, dir)
				}
				n.U = math.Float64bits(x)
			case "D", "L":
				if (steps > 0 && n.I > math.MaxInt64-3) || (steps < 0 && n.I < math.MinInt64+3) {
					return false
				}
				n.I += int64(steps)
			case "I", "H":
				if n.I+int64(steps) > math.MaxInt32 || n.I+int64(steps) < math.MinInt32 {
					return false
				}
				n.I += int64(steps)
			case "M":
				if n.Q[0] > math.MaxInt64-3 || n.Q[0] < math.MinInt64+3 {
					return false
				}
				n.Q[0] += int64(steps)
			default:
				return false
			}
			return true
		})
	}
	return append(out, textNeighbours(v)...)
}

// lawsOnImpl evaluates the laws of the property on the implementation alone, over all pairs and
// triples of vs.  It returns the first failure: the law, the indices, a description.
func lawsOnImpl(vs []*vg.V) (law string, idx []int, what string) {
	n := len(vs)
	c := make([][]cell, n)
	for i := range c {
		c[i] = make([]cell, n)
		for j := range c[i] {
			c[i][j], _ = implCell(vs[i], vs[j])
			if c[i][j].panicked {
				return "total", []int{i, j}, "Equals / CompareTo panicked"
			}
		}
	}
	nan := func(i int) bool { return vs[i].HasNaN() }
	for i := 0; i < n; i++ {
		for j := 0; j < n; j++ {
			if nan(i) || nan(j) {
				continue
			}
			if pe, def := payloadEq(vs[i], vs[j]); def && pe != c[i][j].eq {
				return "eq-exact", []int{i, j}, fmt.Sprintf("Equals is %v although the payloads are %s", c[i][j].eq, map[bool]string{true: "equal", false: "different"}[pe])
			}
			if scalarKind(vs[i].K) && vs[i].K == vs[j].K && (c[i][j].cmp == 0) != c[i][j].eq {
				return "cmp-zero-iff-eq", []int{i, j}, fmt.Sprintf("CompareTo sign %d but Equals %v", c[i][j].cmp, c[i][j].eq)
			}
			if k := vs[i].K; k == vs[j].K && (k == "l" || k == "m" || k == "im") && (c[i][j].cmp == 0) != c[i][j].eq {
				if x, y, found := nestedZeroIffEq(vs[i], vs[j]); found {
					return "cmp-zero-iff-eq", []int{i, j}, fmt.Sprintf("CompareTo sign %d but Equals %v, down to the corresponding scalars %s and %s", c[i][j].cmp, c[i][j].eq, vh.Clip(x.LineX(), 200), vh.Clip(y.LineX(), 200))
				}
			}
			if c[i][j].eq != c[j][i].eq {
				return "eq-symm", []int{i, j}, "Equals is not symmetric"
			}
			if c[i][j].cmp != -c[j][i].cmp && mapCause(vs[i], vs[j]) == "" {
				return "cmp-antisym", []int{i, j}, fmt.Sprintf("CompareTo signs %d and %d do not reverse", c[i][j].cmp, c[j][i].cmp)
			}
			for k := 0; k < n; k++ {
				if nan(k) {
					continue
				}
				if c[i][j].eq && c[j][k].eq && !c[i][k].eq {
					return "eq-trans", []int{i, j, k}, "Equals is not transitive"
				}
				if c[i][j].cmp <= 0 && c[j][k].cmp <= 0 && c[i][k].cmp > 0 &&
					mapCause(vs[i], vs[j]) == "" && mapCause(vs[j], vs[k]) == "" && mapCause(vs[i], vs[k]) == "" {
					return "cmp-trans", []int{i, j, k}, "CompareTo is not transitive"
				}
			}
		}
	}
	return "", nil, ""
}

// searchAround: model and implementation disagree on (a, b); look for a failure of the property
// itself on the pair, its neighbours and the other values of its pool
func searchAround(a, b *vg.V, others []*vg.V) (law string, vals []*vg.V, what string) {
	vs := []*vg.V{a, b}
	vs = append(vs, neighbours(a)...)
	vs = append(vs, neighbours(b)...)
	for _, o := range others {
		if len(vs) >= 14 {
			break
		}
		vs = append(vs, o)
	}
	vs = dedupe(vs, 14)
	law, idx, what := lawsOnImpl(vs)
	if law == "" {
		return "", nil, ""
	}
	for _, i := range idx {
		vals = append(vals, vs[i])
	}
	if law == "cmp-zero-iff-eq" && len(vals) == 2 && !scalarKind(vals[0].K) {
		// found through containers: report the scalars (the failure is theirs), name the containers
		if x, y, found := nestedZeroIffEq(vals[0], vals[1]); found {
			what += "; reached as corresponding elements of " + vh.Clip(vals[0].LineX(), 300) + " and " + vh.Clip(vals[1].LineX(), 300)
			vals = []*vg.V{x, y}
		}
	}
	return law, vals, what
}
