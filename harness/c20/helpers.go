package main

// util/compare functions that no value type reaches (CompareToShorts / Doubles, EqualShorts / Doubles,
// the scalar CompareToInt / Long / Float / Double / String): called directly and compared with the
// model through values that the model orders by the same function — `cmpSeq ltInt` (IntArray /
// LongArray), `cmpSeq lt32` (FloatArray; the doubles used are exactly representable float32 values, so
// widening keeps order and NaN-ness), `cmpStrs` (TextArray).  Theorems C20Gen.numeric_helpers_are_cmpSeq,
// string_helper_is_cmpStrs, equal_helpers_are_zero_tests speak about the transcribed bodies of the
// slice helpers; the scalar helpers are compared (and their laws evaluated) only.

import (
	"fmt"
	"math"
	"strings"

	"github.com/whatap/golib/util/compare"
	"verif/harness/c02/vg"
	"verif/harness/vh"
)

func helperStage(rep *vh.Report, env *vh.Env, r *vh.Rng) {
	type probe struct {
		name   string
		a, b   *vg.V
		cmp    int
		rcmp   int // operands swapped
		eq     bool
		hasEq  bool
		nanSc  bool // scalar float helper with a NaN operand: IEEE quirk (D09 family), not compared
		detail string
	}
	var ps []probe
	smallI := func() []int64 {
		n := r.Intn(4)
		var out []int64
		for i := 0; i < n; i++ {
			out = append(out, []int64{-32768, -1, 0, 1, 2, 32767}[r.Intn(6)])
		}
		return out
	}
	f32s := []uint64{0, 0x80000000, 0x3f800000, 0xbf800000, 0x7f800000, 0xff800000, 0x40000000, 1, 0x7fc00000, 0xffc00001}
	smallF := func() []uint64 {
		n := r.Intn(4)
		var out []uint64
		for i := 0; i < n; i++ {
			out = append(out, f32s[r.Intn(len(f32s))])
		}
		return out
	}
	n := 400
	if env.Thorough {
		n = 4000
	}
	for i := 0; i < n; i++ {
		x, y := smallI(), smallI()
		if r.Chance(30) {
			y = append([]int64{}, x...)
		}
		var sx, sy []int16
		for _, e := range x {
			sx = append(sx, int16(e))
		}
		for _, e := range y {
			sy = append(sy, int16(e))
		}
		p := probe{name: "Shorts", a: &vg.V{K: "ai", Is: x}, b: &vg.V{K: "ai", Is: y}, hasEq: true}
		vh.Guard(func() { p.cmp, p.eq, p.rcmp = sign(compare.CompareToShorts(sx, sy)), compare.EqualShorts(sx, sy), sign(compare.CompareToShorts(sy, sx)) })
		ps = append(ps, p)

		fx, fy := smallF(), smallF()
		if r.Chance(30) {
			fy = append([]uint64{}, fx...)
		}
		var dx, dy []float64
		for _, e := range fx {
			dx = append(dx, float64(math.Float32frombits(uint32(e))))
		}
		for _, e := range fy {
			dy = append(dy, float64(math.Float32frombits(uint32(e))))
		}
		p = probe{name: "Doubles", a: &vg.V{K: "af", Us: fx}, b: &vg.V{K: "af", Us: fy}, hasEq: true}
		vh.Guard(func() { p.cmp, p.eq, p.rcmp = sign(compare.CompareToDoubles(dx, dy)), compare.EqualDoubles(dx, dy), sign(compare.CompareToDoubles(dy, dx)) })
		ps = append(ps, p)

		l, rr := vg.GenI64(r), vg.GenI64(r)
		if r.Chance(25) {
			rr = l
		}
		p = probe{name: "Long", a: &vg.V{K: "al", Is: []int64{l}}, b: &vg.V{K: "al", Is: []int64{rr}}}
		vh.Guard(func() { p.cmp, p.rcmp = sign(compare.CompareToLong(l, rr)), sign(compare.CompareToLong(rr, l)) })
		ps = append(ps, p)
		p = probe{name: "Int", a: &vg.V{K: "al", Is: []int64{l}}, b: &vg.V{K: "al", Is: []int64{rr}}}
		vh.Guard(func() { p.cmp, p.rcmp = sign(compare.CompareToInt(int(l), int(rr))), sign(compare.CompareToInt(int(rr), int(l))) })
		ps = append(ps, p)

		u, w := f32s[r.Intn(len(f32s))], f32s[r.Intn(len(f32s))]
		if r.Chance(40) {
			u, w = vg.GenF32(r), vg.GenF32(r)
		}
		fu, fw := math.Float32frombits(uint32(u)), math.Float32frombits(uint32(w))
		nan := vg.IsNaN32(u) || vg.IsNaN32(w)
		p = probe{name: "Float", a: &vg.V{K: "af", Us: []uint64{u}}, b: &vg.V{K: "af", Us: []uint64{w}}, nanSc: nan}
		vh.Guard(func() { p.cmp, p.rcmp = sign(compare.CompareToFloat(fu, fw)), sign(compare.CompareToFloat(fw, fu)) })
		ps = append(ps, p)
		p = probe{name: "Double", a: &vg.V{K: "af", Us: []uint64{u}}, b: &vg.V{K: "af", Us: []uint64{w}}, nanSc: nan}
		vh.Guard(func() { p.cmp, p.rcmp = sign(compare.CompareToDouble(float64(fu), float64(fw))), sign(compare.CompareToDouble(float64(fw), float64(fu))) })
		ps = append(ps, p)

		mk := func() []byte {
			k := r.Intn(4)
			var out []byte
			for j := 0; j < k; j++ {
				out = append(out, []byte{0, 'a', 'b', 0xff}[r.Intn(4)])
			}
			return out
		}
		s1, s2 := mk(), mk()
		p = probe{name: "String", a: &vg.V{K: "at", Ss: [][]byte{s1}}, b: &vg.V{K: "at", Ss: [][]byte{s2}}}
		vh.Guard(func() { p.cmp, p.rcmp = sign(compare.CompareToString(string(s1), string(s2))), sign(compare.CompareToString(string(s2), string(s1))) })
		ps = append(ps, p)
	}
	var lines []string
	for _, p := range ps {
		lines = append(lines, "Q "+p.a.Line()+" "+p.b.Line())
	}
	outs, err := vh.RunDriver(env.Driver, lines)
	if err != nil {
		vh.Die("%v", err)
	}
	seen := map[string]int{}
	for i, p := range ps {
		rep.Case("compare."+p.name+" "+p.a.Line()+" "+p.b.Line(), true)
		rep.Count("util/compare:" + p.name)
		if p.nanSc {
			rep.Count("util/compare:scalar-NaN-not-compared")
			continue
		}
		var me, mc int
		fmt.Sscanf(outs[i], "%d %d", &me, &mc)
		// the laws of the property, directly on the helper
		same := p.a.Line() == p.b.Line()
		exactKind := p.a.K != "af" // floats: -0 = +0 and NaN elements make "same content" differ from "compares 0"
		law := ""
		switch {
		case p.cmp != -p.rcmp && !p.a.HasNaN() && !p.b.HasNaN():
			law = fmt.Sprintf("antisym: signs %d and %d do not reverse", p.cmp, p.rcmp)
		case same && !p.a.HasNaN() && p.cmp != 0:
			law = fmt.Sprintf("zero-iff-eq: identical operands compare as %d", p.cmp)
		case !same && exactKind && p.cmp == 0:
			law = "zero-iff-eq: different operands compare as 0"
		case p.hasEq && p.eq != (p.cmp == 0):
			law = fmt.Sprintf("zero-iff-eq: Equal%s is %v although CompareTo%s has sign %d", p.name, p.eq, p.name, p.cmp)
		}
		kind, key, bad := "", "", ""
		if law != "" {
			kind, key, bad = "property", "compare.CompareTo"+p.name+":"+law[:strings.Index(law, ":")], "compare.CompareTo"+p.name+" "+law
		} else if p.cmp != mc || (p.hasEq && p.eq != (me == 1)) {
			kind, key = "correspondence", "compare.CompareTo"+p.name+":differs-from-model"
			bad = fmt.Sprintf("compare.CompareTo%s sign %d / Equal %v, the model of the same comparison %d / %v; antisymmetry and zero-iff-equal hold on these operands", p.name, p.cmp, p.eq, mc, me == 1)
		}
		if bad != "" {
			seen[key]++
			var replay interface{}
			if seen[key] <= 3 {
				replay = map[string]interface{}{"helper": p.name, "values": []string{p.a.Line(), p.b.Line()}}
			}
			rep.Fail(kind, key, bad+" (operands written as the elements of "+vg.TypeName[p.a.K]+" values)", replay)
		}
	}
}
